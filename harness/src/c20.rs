//! C20 — failures are reported as errors, never as panics or hangs: the cross product of every public function
//! with every class of degenerate value, each call isolated.
use crate::gen::*;
use crate::real::parse_rose;
use crate::util::*;
use phylotree::distance::DistanceMatrix;
use phylotree::distr::Distr;
use phylotree::tree::{NewickFormat, Node, Tree};
use std::panic::AssertUnwindSafe;

pub struct Subject {
    pub name: String,
    pub build: String, // replayable description
    pub tree: Tree,
    pub forest: bool,
}

fn from_rose(s: &str) -> Tree {
    build_api(&parse_rose(s).unwrap())
}

pub fn subjects(rng: &mut Rng, extra_random: usize) -> Vec<Subject> {
    let mut v: Vec<Subject> = vec![];
    let mut add = |name: &str, build: &str, tree: Tree, forest: bool| v.push(Subject { name: name.into(), build: build.into(), tree, forest });
    add("empty", "Tree::new()", Tree::new(), false);
    add("single-unnamed-node", "-:-[-]", from_rose("-:-[-]"), false);
    add("single-named-node", "h41:-[-]", from_rose("h41:-[-]"), false);
    add("root-with-one-leaf", "(h41:3ff0000000000000[-])-:-[-]", from_rose("(h41:3ff0000000000000[-])-:-[-]"), false);
    add("unnamed-leaves", "((h41:-[-],-:-[-])-:-[-],h42:-[-])-:-[-]", from_rose("((h41:-[-],-:-[-])-:-[-],h42:-[-])-:-[-]"), false);
    add("all-leaves-unnamed", "((-:-[-],-:-[-])-:-[-],-:-[-])-:-[-]", from_rose("((-:-[-],-:-[-])-:-[-],-:-[-])-:-[-]"), false);
    add("duplicate-leaf-names", "((h41:3ff0000000000000[-],h41:3ff0000000000000[-])-:3ff0000000000000[-],h42:3ff0000000000000[-],h43:3ff0000000000000[-])-:-[-]",
        from_rose("((h41:3ff0000000000000[-],h41:3ff0000000000000[-])-:3ff0000000000000[-],h42:3ff0000000000000[-],h43:3ff0000000000000[-])-:-[-]"), false);
    add("missing-lengths", "((h41:3ff0000000000000[-],h42:-[-])-:-[-],(h43:4000000000000000[-],h44:-[-])-:3ff0000000000000[-])-:-[-]",
        from_rose("((h41:3ff0000000000000[-],h42:-[-])-:-[-],(h43:4000000000000000[-],h44:-[-])-:3ff0000000000000[-])-:-[-]"), false);
    add("non-binary-unrooted", "((h41:3ff0000000000000[-],h42:3ff0000000000000[-],h43:3ff0000000000000[-],h44:3ff0000000000000[-])-:3ff0000000000000[-],h45:3ff0000000000000[-],h46:3ff0000000000000[-],h47:3ff0000000000000[-])-:-[-]",
        from_rose("((h41:3ff0000000000000[-],h42:3ff0000000000000[-],h43:3ff0000000000000[-],h44:3ff0000000000000[-])-:3ff0000000000000[-],h45:3ff0000000000000[-],h46:3ff0000000000000[-],h47:3ff0000000000000[-])-:-[-]"), false);
    add("unary-chain", "(((h41:3ff0000000000000[-])-:3ff0000000000000[-])-:3ff0000000000000[-])-:-[-]", from_rose("(((h41:3ff0000000000000[-])-:3ff0000000000000[-])-:3ff0000000000000[-])-:-[-]"), false);
    add("rooted-binary-ok", "((h41:3ff0000000000000[-],h42:3ff0000000000000[-])-:3ff0000000000000[-],(h43:4000000000000000[-],h44:3ff0000000000000[-])-:3ff0000000000000[-])-:-[-]",
        from_rose("((h41:3ff0000000000000[-],h42:3ff0000000000000[-])-:3ff0000000000000[-],(h43:4000000000000000[-],h44:3ff0000000000000[-])-:3ff0000000000000[-])-:-[-]"), false);
    // numeric corners of the branch lengths: NaN, infinities, negative, zero, subnormal (all constructible by parsing)
    for (nm, bits) in [("nan-length", "7ff8000000000000"), ("inf-length", "7ff0000000000000"), ("neg-inf-length", "fff0000000000000"), ("negative-length", "bff0000000000000"),
                       ("zero-length", "0000000000000000"), ("subnormal-length", "0000000000000001"), ("huge-length", "7fefffffffffffff")] {
        let b = format!("((h41:{bits}[-],h42:3ff0000000000000[-])-:3ff0000000000000[-],(h43:4000000000000000[-],h44:3ff0000000000000[-])-:{bits}[-])-:-[-]");
        add(nm, &b, from_rose(&b), false);
    }
    {
        let b = "((h41:7ff8000000000000[-],h42:7ff8000000000000[-])-:7ff8000000000000[-],(h43:7ff8000000000000[-],h44:7ff8000000000000[-])-:7ff8000000000000[-])-:-[-]";
        add("all-nan-lengths", b, from_rose(b), false);
    }
    // long labels mixing 1-, 2-, 3- and 4-byte characters so that EVERY byte offset up to 64 falls inside a character in one of
    // them (anything that cuts a label at a byte position must cut it at a character boundary), comments likewise
    {
        let mut t = Tree::new();
        let r = t.add(Node::new_named("Île-de-France_isolat_n°_2021-0042"));
        for k in 0..8usize {
            let pad = "a".repeat(k);
            for (j, ch) in ["é", "名", "𝔸"].iter().enumerate() {
                let mut n = Node::new_named(&format!("{pad}{}", ch.repeat(40)));
                n.comment = Some(format!("{pad}{}", ch.repeat(30)));
                t.add_child(n, r, Some((k * 3 + j) as f64)).unwrap();
            }
        }
        add("long-labels-of-mixed-character-widths", "a root and 24 tips named 'a'*k + 40 x (é | 名 | 𝔸), k = 0..7, comments likewise", t, false);
    }
    // two roots (a forest): constructible with `add`
    {
        let mut t = from_rose("(h41:3ff0000000000000[-],h42:3ff0000000000000[-])-:-[-]");
        let r2 = t.add(Node::new_named("R2"));
        t.add_child(Node::new_named("X"), r2, Some(1.0)).unwrap();
        t.add_child(Node::new_named("Y"), r2, None).unwrap();
        add("two-roots", "cherry + add(R2) with children X, Y", t, true);
    }
    {
        let mut t = Tree::new();
        t.add(Node::new_named("A"));
        t.add(Node::new_named("B"));
        add("two-parentless-nodes", "add(A); add(B)", t, true);
    }
    // everything removed
    {
        let mut t = from_rose("(h41:3ff0000000000000[-],h42:3ff0000000000000[-])-:-[-]");
        t.prune(&0).unwrap();
        add("all-nodes-removed", "cherry; prune(root)", t, false);
    }
    // removed slots before the root
    {
        let mut t = Tree::new();
        let a = t.add(Node::new_named("A"));
        let b = t.add(Node::new_named("B"));
        let r = t.merge_children(&a, &b, Some(1.0), Some(1.0), None, None).unwrap();
        t.add_child(Node::new_named("C"), r, Some(1.0)).unwrap();
        t.prune(&a).unwrap();
        add("removed-slot-before-root", "add A,B; merge; add_child C; prune A", t, false);
    }
    // stale caches: bipartition queries, then an edit without the documented reset
    {
        let mut t = from_rose("((h41:3ff0000000000000[-],h42:3ff0000000000000[-])-:3ff0000000000000[-],(h43:4000000000000000[-],h44:3ff0000000000000[-])-:3ff0000000000000[-])-:-[-]");
        let _ = t.get_partitions();
        let _ = t.distance_matrix();
        t.add_child(Node::new_named("NEW"), 1, Some(1.0)).unwrap();
        add("stale-caches-after-add", "balanced 4 leaves; get_partitions; distance_matrix; add_child(NEW,1) without reset", t, false);
    }
    {
        let mut t = from_rose("((h41:3ff0000000000000[-],h42:3ff0000000000000[-])-:3ff0000000000000[-],(h43:4000000000000000[-],h44:3ff0000000000000[-])-:3ff0000000000000[-])-:-[-]");
        let _ = t.get_partitions();
        t.prune(&2).unwrap();
        add("stale-caches-after-prune", "balanced 4 leaves; get_partitions; prune(2) without reset", t, false);
    }
    // stale leaf index with the SAME number of leaves: an unnamed leaf is added below a tip (the tip becomes internal), or a leaf
    // loses its name in place, after the index was built and without the documented reset
    {
        let mut t = from_rose("((h41:3ff0000000000000[-],h42:3ff0000000000000[-])-:3ff0000000000000[-],(h43:4000000000000000[-],h44:3ff0000000000000[-])-:3ff0000000000000[-])-:-[-]");
        let _ = t.get_partitions();
        let _ = t.distance_matrix_recursive();
        t.add_child(Node::new(), 2, Some(1.0)).unwrap();
        add("stale-index-unnamed-leaf-below-a-tip", "balanced 4 leaves; get_partitions; distance_matrix_recursive; add_child(unnamed, tip 2) without reset", t, false);
    }
    {
        let mut t = from_rose("((h41:3ff0000000000000[-],h42:3ff0000000000000[-])-:3ff0000000000000[-],(h43:4000000000000000[-],h44:3ff0000000000000[-])-:3ff0000000000000[-])-:-[-]");
        let _ = t.get_partitions();
        t.get_mut(&2).unwrap().name = None;
        add("stale-index-leaf-lost-its-name", "balanced 4 leaves; get_partitions; get_mut(2).name = None without reset", t, false);
    }
    {
        let mut t = from_rose("((h41:3ff0000000000000[-],h42:3ff0000000000000[-])-:3ff0000000000000[-],(h43:4000000000000000[-],h44:3ff0000000000000[-])-:3ff0000000000000[-])-:-[-]");
        let _ = t.get_partitions();
        t.get_mut(&2).unwrap().set_name("h43".into());
        add("stale-index-leaf-renamed-to-a-duplicate", "balanced 4 leaves; get_partitions; get_mut(2).set_name(duplicate) without reset", t, false);
    }
    // trees degenerated by random edit histories
    for k in 0..extra_random {
        let mut shape = random_shape(rng, rng.clone().range(2, 12));
        label(rng, &mut shape, &LabelOpts { len_mode: LenMode::Mixed, ..Default::default() });
        let mut st = crate::real::RealState::new();
        let start = format!("real.build\tapi\t{}\t0", shape.canon());
        let _ = st.exec(&start);
        let mut script = start;
        for _ in 0..rng.range(1, 6) {
            let op = crate::c03::random_op(rng, &st);
            let (a, _) = st.exec(&op);
            script.push('\n');
            script.push_str(&op);
            if a == "panic" {
                break;
            }
        }
        if rng.chance(1, 2) {
            let _ = st.tree.get_partitions();
        }
        let slots = slots_of(&st.tree);
        let forest = live_roots(&slots).len() > 1;
        v.push(Subject { name: format!("edited-{k}"), build: script, tree: st.tree, forest });
    }
    v
}

/// after a call that may have modified the tree (whether it succeeded or returned an error), the object must still be usable:
/// every query and a few edits are issued on it, none may panic.  Returns the first one that does.
fn followup(c: &Tree) -> Option<&'static str> {
    macro_rules! f { ($name:expr, $e:expr) => {{ let mut d = c.clone(); if guarded(AssertUnwindSafe(|| { let _ = $e(&mut d); })).is_err() { return Some($name); } }}; }
    f!("size", |d: &mut Tree| d.size());
    f!("n_leaves", |d: &mut Tree| d.n_leaves());
    f!("get_leaves", |d: &mut Tree| d.get_leaves());
    f!("get_leaf_names", |d: &mut Tree| d.get_leaf_names());
    f!("get_root", |d: &mut Tree| d.get_root().map(|r| d.levelorder(&r).map(|v| v.len())));
    f!("is_binary", |d: &mut Tree| d.is_binary());
    f!("is_rooted", |d: &mut Tree| d.is_rooted());
    f!("height", |d: &mut Tree| d.height());
    f!("diameter", |d: &mut Tree| d.diameter());
    f!("length", |d: &mut Tree| d.length());
    f!("cherries", |d: &mut Tree| d.cherries());
    f!("colless", |d: &mut Tree| d.colless());
    f!("sackin", |d: &mut Tree| d.sackin());
    f!("to_newick", |d: &mut Tree| d.to_newick());
    f!("to_nexus", |d: &mut Tree| d.to_nexus());
    f!("get_partitions", |d: &mut Tree| { d.reset_bipartition_cache(); d.get_partitions().map(|p| p.len()) });
    f!("distance_matrix", |d: &mut Tree| d.distance_matrix().map(|m| m.size));
    f!("distance_matrix_recursive", |d: &mut Tree| { d.reset_bipartition_cache(); d.distance_matrix_recursive().map(|m| m.size) });
    f!("compress", |d: &mut Tree| d.compress());
    f!("ladderize", |d: &mut Tree| d.ladderize());
    f!("reset_depths", |d: &mut Tree| d.reset_depths());
    f!("radial_layout", |d: &mut Tree| phylotree::tree::draw::radial_layout(d).map(|_| ()));
    None
}

/// every public function of `Tree` on one subject; returns (function, argument text, outcome class)
pub fn tree_calls(s: &Subject, others: &[Subject]) -> Vec<(String, String, &'static str)> {
    let mut out: Vec<(String, String, &'static str)> = vec![];
    let t = &s.tree;
    let n = t.size();
    let ids: Vec<usize> = {
        let mut v: Vec<usize> = (0..n.min(6)).collect();
        v.push(n);
        v.push(n + 3);
        v
    };
    let mut push = |name: &str, arg: String, r: Result<&'static str, String>| out.push((name.to_string(), arg, match r { Ok(c) => c, Err(_) => "panic" }));
    macro_rules! r { ($name:expr, $arg:expr, $f:expr) => {{ let mut c = t.clone(); let rr = guarded(AssertUnwindSafe(|| match $f(&mut c) { Ok(_) => "ok", Err(_) => "err" })); push($name, $arg, rr); }}; }
    // a call that takes the tree mutably: outcome class as above, then the follow-up battery on the object it leaves behind
    macro_rules! rm { ($name:expr, $arg:expr, $f:expr) => {{ let mut c = t.clone(); let rr = guarded(AssertUnwindSafe(|| match $f(&mut c) { Ok(_) => "ok", Err(_) => "err" })); let fine = rr.is_ok(); push($name, $arg, rr);
        if fine { if let Some(f2) = followup(&c) { push(&format!("{}; then {}", $name, f2), $arg, Err(String::new())); } } }}; }
    macro_rules! i { ($name:expr, $arg:expr, $f:expr) => {{ let mut c = t.clone(); let rr = guarded(AssertUnwindSafe(|| { let _ = $f(&mut c); "ok" })); push($name, $arg, rr); }}; }
    // a read-only query asked TWICE of the same object (no reset in between) answers the same both times, whatever the object
    // is (float sums are compared to six digits: the summation order over a hash map may differ between two calls) — in particular a refusal stays a refusal (an index or a cache filled before its input was validated would turn the
    // second call into an answer)
    macro_rules! tw { ($name:expr, $arg:expr, $f:expr) => {{ let mut c = t.clone(); let rr = guarded(AssertUnwindSafe(|| { let a = format!("{:?}", $f(&mut c)); let b = format!("{:?}", $f(&mut c)); if a == b { "ok" } else { "unstable" } })); push(&format!("{} twice", $name), $arg, rr); }}; }
    tw!("get_partitions", String::new(), |c: &mut Tree| c.get_partitions().map(|p| p.len()).map_err(|_| ()));
    tw!("robinson_foulds(copy)", String::new(), |c: &mut Tree| { let o = t.clone(); c.robinson_foulds(&o).map_err(|_| ()) });
    tw!("weighted_robinson_foulds(copy)", String::new(), |c: &mut Tree| { let o = t.clone(); c.weighted_robinson_foulds(&o).map(|v| format!("{v:.6e}")).map_err(|_| ()) });
    tw!("compare_topologies(copy)", String::new(), |c: &mut Tree| { let o = t.clone(); c.compare_topologies(&o).map(|r| (r.rf.to_bits(), format!("{:.6e}", r.norm_rf), format!("{:.6e}", r.weighted_rf))).map_err(|_| ()) });
    tw!("compare_branch_lengths(copy)", String::new(), |c: &mut Tree| { let o = t.clone(); c.compare_branch_lengths(&o, true).map(|_| ()).map_err(|_| ()) });
    tw!("distance_matrix_recursive", String::new(), |c: &mut Tree| c.distance_matrix_recursive().map(|m| m.size).map_err(|_| ()));
    tw!("distance_matrix", String::new(), |c: &mut Tree| c.distance_matrix().map(|m| m.size).map_err(|_| ()));
    tw!("has_unique_tip_names", String::new(), |c: &mut Tree| c.has_unique_tip_names().map_err(|_| ()));
    if let Some(o) = others.first() {
        let ot = &o.tree;
        tw!("robinson_foulds", o.name.clone(), |c: &mut Tree| c.robinson_foulds(&ot.clone()).map_err(|_| ()));
        tw!("compare_topologies", o.name.clone(), |c: &mut Tree| c.compare_topologies(&ot.clone()).map(|r| r.rf.to_bits()).map_err(|_| ()));
    }
    i!("size", String::new(), |c: &mut Tree| c.size());
    i!("n_leaves", String::new(), |c: &mut Tree| c.n_leaves());
    i!("get_leaves", String::new(), |c: &mut Tree| c.get_leaves());
    i!("get_leaf_names", String::new(), |c: &mut Tree| c.get_leaf_names());
    i!("search_nodes", String::new(), |c: &mut Tree| c.search_nodes(|x| x.name.is_none()));
    i!("get_by_name", "A".to_string(), |c: &mut Tree| c.get_by_name("A").map(|x| x.id));
    i!("clone", String::new(), |c: &mut Tree| c.clone());
    i!("reset_bipartition_cache", String::new(), |c: &mut Tree| c.reset_bipartition_cache());
    i!("rescale", "2".to_string(), |c: &mut Tree| c.rescale(2.0));
    for (fa, fv) in [("NaN", f64::NAN), ("inf", f64::INFINITY), ("0", 0.0), ("-1", -1.0)] {
        rm!("rescale", fa.to_string(), |c: &mut Tree| -> Result<(), ()> { c.rescale(fv); Ok(()) });
    }
    r!("get_root", String::new(), |c: &mut Tree| c.get_root());
    r!("is_binary", String::new(), |c: &mut Tree| c.is_binary());
    r!("is_rooted", String::new(), |c: &mut Tree| c.is_rooted());
    r!("has_unique_tip_names", String::new(), |c: &mut Tree| c.has_unique_tip_names());
    r!("height", String::new(), |c: &mut Tree| c.height());
    r!("diameter", String::new(), |c: &mut Tree| c.diameter());
    r!("length", String::new(), |c: &mut Tree| c.length());
    r!("cherries", String::new(), |c: &mut Tree| c.cherries());
    r!("colless", String::new(), |c: &mut Tree| c.colless());
    r!("colless_yule", String::new(), |c: &mut Tree| c.colless_yule());
    r!("colless_pda", String::new(), |c: &mut Tree| c.colless_pda());
    r!("sackin", String::new(), |c: &mut Tree| c.sackin());
    r!("sackin_yule", String::new(), |c: &mut Tree| c.sackin_yule());
    r!("sackin_pda", String::new(), |c: &mut Tree| c.sackin_pda());
    r!("get_partitions", String::new(), |c: &mut Tree| c.get_partitions());
    r!("distance_matrix", String::new(), |c: &mut Tree| c.distance_matrix());
    r!("distance_matrix_recursive", String::new(), |c: &mut Tree| c.distance_matrix_recursive());
    rm!("compress", String::new(), |c: &mut Tree| c.compress());
    rm!("resolve", String::new(), |c: &mut Tree| c.resolve());
    rm!("ladderize", String::new(), |c: &mut Tree| c.ladderize());
    rm!("reset_depths", String::new(), |c: &mut Tree| c.reset_depths());
    r!("to_newick", String::new(), |c: &mut Tree| c.to_newick());
    r!("to_formatted_newick", "OnlyNames".to_string(), |c: &mut Tree| c.to_formatted_newick(NewickFormat::OnlyNames));
    r!("to_nexus", String::new(), |c: &mut Tree| c.to_nexus());
    r!("radial_layout", String::new(), |c: &mut Tree| phylotree::tree::draw::radial_layout(c));
    // infallible converters: Display / Debug of every node and of the tree
    i!("node.to_string", "every live node".to_string(), |c: &mut Tree| { let mut k = 0; for x in 0..c.size() { if let Ok(nd) = c.get(&x) { k += nd.to_string().len() + format!("{nd:?}").len(); } } k });
    i!("tree.debug", String::new(), |c: &mut Tree| format!("{c:?}").len());
    // ... and the equality the crate defines on nodes, over every pair of live nodes (never a panic; no property says what it must answer)
    i!("node.eq", "every pair of live nodes".to_string(), |c: &mut Tree| { let mut k = 0; for x in 0..c.size() { for y in 0..c.size() { if let (Ok(a), Ok(b)) = (c.get(&x), c.get(&y)) { if a == b { k += 1; } } } } k });
    // the remaining public setters of Node, on COPIES of the nodes (applied inside a tree they would break the arena's consistency,
    // which is C03's business): never a panic, and the getters read back what was set
    i!("node.set_id;set_depth", "a copy of every live node".to_string(), |c: &mut Tree| { let mut k = 0; for x in 0..c.size() { if let Ok(nd) = c.get(&x) { let mut n = nd.clone(); n.set_id(x + 7); n.set_depth(x + 3); if n.id != x + 7 || n.get_depth() != x + 3 { panic!("setter not read back") } k += 1; } } k });
    r!("print", String::new(), |c: &mut Tree| c.print());
    r!("print_debug", String::new(), |c: &mut Tree| c.print_debug());
    r!("to_file-unwritable", String::new(), |c: &mut Tree| c.to_file(std::path::Path::new("/nonexistent-dir/x.nwk")));
    // a device that opens but refuses data (a full disk): the failure must come back as an error value, never as Ok
    if std::path::Path::new("/dev/full").exists() && t.to_newick().map_or(false, |s| !s.is_empty()) {
        let mut c = t.clone();
        let rr = guarded(AssertUnwindSafe(|| match c.to_file(std::path::Path::new("/dev/full")) { Ok(_) => "unstable", Err(_) => "err" }));
        let _ = &mut c;
        push("to_file-on-a-full-device reported success", String::new(), rr);
    }
    r!("from_file-missing", String::new(), |_c: &mut Tree| Tree::from_file(std::path::Path::new("/nonexistent-dir/x.nwk")));
    r!("to_file;from_file", String::new(), |c: &mut Tree| {
        let path = std::env::temp_dir().join(format!("pvh-c20-{}-{:p}.nwk", std::process::id(), c as *const Tree));
        let r = c.to_file(&path).map_err(|_| ()).and_then(|_| Tree::from_file(&path).map(|_| ()).map_err(|_| ()));
        let _ = std::fs::remove_file(&path);
        r
    });
    r!("compress;get_partitions", String::new(), |c: &mut Tree| { let _ = c.compress(); c.get_partitions() });
    for &x in ids.iter() {
        let a = x.to_string();
        r!("get", a.clone(), |c: &mut Tree| c.get(&x).map(|n| n.id));
        rm!("get_mut", a.clone(), |c: &mut Tree| c.get_mut(&x).map(|n| n.id));
        r!("get_subtree", a.clone(), |c: &mut Tree| c.get_subtree(&x));
        r!("get_descendants", a.clone(), |c: &mut Tree| c.get_descendants(&x));
        r!("get_subtree_leaves", a.clone(), |c: &mut Tree| c.get_subtree_leaves(&x));
        r!("preorder", a.clone(), |c: &mut Tree| c.preorder(&x));
        r!("postorder", a.clone(), |c: &mut Tree| c.postorder(&x));
        r!("inorder", a.clone(), |c: &mut Tree| c.inorder(&x));
        r!("levelorder", a.clone(), |c: &mut Tree| c.levelorder(&x));
        r!("get_path_from_root", a.clone(), |c: &mut Tree| c.get_path_from_root(&x));
        rm!("prune", a.clone(), |c: &mut Tree| c.prune(&x));
        // Node-level fallible operation: removing a child the node does not have is an error value
        for &y in ids.iter().take(4) {
            rm!("node.remove_child", format!("{x},{y}"), |c: &mut Tree| -> Result<(), ()> { match c.get_mut(&x) { Ok(n) => { let listed = n.children.contains(&y); let r = n.remove_child(&y); if r.is_ok() != listed { panic!("remove_child: Ok/Err does not follow the child list") } r.map_err(|_| ()) } Err(_) => Err(()) } });
        }
        rm!("add_child", a.clone(), |c: &mut Tree| c.add_child(Node::new_named("Z"), x, Some(1.0)));
        // the node argument is a copy of a node of the tree itself (it arrives with that node's links)
        for &y in ids.iter().take(3) {
            rm!("add_child(copy)", format!("{y},{x}"), |c: &mut Tree| { let n = c.get(&y).map(|n| n.clone()).unwrap_or_else(|_| Node::new()); c.add_child(n, x, None) });
        }
        rm!("add(copy)", a.clone(), |c: &mut Tree| -> Result<usize, ()> { let n = c.get(&x).map(|n| n.clone()).unwrap_or_else(|_| Node::new()); Ok(c.add(n)) });
        r!("prune;to_newick", a.clone(), |c: &mut Tree| { let _ = c.prune(&x); c.to_newick() });
        r!("prune;distance_matrix", a.clone(), |c: &mut Tree| { let _ = c.prune(&x); c.distance_matrix() });
        for &y in ids.iter() {
            let b = format!("{x},{y}");
            r!("get_common_ancestor", b.clone(), |c: &mut Tree| c.get_common_ancestor(&x, &y));
            r!("get_distance", b.clone(), |c: &mut Tree| c.get_distance(&x, &y));
            rm!("merge_children", b.clone(), |c: &mut Tree| c.merge_children(&x, &y, Some(1.0), None, Some(1.0), None));
        }
    }
    for o in others.iter() {
        let ot = &o.tree;
        let a = o.name.clone();
        r!("robinson_foulds", a.clone(), |c: &mut Tree| c.robinson_foulds(&ot.clone()));
        r!("robinson_foulds_norm", a.clone(), |c: &mut Tree| c.robinson_foulds_norm(&ot.clone()));
        r!("weighted_robinson_foulds", a.clone(), |c: &mut Tree| c.weighted_robinson_foulds(&ot.clone()));
        r!("khuner_felsenstein", a.clone(), |c: &mut Tree| c.khuner_felsenstein(&ot.clone()));
        r!("compare_topologies", a.clone(), |c: &mut Tree| c.compare_topologies(&ot.clone()));
        r!("compare_branch_lengths", format!("{a},tips"), |c: &mut Tree| c.compare_branch_lengths(&ot.clone(), true));
        r!("compare_branch_lengths", format!("{a},notips"), |c: &mut Tree| c.compare_branch_lengths(&ot.clone(), false));
        // a partition of another tree handed to this one
        if let Ok(parts) = ot.clone().get_partitions() {
            if let Some(p) = parts.iter().next() {
                let p = p.clone();
                r!("partition_to_leaves", a.clone(), |c: &mut Tree| c.partition_to_leaves(&p));
            }
        }
    }
    out
}

fn matrix_calls() -> Vec<(String, String, &'static str)> {
    let mut out = vec![];
    let mut push = |name: &str, arg: String, r: Result<&'static str, String>| out.push((name.to_string(), arg, match r { Ok(c) => c, Err(_) => "panic" }));
    for n in 0..=3usize {
        let taxa: Vec<String> = (0..n).map(|i| format!("t{i}")).collect();
        let cells = vec![1.0f64; n * n.saturating_sub(1) / 2];
        let a = format!("size{n}");
        push("new_with_size", a.clone(), guarded(move || { let _ = DistanceMatrix::<f64>::new_with_size(n); "ok" }));
        let (t2, c2) = (taxa.clone(), cells.clone());
        push("new", a.clone(), guarded(move || { let _ = DistanceMatrix::new(t2, &c2); "ok" }));
        let m = DistanceMatrix::new(taxa.clone(), &cells);
        macro_rules! mi { ($name:expr, $f:expr) => {{ let mm = m.clone(); push($name, a.clone(), guarded(AssertUnwindSafe(|| { let _ = $f(mm); "ok" }))); }}; }
        macro_rules! mr { ($name:expr, $f:expr) => {{ let mm = m.clone(); push($name, a.clone(), guarded(AssertUnwindSafe(|| match $f(mm) { Ok(_) => "ok", Err(_) => "err" }))); }}; }
        mi!("to_map", |mm: DistanceMatrix<f64>| mm.to_map());
        mi!("min", |mm: DistanceMatrix<f64>| mm.min());
        mi!("max", |mm: DistanceMatrix<f64>| mm.max());
        mi!("iter", |mm: DistanceMatrix<f64>| mm.iter().count());
        mi!("indexed_iter", |mm: DistanceMatrix<f64>| mm.indexed_iter().count());
        mi!("into_iter", |mm: DistanceMatrix<f64>| mm.into_iter().count());
        mr!("to_phylip-square", |mm: DistanceMatrix<f64>| mm.to_phylip(true));
        mr!("to_phylip-tril", |mm: DistanceMatrix<f64>| mm.to_phylip(false));
        mr!("get-unknown", |mm: DistanceMatrix<f64>| mm.get("zz", "t0").map(|v| *v));
        mr!("get-identical", |mm: DistanceMatrix<f64>| mm.get("t0", "t0").map(|v| *v));
        mr!("set-unknown", |mut mm: DistanceMatrix<f64>| mm.set("zz", "t0", 1.0));
        mr!("set-identical-nonzero", |mut mm: DistanceMatrix<f64>| mm.set("t0", "t0", 1.0));
        mr!("set_taxa-wrong-length", |mut mm: DistanceMatrix<f64>| mm.set_taxa(vec!["x".to_string(); n + 1]));
        // a call that takes the matrix mutably, whether it succeeds or is REFUSED, must leave a matrix every other function can
        // still be called on: the follow-up battery runs on the object it leaves behind
        macro_rules! mm_then { ($name:expr, $f:expr) => {{ let mut mm = m.clone(); let fine = guarded(AssertUnwindSafe(|| { let _ = $f(&mut mm); })).is_ok();
            if fine { if let Some(f2) = matrix_followup(&mm) { push(&format!("{}; then {}", $name, f2), a.clone(), Err(String::new())); } else { push(&format!("{}; then everything", $name), a.clone(), Ok("ok")); } } }}; }
        mm_then!("set_taxa-too-many", |mm: &mut DistanceMatrix<f64>| mm.set_taxa(vec!["x".to_string(); n + 2]));
        mm_then!("set_taxa-too-few", |mm: &mut DistanceMatrix<f64>| mm.set_taxa(vec!["x".to_string(); n.saturating_sub(1)]));
        mm_then!("set_taxa-empty", |mm: &mut DistanceMatrix<f64>| mm.set_taxa(vec![]));
        mm_then!("set_taxa-right-length", |mm: &mut DistanceMatrix<f64>| mm.set_taxa((0..n).map(|i| format!("u{i}")).collect()));
        mm_then!("set_taxa-repeated-labels", |mm: &mut DistanceMatrix<f64>| mm.set_taxa(vec!["same".to_string(); n]));
        mm_then!("set-unknown", |mm: &mut DistanceMatrix<f64>| mm.set("zz", "t0", 1.0));
        mm_then!("set-identical-nonzero", |mm: &mut DistanceMatrix<f64>| mm.set("t0", "t0", 1.0));
        mm_then!("set-nan", |mm: &mut DistanceMatrix<f64>| mm.set("t0", "t1", f64::NAN));
        mr!("get_taxa_index-unknown", |mm: DistanceMatrix<f64>| mm.get_taxa_index("zz"));
        mr!("upgma", |mm: DistanceMatrix<f64>| mm.upgma());
        mr!("neighbor_joining", |mm: DistanceMatrix<f64>| mm.neighbor_joining());
        // files: a path that cannot be read / written is an error value
        mr!("to_file-unwritable", |mm: DistanceMatrix<f64>| mm.to_file(std::path::Path::new("/nonexistent-dir/x.phy"), true));
        push("from_file-missing", a.clone(), guarded(|| match DistanceMatrix::<f64>::from_file(std::path::Path::new("/nonexistent-dir/x.phy"), true) { Ok(_) => "ok", Err(_) => "err" }));
        {
            let path = std::env::temp_dir().join(format!("pvh-c20-{}-{n}.phy", std::process::id()));
            let mm = m.clone();
            let p2 = path.clone();
            push("to_file;from_file", a.clone(), guarded(AssertUnwindSafe(|| match mm.to_file(&p2, false) { Ok(()) => match DistanceMatrix::<f64>::from_file(&p2, false) { Ok(_) => "ok", Err(_) => "err" }, Err(_) => "err" })));
            let _ = std::fs::remove_file(&path);
        }
    }
    // a matrix that was allocated for n taxa but never labelled (`new_with_size` without `set_taxa`), and one labelled twice
    for n in 0..=4usize {
        let a = format!("unlabelled-size{n}");
        let m: DistanceMatrix<f64> = DistanceMatrix::new_with_size(n);
        macro_rules! ui { ($name:expr, $f:expr) => {{ let mm = m.clone(); push($name, a.clone(), guarded(AssertUnwindSafe(|| { let _ = $f(mm); "ok" }))); }}; }
        macro_rules! ur { ($name:expr, $f:expr) => {{ let mm = m.clone(); push($name, a.clone(), guarded(AssertUnwindSafe(|| match $f(mm) { Ok(_) => "ok", Err(_) => "err" }))); }}; }
        ui!("to_map", |mm: DistanceMatrix<f64>| mm.to_map());
        ui!("min", |mm: DistanceMatrix<f64>| mm.min());
        ui!("max", |mm: DistanceMatrix<f64>| mm.max());
        ui!("indexed_iter", |mm: DistanceMatrix<f64>| mm.indexed_iter().count());
        ur!("to_phylip-square", |mm: DistanceMatrix<f64>| mm.to_phylip(true));
        ur!("to_phylip-tril", |mm: DistanceMatrix<f64>| mm.to_phylip(false));
        ur!("get-unknown", |mm: DistanceMatrix<f64>| mm.get("zz", "t0").map(|v| *v));
        ur!("set-unknown", |mut mm: DistanceMatrix<f64>| mm.set("zz", "t0", 1.0));
        ur!("upgma", |mm: DistanceMatrix<f64>| mm.upgma());
        ur!("set_taxa;upgma", |mut mm: DistanceMatrix<f64>| { let _ = mm.set_taxa((0..n).map(|i| format!("t{i}")).collect()); mm.upgma() });
    }
    // non-finite matrices with at least four taxa
    for (label, v) in [("all-inf", f64::INFINITY), ("all-nan", f64::NAN), ("all-neg", -1.0), ("all-zero", 0.0)] {
        for n in [4usize, 5, 6] {
            let taxa: Vec<String> = (0..n).map(|i| format!("t{i}")).collect();
            let m = DistanceMatrix::new(taxa, &vec![v; n * (n - 1) / 2]);
            push("upgma", format!("{label}-size{n}"), guarded(AssertUnwindSafe(|| match m.upgma() { Ok(_) => "ok", Err(_) => "err" })));
        }
    }
    // one NaN / one inf among finite values
    for (label, v) in [("one-inf", f64::INFINITY), ("one-nan", f64::NAN)] {
        let n = 5usize;
        let taxa: Vec<String> = (0..n).map(|i| format!("t{i}")).collect();
        for pos in 0..n * (n - 1) / 2 {
            let mut cells: Vec<f64> = (0..n * (n - 1) / 2).map(|k| (k % 4 + 1) as f64).collect();
            cells[pos] = v;
            let m = DistanceMatrix::new(taxa.clone(), &cells);
            push("upgma", format!("{label}@{pos}-size{n}"), guarded(AssertUnwindSafe(|| match m.upgma() { Ok(_) => "ok", Err(_) => "err" })));
        }
    }
    out
}

/// every read-only function and writer of a matrix; returns the first one that panics
fn matrix_followup(m: &DistanceMatrix<f64>) -> Option<&'static str> {
    macro_rules! f { ($name:expr, $e:expr) => {{ let mut d = m.clone(); if guarded(AssertUnwindSafe(|| { let _ = $e(&mut d); })).is_err() { return Some($name); } }}; }
    f!("to_map", |d: &mut DistanceMatrix<f64>| d.to_map().len());
    f!("min", |d: &mut DistanceMatrix<f64>| d.min());
    f!("max", |d: &mut DistanceMatrix<f64>| d.max());
    f!("iter", |d: &mut DistanceMatrix<f64>| d.iter().count());
    f!("indexed_iter", |d: &mut DistanceMatrix<f64>| d.indexed_iter().count());
    f!("to_phylip-square", |d: &mut DistanceMatrix<f64>| d.to_phylip(true).map(|s| s.len()));
    f!("to_phylip-tril", |d: &mut DistanceMatrix<f64>| d.to_phylip(false).map(|s| s.len()));
    f!("get", |d: &mut DistanceMatrix<f64>| d.get("t0", "t1").map(|v| *v));
    f!("get-by-every-label", |d: &mut DistanceMatrix<f64>| { let t = d.taxa.clone(); for a in t.iter() { for b in t.iter() { let _ = d.get(a, b); } } });
    f!("set", |d: &mut DistanceMatrix<f64>| d.set("t0", "t1", 2.0));
    f!("get_taxa_index", |d: &mut DistanceMatrix<f64>| d.get_taxa_index("t0"));
    f!("upgma", |d: &mut DistanceMatrix<f64>| d.upgma().map(|t| t.size()));
    f!("to_file", |d: &mut DistanceMatrix<f64>| {
        let path = std::env::temp_dir().join(format!("pvh-c20-f-{}-{:p}.phy", std::process::id(), d as *const DistanceMatrix<f64>));
        let r = d.to_file(&path, true).is_ok();
        let _ = std::fs::remove_file(&path);
        r
    });
    None
}

/// generator calls run in a child process: a hang is observed (timeout) rather than suffered
fn generator_calls(self_exe: &str) -> Vec<(String, String, &'static str)> {
    let mut out = vec![];
    for shape in ["ete3", "yule", "cat"] {
        for n in [0usize, 1, 2, 3] {
            for brlens in [0, 1] {
                let mut child = match std::process::Command::new(self_exe).args(["probe-gen", shape, &n.to_string(), &brlens.to_string()]).stdout(std::process::Stdio::piped()).stderr(std::process::Stdio::null()).spawn() {
                    Ok(c) => c,
                    Err(_) => continue,
                };
                let t0 = std::time::Instant::now();
                let outcome = loop {
                    match child.try_wait() {
                        Ok(Some(st)) => break if st.code() == Some(0) { "ok" } else if st.code() == Some(3) { "err" } else { "panic" },
                        Ok(None) => {
                            if t0.elapsed().as_secs_f64() > 5.0 {
                                let _ = child.kill();
                                let _ = child.wait();
                                break "hang";
                            }
                            std::thread::sleep(std::time::Duration::from_millis(10));
                        }
                        Err(_) => break "panic",
                    }
                };
                out.push((format!("generate_{shape}"), format!("n={n},brlens={brlens}"), outcome));
            }
        }
    }
    out
}

/// child-process entry point: exit 0 = Ok, 3 = Err, anything else = panic
pub fn probe_gen(shape: &str, n: usize, brlens: bool) -> i32 {
    // limit memory so that a runaway loop is killed rather than exhausting the machine
    let r = match shape {
        "ete3" => phylotree::generate_tree(n, brlens, Distr::Uniform),
        "yule" => phylotree::generate_yule(n, brlens, Distr::Uniform),
        _ => phylotree::generate_caterpillar(n, brlens, Distr::Uniform),
    };
    match r {
        Ok(_) => 0,
        Err(_) => 3,
    }
}

pub fn run(thorough: bool, seed: u64, driver: &str, rep: &mut Report) {
    let mut rng = Rng::new(seed);
    let subs = subjects(&mut rng, if thorough { 200 } else { 25 });
    // a few comparison partners for the two-tree functions
    let partners: Vec<Subject> = subjects(&mut Rng::new(seed ^ 99), 0).into_iter().filter(|s| ["empty", "single-named-node", "unnamed-leaves", "duplicate-leaf-names", "missing-lengths", "rooted-binary-ok", "two-roots", "all-nodes-removed", "stale-caches-after-add"].contains(&s.name.as_str())).collect();
    let mut reqs: Vec<String> = vec![];
    let mut expect: Vec<(String, &'static str, bool)> = vec![];
    for s in subs.iter() {
        let calls = tree_calls(s, &partners);
        let sig_subject = if s.name.starts_with("edited-") { "edited".to_string() } else { s.name.clone() };
        rep.count_n("tree_calls", calls.len() as u64);
        for (f, arg, c) in calls.iter() {
            rep.case(&format!("{} :: {f}({arg})", s.name), *c != "ok");
            rep.count(&format!("outcome:{c}"));
            if *c == "panic" {
                rep.oracle("no-panic", &format!("{f}@{sig_subject}"), &format!("subject: {}\nbuilt by: {}\ncall: {f}({arg})", s.name, s.build), "panic");
            }
            if *c == "unstable" {
                rep.oracle(if f.contains("full-device") { "io-error" } else { "repeatable" }, &format!("{f}@{sig_subject}"), &format!("subject: {}\nbuilt by: {}\ncall: {f}({arg})", s.name, s.build), "the second call on the same object answered differently from the first");
            }
        }
        // model tie on outcome classes, for subjects the arena model can load
        if let Ok(arena) = enc_arena_scaled(&slots_of(&s.tree)) {
            let ctx = format!("subject: {}\nbuilt by: {}", s.name, s.build);
            reqs.push(format!("ar.load\t{arena}"));
            expect.push((ctx.clone(), "ok", true));
            let find = |f: &str, arg: &str| calls.iter().find(|(ff, aa, _)| ff == f && aa == arg).map(|x| x.2);
            // the two-tree comparisons: "an error value or a VALID answer" — whether a pair is comparable at all (common
            // leaf set, unique names, lengths present where the measure needs them) is decided by the split model
            // (the split model speaks about trees: an arena without a live root — `Tree::new()`, everything pruned — has no
            // abstraction, so for those only the no-panic clause above is checked)
            let one_root = |t: &Tree| live_roots(&slots_of(t)).len() == 1;
            if !s.forest && !s.name.starts_with("stale-") && one_root(&s.tree) {
                for o in partners.iter().filter(|o| !o.forest && !o.name.starts_with("stale-") && one_root(&o.tree)) {
                    if let Ok(arena2) = enc_arena_scaled(&slots_of(&o.tree)) {
                        reqs.push(format!("ar.load2\t{arena2}"));
                        expect.push((format!("{ctx}\npartner: {}\nbuilt by: {}", o.name, o.build), "ok", true));
                        for (q, f) in [("sp\trf", "robinson_foulds"), ("sp\trfn", "robinson_foulds_norm"), ("sp\twrf", "weighted_robinson_foulds"), ("sp\tkf2", "khuner_felsenstein"), ("sp\tcmp", "compare_topologies")] {
                            if let Some(c) = find(f, &o.name) {
                                reqs.push(q.to_string());
                                expect.push((format!("{ctx}\npartner: {}\nbuilt by: {}\ncall: {f}({})", o.name, o.build, o.name), c, true));
                            }
                        }
                    }
                }
            }
            let mut tie = |req: String, f: &str, arg: &str| {
                if let Some(c) = find(f, arg) {
                    reqs.push(req);
                    expect.push((format!("{ctx}\ncall: {f}({arg})"), c, !s.forest));
                }
            };
            for (q, f) in [("ar.q\troot", "get_root"), ("ar.q\tis_binary", "is_binary"), ("ar.q\tis_rooted", "is_rooted"), ("ar.q\tcherries", "cherries"), ("ar.q\tcolless", "colless"), ("ar.q\tsackin", "sackin"),
                           ("ar.q\tlength", "length"), ("ar.q\theight\t1024", "height"), ("ar.q\tdiameter\t1024", "diameter"), ("sp\tparts", "get_partitions"), ("dm\tfast\t1024", "distance_matrix"), ("dm\trec", "distance_matrix_recursive"), ("lay", "radial_layout")] {
                // stale caches are a property of the real object only: the model has none
                if s.name.starts_with("stale-") && (f == "get_partitions" || f == "distance_matrix_recursive") {
                    continue;
                }
                tie(q.to_string(), f, "");
            }
            let n = s.tree.size();
            for x in [0usize, n, n + 3] {
                for (q, f) in [("preorder", "preorder"), ("postorder", "postorder"), ("levelorder", "levelorder"), ("inorder", "inorder"), ("path", "get_path_from_root"), ("subtree_leaves", "get_subtree_leaves"), ("descendants", "get_descendants")] {
                    tie(format!("ar.q\t{q}\t{x}"), f, &x.to_string());
                }
                for y in [0usize, 1, n] {
                    tie(format!("ar.q\tlca\t{x}\t{y}"), "get_common_ancestor", &format!("{x},{y}"));
                    tie(format!("ar.q\tdist\t{x}\t{y}"), "get_distance", &format!("{x},{y}"));
                }
            }
        }
    }
    // a fallible writer on a device that opens but refuses data: an error value, never Ok
    if std::path::Path::new("/dev/full").exists() {
        for n in [2usize, 6, 30] {
            let taxa: Vec<String> = (0..n).map(|i| format!("s{i}")).collect();
            let m = phylotree::distance::DistanceMatrix::new(taxa, &vec![1.5f64; n * (n - 1) / 2]);
            for square in [true, false] {
                rep.case(&format!("matrix :: to_file(/dev/full, square={square}) size {n}"), true);
                match guarded(AssertUnwindSafe(|| m.to_file(std::path::Path::new("/dev/full"), square).is_ok())) {
                    Err(_) => rep.oracle("no-panic", "matrix.to_file@full-device", &format!("call: DistanceMatrix::to_file(/dev/full) size {n} square={square}"), "panic"),
                    Ok(true) => rep.oracle("io-error", "matrix.to_file-on-a-full-device-reported-success", &format!("call: DistanceMatrix::to_file(/dev/full) size {n} square={square}"), "Ok(())"),
                    Ok(false) => {}
                }
            }
        }
    }
    let mc = matrix_calls();
    rep.count_n("matrix_calls", mc.len() as u64);
    for (f, arg, c) in mc.iter() {
        rep.case(&format!("matrix :: {f}({arg})"), *c != "ok");
        rep.count(&format!("outcome:{c}"));
        if *c == "panic" {
            let sig_arg = if f == "neighbor_joining" { "every-matrix".to_string() } else if arg.starts_with("unlabelled-") { "unlabelled".to_string() } else { arg.split('@').next().unwrap_or(arg).split("-size").next().unwrap_or(arg).to_string() };
            rep.oracle("no-panic", &format!("matrix.{f}@{sig_arg}"), &format!("call: DistanceMatrix::{f}({arg})"), "panic");
        }
    }
    let exe = std::env::current_exe().map(|p| p.to_string_lossy().to_string()).unwrap_or_default();
    let gc = generator_calls(&exe);
    rep.count_n("generator_calls", gc.len() as u64);
    for (f, arg, c) in gc.iter() {
        rep.case(&format!("generator :: {f}({arg})"), *c != "ok");
        rep.count(&format!("outcome:{c}"));
        if *c == "panic" || *c == "hang" {
            rep.oracle(if *c == "hang" { "no-hang" } else { "no-panic" }, &format!("{f}@{}", arg.split(',').next().unwrap_or("")), &format!("call: {f}({arg})"), c);
        }
    }
    match run_driver(driver, &reqs) {
        Err(e) => rep.mismatch("c20.classes", "driver-failed", "", "", &e),
        Ok(ans) => {
            rep.count_n("model_requests", ans.len() as u64);
            for i in 0..ans.len() {
                let (ctx, c, strict) = &expect[i];
                let m = ans[i].split(' ').next().unwrap_or("");
                let agree = if *strict { m == *c } else { (m == "panic") == (*c == "panic") };
                if !agree {
                    let op = reqs[i].split('\t').take(2).collect::<Vec<_>>().join(".");
                    rep.mismatch("c20.classes", &format!("{op}:{c}!={m}"), &format!("{ctx}\n{}", reqs[i]), c, &ans[i]);
                }
            }
        }
    }
}
