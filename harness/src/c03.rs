//! C03 — arena stays one consistent rooted tree under every edit history (also drives C11's state stream).
use crate::case::*;
use crate::gen::*;
use crate::real::*;
use crate::util::*;

pub struct Cfg {
    pub tier_thorough: bool,
    pub seed: u64,
    pub driver: String,
}

fn len_tok(rng: &mut Rng) -> String {
    if rng.chance(1, 4) {
        "-".into()
    } else {
        scaled(gen_len(rng, LenKind::Dyadic)).unwrap().to_string()
    }
}

/// a node argument: mostly live ids, sometimes removed or out-of-range ones
fn pick_id(rng: &mut Rng, st: &RealState) -> usize {
    let n = st.tree.size();
    let r = rng.below(20);
    if r == 0 {
        n + rng.below(3)
    } else {
        rng.below(n.max(1))
    }
}

pub fn random_op(rng: &mut Rng, st: &RealState) -> String {
    let slots = slots_of(&st.tree);
    match rng.below(19) {
        18 => format!("ar.setlen\t{}\t{}", pick_id(rng, st), scaled(gen_len(rng, LenKind::Dyadic)).unwrap()),
        17 => format!("ar.add_copy\t{}\t{}\t{}", pick_id(rng, st), pick_id(rng, st), len_tok(rng)),
        16 => format!("ar.setname\t{}\t{}", pick_id(rng, st), if rng.chance(1, 8) { "-".to_string() } else { format!("h{}", hex(&format!("R{}", rng.below(100000)))) }),
        0 | 1 => format!("ar.add_child\t{}\t{}\t{}", pick_id(rng, st), len_tok(rng), if rng.chance(1, 2) { format!("h{}", hex(&format!("N{}", rng.below(1000)))) } else { "-".into() }),
        2 | 3 | 4 => format!("ar.prune\t{}", pick_id(rng, st)),
        5 | 6 => "ar.compress".into(),
        7 => format!("real.resolve\t{}", rng.next() % 1_000_000),
        8 => "ar.ladderize".into(),
        9 => format!("ar.rescale\t{}", *rng.pick(&[0i64, 1, 2, 3, -1])),
        10 => "ar.reset_depths".into(),
        _ => {
            // merge_children: mostly true sibling pairs
            let parents: Vec<usize> = (0..slots.len()).filter(|&i| !slots[i].deleted && slots[i].children.len() >= 2).collect();
            let (c1, c2) = if !parents.is_empty() && rng.chance(3, 4) {
                let p = *rng.pick(&parents);
                let ch = &slots[p].children;
                let a = *rng.pick(ch);
                let b = *rng.pick(ch);
                (a, b)
            } else {
                (pick_id(rng, st), pick_id(rng, st))
            };
            format!(
                "ar.merge\t{}\t{}\t{}\t{}\t{}\t{}",
                c1,
                c2,
                len_tok(rng),
                len_tok(rng),
                len_tok(rng),
                if rng.chance(1, 2) { "hc3a9".to_string() } else { "-".into() }
            )
        }
    }
}

/// every operation with every argument choice on the current (small) tree
fn all_ops(st: &RealState) -> Vec<String> {
    let n = st.tree.size();
    let mut v = vec![];
    for p in 0..=n {
        v.push(format!("ar.add_child\t{p}\t1024\t-"));
        v.push(format!("ar.prune\t{p}"));
    }
    // the node argument of add_child is a copy of a node of the tree (root, an internal node, a tip), with and without a length
    for src in 0..n.min(3) {
        for p in 0..n.min(3) {
            v.push(format!("ar.add_copy\t{src}\t{p}\t{}", if (src + p) % 2 == 0 { "-" } else { "512" }));
        }
    }
    v.push("ar.compress".into());
    v.push("real.resolve\t7".into());
    v.push("ar.ladderize".into());
    v.push("ar.rescale\t2".into());
    v.push("ar.reset_depths".into());
    for a in 0..=n {
        for b in 0..=n {
            v.push(format!("ar.merge\t{a}\t{b}\t512\t-\t2048\th58"));
        }
    }
    v
}

fn is_structural(cmd: &str) -> bool {
    !(cmd.starts_with("ar.rescale") || cmd.starts_with("ar.setname") || cmd.starts_with("ar.setlen") || cmd.starts_with("ar.reset_depths") || cmd.starts_with("ar.dump") || cmd.starts_with("ar.inv"))
}

/// executes one history on a fresh real state; oracle = invariant on the real arena after every step
fn run_history(start: &str, ops: &mut dyn FnMut(&RealState, usize) -> Option<String>, rep: &mut Report, batch: &mut Batch) {
    let mut st = RealState::new();
    let mut case = Case::new();
    let a = case.step(&mut st, start, Cmp::Ignore);
    if a != "ok" {
        rep.count("start_rejected");
        return;
    }
    let slots = slots_of(&st.tree);
    if let Err(e) = check_inv(&slots, true) {
        rep.oracle("inv", &format!("start:{}", inv_sig(&e)), &case.script(), &e);
    }
    let mut ok_edits = 0;
    let mut rejected = 0;
    let mut i = 0;
    while let Some(op) = ops(&st, i) {
        i += 1;
        let ans = case.step(&mut st, &op, Cmp::Class);
        let opname = op.split('\t').next().unwrap().to_string();
        rep.count(&format!("op:{}:{}", opname, class_of(&ans)));
        if class_of(&ans) == "panic" {
            rep.oracle("no-panic", &format!("{opname}:panic"), &case.script(), &ans);
            break;
        }
        if class_of(&ans) == "ok" && is_structural(&op) {
            ok_edits += 1;
        }
        if class_of(&ans) == "err" {
            rejected += 1;
        }
        let slots = slots_of(&st.tree);
        if let Err(e) = check_inv(&slots, false) {
            rep.oracle("inv", &format!("{}:{}", opname, inv_sig(&e)), &case.script(), &e);
            break;
        }
        if let Err(e) = accessors_agree(&st.tree, &slots) {
            rep.oracle("accessors", &format!("{}:{}", opname, inv_sig(&e)), &case.script(), &e);
            break;
        }
        let d = case.step(&mut st, "ar.dump", Cmp::Exact);
        if d.starts_with("bad-case") {
            rep.count("inexact_length");
            break;
        }
    }
    // the public observers of Node at the end of the history, against the model's definitions (Props/C03Observers): tip / root
    // flags and depth of every slot (removed ones are refused), the parent-side length record for every parent-child pair and
    // for a non-child
    {
        let slots = slots_of(&st.tree);
        let n = slots.len();
        if n <= 40 {
            for x in 0..=n {
                case.step(&mut st, &format!("ar.q\tnode\t{x}"), Cmp::OkExact);
            }
            for (p, s) in slots.iter().enumerate() {
                for c in s.children.iter().take(4) {
                    case.step(&mut st, &format!("ar.q\tchild_edge\t{p}\t{c}"), Cmp::OkExact);
                }
                if p < 6 {
                    case.step(&mut st, &format!("ar.q\tchild_edge\t{p}\t{}", (p + 1) % n.max(1)), Cmp::OkExact);
                }
            }
            rep.count("histories_with_node_observers");
        }
    }
    rep.case(&case.script(), ok_edits >= 1 && rejected >= 1);
    rep.count(&format!("history_len:{}", i.min(60) / 10 * 10));
    batch.push(case);
}

/// Histories that START from a tree built by another public construction — a random generator (with branch lengths), UPGMA
/// (integer, decimal and tied matrices), a copy of the object — and continue with edits.  The lengths are arbitrary floats, so
/// the model is not consulted: the oracle is the invariant on the raw arena (both records of every branch bit for bit, links,
/// depths) and the agreement of the public accessors with it, after the construction and after every step.
fn constructions(rng: &mut Rng, count: usize, rep: &mut Report) {
    for k in 0..count {
        let start = match k % 4 {
            0 | 1 => format!("real.gen\t{}\t{}\t{}\t{}\t{}", *rng.pick(&["ete3", "yule", "cat"]), rng.range(2, 40), if k % 8 < 6 { 1 } else { 0 },
                             *rng.pick(&["uniform", "exponential", "gamma"]), rng.next() % 1_000_000),
            _ => {
                let n = rng.range(2, 12);
                let hi = *rng.pick(&[3usize, 7, 9, 40]);
                let cells: Vec<String> = (0..n * (n - 1) / 2).map(|_| rng.range(1, hi).to_string()).collect();
                let taxa: Vec<String> = (0..n).map(|i| hex(&format!("u{i}"))).collect();
                format!("up.run\t{}\t{}{}", taxa.join(","), cells.join(" "), if k % 4 == 2 { "\tdiv10" } else { "" })
            }
        };
        let mut st = RealState::new();
        let mut script = start.clone();
        let (a, _) = st.exec(&start);
        rep.count(&format!("construction:{}", start.split('\t').next().unwrap()));
        if class_of(&a) != "ok" {
            rep.oracle("construction", "refused", &script, &a);
            continue;
        }
        rep.case(&script, true);
        let nsteps = rng.range(0, 12);
        let mut step = 0;
        loop {
            let slots = slots_of(&st.tree);
            let opname = script.lines().last().unwrap_or("").split('\t').next().unwrap_or("").to_string();
            if let Err(e) = check_inv(&slots, step == 0) {
                rep.oracle("inv", &format!("{}:{}", if step == 0 { "construction" } else { opname.as_str() }, inv_sig(&e)), &script, &e);
                break;
            }
            if let Err(e) = accessors_agree(&st.tree, &slots) {
                rep.oracle("accessors", &format!("{}:{}", if step == 0 { "construction" } else { opname.as_str() }, inv_sig(&e)), &script, &e);
                break;
            }
            if step >= nsteps {
                break;
            }
            step += 1;
            // edits whose arguments do not need exact lengths; a copy of the object now and then
            let op = match rng.below(10) {
                0 => "real.clone".to_string(),
                1 | 2 => format!("ar.prune\t{}", pick_id(rng, &st)),
                3 | 4 => "ar.compress".to_string(),
                5 => format!("ar.rescale\t{}", *rng.pick(&[2i64, 3, -1])),
                6 => "ar.ladderize".to_string(),
                7 => format!("real.resolve\t{}", rng.next() % 1_000_000),
                8 => format!("ar.add_copy\t{}\t{}\t-", pick_id(rng, &st), pick_id(rng, &st)),
                _ => random_op(rng, &st),
            };
            script.push('\n');
            script.push_str(&op);
            let (a, _) = st.exec(&op);
            if class_of(&a) == "panic" {
                rep.oracle("no-panic", &format!("{}:panic", op.split('\t').next().unwrap()), &script, &a);
                break;
            }
        }
    }
}

pub fn run(cfg: &Cfg, rep: &mut Report) {
    let mut rng = Rng::new(cfg.seed);
    let mut batch = Batch::new("c03.history");
    let thorough = cfg.tier_thorough;

    // --- corpus: hand-written boundary histories (always first) ---
    let lbl = |t: &mut Rose, rng: &mut Rng| { let rl = rng.chance(1, 3); label(rng, t, &LabelOpts { len_mode: LenMode::Mixed, root_len: rl, ..Default::default() }) };
    {
        let mk = |s: &str| -> Rose { crate::real::parse_rose(s).unwrap() };
        let t = mk("(h41:0000000000000000[-],h42:-[-],h43:3ff0000000000000[-])h52:-[-]");
        let corpus: Vec<(String, Vec<String>)> = vec![
            (format!("real.build\tapi\t{}\t0", t.canon()), vec!["ar.merge\t1\t1\t-\t-\t-\t-".into()]),
            (format!("real.build\tapi\t{}\t0", t.canon()), vec!["ar.merge\t1\t2\t512\t512\t-\th44".into(), "ar.prune\t1".into(), "ar.compress".into()]),
            (format!("real.build\tmerge2\t{}\t0", mk("(h41:3ff0000000000000[-],h42:3ff0000000000000[-])-:-[-]").canon()), vec!["ar.prune\t0".into(), "ar.reset_depths".into(), "ar.ladderize".into()]),
            (format!("real.build\tapi\t{}\t0", mk("(((h41:-[-],h42:-[-])h58:-[-])h59:-[-],h43:-[-])h52:-[-]").canon()), vec!["ar.compress".into(), "ar.merge\t3\t4\t-\t-\t-\t-".into(), "real.resolve\t1".into()]),
            (format!("real.build\tapi\t{}\t0", mk("((h41:3ff0000000000000[-])h58:-[-],h43:-[-])h52:-[-]").canon()), vec!["ar.compress".into()]),
            (format!("real.build\tapi\t{}\t0", t.canon()), vec!["ar.prune\t0".into(), "ar.compress".into(), "ar.ladderize".into(), "ar.reset_depths".into(), "real.resolve\t1".into()]),
        ];
        for (start, ops) in corpus {
            let mut it = ops.into_iter();
            run_history(&start, &mut |_, _| it.next(), rep, &mut batch);
            rep.count("corpus");
        }
    }

    batch.flush(&cfg.driver, rep);
    constructions(&mut rng, if thorough { 6000 } else { 600 }, rep);

    // --- exhaustive histories and random walks, as independent jobs over all cores ---
    enum Job {
        Exhaustive { shape: Rose, how: &'static str, seed: u64, depth: usize },
        Walks { seed: u64, count: usize, steps: usize, max_size: usize },
    }
    let mut jobs: Vec<Job> = vec![];
    let (max_nodes, depth) = if thorough { (5, 3) } else { (4, 2) };
    for n in 1..=max_nodes {
        for mut shape in all_shapes(n) {
            lbl(&mut shape, &mut rng);
            for how in ["api", "tomb"] {
                jobs.push(Job::Exhaustive { shape: shape.clone(), how, seed: rng.next() % 1000, depth });
            }
        }
    }
    let (walks, steps, max_size) = if thorough { (20_000, 60, 200) } else { (600, 40, 60) };
    let chunk = if thorough { 250 } else { 40 };
    let mut left = walks;
    while left > 0 {
        let c = chunk.min(left);
        jobs.push(Job::Walks { seed: rng.next(), count: c, steps, max_size });
        left -= c;
    }
    let driver = cfg.driver.clone();
    parallel(
        jobs,
        n_workers(),
        "C03",
        |job, rep| {
            let mut batch = Batch::new("c03.history");
            match job {
                Job::Exhaustive { shape, how, seed, depth } => {
                    let start = format!("real.build\t{how}\t{}\t{}", shape.canon(), seed);
                    // enumerate op sequences depth-first by re-running prefixes
                    let mut stack: Vec<Vec<String>> = vec![vec![]];
                    while let Some(prefix) = stack.pop() {
                        // replay the prefix to learn the available ops at this point
                        let mut st = RealState::new();
                        let _ = st.exec(&start);
                        let mut alive = true;
                        for op in prefix.iter() {
                            let (a, _) = st.exec(op);
                            // a prefix that panicked or broke the invariant is not extended (a broken arena can send the
                            // crate's recursive functions round a cycle): it is run once more as a history, which reports it
                            if class_of(&a) == "panic" || check_inv(&slots_of(&st.tree), false).is_err() {
                                alive = false;
                                break;
                            }
                        }
                        if prefix.len() == depth || !alive {
                            let mut it = prefix.clone().into_iter();
                            run_history(&start, &mut |_, _| it.next(), rep, &mut batch);
                            rep.count("exhaustive_histories");
                            if batch.n_requests() > 200_000 {
                                batch.flush(&driver, rep);
                            }
                            continue;
                        }
                        for op in all_ops(&st) {
                            let mut p = prefix.clone();
                            p.push(op);
                            stack.push(p);
                        }
                    }
                }
                Job::Walks { seed, count, steps, max_size } => {
                    let mut rng = Rng::new(seed);
                    for w in 0..count {
                        let size = if w % 5 == 0 { rng.range(1, 8) } else { rng.range(2, max_size) };
                        let mut shape = random_shape(&mut rng, size);
                        lbl(&mut shape, &mut rng);
                        let how = *rng.pick(&["api", "bfs", "tomb", "tomb2", "parse", "merge2", "grown", "bottomup"]);
                        if how == "merge2" {
                            while shape.kids.len() > 2 {
                                shape.kids.pop();
                            }
                            if shape.kids.len() < 2 {
                                shape.kids.push(Rose { name: Some("M".into()), len: None, comment: None, kids: vec![] });
                                if shape.kids.len() < 2 {
                                    shape.kids.push(Rose { name: Some("M2".into()), len: None, comment: None, kids: vec![] });
                                }
                            }
                            shape.len = None;
                        }
                        if how == "parse" {
                            shape.len = None;
                        }
                        let start = format!("real.build\t{how}\t{}\t{}", shape.canon(), rng.next() % 100000);
                        rep.count(&format!("start:{how}"));
                        let mut r2 = Rng::new(rng.next());
                        let nsteps = r2.range(1, steps);
                        run_history(&start, &mut |st, i| if i < nsteps { Some(random_op(&mut r2, st)) } else { None }, rep, &mut batch);
                        if batch.n_requests() > 200_000 {
                            batch.flush(&driver, rep);
                        }
                    }
                }
            }
            batch.flush(&driver, rep);
        },
        rep,
    );
}
