//! Real-side evaluation of the bipartition / tree-comparison requests, canonicalised like the model's
//! answers, and brute-force oracles computed from the rose tree alone.
use crate::gen::*;
use crate::real::err_kind;
use crate::util::*;
use phylotree::tree::Tree;
use std::collections::{BTreeMap, BTreeSet};

fn sorted_leaf_names(t: &Tree) -> Vec<String> {
    let mut v: Vec<String> = t.get_leaf_names().into_iter().flatten().collect();
    v.sort();
    v
}

/// canonical side: sorted names of the side that does not contain the smallest leaf name
pub fn canon_side(all: &[String], side: &BTreeSet<String>) -> Vec<String> {
    if all.is_empty() {
        return side.iter().cloned().collect();
    }
    if side.contains(&all[0]) {
        all.iter().filter(|x| !side.contains(*x)).cloned().collect()
    } else {
        side.iter().cloned().collect()
    }
}
pub fn enc_side(s: &[String]) -> String {
    s.iter().map(|x| hex(x)).collect::<Vec<_>>().join(",")
}

pub fn real_parts(t: &Tree) -> String {
    match t.get_partitions() {
        Err(e) => format!("err {}", err_kind(&e)),
        Ok(parts) => {
            let all = sorted_leaf_names(t);
            let mut v: Vec<String> = parts
                .iter()
                .map(|p| {
                    let side: BTreeSet<String> = p.ones().filter_map(|i| all.get(i).cloned()).collect();
                    enc_side(&canon_side(&all, &side))
                })
                .collect();
            v.sort();
            format!("ok {}", v.join(";"))
        }
    }
}

/// the crate's own helper for reading a reported partition as leaf names must name exactly the leaves whose bits are set, in
/// index order (it is how a caller sees which split a bit set is); returns a description of the first disagreement
pub fn parts_view_mismatch(t: &Tree) -> Option<String> {
    let parts = t.get_partitions().ok()?;
    let all = sorted_leaf_names(t);
    for p in parts.iter() {
        let want: String = p.ones().filter_map(|i| all.get(i).cloned()).collect();
        match t.partition_to_leaves(p) {
            Ok(got) if got == want => {}
            other => return Some(format!("partition_to_leaves gives {other:?} for the bit set naming {want:?}")),
        }
    }
    None
}

fn res<T: std::fmt::Display>(r: Result<T, phylotree::tree::TreeError>) -> String {
    match r {
        Ok(v) => format!("ok {v}"),
        Err(e) => format!("err {}", err_kind(&e)),
    }
}

fn scaled_s(v: f64) -> String {
    scaled(v).map_or(format!("inexact:{v}"), |n| n.to_string())
}

pub fn real_rf(a: &Tree, b: &Tree) -> String {
    res(a.robinson_foulds(b))
}

/// (rf, total): the model returns the exact pair; the real quotient is checked against it by the caller
pub fn real_rfn(a: &Tree, b: &Tree) -> Result<f64, String> {
    a.robinson_foulds_norm(b).map_err(|e| format!("err {}", err_kind(&e)))
}

pub fn real_wrf(a: &Tree, b: &Tree) -> String {
    match a.weighted_robinson_foulds(b) {
        Ok(v) => format!("ok {}", scaled_s(v)),
        Err(e) => format!("err {}", err_kind(&e)),
    }
}

/// sorted multisets of lengths: `l;l / l;l / l:m;l:m`
pub fn real_branches(a: &Tree, b: &Tree, tips: bool) -> String {
    match a.compare_branch_lengths(b, tips) {
        Err(e) => format!("err {}", err_kind(&e)),
        Ok((s, o, c)) => {
            let mut s: Vec<i64> = s.iter().map(|(_, l)| scaled(*l).unwrap_or(i64::MIN)).collect();
            let mut o: Vec<i64> = o.iter().map(|(_, l)| scaled(*l).unwrap_or(i64::MIN)).collect();
            let mut c: Vec<(i64, i64)> = c.iter().map(|((_, l), (_, m))| (scaled(*l).unwrap_or(i64::MIN), scaled(*m).unwrap_or(i64::MIN))).collect();
            s.sort();
            o.sort();
            c.sort();
            format!(
                "ok {} / {} / {}",
                s.iter().map(|x| x.to_string()).collect::<Vec<_>>().join(";"),
                o.iter().map(|x| x.to_string()).collect::<Vec<_>>().join(";"),
                c.iter().map(|(x, y)| format!("{x}:{y}")).collect::<Vec<_>>().join(";")
            )
        }
    }
}

/// strips the split keys from the model's `branches` answer, leaving the sorted multisets of lengths
pub fn model_branches_canon(ans: &str) -> String {
    let Some(body) = ans.strip_prefix("ok ") else { return ans.split(' ').take(2).collect::<Vec<_>>().join(" ") };
    let parts: Vec<&str> = body.split(" / ").collect();
    if parts.len() != 3 {
        return format!("undecodable {ans}");
    }
    let vals = |p: &str| -> Vec<String> { p.split(';').filter(|x| !x.is_empty()).map(|kv| kv.split_once('=').map(|x| x.1).unwrap_or("?").to_string()).collect() };
    let mut s: Vec<i64> = vals(parts[0]).iter().map(|x| x.parse().unwrap_or(i64::MIN)).collect();
    let mut o: Vec<i64> = vals(parts[1]).iter().map(|x| x.parse().unwrap_or(i64::MIN)).collect();
    let mut c: Vec<(i64, i64)> = vals(parts[2])
        .iter()
        .map(|x| {
            let (a, b) = x.split_once(':').unwrap_or(("?", "?"));
            (a.parse().unwrap_or(i64::MIN), b.parse().unwrap_or(i64::MIN))
        })
        .collect();
    s.sort();
    o.sort();
    c.sort();
    format!(
        "ok {} / {} / {}",
        s.iter().map(|x| x.to_string()).collect::<Vec<_>>().join(";"),
        o.iter().map(|x| x.to_string()).collect::<Vec<_>>().join(";"),
        c.iter().map(|(x, y)| format!("{x}:{y}")).collect::<Vec<_>>().join(";")
    )
}

// ---------------- brute-force oracle from the rose tree ----------------

pub fn rose_leafset(r: &Rose) -> BTreeSet<String> {
    r.leaf_names().into_iter().flatten().collect()
}

/// non-trivial splits of a rose tree with the summed length of the branches inducing each
/// (None = some inducing branch lacks a length), keyed by canonical side
pub fn brute_splits(r: &Rose) -> BTreeMap<Vec<String>, Option<i64>> {
    let all: Vec<String> = rose_leafset(r).into_iter().collect();
    let n = all.len();
    let mut out: BTreeMap<Vec<String>, Option<i64>> = BTreeMap::new();
    fn go(r: &Rose, is_root: bool, all: &[String], n: usize, out: &mut BTreeMap<Vec<String>, Option<i64>>) {
        if !is_root && !r.kids.is_empty() {
            let side = rose_leafset(r);
            if side.len() >= 2 && n - side.len() >= 2 {
                let key = canon_side(all, &side);
                let l = r.len.and_then(scaled);
                match out.get_mut(&key) {
                    None => {
                        out.insert(key, l);
                    }
                    Some(old) => {
                        *old = match (*old, l) {
                            (Some(a), Some(b)) => Some(a + b),
                            _ => None,
                        }
                    }
                }
            }
        }
        for k in r.kids.iter() {
            go(k, false, all, n, out);
        }
    }
    go(r, true, &all, n, &mut out);
    out
}

pub fn brute_parts(r: &Rose) -> String {
    let v: Vec<String> = brute_splits(r).keys().map(|k| enc_side(k)).collect();
    format!("ok {}", v.join(";"))
}

/// symmetric-difference count and the root-split sets
pub fn brute_delta(a: &Rose, b: &Rose) -> (usize, usize, bool) {
    let sa = brute_splits(a);
    let sb = brute_splits(b);
    let common = sa.keys().filter(|k| sb.contains_key(*k)).count();
    let tot = sa.len() + sb.len();
    let roots = |r: &Rose| -> BTreeSet<Vec<String>> {
        let all: Vec<String> = rose_leafset(r).into_iter().collect();
        r.kids.iter().map(|k| canon_side(&all, &rose_leafset(k))).collect()
    };
    (tot - 2 * common, tot, roots(a) == roots(b))
}

pub fn brute_wrf_kf2(a: &Rose, b: &Rose) -> Option<(i64, i64)> {
    let sa = brute_splits(a);
    let sb = brute_splits(b);
    let mut w = 0i64;
    let mut k = 0i64;
    let mut keys: BTreeSet<&Vec<String>> = sa.keys().collect();
    keys.extend(sb.keys());
    for key in keys {
        let la = match sa.get(key) {
            Some(Some(v)) => *v,
            Some(None) => return None,
            None => 0,
        };
        let lb = match sb.get(key) {
            Some(Some(v)) => *v,
            Some(None) => return None,
            None => 0,
        };
        w += (la - lb).abs();
        k += (la - lb) * (la - lb);
    }
    Some((w, k))
}
