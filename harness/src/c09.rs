//! C09 paths / common ancestors / distances, C10 traversals and subtree listings, C12 shape statistics:
//! query streams on the arena model plus brute-force oracles computed from the raw arena / rose tree.
use crate::case::*;
use crate::gen::*;
use crate::real::*;
use crate::util::*;
use phylotree::verif::RawSlot;

fn ancestors(slots: &[RawSlot], mut x: usize) -> Vec<usize> {
    // x, parent(x), ..., root
    let mut v = vec![x];
    let mut guard = 0;
    while let Some(p) = slots[x].parent {
        v.push(p);
        x = p;
        guard += 1;
        if guard > slots.len() {
            break;
        }
    }
    v
}

fn subtree_pre(slots: &[RawSlot], x: usize, out: &mut Vec<usize>) {
    out.push(x);
    for &c in slots[x].children.iter() {
        subtree_pre(slots, c, out);
    }
}

fn parse_ids(ans: &str) -> Option<Vec<usize>> {
    let body = ans.strip_prefix("ok")?;
    Some(body.split(' ').filter(|x| !x.is_empty()).filter_map(|x| x.parse().ok()).collect())
}

fn start_cmd(rng: &mut Rng, r: &Rose) -> String {
    let seed = rng.next() % 100_000;
    let how = *rng.pick(&["api", "bfs", "tomb", "tomb2", "parse", "grown", "grown", "bottomup", "bottomup"]);
    format!("real.build\t{how}\t{}\t{seed}", r.canon())
}

/// in half of the cases the tree object has a past: every cache-filling query ran on it, then it was edited and the caches were
/// reset as documented — the answers below must be those of the tree as it is now
fn warm_and_edit(st: &mut RealState, case: &mut Case, rng: &mut Rng, rep: &mut Report) -> bool {
    if !rng.chance(1, 2) {
        return true;
    }
    case.step(st, "real.warm", Cmp::Ignore);
    let n_edits = rng.range(0, 2);
    for _ in 0..n_edits {
        let op = match rng.below(4) {
            0 => "ar.rescale\t2".to_string(),
            1 => format!("ar.prune\t{}", rng.below(st.tree.size().max(1))),
            _ => crate::c03::random_op(rng, st),
        };
        let a = case.step(st, &op, Cmp::Class);
        if class_of(&a) == "panic" {
            return false;
        }
    }
    if n_edits > 0 && rng.chance(3, 4) {
        case.step(st, "real.reset_cache", Cmp::Ignore);
    }
    rep.count("tree_objects_with_a_past");
    true
}

fn gen_tree(rng: &mut Rng, size: usize, mode: LenMode) -> Rose {
    let mut t = if size <= 6 && rng.chance(2, 3) {
        let v = all_shapes(size);
        v[rng.below(v.len())].clone()
    } else {
        random_shape(rng, size)
    };
    // a length written on the root itself (legal Newick, stored by the parser) belongs to no branch of the tree
    let rl = rng.chance(1, 3);
    label(rng, &mut t, &LabelOpts { len_mode: mode, root_len: rl, ..Default::default() });
    t
}

/// the C10 oracle for one live start node: `answers` maps each listing query to the real answer ("ok id id ..." or an error)
fn verify_listings(slots: &[RawSlot], x: usize, answers: &std::collections::HashMap<&str, String>, fail: &mut dyn FnMut(&str, &str, &str, &str)) {
        let mut want = vec![];
        subtree_pre(slots, x, &mut want);
        let depth = |i: usize| slots[i].depth;
        let mut sorted_want = want.clone();
        sorted_want.sort();
        for q in ["preorder", "postorder", "levelorder"] {
            let Some(got) = parse_ids(&answers[q]) else {
                fail("traversal", &format!("{q}:error"), q, &answers[q]);
                continue;
            };
            let mut s = got.clone();
            s.sort();
            if s != sorted_want {
                fail("traversal", &format!("{q}:not-a-permutation-of-the-subtree"), q, &answers[q]);
                continue;
            }
            let pos: std::collections::HashMap<usize, usize> = got.iter().enumerate().map(|(i, v)| (*v, i)).collect();
            for &v in got.iter() {
                let kids = &slots[v].children;
                for w in kids.windows(2) {
                    if pos[&w[0]] > pos[&w[1]] {
                        fail("traversal", &format!("{q}:sibling-order"), q, &answers[q]);
                    }
                }
                for c in kids {
                    let ok = match q {
                        "preorder" | "levelorder" => pos[&v] < pos[c],
                        _ => pos[&v] > pos[c],
                    };
                    if !ok {
                        fail("traversal", &format!("{q}:parent-child-order"), q, &answers[q]);
                    }
                }
            }
            if q == "levelorder" && got.windows(2).any(|w| depth(w[0]) > depth(w[1])) {
                fail("traversal", "levelorder:depth-decreases", q, &answers[q]);
            }
            if q == "preorder" && got != want {
                fail("traversal", "preorder:differs-from-definition", q, &answers[q]);
            }
        }
        // in-order
        let binary = want.iter().all(|&v| slots[v].children.len() <= 2);
        match (binary, parse_ids(&answers["inorder"])) {
            (false, Some(_)) => fail("traversal", "inorder:accepts-more-than-two-children", "inorder", &answers["inorder"]),
            (false, None) => {}
            (true, None) => fail("traversal", "inorder:refuses-binary", "inorder", &answers["inorder"]),
            (true, Some(got)) => {
                fn ino(slots: &[RawSlot], v: usize, out: &mut Vec<usize>) {
                    let k = &slots[v].children;
                    if !k.is_empty() {
                        ino(slots, k[0], out);
                    }
                    out.push(v);
                    if k.len() > 1 {
                        ino(slots, k[1], out);
                    }
                }
                let mut w = vec![];
                ino(slots, x, &mut w);
                if w != got {
                    fail("traversal", "inorder:differs-from-definition", "inorder", &answers["inorder"]);
                }
            }
        }
        // listings agree with the traversals
        if parse_ids(&answers["subtree"]).as_ref() != Some(&want) {
            fail("listing", "subtree-vs-preorder", "subtree", &answers["subtree"]);
        }
        if parse_ids(&answers["descendants"]).as_deref() != Some(&want[1..]) {
            fail("listing", "descendants-vs-preorder-tail", "descendants", &answers["descendants"]);
        }
        let leaves: Vec<usize> = want.iter().cloned().filter(|&v| slots[v].children.is_empty()).collect();
        if parse_ids(&answers["subtree_leaves"]).as_ref() != Some(&leaves) {
            fail("listing", "subtree-leaves", "subtree_leaves", &answers["subtree_leaves"]);
        }
    }

// ------------------------------------------------------------------------------------------------
fn c10_tree(start: &str, rep: &mut Report, batch: &mut Batch, rng: &mut Rng) {
    let mut st = RealState::new();
    let mut case = Case::new();
    if case.step(&mut st, start, Cmp::Ignore) != "ok" {
        rep.count("start_rejected");
        return;
    }
    if !warm_and_edit(&mut st, &mut case, rng, rep) {
        return;
    }
    let start = &case.script();
    let slots = slots_of(&st.tree);
    let n = slots.len();
    let tomb = slots.iter().filter(|s| s.deleted).count();
    rep.case(start, n - tomb >= 3);
    rep.count(if tomb > 0 { "arena:with-removed-slots" } else { "arena:dense" });
    let fail = |rep: &mut Report, name: &str, sig: &str, x: usize, q: &str, obs: &str| {
        rep.oracle(name, sig, &format!("{start}\nar.q\t{q}\t{x}"), obs);
    };
    // a copy of the tree object (`Tree::clone`, e.g. taken after removals) is asked the same questions: same answers
    let mut copy = RealState::new();
    copy.tree = st.tree.clone();
    for x in 0..n + 1 {
        let live = x < n && !slots[x].deleted;
        let mut answers = std::collections::HashMap::new();
        for q in ["preorder", "postorder", "levelorder", "inorder", "subtree", "descendants", "subtree_leaves"] {
            let a = case.step(&mut st, &format!("ar.q\t{q}\t{x}"), Cmp::OkExact);
            let (c, _) = copy.exec(&format!("ar.q\t{q}\t{x}"));
            if c != a {
                rep.oracle("copy", q, &format!("{start}\nar.q\t{q}\t{x}"), &format!("object: {a}; tree.clone(): {c}"));
            }
            answers.insert(q, a);
        }
        rep.count_n("queries", 7);
        if !live {
            for (q, a) in answers.iter() {
                if class_of(a) != "err" {
                    fail(rep, "dead-start", q, x, q, a);
                }
            }
            continue;
        }
        verify_listings(&slots, x, &answers, &mut |name: &str, sig: &str, q: &str, obs: &str| fail(rep, name, sig, x, q, obs));
    }
    // whole-tree leaf listing = the same set as the root's subtree leaves; removed slots never listed
    let a = case.step(&mut st, "ar.q\tleaves", Cmp::OkExact);
    let (c, _) = copy.exec("ar.q\tleaves");
    if c != a {
        rep.oracle("copy", "get_leaves", &format!("{start}\nar.q\tleaves"), &format!("object: {a}; tree.clone(): {c}"));
    }
    if let (Some(mut got), Some(&root)) = (parse_ids(&a), live_roots(&slots).first()) {
        let mut w = vec![];
        subtree_pre(&slots, root, &mut w);
        let mut leaves: Vec<usize> = w.into_iter().filter(|&v| slots[v].children.is_empty()).collect();
        leaves.sort();
        got.sort();
        if got != leaves {
            rep.oracle("listing", "get_leaves", &format!("{start}\nar.q\tleaves"), &a);
        }
    }
    batch.push(case);
}

// ------------------------------------------------------------------------------------------------
fn c09_tree(start: &str, rep: &mut Report, batch: &mut Batch, max_pairs: usize, rng: &mut Rng) {
    let mut st = RealState::new();
    let mut case = Case::new();
    if case.step(&mut st, start, Cmp::Ignore) != "ok" {
        rep.count("start_rejected");
        return;
    }
    if !warm_and_edit(&mut st, &mut case, rng, rep) {
        return;
    }
    let start = &case.script();
    let slots = slots_of(&st.tree);
    let n = slots.len();
    let have = slots.iter().filter(|s| !s.deleted && s.parent.is_some() && s.parent_edge.is_some()).count();
    let miss = slots.iter().filter(|s| !s.deleted && s.parent.is_some() && s.parent_edge.is_none()).count();
    rep.case(start, have > 0 && miss > 0);
    let all_pairs = (n + 1) * (n + 1) <= max_pairs;
    let pairs: Vec<(usize, usize)> = if all_pairs {
        (0..=n).flat_map(|a| (0..=n).map(move |b| (a, b))).collect()
    } else {
        (0..max_pairs).map(|_| (rng.below(n + 1), rng.below(n + 1))).collect()
    };
    rep.count(if all_pairs { "all-ordered-pairs" } else { "sampled-pairs" });
    for x in 0..=n {
        let a = case.step(&mut st, &format!("ar.q\tpath\t{x}"), Cmp::OkExact);
        if x < n && !slots[x].deleted {
            let mut anc = ancestors(&slots, x);
            anc.reverse();
            if parse_ids(&a).as_ref() != Some(&anc) {
                rep.oracle("root-path", "differs", &format!("{start}\nar.q\tpath\t{x}"), &a);
            }
        } else if class_of(&a) != "err" {
            rep.oracle("root-path", "dead-node-accepted", &format!("{start}\nar.q\tpath\t{x}"), &a);
        }
    }
    for (s, t) in pairs {
        let la = case.step(&mut st, &format!("ar.q\tlca\t{s}\t{t}"), Cmp::OkExact);
        let da = case.step(&mut st, &format!("ar.q\tdist\t{s}\t{t}"), Cmp::OkExact);
        rep.count_n("queries", 2);
        let live = |i: usize| i < n && !slots[i].deleted;
        let ctx = format!("{start}\nar.q\tlca\t{s}\t{t}\nar.q\tdist\t{s}\t{t}");
        if !live(s) || !live(t) {
            if s != t && (class_of(&la) != "err" || class_of(&da) != "err") {
                rep.oracle("dead-node", "accepted", &ctx, &format!("{la} / {da}"));
            }
            continue;
        }
        // brute force
        let as_ = ancestors(&slots, s);
        let at = ancestors(&slots, t);
        let common: Vec<usize> = as_.iter().cloned().filter(|v| at.contains(v)).collect();
        let Some(&deepest) = common.first() else {
            // different components: must be an error, never a panic
            if class_of(&la) == "panic" || class_of(&da) == "panic" {
                rep.oracle("no-panic", "no-common-ancestor", &ctx, &format!("{la} / {da}"));
            }
            continue;
        };
        if la != format!("ok {deepest}") {
            rep.oracle("lca", "not-deepest-common-ancestor", &ctx, &format!("{la} expected {deepest}"));
        }
        let i = as_.iter().position(|v| *v == deepest).unwrap();
        let j = at.iter().position(|v| *v == deepest).unwrap();
        let legs: Vec<usize> = as_[..i].iter().chain(at[..j].iter()).cloned().collect();
        let edges = legs.len();
        let mut sum = Some(0i64);
        for v in legs.iter() {
            sum = match (sum, slots[*v].parent_edge.and_then(scaled)) {
                (Some(a), Some(b)) => Some(a + b),
                _ => None,
            };
        }
        let want = format!("ok {} {}", sum.map_or("-".to_string(), |v| v.to_string()), edges);
        if da != want {
            rep.oracle("distance", if da.ends_with(&format!(" {edges}")) { "length" } else { "edge-count" }, &ctx, &format!("{da} expected {want}"));
        }
        // symmetry
        let (rev, _) = st.exec(&format!("ar.q\tdist\t{t}\t{s}"));
        if rev != da {
            rep.oracle("distance", "asymmetric", &ctx, &format!("{da} vs {rev}"));
        }
    }
    batch.push(case);
}

/// Runs `f` on a thread with a 1 GiB stack (the crate's recursive traversals need stack in proportion to the depth of the tree;
/// a tree of any depth is a legal input, and with enough stack the answer must be the ordinary one).
fn on_big_stack<T: Send + 'static>(f: impl FnOnce() -> T + Send + 'static) -> Option<T> {
    std::thread::Builder::new().stack_size(1 << 30).spawn(f).ok()?.join().ok()
}

/// internal node `levels` levels below the root of a `real.ladder` tree
fn ladder_internal(slots: &[RawSlot], levels: usize) -> usize {
    let mut x = 0;
    for _ in 0..levels {
        match slots[x].children.iter().find(|c| !slots[**c].children.is_empty()) {
            Some(c) => x = *c,
            None => break,
        }
    }
    x
}

/// C10 on a tree that is deeper than any fixed bound a traversal might carry: every listing from the root, from an internal
/// node a quarter of the way down and from a leaf, judged by the same oracle as the small trees (real code only)
fn deep_traversals(depth: usize, rep: &mut Report) {
    let start = format!("real.ladder\t{depth}");
    rep.case(&start, true);
    rep.count("deep_trees");
    let st_cmd = start.clone();
    let fails = on_big_stack(move || {
        let mut out: Vec<(String, String, String, String)> = vec![];
        let mut st = RealState::new();
        if st.exec(&st_cmd).0 != "ok" {
            out.push(("traversal".into(), "deep:build-failed".into(), String::new(), String::new()));
            return out;
        }
        let slots = slots_of(&st.tree);
        let leaf = slots.len() - 1;
        for x in [0, ladder_internal(&slots, depth / 4), leaf] {
            let mut answers = std::collections::HashMap::new();
            for q in ["preorder", "postorder", "levelorder", "inorder", "subtree", "descendants", "subtree_leaves"] {
                answers.insert(q, st.exec(&format!("ar.q\t{q}\t{x}")).0);
            }
            verify_listings(&slots, x, &answers, &mut |name: &str, sig: &str, q: &str, obs: &str| {
                out.push((name.to_string(), format!("deep:{sig}"), format!("ar.q\t{q}\t{x}"), obs.chars().take(200).collect()))
            });
        }
        out
    });
    rep.count_n("queries", 21);
    match fails {
        None => rep.oracle("traversal", "deep:worker-died", &start, "the thread running the deep traversals panicked"),
        Some(v) => {
            for (name, sig, q, obs) in v {
                rep.oracle(&name, &sig, &format!("{start}\n{q}"), &obs);
            }
        }
    }
}

/// C09 on a very deep tree: root paths, common ancestors and distances between the root, shallow, middle and deepest nodes
/// (real code only; the brute force walks the parent pointers of the raw arena)
fn deep_paths(depth: usize, rep: &mut Report) {
    let start = format!("real.ladder\t{depth}");
    rep.case(&start, true);
    rep.count("deep_trees");
    let st_cmd = start.clone();
    let fails = on_big_stack(move || {
        let mut out: Vec<(String, String, String, String)> = vec![];
        let mut st = RealState::new();
        if st.exec(&st_cmd).0 != "ok" {
            out.push(("root-path".into(), "deep:build-failed".into(), String::new(), String::new()));
            return out;
        }
        let slots = slots_of(&st.tree);
        let n = slots.len();
        let by_name = |s: &str| slots.iter().position(|x| x.name.as_deref() == Some(s)).unwrap_or(0);
        let picks = [0, by_name("L0"), by_name(&format!("L{}", depth / 2)), ladder_internal(&slots, depth / 2), ladder_internal(&slots, depth), n - 2, n - 1, by_name(&format!("L{}", depth - 1))];
        for &x in picks.iter() {
            let a = st.exec(&format!("ar.q\tpath\t{x}")).0;
            let mut anc = ancestors(&slots, x);
            anc.reverse();
            if parse_ids(&a).as_ref() != Some(&anc) {
                out.push(("root-path".into(), "deep:differs".into(), format!("ar.q\tpath\t{x}"), format!("{} ids listed, {} expected", parse_ids(&a).map_or(0, |v| v.len()), anc.len())));
            }
        }
        for &s in picks.iter() {
            for &t in picks.iter() {
                let la = st.exec(&format!("ar.q\tlca\t{s}\t{t}")).0;
                let da = st.exec(&format!("ar.q\tdist\t{s}\t{t}")).0;
                let as_ = ancestors(&slots, s);
                let at = ancestors(&slots, t);
                let set: std::collections::HashSet<usize> = at.iter().cloned().collect();
                let i = as_.iter().position(|v| set.contains(v)).unwrap();
                let deepest = as_[i];
                let j = at.iter().position(|v| *v == deepest).unwrap();
                let q = format!("ar.q\tlca\t{s}\t{t}\nar.q\tdist\t{s}\t{t}");
                if la != format!("ok {deepest}") {
                    out.push(("lca".into(), "deep:not-deepest-common-ancestor".into(), q.clone(), format!("{la} expected {deepest}")));
                }
                let edges = i + j;
                let want = format!("ok {} {}", edges as i64 * 1024, edges);
                if da != want {
                    out.push(("distance".into(), "deep:differs".into(), q, format!("{da} expected {want}")));
                }
            }
        }
        out
    });
    rep.count_n("queries", 8 + 128);
    match fails {
        None => rep.oracle("distance", "deep:worker-died", &start, "the thread running the deep path queries panicked"),
        Some(v) => {
            for (name, sig, q, obs) in v {
                rep.oracle(&name, &sig, &format!("{start}\n{q}"), &obs);
            }
        }
    }
}

/// numeric corners of the branch lengths, on the real code only (the arena model carries exact integers): NaN, +inf, -inf,
/// -0 among small dyadic values.  "The reported length is the sum of the branch lengths on the path, or ABSENT when a branch on
/// the path lacks a length": a NaN or an infinite length is a present length, so the answer is `Some(sum)` — `Some(NaN)` when
/// the sum is NaN (inf + -inf, or a NaN term) — and `None` exactly when a length is missing.  Every term is a special value or a
/// small dyadic number, so the sum does not depend on the order of addition.
fn c09_nonfinite(rng: &mut Rng, rep: &mut Report) {
    let vals = [f64::NAN, f64::INFINITY, f64::NEG_INFINITY, -0.0, 0.0, 1.0, 2.0, 0.5, 3.0];
    let size = rng.range(2, 14);
    let mut t = if size <= 6 { let v = all_shapes(size); v[rng.below(v.len())].clone() } else { random_shape(rng, size) };
    label(rng, &mut t, &LabelOpts { len_mode: LenMode::None, ..Default::default() });
    let specials = rng.range(1, 3);
    let mut k = 0;
    t.for_each_mut(&mut |r: &mut Rose, root: bool, _d: usize| {
        if !root {
            r.len = if rng.chance(1, 6) { None } else if k < specials && rng.chance(1, 2) { k += 1; Some(vals[rng.below(3)]) } else { Some(vals[3 + rng.below(6)]) };
        }
    }, true, 0);
    let seed = rng.next() % 100_000;
    let how = *rng.pick(&["api", "bfs", "tomb", "tomb2", "bottomup"]);
    let tree = match how { "api" => build_api(&t), "bfs" => build_api_bfs(&t), "tomb" => build_with_tombstones(&t, &mut Rng::new(seed)), "tomb2" => build_with_tombstones2(&t, &mut Rng::new(seed)), _ => build_bottom_up(&t, &mut Rng::new(seed)) };
    let slots = slots_of(&tree);
    let n = slots.len();
    let case = format!("real.build\t{how}\t{}\t{seed}", t.canon());
    rep.case(&case, true);
    rep.count("nonfinite_length_trees");
    let same = |a: f64, b: f64| (a.is_nan() && b.is_nan()) || a == b;
    for s_ in 0..n {
        for t_ in 0..n {
            if slots[s_].deleted || slots[t_].deleted {
                continue;
            }
            let as_ = ancestors(&slots, s_);
            let at = ancestors(&slots, t_);
            let Some(&deepest) = as_.iter().find(|v| at.contains(v)) else { continue };
            let i = as_.iter().position(|v| *v == deepest).unwrap();
            let j = at.iter().position(|v| *v == deepest).unwrap();
            let legs: Vec<usize> = as_[..i].iter().chain(at[..j].iter()).cloned().collect();
            let mut want: Option<f64> = Some(0.0);
            for v in legs.iter() {
                want = match (want, slots[*v].parent_edge) { (Some(a), Some(b)) => Some(a + b), _ => None };
            }
            let t2 = tree.clone();
            let got = guarded(move || t2.get_distance(&s_, &t_));
            let ctx = format!("{case}\nar.q\tdist\t{s_}\t{t_}");
            match got {
                Err(_) => rep.oracle("no-panic", "get_distance:nonfinite-lengths", &ctx, "panic"),
                Ok(Err(e)) => rep.oracle("distance", "nonfinite:error", &ctx, &format!("{e:?}")),
                Ok(Ok((len, edges))) => {
                    let ok = edges == legs.len() && match (len, want) { (None, None) => true, (Some(a), Some(b)) => same(a, b), _ => false };
                    if !ok {
                        let sig = if len.is_some() != want.is_some() { "nonfinite:presence-of-the-length" } else { "nonfinite:length" };
                        rep.oracle("distance", sig, &ctx, &format!("({len:?}, {edges}) expected ({want:?}, {})", legs.len()));
                    }
                }
            }
        }
    }
}

// ------------------------------------------------------------------------------------------------
fn c12_tree(start: &str, rose: Option<&Rose>, rep: &mut Report, batch: &mut Batch, edits: usize, rng: &mut Rng) {
    let mut st = RealState::new();
    let mut case = Case::new();
    if case.step(&mut st, start, Cmp::Ignore) != "ok" {
        rep.count("start_rejected");
        return;
    }
    // statistics must also be right on trees obtained by editing
    for _ in 0..edits {
        let op = crate::c03::random_op(rng, &st);
        let a = case.step(&mut st, &op, Cmp::Class);
        if class_of(&a) == "panic" {
            return;
        }
    }
    if edits > 0 {
        rep.count("edited_trees");
    }
    if !warm_and_edit(&mut st, &mut case, rng, rep) {
        return;
    }
    let ctx = case.script();
    c12_queries(&mut st, &mut case, &ctx, rose, rep);
    batch.push(case);
}

pub fn c12_queries(st: &mut RealState, case: &mut Case, ctx: &str, _rose: Option<&Rose>, rep: &mut Report) {
    let slots = slots_of(&st.tree);
    let Some(&root) = live_roots(&slots).first() else { return };
    let Some(r) = rose_of(&slots, root) else { return };
    let nl = r.n_leaves();
    let rooted = r.kids.len() == 2;
    fn binary(r: &Rose, is_root: bool, rooted: bool) -> bool {
        let lim = if is_root { if rooted { 2 } else { 3 } } else { 2 };
        r.kids.len() <= lim && r.kids.iter().all(|k| binary(k, false, rooted))
    }
    let bin = binary(&r, true, rooted);
    rep.case(ctx, rooted && bin && nl >= 3);
    rep.count(&format!("shape:{}{}", if rooted { "rooted" } else { "unrooted" }, if bin { "-binary" } else { "-nonbinary" }));
    let q = |st: &mut RealState, case: &mut Case, q: &str| case.step(st, &format!("ar.q\t{q}"), Cmp::OkExact);
    let fail = |rep: &mut Report, name: &str, sig: &str, q: &str, obs: &str| rep.oracle(name, sig, &format!("{ctx}\nar.q\t{q}"), obs);
    // generic measures
    let a = q(st, case, "n_leaves");
    if a != format!("ok {nl}") {
        fail(rep, "stat", "n_leaves", "n_leaves", &a);
    }
    let a = q(st, case, "is_rooted");
    if a != format!("ok {}", rooted as u8) {
        fail(rep, "stat", "is_rooted", "is_rooted", &a);
    }
    let a = q(st, case, "is_binary");
    if a != format!("ok {}", bin as u8) {
        fail(rep, "stat", "is_binary", "is_binary", &a);
    }
    // total length
    let mut tot = Some(0i64);
    r.for_each(&mut |x, is_root| {
        if !is_root {
            tot = match (tot, x.len.and_then(scaled)) {
                (Some(a), Some(b)) => Some(a + b),
                _ => None,
            }
        }
    });
    let a = q(st, case, "length");
    match tot {
        Some(v) if a != format!("ok {v}") => fail(rep, "stat", "length", "length", &a),
        None if class_of(&a) != "err" => fail(rep, "stat", "length-missing-accepted", "length", &a),
        _ => {}
    }
    // leaf-to-leaf path values: sum if every branch on the path has a length, else the edge count
    fn leaf_paths(r: &Rose) -> Vec<(Option<i64>, usize)> {
        // (sum, edges) from r down to each leaf
        if r.kids.is_empty() {
            return vec![(Some(0), 0)];
        }
        let mut v = vec![];
        for k in r.kids.iter() {
            for (s, e) in leaf_paths(k) {
                let s2 = match (s, k.len.and_then(scaled)) {
                    (Some(a), Some(b)) => Some(a + b),
                    _ => None,
                };
                v.push((s2, e + 1));
            }
        }
        v
    }
    let val = |p: &(Option<i64>, usize)| p.0.unwrap_or(p.1 as i64 * UNIT);
    let a = q(st, case, &format!("height\t{UNIT}"));
    if rooted {
        let want = leaf_paths(&r).iter().map(val).max().unwrap_or(0);
        if a != format!("ok {want}") {
            fail(rep, "stat", "height", "height", &format!("{a} expected {want}"));
        }
    } else if class_of(&a) != "err" {
        fail(rep, "stat", "height-on-unrooted", "height", &a);
    }
    fn diam(r: &Rose, best: &mut Option<i64>) -> Vec<(Option<i64>, usize)> {
        // returns leaf paths from r; updates best with pairs whose LCA is r
        if r.kids.is_empty() {
            return vec![(Some(0), 0)];
        }
        let mut per_kid: Vec<Vec<(Option<i64>, usize)>> = vec![];
        for k in r.kids.iter() {
            let sub = diam(k, best);
            per_kid.push(
                sub.into_iter()
                    .map(|(s, e)| {
                        (
                            match (s, k.len.and_then(scaled)) {
                                (Some(a), Some(b)) => Some(a + b),
                                _ => None,
                            },
                            e + 1,
                        )
                    })
                    .collect(),
            );
        }
        for i in 0..per_kid.len() {
            for j in i + 1..per_kid.len() {
                for a in per_kid[i].iter() {
                    for b in per_kid[j].iter() {
                        let v = match (a.0, b.0) {
                            (Some(x), Some(y)) => x + y,
                            _ => (a.1 + b.1) as i64 * UNIT,
                        };
                        if best.map_or(true, |m| v > m) {
                            *best = Some(v);
                        }
                    }
                }
            }
        }
        per_kid.into_iter().flatten().collect()
    }
    let a = q(st, case, &format!("diameter\t{UNIT}"));
    let mut best = None;
    diam(&r, &mut best);
    match best {
        Some(v) if a != format!("ok {v}") => fail(rep, "stat", "diameter", "diameter", &format!("{a} expected {v}")),
        None if class_of(&a) != "err" => fail(rep, "stat", "diameter-single-leaf", "diameter", &a),
        _ => {}
    }
    // balance indices
    fn cherries(r: &Rose) -> usize {
        (r.kids.len() == 2 && r.kids.iter().all(|k| k.kids.is_empty())) as usize + r.kids.iter().map(cherries).sum::<usize>()
    }
    fn colless(r: &Rose) -> usize {
        if r.kids.is_empty() {
            return 0;
        }
        let l = r.kids[0].n_leaves();
        let rr = if r.kids.len() > 1 { r.kids[1].n_leaves() } else { 0 };
        l.abs_diff(rr) + r.kids.iter().map(colless).sum::<usize>()
    }
    fn sackin(r: &Rose) -> usize {
        if r.kids.is_empty() {
            0
        } else {
            r.n_leaves() + r.kids.iter().map(sackin).sum::<usize>()
        }
    }
    let a = q(st, case, "cherries");
    if bin {
        if a != format!("ok {}", cherries(&r)) {
            fail(rep, "index", "cherries", "cherries", &format!("{a} expected {}", cherries(&r)));
        }
    } else if class_of(&a) != "err" {
        fail(rep, "index", "cherries-on-nonbinary", "cherries", &a);
    }
    let ac = q(st, case, "colless");
    let asn = q(st, case, "sackin");
    // the normalised indices against the model's exact rationals (Arena/QueryMore: the Yule normalisation of Sackin is a rational
    // function; for the PDA normalisations the model carries the square): refusals included
    for nq in ["sackin_yule", "sackin_pda_sq", "colless_pda_sq"] {
        // the harmonic sum as an exact fraction fits 128 bits up to 70 leaves
        if nq == "sackin_yule" && nl > 70 {
            continue;
        }
        let a = q(st, case, nq);
        if a.contains("float-differs") || a.contains("refusals-differ") {
            fail(rep, "index", nq, nq, &a);
        }
    }
    if rooted && bin {
        if ac != format!("ok {}", colless(&r)) {
            fail(rep, "index", "colless", "colless", &format!("{ac} expected {}", colless(&r)));
        }
        if asn != format!("ok {}", sackin(&r)) {
            fail(rep, "index", "sackin", "sackin", &format!("{asn} expected {}", sackin(&r)));
        }
        // normalisations: textbook closed forms evaluated in f64 from the harness's own indices
        let n = nl as f64;
        let close = |a: f64, b: f64| (a - b).abs() <= 1e-12 * (1.0 + a.abs().max(b.abs())) || (a.is_nan() && b.is_nan()) || a == b;
        let t = &st.tree;
        let ic = colless(&r) as f64;
        let is = sackin(&r) as f64;
        let checks: [(&str, Result<f64, phylotree::tree::TreeError>, f64); 4] = [
            ("colless_yule", t.colless_yule(), (ic - (n * n.ln() + (0.57721566 - 1.0 - 2f64.ln()) * n)) / n),
            ("colless_pda", t.colless_pda(), ic / n.powf(1.5)),
            ("sackin_yule", t.sackin_yule(), (is - 2.0 * n * (2..=nl).map(|i| 1.0 / i as f64).sum::<f64>()) / n),
            ("sackin_pda", t.sackin_pda(), is / n.powf(1.5)),
        ];
        for (name, got, want) in checks {
            match got {
                Ok(v) if close(v, want) => {}
                other => fail(rep, "index", name, name, &format!("{other:?} expected {want}")),
            }
        }
    } else {
        if class_of(&ac) != "err" {
            fail(rep, "index", "colless-not-refused", "colless", &ac);
        }
        if class_of(&asn) != "err" {
            fail(rep, "index", "sackin-not-refused", "sackin", &asn);
        }
        let t = &st.tree;
        if t.colless_yule().is_ok() || t.colless_pda().is_ok() || t.sackin_yule().is_ok() || t.sackin_pda().is_ok() {
            fail(rep, "index", "normalisation-not-refused", "colless", "a normalised index was returned for an unrooted or non-binary tree");
        }
    }
}

/// all rooted binary shapes with `n` leaves (ordered), as roses
fn binary_shapes(n: usize) -> Vec<Rose> {
    if n == 1 {
        return vec![Rose::leaf()];
    }
    let mut v = vec![];
    for l in 1..n {
        for a in binary_shapes(l) {
            for b in binary_shapes(n - l) {
                v.push(Rose { name: None, len: None, comment: None, kids: vec![a.clone(), b.clone()] });
            }
        }
    }
    v
}

pub fn run(prop: &str, thorough: bool, seed: u64, driver: &str, rep: &mut Report) {
    struct Job {
        seed: u64,
        exhaustive_nodes: Option<usize>,
        binary_leaves: Option<usize>,
        random: usize,
    }
    let mut rng = Rng::new(seed);
    let mut jobs = vec![];
    let max_nodes = match (prop, thorough) {
        ("C09", false) => 6,
        ("C09", true) => 7,
        ("C10", false) => 7,
        ("C10", true) => 9,
        (_, false) => 6,
        (_, true) => 8,
    };
    for n in 1..=max_nodes {
        jobs.push(Job { seed: rng.next(), exhaustive_nodes: Some(n), binary_leaves: None, random: 0 });
    }
    if prop == "C12" {
        for n in 2..=(if thorough { 10 } else { 8 }) {
            jobs.push(Job { seed: rng.next(), exhaustive_nodes: None, binary_leaves: Some(n), random: 0 });
        }
    }
    for _ in 0..(if thorough { 200 } else { 16 }) {
        jobs.push(Job { seed: rng.next(), exhaustive_nodes: None, binary_leaves: None, random: if thorough { 300 } else { 100 } });
    }
    let d = driver.to_string();
    let stream = format!("{}.queries", prop.to_lowercase());
    parallel(
        jobs,
        n_workers(),
        prop,
        |job, rep| {
            let mut rng = Rng::new(job.seed);
            let mut batch = Batch::new(&stream);
            let mut trees: Vec<Rose> = vec![];
            if let Some(n) = job.exhaustive_nodes {
                for s in all_shapes(n) {
                    // every shape with two length masks
                    for mode in [LenMode::Mixed, LenMode::All, LenMode::None] {
                        let mut t = s.clone();
                        { let rl = rng.chance(1, 3); label(&mut rng, &mut t, &LabelOpts { len_mode: mode, root_len: rl, ..Default::default() }); } if odd_labels(&mut rng, &mut t) { rep.count("trees_with_odd_labels"); }
                        trees.push(t);
                        if prop == "C10" {
                            break;
                        }
                    }
                    rep.count("exhaustive_shapes");
                }
            }
            if let Some(n) = job.binary_leaves {
                for s in binary_shapes(n) {
                    let mut t = s.clone();
                    let mode = *rng.pick(&[LenMode::All, LenMode::None, LenMode::Mixed]);
                    { let rl = rng.chance(1, 3); label(&mut rng, &mut t, &LabelOpts { len_mode: mode, root_len: rl, ..Default::default() }); } if odd_labels(&mut rng, &mut t) { rep.count("trees_with_odd_labels"); }
                    trees.push(t);
                    rep.count("exhaustive_rooted_binary_shapes");
                }
            }
            for _ in 0..job.random {
                let size = rng.range(1, if prop == "C09" { 60 } else { 150 });
                let mode = *rng.pick(&[LenMode::All, LenMode::None, LenMode::Mixed, LenMode::Mixed]);
                let mut t = gen_tree(&mut rng, size, mode);
                if prop == "C12" && rng.chance(1, 2) {
                    // rooted binary random tree: resolve by hand (pair up children)
                    fn binarize(r: &mut Rose) {
                        for k in r.kids.iter_mut() {
                            binarize(k);
                        }
                        while r.kids.len() > 2 {
                            let b = r.kids.pop().unwrap();
                            let a = r.kids.pop().unwrap();
                            r.kids.push(Rose { name: None, len: Some(0.0), comment: None, kids: vec![a, b] });
                        }
                    }
                    binarize(&mut t);
                }
                trees.push(t);
                rep.count("random_trees");
            }
            if prop == "C09" {
                for _ in 0..job.random / 2 {
                    c09_nonfinite(&mut rng, rep);
                }
            }
            for t in trees.iter() {
                let start = start_cmd(&mut rng, t);
                match prop {
                    "C09" => c09_tree(&start, rep, &mut batch, if thorough { 2500 } else { 400 }, &mut rng),
                    "C10" => c10_tree(&start, rep, &mut batch, &mut rng),
                    _ => {
                        let edits = if rng.chance(1, 3) { rng.range(1, 6) } else { 0 };
                        c12_tree(&start, Some(t), rep, &mut batch, edits, &mut rng)
                    }
                }
                if batch.n_requests() > 100_000 {
                    batch.flush(&d, rep);
                }
            }
            batch.flush(&d, rep);
        },
        rep,
    );
    // C12: a tree of more than a thousand tips with ONE length missing — height and diameter decide pair by pair (leaf by leaf)
    // whether to add lengths or to count edges, at any size
    if prop == "C12" {
        let mut rng2 = Rng::new(seed ^ 0xb16);
        let (m1, m2) = (rng2.range(520, 700), rng2.range(520, 700));
        let bush = |m: usize, tag: &str, len: f64| -> Rose { Rose { name: None, len: Some(1.0), comment: None, kids: (0..m).map(|i| Rose { name: Some(format!("{tag}{i}")), len: Some(len), comment: None, kids: vec![] }).collect() } };
        let mut big = Rose { name: None, len: None, comment: None, kids: vec![bush(m1, "a", 3.0), bush(m2, "b", 2.0)] };
        big.kids[0].kids[7].len = None;
        let start = format!("real.build\tapi\t{}\t0", big.canon());
        let mut batch = Batch::new("c12.queries");
        c12_tree(&start, Some(&big), rep, &mut batch, 0, &mut rng2);
        batch.flush(driver, rep);
        rep.count("trees_of_more_than_a_thousand_tips_with_one_missing_length");
    }
    // trees deeper than any fixed bound a path or a traversal might carry
    match prop {
        "C09" => deep_paths(if thorough { 300_000 } else { 70_000 }, rep),
        "C10" => deep_traversals(if thorough { 80_000 } else { 16_000 }, rep),
        _ => {}
    }
}
