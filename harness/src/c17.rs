//! C17 — random tree generators return valid trees of the requested size.
use crate::gen::*;
use crate::util::*;
use phylotree::distr::Distr;
use phylotree::tree::Tree;
use phylotree::verif::RawSlot;
use std::collections::VecDeque;
use std::panic::AssertUnwindSafe;

fn kids_text(slots: &[RawSlot]) -> String {
    slots.iter().enumerate().map(|(i, s)| format!("{i}:{}", s.children.iter().map(|c| c.to_string()).collect::<Vec<_>>().join(","))).collect::<Vec<_>>().join(" ")
}
fn names_text(slots: &[RawSlot]) -> Result<String, String> {
    let mut v = vec![];
    for (i, s) in slots.iter().enumerate() {
        if let Some(n) = &s.name {
            let k = n.strip_prefix("Tip_").and_then(|x| x.parse::<usize>().ok()).ok_or(format!("unexpected name {n}"))?;
            v.push(format!("{i}={k}"));
        }
    }
    Ok(v.join(" "))
}

/// reads the generator's random choices back from the result
fn oracle_ete3(slots: &[RawSlot]) -> Option<String> {
    let steps = (slots.len() - 1) / 2;
    let mut dq: VecDeque<usize> = VecDeque::new();
    dq.push_back(0);
    let mut bits = String::new();
    for t in 0..steps {
        let p = slots[2 * t + 1].parent?;
        if dq.front() == Some(&p) {
            dq.pop_front();
            bits.push('1');
        } else if dq.back() == Some(&p) {
            dq.pop_back();
            bits.push('0');
        } else {
            return None;
        }
        dq.push_back(2 * t + 1);
        dq.push_back(2 * t + 2);
    }
    Some(bits)
}
fn oracle_yule(slots: &[RawSlot]) -> Option<String> {
    let steps = (slots.len() - 1) / 2;
    let mut cand: Vec<usize> = vec![0];
    let mut ks = vec![];
    for t in 0..steps {
        let p = slots[2 * t + 1].parent?;
        let k = cand.iter().position(|x| *x == p)?;
        ks.push(k.to_string());
        cand.push(2 * t + 1);
        cand.push(2 * t + 2);
        cand.swap_remove(k);
    }
    Some(ks.join(" "))
}

fn gen(shape: &str, n: usize, brlens: bool, d: Distr, seed: u64) -> Result<Tree, String> {
    phylotree::verif::set_seed(seed);
    let r = guarded(AssertUnwindSafe(|| match shape {
        "ete3" => phylotree::generate_tree(n, brlens, d),
        "yule" => phylotree::generate_yule(n, brlens, d),
        _ => phylotree::generate_caterpillar(n, brlens, d),
    }));
    match r {
        Err(_) => Err("panic".into()),
        Ok(Err(e)) => Err(format!("err {e:?}")),
        Ok(Ok(t)) => Ok(t),
    }
}

pub fn run(thorough: bool, seed: u64, driver: &str, rep: &mut Report) {
    let mut rng = Rng::new(seed);
    let mut reqs: Vec<String> = vec![];
    let mut expect: Vec<String> = vec![];
    let max_n = if thorough { 300 } else { 60 };
    let seeds = if thorough { 50 } else { 5 };
    let dists = [(Distr::Uniform, "uniform"), (Distr::Exponential, "exponential"), (Distr::Gamma, "gamma")];
    let mut ns: Vec<usize> = (2..=max_n).collect();
    if !thorough {
        ns.retain(|n| *n <= 24 || n % 4 == 0);
    }
    for (ni, &n) in ns.iter().enumerate() {
        for shape in ["ete3", "yule", "cat"] {
            // the distributions are visited in a rotating order that does NOT start with the first enum variant: state
            // carried from one generator call to the next (a memoised sampler, say) must not hide behind the natural order
            for di in 0..3 {
                let (d, dname) = &dists[(di + 2 + ni) % 3];
                for brlens in [true, false] {
                    let reps = if shape == "cat" { 1 } else { seeds };
                    for ri in 0..reps + 1 {
                        // one extra call per combination for the uniform distribution with EXTREME raw draws injected into
                        // the seeded generator (hook H4): all-ones / all-zero words drive the sampler to the two ends of
                        // its support, where "inside [0.002, 1)" is decided (closed below, open above)
                        let extreme = ri == reps;
                        if extreme && !(*dname == "uniform" && brlens) {
                            continue;
                        }
                        let s = rng.next() % 1_000_000_007;
                        let case = format!("gen\t{shape}\t{n}\t{}\t{dname}\t{s}{}", brlens as u8, if extreme { "\textreme-draws-300" } else { "" });
                        rep.case(&case, n >= 3);
                        rep.count(&format!("shape:{shape}"));
                        if extreme {
                            rep.count("extreme_draw_calls");
                            phylotree::verif::set_extreme_draws(300);
                        }
                        // every fifth call is preceded, on the same thread, by a request OUTSIDE the domain (0 or 1 leaves, any
                        // outcome): whatever such a call does, it must leave nothing behind for the next request
                        if (ni + di + ri) % 5 == 0 {
                            let _ = gen(shape, (ni + ri) % 2, brlens, *d, s ^ 1);
                            rep.count("calls_preceded_by_a_degenerate_request");
                        }
                        let g = gen(shape, n, brlens, *d, s);
                        phylotree::verif::set_extreme_draws(0);
                        let t = match g {
                            Ok(t) => t,
                            Err(e) => {
                                rep.oracle(if e == "panic" { "no-panic" } else { "refused" }, shape, &case, &e);
                                continue;
                            }
                        };
                        let slots = slots_of(&t);
                        // ---------------- oracles on the real result ----------------
                        if let Err(e) = check_inv(&slots, true) {
                            rep.oracle("well-formed", &inv_sig(&e), &case, &e);
                            continue;
                        }
                        if slots.len() != 2 * n - 1 {
                            rep.oracle("size", "not-2n-1-nodes", &case, &format!("{} nodes", slots.len()));
                        }
                        let tips: Vec<&RawSlot> = slots.iter().filter(|s| s.children.is_empty()).collect();
                        if tips.len() != n || t.n_leaves() != n {
                            rep.oracle("size", "not-n-leaves", &case, &format!("{} leaves", tips.len()));
                        }
                        if slots.iter().any(|s| !s.children.is_empty() && s.children.len() != 2) {
                            rep.oracle("shape", "not-binary", &case, &kids_text(&slots));
                        }
                        if !t.is_rooted().unwrap_or(false) || !t.is_binary().unwrap_or(false) {
                            rep.oracle("shape", "not-rooted-binary", &case, "");
                        }
                        let mut names: Vec<String> = tips.iter().filter_map(|s| s.name.clone()).collect();
                        names.sort();
                        names.dedup();
                        if names.len() != n || slots.iter().any(|s| !s.children.is_empty() && s.name.is_some()) {
                            rep.oracle("names", "tips-not-uniquely-named", &case, &format!("{names:?}"));
                        }
                        for (i, s) in slots.iter().enumerate() {
                            if s.parent.is_none() {
                                continue;
                            }
                            match (brlens, s.parent_edge) {
                                (false, Some(l)) => rep.oracle("lengths", "present-without-request", &case, &format!("node {i}: {l}")),
                                (true, None) => rep.oracle("lengths", "absent-despite-request", &case, &format!("node {i}")),
                                (true, Some(l)) => {
                                    if *dname == "uniform" && (l == 0.002 || l > 0.9999999) {
                                        rep.count("uniform_draws_at_an_end_of_the_support");
                                    }
                                    let ok = match dname {
                                        &"uniform" => (0.002..1.0).contains(&l),
                                        &"exponential" => l >= 0.0 && l.is_finite(),
                                        _ => l > 0.0 && l.is_finite(),
                                    };
                                    if !ok {
                                        rep.oracle("lengths", &format!("outside-support-{dname}"), &case, &format!("node {i}: {l}"));
                                    }
                                }
                                _ => {}
                            }
                        }
                        if shape == "cat" {
                            // the comb: every internal node has a tip child; Colless = (n-1)(n-2)/2
                            if slots.iter().any(|s| !s.children.is_empty() && !s.children.iter().any(|c| slots[*c].children.is_empty())) {
                                rep.oracle("caterpillar", "not-the-comb", &case, &kids_text(&slots));
                            }
                            if t.colless().ok() != Some((n - 1) * (n - 2) / 2) {
                                rep.oracle("caterpillar", "not-maximally-unbalanced", &case, &format!("{:?}", t.colless()));
                            }
                        }
                        // ---------------- model: rebuild the identical tree from the choices read back ----------------
                        let names_t = match names_text(&slots) {
                            Ok(x) => x,
                            Err(e) => {
                                rep.oracle("names", "not-Tip_i", &case, &e);
                                continue;
                            }
                        };
                        match shape {
                            "ete3" | "yule" => {
                                let o = if shape == "ete3" { oracle_ete3(&slots) } else { oracle_yule(&slots) };
                                match o {
                                    None => rep.oracle("bookkeeping", &format!("{shape}:result-not-reachable-by-the-loop"), &case, &kids_text(&slots)),
                                    Some(o) => {
                                        reqs.push(format!("gen\t{shape}\t{o}"));
                                        expect.push(format!("ok {} | {}", kids_text(&slots), names_t));
                                    }
                                }
                            }
                            _ => {
                                reqs.push(format!("gen\tcat\t{n}"));
                                let e: Vec<String> = slots.iter().skip(1).map(|s| format!("{}:{}", s.parent.unwrap(), match &s.name { Some(nm) => nm.trim_start_matches("Tip_").to_string(), None => "-".into() })).collect();
                                expect.push(format!("ok {}", e.join(" ")));
                            }
                        }
                    }
                }
            }
        }
    }
    // ---- very large requests (oracles on the real result only): "for every requested leaf count" has no upper end, and a
    // bound or a reservation that is only reached with tens of thousands of leaves must not change the count ----
    let big: &[usize] = if thorough { &[40_000, 70_001, 150_000] } else { &[40_000] };
    for &n in big {
        for shape in ["ete3", "yule", "cat"] {
            let s = rng.next() % 1_000_000_007;
            let brlens = rng.chance(1, 2);
            let case = format!("gen\t{shape}\t{n}\t{}\tuniform\t{s}", brlens as u8);
            rep.case(&case, true);
            rep.count("large_requests");
            match gen(shape, n, brlens, Distr::Uniform, s) {
                Err(e) => rep.oracle(if e == "panic" { "no-panic" } else { "refused" }, &format!("{shape}:large"), &case, &e),
                Ok(t) => {
                    let slots = slots_of(&t);
                    let tips = slots.iter().filter(|x| x.children.is_empty()).count();
                    if slots.len() != 2 * n - 1 {
                        rep.oracle("size", "not-2n-1-nodes", &case, &format!("{} nodes", slots.len()));
                    }
                    if tips != n {
                        rep.oracle("size", "not-n-leaves", &case, &format!("{tips} leaves"));
                    }
                    if slots.iter().any(|x| !x.children.is_empty() && x.children.len() != 2) {
                        rep.oracle("shape", "not-binary", &case, "");
                    }
                    let mut names: Vec<&String> = slots.iter().filter(|x| x.children.is_empty()).filter_map(|x| x.name.as_ref()).collect();
                    names.sort();
                    names.dedup();
                    if names.len() != n {
                        rep.oracle("names", "tips-not-uniquely-named", &case, &format!("{} distinct names", names.len()));
                    }
                    if slots.iter().skip(1).any(|x| x.parent_edge.is_some() != brlens) {
                        rep.oracle("lengths", if brlens { "absent-despite-request" } else { "present-without-request" }, &case, "");
                    }
                }
            }
        }
    }
    // ---- volume: an event that needs a rare run of draws (say one step in a million) only shows in millions of steps.  Yule and
    // ETE3-like trees of 48-80 tips, cheap structural oracles only (2n-1 nodes, n leaves, binary, rooted), all cores ----
    {
        let per_job = if thorough { 40_000 } else { 5_000 };
        let jobs: Vec<u64> = (0..32).map(|_| rng.next()).collect();
        parallel(
            jobs,
            n_workers(),
            "C17",
            |seed, rep| {
                let mut r = Rng::new(seed);
                for k in 0..per_job {
                    let n = r.range(48, 80);
                    let shape = if k % 4 == 3 { "ete3" } else { "yule" };
                    let s = r.next() % 1_000_000_007;
                    let brlens = k % 16 == 0;
                    rep.count("volume_requests");
                    match gen(shape, n, brlens, Distr::Exponential, s) {
                        Err(e) => rep.oracle(if e == "panic" { "no-panic" } else { "refused" }, &format!("{shape}:volume"), &format!("gen\t{shape}\t{n}\t{}\texponential\t{s}", brlens as u8), &e),
                        Ok(t) => {
                            let ok = t.size() == 2 * n - 1 && t.n_leaves() == n && t.is_binary().unwrap_or(false) && t.is_rooted().unwrap_or(false);
                            if !ok {
                                let slots = slots_of(&t);
                                let sig = if slots.len() != 2 * n - 1 { "not-2n-1-nodes" } else if t.n_leaves() != n { "not-n-leaves" } else { "not-binary" };
                                rep.oracle(if sig == "not-binary" { "shape" } else { "size" }, sig, &format!("gen\t{shape}\t{n}\t{}\texponential\t{s}", brlens as u8), &kids_text(&slots));
                            }
                        }
                    }
                }
            },
            rep,
        );
    }
    // ---- the generators as the command-line tool calls them (the UNGUARDED binary, thread_rng()): `phylotree generate` with every
    // shape, distribution, -b and the several-trees form -n K -o DIR — the same oracles, on the text the tool writes ----
    if std::env::var("PVH_CLI").is_ok() {
        let dir = std::env::temp_dir().join(format!("pvh-c17-{}", std::process::id()));
        let _ = std::fs::create_dir_all(&dir);
        crate::c18::generate_stream(&dir.to_string_lossy(), &mut rng, if thorough { 180 } else { 36 }, rep);
        let _ = std::fs::remove_dir_all(&dir);
    } else {
        rep.notes.push("PVH_CLI is not set: the `phylotree generate` stream was not run".into());
    }
    match run_driver(driver, &reqs) {
        Err(e) => rep.mismatch("c17.generators", "driver-failed", "", "", &e),
        Ok(ans) => {
            rep.count_n("model_requests", ans.len() as u64);
            for i in 0..ans.len() {
                if ans[i].trim_end() != expect[i].trim_end() {
                    let op = reqs[i].split('\t').take(2).collect::<Vec<_>>().join(":");
                    rep.mismatch("c17.generators", &format!("{op}:differs"), &reqs[i], &expect[i], &ans[i]);
                }
            }
        }
    }
}
