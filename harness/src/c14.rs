//! C14 — Phylip round trip is lossless; the parsers are total and strict.
use crate::gen::*;
use crate::util::*;
use phylotree::distance::DistanceMatrix;
use std::panic::AssertUnwindSafe;

const ENTRIES: [&str; 3] = ["tril", "strict-square", "strict-tril"];

fn tri(n: usize) -> usize {
    n * n.saturating_sub(1) / 2
}

/// canonical parse outcome: `ok taxa | bits...` / `err` / `panic`
fn real_parse64(entry: &str, text: &str) -> String {
    let t = text.to_string();
    let r = guarded(AssertUnwindSafe(|| match entry {
        "tril" => DistanceMatrix::<f64>::from_phylip_tril(&t).map_err(|e| format!("{e:?}")),
        "strict-square" => DistanceMatrix::<f64>::from_phylip_strict(&t, true).map_err(|e| format!("{e:?}")),
        _ => DistanceMatrix::<f64>::from_phylip_strict(&t, false).map_err(|e| format!("{e:?}")),
    }));
    match r {
        Err(_) => "panic".into(),
        Ok(Err(_)) => "err".into(),
        Ok(Ok(m)) => format!("ok {} | {}", enc_taxa(&m.taxa), m.iter().map(|v| canon_f64(*v)).collect::<Vec<_>>().join(" ")),
    }
}
fn real_parse32(entry: &str, text: &str) -> String {
    let t = text.to_string();
    let r = guarded(AssertUnwindSafe(|| match entry {
        "tril" => DistanceMatrix::<f32>::from_phylip_tril(&t).map_err(|e| format!("{e:?}")),
        "strict-square" => DistanceMatrix::<f32>::from_phylip_strict(&t, true).map_err(|e| format!("{e:?}")),
        _ => DistanceMatrix::<f32>::from_phylip_strict(&t, false).map_err(|e| format!("{e:?}")),
    }));
    match r {
        Err(_) => "panic".into(),
        Ok(Err(_)) => "err".into(),
        Ok(Ok(m)) => format!("ok {} | {}", enc_taxa(&m.taxa), m.iter().map(|v| if v.is_nan() { "nan".to_string() } else { format!("{:08x}", v.to_bits()) }).collect::<Vec<_>>().join(" ")),
    }
}
fn enc_taxa(t: &[String]) -> String {
    if t.is_empty() { "_".into() } else { t.iter().map(|x| hex(x)).collect::<Vec<_>>().join(",") }
}

/// model answer (lexemes) -> the same canonical form, through Rust's own float parser
fn model_canon(ans: &str, f32mode: bool) -> String {
    let Some(body) = ans.strip_prefix("ok ") else { return ans.split(' ').next().unwrap_or("").to_string() };
    let Some((taxa, cells)) = body.split_once(" | ") else {
        return if body.ends_with(" |") { format!("ok {} | ", &body[..body.len() - 2]) } else { format!("undecodable {ans}") };
    };
    let mut out = vec![];
    for c in cells.split(' ').filter(|x| !x.is_empty()) {
        let Some(lex) = c.strip_prefix('h').and_then(unhex) else { return format!("undecodable {ans}") };
        if f32mode {
            match lex.parse::<f32>() {
                Ok(v) => out.push(if v.is_nan() { "nan".to_string() } else { format!("{:08x}", v.to_bits()) }),
                Err(_) => return format!("undecodable-lexeme {lex}"),
            }
        } else {
            match lex.parse::<f64>() {
                Ok(v) => out.push(canon_f64(v)),
                Err(_) => return format!("undecodable-lexeme {lex}"),
            }
        }
    }
    format!("ok {taxa} | {}", out.join(" "))
}

/// the strict parser's acceptance conditions, re-derived with Rust's own `lines`/`split_whitespace`
fn strict_conditions(text: &str, square: bool) -> Result<(), &'static str> {
    let mut lines = text.lines();
    let Some(first) = lines.next() else { return Err("empty") };
    let Ok(size) = first.parse::<usize>() else { return Err("size") };
    let rows: Vec<Vec<&str>> = lines.map(|l| l.split_whitespace().collect()).collect();
    if rows.len() != size {
        return Err("row-count-differs-from-declared-size");
    }
    let mut vals: Vec<Vec<f64>> = vec![];
    for (i, r) in rows.iter().enumerate() {
        if r.is_empty() {
            return Err("empty-row");
        }
        let want = if square { size } else { i };
        if r.len() - 1 != want {
            return Err("wrong-row-length");
        }
        let mut v = vec![];
        for x in &r[1..] {
            match x.parse::<f64>() {
                Ok(f) => v.push(f),
                Err(_) => return Err("bad-number"),
            }
        }
        vals.push(v);
    }
    if square {
        for i in 0..size {
            if vals[i][i] != 0.0 {
                return Err("non-zero-diagonal");
            }
            for j in 0..size {
                if vals[i][j] != vals[j][i] {
                    return Err("asymmetric");
                }
            }
        }
    }
    Ok(())
}

struct Q {
    reqs: Vec<String>,
    expect: Vec<String>,
    f32mode: Vec<bool>,
}
impl Q {
    fn flush(&mut self, driver: &str, rep: &mut Report, stream: &str) {
        if self.reqs.is_empty() {
            return;
        }
        match run_driver(driver, &self.reqs) {
            Err(e) => rep.mismatch(stream, "driver-failed", "", "", &e),
            Ok(ans) => {
                rep.count_n("model_requests", ans.len() as u64);
                for i in 0..ans.len() {
                    let m = if self.reqs[i].starts_with("ph.parse") { model_canon(&ans[i], self.f32mode[i]) } else { ans[i].clone() };
                    if m != self.expect[i] {
                        let op = self.reqs[i].split('\t').take(2).collect::<Vec<_>>().join(":");
                        let cls = |a: &str| a.split(' ').next().unwrap_or("").to_string();
                        let sig = if cls(&m) != cls(&self.expect[i]) { format!("{op}:{}!={}", cls(&self.expect[i]), cls(&m)) } else { format!("{op}:differs") };
                        rep.mismatch(stream, &sig, &self.reqs[i], &self.expect[i], &m);
                    }
                }
            }
        }
        self.reqs.clear();
        self.expect.clear();
        self.f32mode.clear();
    }
}

thread_local! { static FILE_TICK: std::cell::Cell<u64> = const { std::cell::Cell::new(0) }; }

/// `from_file` is the strict parser applied to the file's content, nothing else: same outcome, same matrix, for ANY text
/// (one text in sixteen — and every text with a blank line, a `#` or a lone number line — is also read through a file)
fn file_agrees(text: &str, rep: &mut Report) {
    let tick = FILE_TICK.with(|t| { t.set(t.get() + 1); t.get() });
    let interesting = text.contains("\n\n") || text.contains('#') || text.lines().skip(1).any(|l| l.trim().parse::<f64>().is_ok());
    if !(interesting && tick % 3 == 0) && tick % 16 != 0 {
        return;
    }
    let path = std::env::temp_dir().join(format!("pvh-c14f-{}-{:?}-{tick}.phy", std::process::id(), std::thread::current().id()));
    if std::fs::write(&path, text).is_err() {
        return;
    }
    for (square, entry) in [(true, "strict-square"), (false, "strict-tril")] {
        let p2 = path.clone();
        let got = match guarded(AssertUnwindSafe(|| DistanceMatrix::<f64>::from_file(&p2, square))) {
            Err(_) => "panic".to_string(),
            Ok(Err(_)) => "err".to_string(),
            Ok(Ok(m)) => format!("ok {} | {}", enc_taxa(&m.taxa), m.iter().map(|v| canon_f64(*v)).collect::<Vec<_>>().join(" ")),
        };
        let want = real_parse64(entry, text);
        rep.count("texts_also_read_through_from_file");
        if got != want {
            rep.oracle("from-file", &format!("{entry}:differs-from-the-strict-parser-on-the-same-text"), &format!("ph.parse\t{entry}\t{}", hex(text)), &format!("from_file: {got}; from_phylip_strict: {want}"));
        }
    }
    let _ = std::fs::remove_file(&path);
}

fn parse_all(text: &str, q: &mut Q, rep: &mut Report, oracles: bool) {
    file_agrees(text, rep);
    for e in ENTRIES {
        let a = real_parse64(e, text);
        let req = format!("ph.parse\t{e}\t{}", hex(text));
        rep.count(&format!("outcome:{e}:{}", a.split(' ').next().unwrap()));
        if a == "panic" {
            rep.oracle("no-panic", e, &req, "the parser panicked");
        }
        if oracles && a.starts_with("ok") && e != "tril" {
            // strictness: an accepted text satisfies every documented condition
            // (whatever the row labels are: a repeated label does not make an asymmetric matrix symmetric)
            if let Err(why) = strict_conditions(text, e == "strict-square") {
                rep.oracle("strict", why, &req, "accepted");
            }
        }
        q.reqs.push(req);
        q.expect.push(a);
        q.f32mode.push(false);
    }
}

fn nth_string(mut k: u64, len: usize, alpha: &[char]) -> String {
    let mut s = String::new();
    for _ in 0..len {
        s.push(alpha[(k % alpha.len() as u64) as usize]);
        k /= alpha.len() as u64;
    }
    s
}

fn declared_size_ok(text: &str) -> bool {
    match text.lines().next().and_then(|l| l.parse::<usize>().ok()) {
        Some(n) => n <= 2000,
        None => true,
    }
}

/// see the corpus job: result of `pvh scan-f32-double-rounding` (all positive finite f32, std only)
const F32_DOUBLE_ROUNDING: [u32; 1] = [0x15ae43fd];

fn gen_taxa(rng: &mut Rng, n: usize) -> Vec<String> {
    let fancy = rng.chance(1, 3);
    let mut v = unique_names(rng, n, fancy);
    if rng.chance(1, 5) {
        for (i, x) in v.iter_mut().enumerate() {
            *x = format!("sp|{}:{}(x)", i, x);
        }
    }
    // labels that START with a character that opens a comment or a header line in other formats (#, ;, >, %, //): a row is a row
    if rng.chance(1, 7) {
        for (i, x) in v.iter_mut().enumerate() {
            if i % 2 == 0 || rng.chance(1, 2) {
                *x = format!("{}{x}", ["#", ";", ">", "%", "//", "#!", "!"][(i + rng.below(7)) % 7]);
            }
        }
    }
    // names of exactly ten characters that are a prefix of another name (the classic layout cut names at ten columns)
    if v.len() >= 2 && rng.chance(1, 8) {
        let base = format!("Taxon_{:04}", rng.below(10000));
        v[0] = base.clone();
        v[1] = format!("{base}_melanogaster");
    }
    // labels that begin and / or end with a double quote (a verbatim quoted Newick label is such a name): no white space, so legal
    if rng.chance(1, 7) {
        for (i, x) in v.iter_mut().enumerate() {
            *x = match (i + rng.below(4)) % 4 { 0 => format!("\"{x}:b\""), 1 => format!("\"{x}"), 2 => format!("{x}\""), _ => format!("'{x}'") };
        }
    }
    // labels holding a comma (no white space, so legal) and labels longer than the ten columns of the classic layout whose tail
    // reads as a number
    if rng.chance(1, 6) {
        for (i, x) in v.iter_mut().enumerate() {
            *x = match (i + rng.below(4)) % 4 {
                0 => format!("b,{i}"),
                1 => format!("seq{:010}", i * 7 + 3),
                2 => format!("sample_{:07}.5", i),
                _ => format!("{x},{x}"),
            };
        }
    }
    // labels that READ as numbers (sample ids, accession numbers): a row label is never a header, a size or a distance
    if rng.chance(1, 5) {
        let numeric = ["101", "7", "0", "3", "42", "1e3", "-2", "+5", "0.5", "inf", "nan", "007", "18446744073709551616", "2", "1"];
        for (i, x) in v.iter_mut().enumerate() {
            if i < 2 || rng.chance(1, 2) {
                *x = if rng.chance(1, 3) { format!("{}", 100 + i) } else { numeric[(i * 7 + rng.below(numeric.len())) % numeric.len()].to_string() };
            }
        }
    }
    // control characters that are NOT white space (NUL, SOH, ESC, DEL, C1 controls other than NEL) are ordinary characters of a
    // label: "names contain no whitespace" covers them
    if rng.chance(1, 6) {
        for (i, x) in v.iter_mut().enumerate() {
            let c = ['\u{0}', '\u{1}', '\u{1b}', '\u{7f}', '\u{80}', '\u{9f}', '\u{200b}', '\u{feff}'][(i + rng.below(8)) % 8];
            *x = match i % 3 { 0 => format!("{x}{c}"), 1 => format!("{c}{x}"), _ => format!("t{c}{x}") };
        }
    }
    v
}

fn roundtrip(rng: &mut Rng, q: &mut Q, rep: &mut Report) {
    let n = match rng.below(12) { 0 => 1, 1 => 2, 2 => 0, _ => rng.range(1, 25) };
    let mut taxa = gen_taxa(rng, n);
    // repeated labels: "any distance matrix whose taxon names contain no whitespace" does not ask for distinct names, and
    // the text formats address cells by POSITION
    let dup = n >= 2 && rng.chance(1, 6);
    if dup {
        for _ in 0..rng.range(1, 3) {
            let (i, j) = (rng.below(n), rng.below(n));
            taxa[i] = taxa[j].clone();
        }
        rep.count("roundtrip:repeated-labels");
    }
    let _ = dup;
    let kind = match rng.below(3) { 0 => LenKind::Dyadic, 1 => LenKind::Decimal, _ => LenKind::Wild };
    let f32mode = rng.chance(1, 3);
    let cells64: Vec<f64> = (0..tri(n)).map(|_| gen_len(rng, kind)).collect();
    rep.count(&format!("roundtrip:{}:{kind:?}", if f32mode { "f32" } else { "f64" }));
    for square in [true, false] {
        let case;
        let (text, lexemes, bits): (Result<String, ()>, Vec<String>, String) = if f32mode {
            let cells: Vec<f32> = cells64.iter().map(|v| *v as f32).collect();
            let m = DistanceMatrix::new(taxa.clone(), &cells);
            case = format!("matrix f32 {} {:?} square={square}", enc_taxa(&taxa), cells.iter().map(|v| v.to_bits()).collect::<Vec<_>>());
            (guarded(AssertUnwindSafe(|| m.to_phylip(square).unwrap())).map_err(|_| ()), cells.iter().map(|v| format!("{v}")).collect(),
             format!("ok {} | {}", enc_taxa(&taxa), cells.iter().map(|v| format!("{:08x}", v.to_bits())).collect::<Vec<_>>().join(" ")))
        } else {
            let m = DistanceMatrix::new(taxa.clone(), &cells64);
            case = format!("matrix f64 {} {:?} square={square}", enc_taxa(&taxa), cells64.iter().map(|v| v.to_bits()).collect::<Vec<_>>());
            (guarded(AssertUnwindSafe(|| m.to_phylip(square).unwrap())).map_err(|_| ()), cells64.iter().map(|v| format!("{v}")).collect(),
             format!("ok {} | {}", enc_taxa(&taxa), cells64.iter().map(|v| canon_f64(*v)).collect::<Vec<_>>().join(" ")))
        };
        rep.case(&case, n >= 2);
        if n == 0 {
            rep.count("roundtrip:empty-matrix");
        }
        let Ok(text) = text else {
            rep.oracle("no-panic", "to_phylip", &case, "panic");
            continue;
        };
        // the same round trip through a FILE (fresh, or existing with longer content), for one matrix in five
        if !f32mode && rng.chance(1, 5) {
            let fresh = rng.chance(1, 2);
            let path = std::env::temp_dir().join(format!("pvh-c14r-{}-{}.phy", std::process::id(), rng.next() % 1_000_000_000));
            if !fresh {
                let _ = std::fs::write(&path, "9\nSTALE CONTENT OF AN EARLIER, LONGER FILE\n".repeat(60));
            }
            let mm = DistanceMatrix::new(taxa.clone(), &cells64);
            let p2 = path.clone();
            let got = match guarded(AssertUnwindSafe(|| mm.to_file(&p2, square).map_err(|e| format!("{e:?}")).and_then(|_| DistanceMatrix::<f64>::from_file(&p2, square).map_err(|e| format!("{e:?}"))))) {
                Err(_) => "panic".to_string(),
                Ok(Err(e)) => format!("err {e}"),
                Ok(Ok(r)) => format!("ok {} | {}", enc_taxa(&r.taxa), r.iter().map(|v| canon_f64(*v)).collect::<Vec<_>>().join(" ")),
            };
            let on_disk = std::fs::read_to_string(&path).unwrap_or_default();
            let _ = std::fs::remove_file(&path);
            rep.count("roundtrip:through-a-file");
            if got != bits {
                rep.oracle("roundtrip", "file", &format!("{case} to_file ({}) -> from_file", if fresh { "fresh path" } else { "existing longer file" }), &format!("{got} expected {bits}"));
            }
            if on_disk != text {
                rep.oracle("roundtrip", "file-content-differs-from-to_phylip", &format!("{case} to_file"), &format!("{on_disk:?} vs {text:?}"));
            }
        }
        // writer tie
        q.reqs.push(format!("ph.write\t{}\t{}\t{}", square as u8, enc_taxa(&taxa), if lexemes.is_empty() { "_".to_string() } else { lexemes.iter().map(|l| format!("h{}", hex(l))).collect::<Vec<_>>().join(" ") }));
        q.expect.push(format!("ok {}", hex(&text)));
        q.f32mode.push(f32mode);
        // parser tie + the round-trip oracle: taxa and every distance bit for bit
        let entries: Vec<&str> = if square { vec!["strict-square"] } else { vec!["tril", "strict-tril"] };
        for e in entries {
            let a = if f32mode { real_parse32(e, &text) } else { real_parse64(e, &text) };
            if a != bits {
                rep.oracle("roundtrip", &format!("{e}:{}", if a.starts_with("ok") { "differs" } else { a.as_str() }), &format!("ph.parse\t{e}\t{}", hex(&text)), &format!("{a} expected {bits}"));
            }
            q.reqs.push(format!("ph.parse\t{e}\t{}", hex(&text)));
            q.expect.push(a);
            q.f32mode.push(f32mode);
        }
    }
}

fn mutated(rng: &mut Rng, q: &mut Q, rep: &mut Report) {
    let n = rng.range(0, 6);
    let taxa = gen_taxa(rng, n);
    let cells: Vec<f64> = (0..tri(n)).map(|_| gen_len(rng, LenKind::Decimal)).collect();
    let m = DistanceMatrix::new(taxa.clone(), &cells);
    let square = rng.chance(1, 2);
    let Ok(mut text) = guarded(AssertUnwindSafe(|| m.to_phylip(square).unwrap())) else { return };
    let mut lines: Vec<String> = text.lines().map(|s| s.to_string()).collect();
    let kind = rng.below(14);
    rep.count(&format!("mutation:{kind}"));
    match kind {
        0 => lines.push(format!("extra  {}", (0..n).map(|_| "0").collect::<Vec<_>>().join("  "))),
        1 => { if lines.len() > 1 { let i = rng.range(1, lines.len() - 1); lines[i].push_str("  0.5"); } }
        2 => { if lines.len() > 1 { let i = rng.range(1, lines.len() - 1); let mut f: Vec<&str> = lines[i].split_whitespace().collect(); f.pop(); lines[i] = f.join("  "); } }
        3 => lines[0] = "0".into(),
        4 => lines[0] = format!("+{}", n),
        5 => lines[0] = format!("{} ", n),
        6 => { text = lines.join("\r\n") + "\r\n"; lines.clear(); }
        7 => { if lines.len() > 2 { lines.pop(); } }
        8 => { if lines.len() > 1 { let i = rng.range(1, lines.len() - 1); lines[i] = lines[i].replacen("0", "0.25", 1); } }
        9 => { if lines.len() > 1 { let i = rng.range(1, lines.len() - 1); lines.insert(i, String::new()); } }
        10 => lines[0] = format!("{}", n + 1),
        11 => { if lines.len() > 2 { let i = rng.range(1, lines.len() - 1); let j = rng.range(1, lines.len() - 1); lines.swap(i, j); } }
        12 => { if lines.len() > 1 { let i = rng.range(1, lines.len() - 1); lines[i] = lines[i].replace("  ", "\u{2003}\t"); } }
        _ => lines[0] = "-0".into(),
    }
    // on top of the mutation, sometimes give one row the label of another row
    if kind != 6 && lines.len() > 2 && rng.chance(1, 4) {
        let i = rng.range(1, lines.len() - 1);
        let j = rng.range(1, lines.len() - 1);
        if i != j {
            let lab = lines[j].split_whitespace().next().unwrap_or("x").to_string();
            let rest: Vec<String> = lines[i].split_whitespace().skip(1).map(|x| x.to_string()).collect();
            lines[i] = if rest.is_empty() { lab } else { format!("{lab}    {}", rest.join("  ")) };
            rep.count("mutation:+repeated-label");
        }
    }
    if !lines.is_empty() || kind != 6 {
        if kind != 6 {
            text = lines.join("\n");
            if rng.chance(3, 4) {
                text.push('\n');
            }
        }
    }
    rep.case(&format!("text {}", hex(&text)), true);
    if declared_size_ok(&text) {
        parse_all(&text, q, rep, true);
    }
}

/// A square text that is symmetric except in ONE pair of mirrored entries, over a value set full of zeros (0, -0, small
/// numbers): the strict parser must reject it whichever of the two entries was changed, whatever the other one is (a zero in
/// the earlier row must not be mistaken for "not written yet"), and accept the symmetric original.
fn one_asymmetric_pair(rng: &mut Rng, q: &mut Q, rep: &mut Report) {
    let n = rng.range(2, 6);
    let vals = ["0", "-0", "0.0", "1", "2", "0.5", "7", "1e-300"];
    let mut tab = vec![vec!["0".to_string(); n]; n];
    for i in 0..n {
        for j in 0..i {
            let v = if rng.chance(1, 2) { "0" } else { *rng.pick(&vals) };
            tab[i][j] = v.to_string();
            tab[j][i] = v.to_string();
        }
    }
    let render = |tab: &Vec<Vec<String>>| -> String {
        let mut s = format!("{n}\n");
        for (i, r) in tab.iter().enumerate() {
            s.push_str(&format!("s{i}  {}\n", r.join("  ")));
        }
        s
    };
    let sym = render(&tab);
    rep.case(&format!("text {}", hex(&sym)), true);
    parse_all(&sym, q, rep, true);
    if !real_parse64("strict-square", &sym).starts_with("ok") {
        rep.oracle("strict", "symmetric-matrix-refused", &format!("ph.parse\tstrict-square\t{}", hex(&sym)), &real_parse64("strict-square", &sym));
    }
    let (i, j) = loop {
        let (i, j) = (rng.below(n), rng.below(n));
        if i != j {
            break (i, j);
        }
    };
    let old: f64 = tab[i][j].parse().unwrap();
    let new = loop {
        let v = *rng.pick(&vals);
        if v.parse::<f64>().unwrap() != old {
            break v;
        }
    };
    tab[i][j] = new.to_string();
    let asym = render(&tab);
    rep.case(&format!("text {}", hex(&asym)), true);
    rep.count(if i < j { "asymmetric:upper-entry-changed" } else { "asymmetric:lower-entry-changed" });
    rep.count(if old == 0.0 { "asymmetric:from-zero" } else if new.parse::<f64>().unwrap() == 0.0 { "asymmetric:to-zero" } else { "asymmetric:between-nonzero" });
    parse_all(&asym, q, rep, true);
}

/// A symmetric square text in which ONE diagonal entry is replaced: the strict parser accepts it exactly when the entry
/// still equals zero (`0`, `-0`, `0.0`, `+0e5`), and rejects a negative, tiny, infinite or NaN diagonal.
fn one_diagonal_cell(rng: &mut Rng, q: &mut Q, rep: &mut Report) {
    let n = rng.range(1, 5);
    let mut tab = vec![vec!["0".to_string(); n]; n];
    for i in 0..n {
        for j in 0..i {
            let v = format!("{}", rng.range(0, 9) as f64 / 4.0);
            tab[i][j] = v.clone();
            tab[j][i] = v;
        }
    }
    let i = rng.below(n);
    let zero = rng.chance(1, 4);
    let v = if zero { *rng.pick(&["-0", "0.0", "+0e5", "-0.0e-3", "0"]) } else { *rng.pick(&["-0.5", "-inf", "1e-300", "-1e-300", "nan", "inf", "-1", "5e-324", "-5e-324", "1", "-nan", "-7e300"]) };
    tab[i][i] = v.to_string();
    let mut s = format!("{n}\n");
    for (k, r) in tab.iter().enumerate() {
        s.push_str(&format!("d{k}  {}\n", r.join("  ")));
    }
    rep.case(&format!("text {}", hex(&s)), true);
    rep.count(if zero { "diagonal:another-spelling-of-zero" } else { "diagonal:not-zero" });
    parse_all(&s, q, rep, true);
    let a = real_parse64("strict-square", &s);
    if zero && !a.starts_with("ok") {
        rep.oracle("strict", "zero-diagonal-refused", &format!("ph.parse\tstrict-square\t{}", hex(&s)), &a);
    }
    if !zero && a.starts_with("ok") {
        rep.oracle("strict", "non-zero-diagonal", &format!("ph.parse\tstrict-square\t{}", hex(&s)), "accepted");
    }
}

thread_local! { static SEED_HINT: std::cell::Cell<u64> = const { std::cell::Cell::new(1) }; }
fn rep_seed_hint() -> u64 { SEED_HINT.with(|s| s.get()) }

pub fn run(thorough: bool, seed: u64, driver: &str, rep: &mut Report) {
    SEED_HINT.with(|s| s.set(seed));
    enum Job {
        Exhaustive { len: usize, from: u64, to: u64 },
        Round { seed: u64, n: usize },
        Mutated { seed: u64, n: usize },
        Corpus,
    }
    let mut rng = Rng::new(seed);
    let alpha = ['0', '1', '.', 'a', ' ', '\n'];
    let mut jobs = vec![Job::Corpus];
    let max_len = if thorough { 9 } else { 7 };
    for len in 0..=max_len {
        let total = (alpha.len() as u64).pow(len as u32);
        let mut from = 0;
        while from < total {
            let to = (from + 40_000).min(total);
            jobs.push(Job::Exhaustive { len, from, to });
            from = to;
        }
    }
    for _ in 0..(if thorough { 400 } else { 16 }) {
        jobs.push(Job::Round { seed: rng.next(), n: if thorough { 500 } else { 150 } });
        jobs.push(Job::Mutated { seed: rng.next(), n: if thorough { 2000 } else { 400 } });
    }
    rep.notes.push(format!("all strings of length <= {max_len} over the alphabet 0 1 . a space newline were fed to the three parsing entry points (texts declaring a size above 2000 are skipped: allocation limits are outside the property)"));
    let d = driver.to_string();
    parallel(
        jobs,
        n_workers(),
        "C14",
        |job, rep| {
            let mut q = Q { reqs: vec![], expect: vec![], f32mode: vec![] };
            match job {
                Job::Corpus => {
                    for t in ["", "0\n", "1\na\n", "2\na  0  1\nb  1  0\n", "2\na  0  1\nb  1  0\nc  1  1\n", "2\na  0  1  7\nb  1  0\n", "2\na  0  1\nb  2  0\n", "2\na  1  1\nb  1  0\n",
                              "3\na\nb  1\nc  2  3\n", "3\na\nb  1\nc  2  3  4\n", "3\na\nb  1\n", "2\na\nb  x\n", "2\na\n\nb  1\n", "+2\na\nb  1\n", "2 \na\nb  1\n", "2\r\na\r\nb  1\r\n",
                              "18446744073709551616\n", "2\na\nb  1  zz\n", "2\na  0  1\na  1  0\n", "1\na  0\n", "1\na  5\n", "0", "2\na  0  nan\nb  nan  0\n", "2\na  0  inf\nb  inf  0\n", "2\na  -0  1e0\nb  1.0  0.0\n",
                              // found while proving the symmetry clause (its hypothesis "pairwise different names" was forced by the proof)
                              "3\na 0 1 0\nb 1 0 1\na 0 0 0\n", "2\na 0 1\na 1 0\n", "2\na\na 1\n", "3\na 0 1 2\nb 1 0 3\na 2 3 0\n"] {
                        rep.case(&format!("text {}", hex(t)), true);
                        parse_all(t, &mut q, rep, true);
                        rep.count("corpus");
                    }
                    // f32 values whose shortest decimal text is NOT read back through f64 (decimal -> f64 -> f32 double rounding): found
                    // by an exhaustive scan of all 2^31 positive finite f32 (`pvh scan-f32-double-rounding`, std only: exactly one
                    // value and its negative).  A parser that reads f32 entries through f64 misreads exactly these.
                    for &bits in F32_DOUBLE_ROUNDING.iter() {
                        let v = f32::from_bits(bits);
                        let taxa: Vec<String> = vec!["a".into(), "b".into(), "c".into()];
                        let cells: Vec<f32> = vec![v, -v, 1.0];
                        let m = DistanceMatrix::new(taxa.clone(), &cells);
                        let bits_s = format!("ok {} | {}", enc_taxa(&taxa), cells.iter().map(|x| format!("{:08x}", x.to_bits())).collect::<Vec<_>>().join(" "));
                        for square in [true, false] {
                            let case = format!("matrix f32 taxa={taxa:?} cells={:?} square={square}", cells.iter().map(|x| x.to_bits()).collect::<Vec<_>>());
                            rep.case(&case, true);
                            rep.count("corpus:f32-double-rounding");
                            let Ok(text) = guarded(AssertUnwindSafe(|| m.to_phylip(square).unwrap())) else { rep.oracle("no-panic", "to_phylip", &case, "panic"); continue };
                            let entries: Vec<&str> = if square { vec!["strict-square"] } else { vec!["tril", "strict-tril"] };
                            for e in entries {
                                let a = real_parse32(e, &text);
                                if a != bits_s {
                                    rep.oracle("roundtrip", &format!("{e}:{}", if a.starts_with("ok") { "differs" } else { a.as_str() }), &format!("ph.parse\t{e}\t{}", hex(&text)), &format!("{a} expected {bits_s} (f32)"));
                                }
                            }
                        }
                    }
                    // a matrix of more than a thousand taxa (what a real analysis writes): both layouts, every entry point, cell for cell
                    {
                        let n = 1000 + (rep_seed_hint() % 300) as usize;
                        let taxa: Vec<String> = (0..n).map(|i| format!("taxon{i}")).collect();
                        let cells: Vec<f64> = (0..tri(n)).map(|k| ((k * 7919) % 4096) as f64 / 64.0).collect();
                        let m = DistanceMatrix::new(taxa.clone(), &cells);
                        let want = format!("ok {} | {}", enc_taxa(&taxa), cells.iter().map(|v| canon_f64(*v)).collect::<Vec<_>>().join(" "));
                        for square in [true, false] {
                            let case = format!("matrix f64 of {n} taxa (cell k = ((k * 7919) mod 4096) / 64) square={square}");
                            rep.case(&case, true);
                            rep.count("corpus:thousand-taxa");
                            let Ok(text) = guarded(AssertUnwindSafe(|| m.to_phylip(square).unwrap())) else { rep.oracle("no-panic", "to_phylip", &case, "panic"); continue };
                            let entries: Vec<&str> = if square { vec!["strict-square"] } else { vec!["tril", "strict-tril"] };
                            for e in entries {
                                let a = real_parse64(e, &text);
                                if a != want {
                                    rep.oracle("roundtrip", &format!("{e}:large:{}", if a.starts_with("ok") { "differs" } else { a.as_str() }), &case, &format!("{} ...", a.chars().take(200).collect::<String>()));
                                }
                            }
                        }
                    }
                    // a device that opens but refuses data (a full disk): `to_file` reports the failure, it never answers Ok
                    if std::path::Path::new("/dev/full").exists() {
                        for n in [2usize, 5, 40] {
                            let taxa: Vec<String> = (0..n).map(|i| format!("s{i}")).collect();
                            let cells: Vec<f64> = (0..tri(n)).map(|i| 0.5 * (i as f64 + 1.0)).collect();
                            let m = DistanceMatrix::new(taxa, &cells);
                            for square in [true, false] {
                                rep.count("corpus:full-device");
                                let mm = m.clone();
                                if let Ok(Ok(())) = guarded(AssertUnwindSafe(|| mm.to_file(std::path::Path::new("/dev/full"), square).map_err(|_| ()))) {
                                    rep.oracle("io-error", "to_file-on-a-full-device-reported-success", &format!("matrix f64 of {n} taxa square={square} to_file(/dev/full)"), "Ok(())");
                                }
                            }
                        }
                    }
                    // writing to a FILE and reading it back is the same round trip; the file exists beforehand with longer content
                    for n in [1usize, 3, 6] {
                        let taxa: Vec<String> = (0..n).map(|i| format!("s{i}")).collect();
                        let cells: Vec<f64> = (0..tri(n)).map(|i| 0.125 * (i as f64 + 1.0)).collect();
                        let m = DistanceMatrix::new(taxa.clone(), &cells);
                        let want = format!("ok {} | {}", enc_taxa(&taxa), cells.iter().map(|v| canon_f64(*v)).collect::<Vec<_>>().join(" "));
                        for square in [true, false] {
                            let path = std::env::temp_dir().join(format!("pvh-c14-{}-{n}-{square}.phy", std::process::id()));
                            let _ = std::fs::write(&path, "STALE CONTENT OF AN EARLIER, LONGER FILE\n".repeat(40));
                            let case = format!("matrix f64 taxa={taxa:?} cells={cells:?} square={square} to_file (existing longer file) -> from_file");
                            rep.case(&case, true);
                            rep.count("corpus:file-roundtrip");
                            let p2 = path.clone();
                            let mm = m.clone();
                            let got = match guarded(AssertUnwindSafe(|| mm.to_file(&p2, square).map_err(|e| format!("{e:?}")).and_then(|_| DistanceMatrix::<f64>::from_file(&p2, square).map_err(|e| format!("{e:?}"))))) {
                                Err(_) => "panic".to_string(),
                                Ok(Err(e)) => format!("err {e}"),
                                Ok(Ok(r)) => format!("ok {} | {}", enc_taxa(&r.taxa), r.iter().map(|v| canon_f64(*v)).collect::<Vec<_>>().join(" ")),
                            };
                            if got != want {
                                rep.oracle("roundtrip", "file", &case, &format!("{got} expected {want}"));
                            }
                            let _ = std::fs::remove_file(&path);
                        }
                    }
                    // an EMPTY taxon name contains no whitespace, yet Phylip text cannot carry it: the row starts
                    // with blanks and its first distance is read as the name (known finding, see known_findings.json)
                    for n in 1..=4usize {
                        for pos in 0..n {
                            let mut taxa: Vec<String> = (0..n).map(|i| format!("L{i}")).collect();
                            taxa[pos] = String::new();
                            let cells: Vec<f64> = (0..tri(n)).map(|i| 1.0 + i as f64).collect();
                            let m = DistanceMatrix::new(taxa.clone(), &cells);
                            let bits = format!("ok {} | {}", enc_taxa(&taxa), cells.iter().map(|v| canon_f64(*v)).collect::<Vec<_>>().join(" "));
                            for square in [true, false] {
                                let case = format!("matrix f64 taxa={taxa:?} cells={cells:?} square={square}");
                                rep.case(&case, true);
                                rep.count("corpus:empty-taxon-name");
                                let Ok(text) = guarded(AssertUnwindSafe(|| m.to_phylip(square).unwrap())) else {
                                    rep.oracle("no-panic", "to_phylip", &case, "panic");
                                    continue;
                                };
                                let entries: Vec<&str> = if square { vec!["strict-square"] } else { vec!["tril", "strict-tril"] };
                                let mut bad = vec![];
                                for e in entries {
                                    let a = real_parse64(e, &text);
                                    if a != bits {
                                        bad.push(format!("{e}: {a}"));
                                    }
                                }
                                if !bad.is_empty() {
                                    rep.oracle("roundtrip", "empty-taxon-name", &case, &format!("text {text:?} parsed back as {bad:?}, expected {bits}"));
                                }
                                parse_all(&text, &mut q, rep, false);
                            }
                        }
                    }
                }
                Job::Exhaustive { len, from, to } => {
                    for k in from..to {
                        let t = nth_string(k, len, &alpha);
                        if !declared_size_ok(&t) {
                            rep.count("skipped:declared-size-above-2000");
                            continue;
                        }
                        rep.case(&format!("text {}", hex(&t)), t.contains('\n'));
                        parse_all(&t, &mut q, rep, true);
                    }
                    rep.count_n(&format!("exhaustive_len_{len}"), to - from);
                }
                Job::Round { seed, n } => {
                    let mut rng = Rng::new(seed);
                    for _ in 0..n {
                        roundtrip(&mut rng, &mut q, rep);
                    }
                }
                Job::Mutated { seed, n } => {
                    let mut rng = Rng::new(seed);
                    for k in 0..n {
                        mutated(&mut rng, &mut q, rep);
                        if k % 4 == 0 {
                            one_asymmetric_pair(&mut rng, &mut q, rep);
                        }
                        if k % 4 == 2 {
                            one_diagonal_cell(&mut rng, &mut q, rep);
                        }
                    }
                }
            }
            q.flush(&d, rep, "c14.phylip");
        },
        rep,
    );
}
