//! C13 — distance-matrix storage is a faithful symmetric table.
use crate::util::*;
use phylotree::distance::DistanceMatrix;
use std::panic::AssertUnwindSafe;

fn taxa(n: usize) -> Vec<String> {
    (0..n).map(|i| format!("t{i}")).collect()
}
fn enc_taxa(t: &[String]) -> String {
    if t.is_empty() { "_".into() } else { t.iter().map(|x| hex(x)).collect::<Vec<_>>().join(",") }
}
fn enc_cells(v: &[f64]) -> String {
    if v.is_empty() { "_".into() } else { v.iter().map(|x| (*x as i64).to_string()).collect::<Vec<_>>().join(" ") }
}
fn tri(n: usize) -> usize {
    n * n.saturating_sub(1) / 2
}

struct Q {
    reqs: Vec<String>,
    expect: Vec<String>,
    ctx: Vec<String>,
}
impl Q {
    fn push(&mut self, ctx: &str, req: String, expect: String) {
        self.reqs.push(req);
        self.expect.push(expect);
        self.ctx.push(ctx.to_string());
    }
    fn flush(&mut self, driver: &str, rep: &mut Report) {
        if self.reqs.is_empty() {
            return;
        }
        match run_driver(driver, &self.reqs) {
            Err(e) => rep.mismatch("c13.store", "driver-failed", "", "", &e),
            Ok(ans) => {
                rep.count_n("model_requests", ans.len() as u64);
                for i in 0..ans.len() {
                    let (m, e) = (ans[i].trim_end(), self.expect[i].trim_end());
                    let same = if e.starts_with("ok") || m.starts_with("ok") { m == e } else { m.split(' ').next() == e.split(' ').next() };
                    if !same {
                        let op = self.reqs[i].split('\t').take(2).collect::<Vec<_>>().join(".");
                        let cls = |a: &str| a.split(' ').next().unwrap_or("").to_string();
                        let sig = if cls(m) != cls(e) { format!("{op}:{}!={}", cls(e), cls(m)) } else { format!("{op}:differs") };
                        rep.mismatch("c13.store", &sig, &format!("{}\n{}", self.ctx[i], self.reqs[i]), e, m);
                    }
                }
            }
        }
        self.reqs.clear();
        self.expect.clear();
        self.ctx.clear();
    }
}

fn res_get(m: &DistanceMatrix<f64>, a: &str, b: &str) -> String {
    match guarded(AssertUnwindSafe(|| m.get(a, b).map(|v| *v))) {
        Err(_) => "panic".into(),
        Ok(Ok(v)) => format!("ok {}", v as i64),
        Ok(Err(e)) => format!("err {:?}", e).split('(').next().unwrap().to_string(),
    }
}

fn check_matrix(n: usize, rng: &mut Rng, q: &mut Q, rep: &mut Report, with_sets: bool) {
    let t = taxa(n);
    let cells: Vec<f64> = (0..tri(n)).map(|k| (k + 1) as f64).collect();
    let m = DistanceMatrix::new(t.clone(), &cells);
    let new_cmd = format!("mx.new\t{}\t{}", enc_taxa(&t), enc_cells(&cells));
    rep.case(&new_cmd, n >= 3);
    q.push("", new_cmd.clone(), "ok".into());
    // ---- every ordered pair: one cell per unordered pair, either order, diagonal zero ----
    let mut seen = std::collections::HashMap::new();
    for i in 0..n {
        for j in 0..n {
            let a = res_get(&m, &t[i], &t[j]);
            q.push(&new_cmd, format!("mx\tget\t{}\t{}", hex(&t[i]), hex(&t[j])), a.clone());
            let Some(v) = a.strip_prefix("ok ").and_then(|x| x.parse::<i64>().ok()) else {
                rep.oracle("get", "error-on-valid-pair", &format!("{new_cmd}\nmx\tget\t{}\t{}", hex(&t[i]), hex(&t[j])), &a);
                continue;
            };
            if i == j {
                if v != 0 {
                    rep.oracle("get", "diagonal-not-zero", &new_cmd, &a);
                }
            } else {
                let key = (i.min(j), i.max(j));
                if let Some(old) = seen.insert(key, v) {
                    if old != v {
                        rep.oracle("get", "asymmetric-read", &format!("{new_cmd}\nmx\tget\t{}\t{}", hex(&t[i]), hex(&t[j])), &format!("{old} vs {v}"));
                    }
                }
            }
        }
    }
    // each unordered pair its own cell, each cell exactly one pair
    let mut vals: Vec<i64> = seen.values().cloned().collect();
    vals.sort();
    if vals != (1..=tri(n) as i64).collect::<Vec<_>>() {
        rep.oracle("bijection", "pairs-vs-cells", &new_cmd, &format!("{vals:?}"));
    }
    q.push(&new_cmd, "mx\tget\t7a7a\t7430".into(), res_get(&m, "zz", "t0"));
    // ---- iteration, map, extrema ----
    let it = guarded(AssertUnwindSafe(|| m.indexed_iter().map(|((i, j), v)| format!("{i},{j}={}", *v as i64)).collect::<Vec<_>>().join(" ")));
    match &it {
        Ok(s) => {
            q.push(&new_cmd, "mx\titer".into(), format!("ok {s}"));
            for ent in s.split(' ').filter(|x| !x.is_empty()) {
                let (ij, v) = ent.split_once('=').unwrap();
                let (i, j) = ij.split_once(',').unwrap();
                let (i, j): (usize, usize) = (i.parse().unwrap(), j.parse().unwrap());
                if i >= n || j >= n || res_get(&m, &t[i], &t[j]) != format!("ok {v}") {
                    rep.oracle("indexed-iter", "disagrees-with-get", &format!("{new_cmd}\nmx\titer"), ent);
                }
            }
        }
        Err(_) => rep.oracle("no-panic", "indexed_iter", &new_cmd, "panic"),
    }
    let mp = guarded(AssertUnwindSafe(|| m.to_map()));
    match mp {
        Err(_) => {
            if n > 0 {
                rep.oracle("no-panic", "to_map", &format!("{new_cmd}\nmx\ttomap"), "to_map panicked");
            }
            q.push(&new_cmd, "mx\ttomap".into(), "panic".into());
        }
        Ok(map) => {
            let mut ents: Vec<String> = map.iter().map(|((a, b), v)| format!("{},{}=ok {}", hex(a), hex(b), *v as i64)).collect();
            ents.sort();
            q.push(&new_cmd, "mx\ttomap".into(), format!("ok {}", ents.join(" ")));
            if map.len() != n * n {
                rep.oracle("to-map", "not-all-ordered-pairs", &new_cmd, &format!("{} entries for {n} taxa", map.len()));
            }
            for ((a, b), v) in map.iter() {
                if res_get(&m, a, b) != format!("ok {}", *v as i64) {
                    rep.oracle("to-map", "disagrees-with-get", &new_cmd, &format!("{a},{b}={v}"));
                }
            }
        }
    }
    // extrema with ties: overwrite some cells with equal values
    let mut m2 = m.clone();
    let mut c2 = cells.clone();
    if n >= 3 {
        for _ in 0..3 {
            let (i, j) = (rng.below(n), rng.below(n));
            if i != j {
                let v = *rng.pick(&[0.0, 0.0, 1e6, 1e6, 5.0]);
                let _ = m2.set(&t[i], &t[j], v);
                let (a, b) = (i.max(j), i.min(j));
                c2[a * (a - 1) / 2 + b] = v;
            }
        }
    }
    let cmd2 = format!("mx.new\t{}\t{}", enc_taxa(&t), enc_cells(&c2));
    q.push("", cmd2.clone(), "ok".into());
    for (name, r) in [("min", m2.min()), ("max", m2.max())] {
        let e = match r {
            None => "ok -".to_string(),
            Some(((i, j), v)) => format!("ok {i} {j} {}", v as i64),
        };
        q.push(&cmd2, format!("mx\t{name}"), e.clone());
        if let Some(((i, j), v)) = r {
            let all: Vec<f64> = m2.iter().cloned().collect();
            let best = if name == "min" { all.iter().cloned().fold(f64::INFINITY, f64::min) } else { all.iter().cloned().fold(f64::NEG_INFINITY, f64::max) };
            if v != best || res_get(&m2, &t[i], &t[j]) != format!("ok {}", v as i64) {
                rep.oracle("extremum", name, &format!("{cmd2}\nmx\t{name}"), &e);
            }
        }
    }
    // ---- set: read back for that pair in either order and for no other pair ----
    if with_sets {
        for i in 0..n {
            for j in 0..n {
                let mut w = m.clone();
                let val = 1000.0 + (i * n + j) as f64;
                let r = guarded(AssertUnwindSafe(|| w.set(&t[i], &t[j], val)));
                let ans = match &r {
                    Err(_) => "panic".to_string(),
                    Ok(Ok(())) => "ok".to_string(),
                    Ok(Err(e)) => format!("err {:?}", e).split('(').next().unwrap().to_string(),
                };
                q.push("", new_cmd.clone(), "ok".into());
                let ctx = format!("{new_cmd}\nmx.set\t{}\t{}\t{}", hex(&t[i]), hex(&t[j]), val as i64);
                q.push(&new_cmd, format!("mx.set\t{}\t{}\t{}", hex(&t[i]), hex(&t[j]), val as i64), ans.clone());
                if i == j {
                    if !ans.starts_with("err") {
                        rep.oracle("set", "nonzero-diagonal-accepted", &ctx, &ans);
                    }
                    // setting the diagonal to zero is accepted and changes NOTHING: every cell reads as before
                    let mut w0 = m.clone();
                    match guarded(AssertUnwindSafe(|| w0.set(&t[i], &t[j], 0.0).is_err())) {
                        Err(_) => rep.oracle("no-panic", "set-zero-on-the-diagonal", &ctx, "panic"),
                        Ok(true) => rep.oracle("set", "zero-diagonal-refused", &ctx, ""),
                        Ok(false) => {
                            let same = guarded(AssertUnwindSafe(|| w0.iter().zip(m.iter()).all(|(a, b)| a.to_bits() == b.to_bits()))).unwrap_or(false);
                            if !same {
                                rep.oracle("set", "zero-on-the-diagonal-changed-a-cell", &ctx, "");
                            }
                        }
                    }
                    continue;
                }
                if ans != "ok" {
                    rep.oracle("set", "refused-valid-pair", &ctx, &ans);
                    continue;
                }
                // dump compare (model) and full read-back (oracle)
                let all: Vec<f64> = w.iter().cloned().collect();
                q.push(&ctx, "mx\tdump".into(), format!("ok {} | {}", t.iter().map(|x| hex(x)).collect::<Vec<_>>().join(","), all.iter().map(|x| (*x as i64).to_string()).collect::<Vec<_>>().join(" ")));
                for a in 0..n {
                    for b in 0..n {
                        let got = res_get(&w, &t[a], &t[b]);
                        let want = if (a == i && b == j) || (a == j && b == i) { format!("ok {}", val as i64) } else { res_get(&m, &t[a], &t[b]) };
                        if got != want {
                            rep.oracle("set", "read-back", &format!("{ctx}\nmx\tget\t{}\t{}", hex(&t[a]), hex(&t[b])), &format!("{got} expected {want}"));
                        }
                    }
                }
            }
        }
    }
}

/// extrema on matrices containing infinities: the search must return an entry whenever the matrix has a cell,
/// and agree with reads.  The model sees an order-isomorphic integer encoding (inf = +-10^12).
fn extrema_special(q: &mut Q, rep: &mut Report) {
    extrema_over(q, rep, &[0.0f64, 1.0, f64::INFINITY, f64::NEG_INFINITY], &|v: f64| -> i64 { if v == f64::INFINITY { 1_000_000_000_000 } else if v == f64::NEG_INFINITY { -1_000_000_000_000 } else { v as i64 } }, "with-infinite-entries");
    // neighbouring floats: 0.3 and its two neighbours are three DIFFERENT values, one ulp apart (the model sees their ranks)
    let (lo, mid, hi) = (f64::from_bits(0.3f64.to_bits() - 1), 0.3f64, f64::from_bits(0.3f64.to_bits() + 1));
    extrema_over(q, rep, &[lo, mid, hi, 1.0], &move |v: f64| -> i64 { if v == lo { 0 } else if v == mid { 1 } else if v == hi { 2 } else { 3 } }, "with-adjacent-floats");
    // tiny magnitudes: differences far below machine epsilon in absolute terms
    extrema_over(q, rep, &[1e-300, 2e-300, 3e-300, 0.0], &|v: f64| -> i64 { (v * 1e300).round() as i64 }, "with-tiny-magnitudes");
}

fn extrema_over(q: &mut Q, rep: &mut Report, vals: &[f64], enc: &dyn Fn(f64) -> i64, label: &str) {
    for n in 2..=4usize {
        let cells_n = tri(n);
        let total = (vals.len() as u64).pow(cells_n as u32);
        for code in 0..total {
            let mut k = code;
            let cells: Vec<f64> = (0..cells_n).map(|_| { let v = vals[(k % 4) as usize]; k /= 4; v }).collect();
            let t = taxa(n);
            let m = DistanceMatrix::new(t.clone(), &cells);
            let cmd = format!("mx.new\t{}\t{}", enc_taxa(&t), cells.iter().map(|v| enc(*v).to_string()).collect::<Vec<_>>().join(" "));
            q.push("", cmd.clone(), "ok".into());
            rep.count(&format!("extrema_{label}"));
            for (name, r) in [("min", m.min()), ("max", m.max())] {
                let e = match r {
                    None => "ok -".to_string(),
                    Some(((i, j), v)) => format!("ok {i} {j} {}", enc(v)),
                };
                q.push(&cmd, format!("mx\t{name}"), e.clone());
                // first extremum in cell order, from reads
                let mut best: Option<(usize, f64)> = None;
                for (k, v) in cells.iter().enumerate() {
                    best = match best {
                        None => Some((k, *v)),
                        Some((_, b)) if (name == "min" && *v < b) || (name == "max" && *v > b) => Some((k, *v)),
                        b => b,
                    };
                }
                let ok = match (r, best) {
                    (Some(((i, j), v)), Some((k, b))) => v == b && i * (i - 1) / 2 + j == k && m.get(&t[i], &t[j]).map(|x| *x == v).unwrap_or(false),
                    (None, None) => true,
                    _ => false,
                };
                if !ok {
                    rep.oracle("extremum", &format!("{name}:{label}"), &format!("{cmd}\nmx\t{name}"), &format!("{e} but cells {cells:?}"));
                }
            }
        }
    }
}

/// independent integer inverse of the triangular index (binary search on u128)
fn int_inverse(k: u64) -> (u64, u64) {
    let (mut lo, mut hi) = (0u128, 1u128 << 33);
    // largest p with p(p+1)/2 <= k
    while lo < hi {
        let mid = (lo + hi + 1) / 2;
        if mid * (mid + 1) / 2 <= k as u128 {
            lo = mid;
        } else {
            hi = mid - 1;
        }
    }
    let p = lo as u64;
    (p + 1, k - (p as u128 * (p as u128 + 1) / 2) as u64)
}

/// Repeated taxon labels (legal through `new`, `set_taxa` and the strict Phylip parser, which documents that row labels need
/// not be distinct): for every by-name operation a label names its FIRST position, and the pair-keyed map — whose keys are
/// labels — must agree with the pairwise reads through those labels; identical labels read zero.
fn check_repeated_labels(n: usize, rng: &mut Rng, q: &mut Q, rep: &mut Report) {
    let k = (n - 1 - rng.below(2.min(n - 1))).max(1);
    let mut t: Vec<String> = (0..n).map(|i| format!("t{}", if i < k { i } else { rng.below(k) })).collect();
    rng.shuffle(&mut t);
    let cells: Vec<f64> = (0..tri(n)).map(|c| (c + 1) as f64).collect();
    let via_set_taxa = rng.chance(1, 2);
    let mut script;
    let m = if via_set_taxa {
        let t0 = taxa(n);
        let mut m = DistanceMatrix::new(t0.clone(), &cells);
        script = format!("mx.new\t{}\t{}", enc_taxa(&t0), enc_cells(&cells));
        q.push("", script.clone(), "ok".into());
        let cmd = format!("mx.settaxa\t{}", enc_taxa(&t));
        let r = m.set_taxa(t.clone());
        script.push('\n');
        script.push_str(&cmd);
        q.push(&script, cmd, if r.is_ok() { "ok".into() } else { "err".into() });
        if r.is_err() {
            rep.oracle("set-taxa", "refused", &script, &format!("{r:?}"));
            return;
        }
        m
    } else {
        script = format!("mx.new\t{}\t{}", enc_taxa(&t), enc_cells(&cells));
        q.push("", script.clone(), "ok".into());
        DistanceMatrix::new(t.clone(), &cells)
    };
    rep.case(&script, true);
    rep.count("repeated_label_matrices");
    let mut distinct = t.clone();
    distinct.sort();
    distinct.dedup();
    match guarded(AssertUnwindSafe(|| m.to_map())) {
        Err(_) => rep.oracle("no-panic", "to_map", &format!("{script}\nmx\ttomapd"), "to_map panicked"),
        Ok(map) => {
            let mut ents: Vec<String> = map.iter().map(|((a, b), v)| format!("{},{}=ok {}", hex(a), hex(b), *v as i64)).collect();
            ents.sort();
            q.push(&script, "mx\ttomapd".into(), format!("ok {}", ents.join(" ")));
            if map.len() != distinct.len() * distinct.len() {
                rep.oracle("to-map", "not-all-ordered-pairs", &format!("{script}\nmx\ttomapd"), &format!("{} entries for {} distinct labels", map.len(), distinct.len()));
            }
            for ((a, b), v) in map.iter() {
                let g = res_get(&m, a, b);
                if g != format!("ok {}", *v as i64) {
                    rep.oracle("to-map", "disagrees-with-get", &format!("{script}\nmx\ttomapd\nmx\tget\t{}\t{}", hex(a), hex(b)), &format!("map {a},{b}={v}; get: {g}"));
                }
                if a == b && *v != 0.0 {
                    rep.oracle("to-map", "identical-taxa-not-zero", &format!("{script}\nmx\ttomapd"), &format!("{a},{b}={v}"));
                }
            }
        }
    }
    // reads by label: the first position carrying the label answers, in either order
    for a in distinct.iter() {
        for b in distinct.iter() {
            let g = res_get(&m, a, b);
            q.push(&script, format!("mx\tget\t{}\t{}", hex(a), hex(b)), g.clone());
            let (i, j) = (t.iter().position(|x| x == a).unwrap(), t.iter().position(|x| x == b).unwrap());
            let want = if i == j { 0 } else { let (hi, lo) = (i.max(j), i.min(j)); (hi * (hi - 1) / 2 + lo + 1) as i64 };
            if g != format!("ok {want}") {
                rep.oracle("get", "repeated-label-not-first-position", &format!("{script}\nmx\tget\t{}\t{}", hex(a), hex(b)), &format!("{g} expected {want}"));
            }
        }
    }
}

fn cv<T: From<f32>>(x: f32) -> T {
    <T as From<f32>>::from(x)
}

fn large_one<T: phylotree::distance::PairwiseDist + From<f32> + Send + 'static>(n: usize, plant: usize, ty: &str, rep: &mut Report) {
    let case = format!("mx.large\t{ty}\t{n}\tplant={plant}");
    let cells = tri(n);
    let r = guarded(move || -> Result<(), String> {
        let one: T = cv::<T>(1.0);
        let mut v: Vec<T> = vec![one; cells];
        v[plant] = cv::<T>(0.25);
        let hi = cells - 1 - (plant % 7);
        if hi != plant {
            v[hi] = cv::<T>(7.5);
        }
        let m = DistanceMatrix::new((0..n).map(|i| format!("t{i}")).collect(), &v);
        let mut k = 0u64;
        for ((i, j), _) in m.indexed_iter() {
            let (wi, wj) = int_inverse(k);
            if (i as u64, j as u64) != (wi, wj) {
                return Err(format!("indexed_iter cell {k}: ({i},{j}) expected ({wi},{wj})"));
            }
            k += 1;
        }
        if k != cells as u64 {
            return Err(format!("indexed_iter listed {k} cells of {cells}"));
        }
        let (pi, pj) = int_inverse(plant as u64);
        match m.min() {
            Some(((i, j), d)) if (i as u64, j as u64) == (pi, pj) && d == cv::<T>(0.25) => {}
            other => return Err(format!("min: {:?} expected (({pi},{pj}), 0.25)", other.map(|x| x.0))),
        }
        if hi != plant {
            let (hi_i, hi_j) = int_inverse(hi as u64);
            match m.max() {
                Some(((i, j), d)) if (i as u64, j as u64) == (hi_i, hi_j) && d == cv::<T>(7.5) => {}
                other => return Err(format!("max: {:?} expected (({hi_i},{hi_j}), 7.5)", other.map(|x| x.0))),
            }
        }
        match m.get(&format!("t{pi}"), &format!("t{pj}")) {
            Ok(d) if *d == cv::<T>(0.25) => {}
            other => return Err(format!("get(t{pi},t{pj}): {:?}", other.map(|_| ()))),
        }
        Ok(())
    });
    rep.count("large_matrices");
    rep.case(&case, true);
    match r {
        Err(_) => rep.oracle("large", "panic", &case, "a positional view of a large matrix panicked"),
        Ok(Err(e)) => rep.oracle("large", "positional-view-differs", &case, &e),
        Ok(Ok(())) => {}
    }
}

fn large_matrices(thorough: bool, rng: &mut Rng, rep: &mut Report) {
    let sizes: Vec<usize> = if thorough { vec![4609, 4700, 5793, 8192, 9000] } else { vec![4609 + rng.below(40), 5000 + rng.below(1500)] };
    for n in sizes {
        let cells = tri(n);
        // the unique minimum sits in one of the last rows (where a wrong inverse shows), the maximum near the very end
        let plant = cells - 1 - rng.below(3 * n);
        large_one::<f32>(n, plant, "f32", rep);
        large_one::<f64>(n, plant, "f64", rep);
    }
}

pub fn run(thorough: bool, seed: u64, driver: &str, rep: &mut Report) {
    let mut rng = Rng::new(seed);
    let mut q = Q { reqs: vec![], expect: vec![], ctx: vec![] };
    for i in 0..(if thorough { 3000 } else { 300 }) {
        check_repeated_labels(2 + i % 7, &mut rng, &mut q, rep);
    }
    q.flush(driver, rep);
    let max_n = if thorough { 60 } else { 40 };
    let set_n = if thorough { 16 } else { 10 };
    for n in 0..=max_n {
        check_matrix(n, &mut rng, &mut q, rep, n <= set_n);
        rep.count("sizes_exhaustive_over_cells");
        if q.reqs.len() > 50_000 {
            q.flush(driver, rep);
        }
    }
    // random set/get sequences against a plain n x n table
    for _ in 0..(if thorough { 2000 } else { 200 }) {
        let n = rng.range(2, 25);
        let mut t = taxa(n);
        // labels that READ as positions (0-based or 1-based numbers in shuffled order: a label is never a position) and a label
        // of exactly ten characters that is a prefix of another one
        match rng.below(6) {
            0 => { t = (0..n).map(|i| i.to_string()).collect(); rng.shuffle(&mut t); rep.count("sequences:numeric-labels-0-based"); }
            1 => { t = (1..=n).map(|i| i.to_string()).collect(); rng.shuffle(&mut t); rep.count("sequences:numeric-labels-1-based"); }
            2 => { t[0] = "Drosophila".into(); t[1] = "Drosophila_melanogaster".into(); let k = rng.below(n); t.swap(0, k); rep.count("sequences:ten-character-prefix"); }
            _ => {}
        }
        let mut relabels = 0;
        let mut m = DistanceMatrix::new(t.clone(), &vec![0.0; tri(n)]);
        let mut table = vec![vec![0i64; n]; n];
        let new_cmd = format!("mx.new\t{}\t{}", enc_taxa(&t), enc_cells(&vec![0.0; tri(n)]));
        q.push("", new_cmd.clone(), "ok".into());
        let mut script = new_cmd.clone();
        for _ in 0..30 {
            let (i, j) = (rng.below(n), rng.below(n));
            if rng.chance(1, 8) {
                // relabel (`set_taxa`) in the middle of the sequence, i.e. AFTER by-name lookups were made on this object:
                // a permutation of the current labels, fresh labels, or (refused) a list of the wrong length; the plain
                // table is positional, so every later by-name access must resolve through the NEW labels
                let mut t2: Vec<String> = match rng.below(3) {
                    0 => { let mut v = t.clone(); rng.shuffle(&mut v); v }
                    1 => { relabels += 1; (0..n).map(|k| format!("r{relabels}_{k}")).collect() }
                    _ => { let mut v = t.clone(); v.rotate_left(1); v }
                };
                let wrong = rng.chance(1, 6);
                if wrong {
                    t2.push("extra".into());
                }
                let r = m.set_taxa(t2.clone());
                let cmd = format!("mx.settaxa\t{}", enc_taxa(&t2));
                script.push('\n');
                script.push_str(&cmd);
                q.push(&script, cmd.clone(), if r.is_ok() { "ok".into() } else { "err".into() });
                if r.is_ok() != !wrong {
                    rep.oracle("set-taxa", if wrong { "wrong-length-accepted" } else { "refused" }, &script, &format!("{r:?}"));
                }
                if r.is_ok() {
                    t = t2;
                    if m.taxa != t {
                        rep.oracle("set-taxa", "labels-not-replaced", &script, &format!("{:?}", m.taxa));
                    }
                }
                rep.count("relabel_ops");
                // positional views must agree with by-name reads through the current labels
                for ((a, b), v) in m.indexed_iter() {
                    if a >= n || b >= n || table[a][b] != *v as i64 || res_get(&m, &t[a], &t[b]) != format!("ok {}", *v as i64) {
                        rep.oracle("sequence", "indexed-iter-vs-get-after-relabel", &script, &format!("({a},{b})={v}"));
                        break;
                    }
                }
                continue;
            }
            if rng.chance(1, 2) {
                let v = rng.range(1, 999) as i64;
                let cmd = format!("mx.set\t{}\t{}\t{v}", hex(&t[i]), hex(&t[j]));
                script.push('\n');
                script.push_str(&cmd);
                let r = match guarded(AssertUnwindSafe(|| m.set(&t[i], &t[j], v as f64))) {
                    Ok(r) => r.map_err(|_| ()),
                    Err(_) => {
                        rep.oracle("no-panic", "set", &script, "panic");
                        break;
                    }
                };
                q.push(&script, cmd, if r.is_ok() { "ok".into() } else { "err".into() });
                if r.is_ok() && i != j {
                    table[i][j] = v;
                    table[j][i] = v;
                }
            } else {
                let a = res_get(&m, &t[i], &t[j]);
                let cmd = format!("mx\tget\t{}\t{}", hex(&t[i]), hex(&t[j]));
                q.push(&script, cmd.clone(), a.clone());
                if a != format!("ok {}", table[i][j]) {
                    rep.oracle("sequence", "get-after-sets", &format!("{script}\n{cmd}"), &format!("{a} expected {}", table[i][j]));
                }
            }
        }
        rep.case(&script, true);
        rep.count("random_sequences");
    }
    extrema_special(&mut q, rep);
    q.flush(driver, rep);
    // ---- matrices of several thousand taxa through the PUBLIC positional views, in both element types ----
    // (the hook below exercises the free f64 index functions far beyond allocatable sizes; this exercises the methods of the
    // generic container itself, whose arithmetic could depend on the element type, at the sizes a real analysis has)
    large_matrices(thorough, &mut rng, rep);
    // ---- index functions through the hook: the crate's floating-point inverse vs the integer inverse ----
    let mut checked = 0u64;
    let mut test_k = |k: u64, rep: &mut Report| {
        checked += 1;
        let (wi, wj) = int_inverse(k);
        match guarded(move || phylotree::verif::rowvec_to_tril_index(0, k as usize)) {
            Err(_) => rep.oracle("float-inverse", "panics", &format!("mx\tinv\t{k}"), &format!("rowvec_to_tril_index({k}) panicked, expected ({wi},{wj})")),
            Ok((i, j)) => {
                if (i as u64, j as u64) != (wi, wj) {
                    rep.oracle("float-inverse", "differs-from-integer-inverse", &format!("mx\tinv\t{k}"), &format!("({i},{j}) expected ({wi},{wj})"));
                }
            }
        }
        let back = phylotree::verif::tril_to_rowvec_index(0, wi as usize, wj as usize) as u64;
        if back != k || phylotree::verif::tril_to_rowvec_index(0, wj as usize, wi as usize) as u64 != k {
            rep.oracle("index", "tril-not-inverse", &format!("mx\tidx\t{wi}\t{wj}"), &format!("{back} expected {k}"));
        }
    };
    for k in 0..20_000u64 {
        test_k(k, rep);
    }
    // boundaries T(p)-1, T(p), T(p)+1 for triangular numbers below 2^50
    let pmax: u64 = 47_453_132; // T(pmax) < 2^50
    let step = if thorough { 1 } else { 997 };
    let mut p = 2u64;
    while p <= pmax {
        let tp = (p as u128 * (p as u128 + 1) / 2) as u64;
        for k in [tp - 1, tp, tp + 1] {
            test_k(k, rep);
        }
        p += if thorough { step } else { step + rng.below(7) as u64 };
    }
    rep.count_n("float_inverse_boundary_checks", checked);
    rep.notes.push(if thorough { "every triangular-number boundary below 2^50 was checked for the floating-point inverse (exhaustive over boundaries; between boundaries agreement follows from monotonicity of IEEE sqrt, -, /, floor)".into() } else { "a stride sample of triangular-number boundaries below 2^50 was checked for the floating-point inverse".into() });
    // the model's integer inverse and cell function on a prefix
    let mut q2 = Q { reqs: vec![], expect: vec![], ctx: vec![] };
    for k in 0..3000u64 {
        let (i, j) = int_inverse(k);
        q2.push("", format!("mx\tinv\t{k}"), format!("ok {i} {j}"));
        q2.push("", format!("mx\tidx\t{i}\t{j}"), format!("ok {k}"));
        q2.push("", format!("mx\tidx\t{j}\t{i}"), format!("ok {k}"));
    }
    q2.flush(driver, rep);
}
