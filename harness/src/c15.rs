//! C15 — UPGMA builds the correct ultrametric clustering tree.
use crate::gen::*;
use crate::util::*;
use phylotree::distance::DistanceMatrix;
use std::collections::BTreeSet;
use std::panic::AssertUnwindSafe;

fn tri(n: usize) -> usize {
    n * n.saturating_sub(1) / 2
}
fn taxa(n: usize, rng: &mut Rng) -> Vec<String> {
    // any taxon order: names are not sorted
    let mut v: Vec<String> = (0..n).map(|i| format!("t{i}")).collect();
    rng.shuffle(&mut v);
    v
}

#[derive(Clone, Debug)]
struct R {
    name: Option<String>,
    len: Option<(f64, String)>, // value, exact text (model side) or empty
    kids: Vec<R>,
}

fn from_rose(r: &Rose) -> R {
    R { name: r.name.clone(), len: r.len.map(|l| (l, String::new())), kids: r.kids.iter().map(from_rose).collect() }
}

/// parses the model's `(kids)name:len` syntax
fn parse_model(s: &str) -> Option<R> {
    fn node(b: &[u8], i: &mut usize) -> Option<R> {
        let mut kids = vec![];
        if *i < b.len() && b[*i] == b'(' {
            *i += 1;
            loop {
                kids.push(node(b, i)?);
                if *i >= b.len() {
                    return None;
                }
                if b[*i] == b',' {
                    *i += 1;
                } else if b[*i] == b')' {
                    *i += 1;
                    break;
                } else {
                    return None;
                }
            }
        }
        let st = *i;
        while *i < b.len() && b[*i] != b':' {
            *i += 1;
        }
        let name = dec_opt_str(std::str::from_utf8(&b[st..*i]).ok()?)?;
        *i += 1;
        let st = *i;
        while *i < b.len() && b[*i] != b',' && b[*i] != b')' {
            *i += 1;
        }
        let ls = std::str::from_utf8(&b[st..*i]).ok()?;
        let len = if ls == "-" { None } else { Some((rat_to_f64(ls)?, ls.to_string())) };
        Some(R { name, len, kids })
    }
    let b = s.as_bytes();
    let mut i = 0;
    let r = node(b, &mut i)?;
    if i == b.len() { Some(r) } else { None }
}

fn rat_to_f64(s: &str) -> Option<f64> {
    match s.split_once('/') {
        None => s.parse::<f64>().ok(),
        Some((p, q)) => Some(p.parse::<f64>().ok()? / q.parse::<f64>().ok()?),
    }
}
/// is the rational exactly representable so that the f64 computation must hit it exactly?
fn is_small_dyadic(s: &str) -> bool {
    match s.split_once('/') {
        None => s.trim_start_matches('-').len() <= 15,
        Some((p, q)) => p.trim_start_matches('-').len() <= 12 && q.parse::<u64>().map_or(false, |d| d.is_power_of_two() && d <= (1 << 20)),
    }
}

fn same_tree(real: &R, model: &R, exact: bool, scale: f64) -> Result<(), String> {
    if real.name != model.name {
        return Err(format!("name {:?} vs {:?}", real.name, model.name));
    }
    if real.kids.len() != model.kids.len() {
        return Err(format!("arity {} vs {}", real.kids.len(), model.kids.len()));
    }
    match (&real.len, &model.len) {
        (None, None) => {}
        (Some((a, _)), Some((b, txt))) => {
            // the model computes on the unscaled integers; the real matrix was multiplied by a power of two (exact)
            let b = &(*b * scale);
            let ok = if exact && is_small_dyadic(txt) { a == b } else { (a - b).abs() <= 1e-9 * a.abs().max(b.abs()).max(scale) };
            if !ok {
                return Err(format!("length {a} vs {txt}"));
            }
        }
        (a, b) => return Err(format!("length presence {a:?} vs {b:?}")),
    }
    for (x, y) in real.kids.iter().zip(model.kids.iter()) {
        same_tree(x, y, exact, scale)?;
    }
    Ok(())
}

/// (cluster leaf set, height of the cluster node above its leaves) for every internal node
fn clusters(r: &R, out: &mut Vec<(BTreeSet<String>, f64)>) -> (BTreeSet<String>, f64) {
    if r.kids.is_empty() {
        let mut s = BTreeSet::new();
        s.insert(r.name.clone().unwrap_or_default());
        return (s, 0.0);
    }
    let mut set = BTreeSet::new();
    let mut h = 0.0;
    for k in r.kids.iter() {
        let (s, hk) = clusters(k, out);
        h = hk + k.len.as_ref().map_or(0.0, |l| l.0);
        set.extend(s);
    }
    out.push((set.clone(), h));
    (set, h)
}

/// average-linkage clustering from its definition; None when some minimum is ambiguous (margin below 1e-6)
fn naive_upgma(names: &[String], d: &dyn Fn(usize, usize) -> f64) -> Option<Vec<(BTreeSet<String>, f64)>> {
    let n = names.len();
    let mut cl: Vec<Vec<usize>> = (0..n).map(|i| vec![i]).collect();
    let mut out = vec![];
    while cl.len() > 1 {
        let mut best: Option<(usize, usize, f64)> = None;
        let mut second = f64::INFINITY;
        for a in 0..cl.len() {
            for b in 0..a {
                let mut s = 0.0;
                for &x in cl[a].iter() {
                    for &y in cl[b].iter() {
                        s += d(x, y);
                    }
                }
                let avg = s / (cl[a].len() * cl[b].len()) as f64;
                match best {
                    None => best = Some((a, b, avg)),
                    Some((_, _, v)) if avg < v => {
                        second = v;
                        best = Some((a, b, avg));
                    }
                    Some((_, _, v)) => {
                        if avg < second && avg >= v {
                            second = avg;
                        }
                    }
                }
            }
        }
        let (a, b, v) = best?;
        if second - v < 1e-6 * v.abs().max(1.0) {
            return None; // ambiguous minimum: the property only speaks about unambiguous ones
        }
        let mut merged = cl[a].clone();
        merged.extend(cl[b].iter().cloned());
        out.push((merged.iter().map(|i| names[*i].clone()).collect(), v / 2.0));
        cl.remove(a);
        cl.remove(b);
        cl.push(merged);
    }
    Some(out)
}

fn leaf_depths(r: &R, acc: f64, out: &mut Vec<(String, f64)>) {
    if r.kids.is_empty() {
        out.push((r.name.clone().unwrap_or_default(), acc));
    }
    for k in r.kids.iter() {
        leaf_depths(k, acc + k.len.as_ref().map_or(f64::NAN, |l| l.0), out);
    }
}

fn pair_dist(r: &R, out: &mut std::collections::BTreeMap<(String, String), f64>) -> Vec<(String, f64)> {
    if r.kids.is_empty() {
        return vec![(r.name.clone().unwrap_or_default(), 0.0)];
    }
    let mut per: Vec<Vec<(String, f64)>> = vec![];
    for k in r.kids.iter() {
        let l = k.len.as_ref().map_or(f64::NAN, |l| l.0);
        per.push(pair_dist(k, out).into_iter().map(|(n, d)| (n, d + l)).collect());
    }
    for i in 0..per.len() {
        for j in i + 1..per.len() {
            for a in per[i].iter() {
                for b in per[j].iter() {
                    let key = if a.0 <= b.0 { (a.0.clone(), b.0.clone()) } else { (b.0.clone(), a.0.clone()) };
                    out.insert(key, a.1 + b.1);
                }
            }
        }
    }
    per.into_iter().flatten().collect()
}

thread_local! { static SCALE: std::cell::Cell<f64> = const { std::cell::Cell::new(1.0) }; }
thread_local! { static REAL_SHAPE: std::cell::RefCell<Option<String>> = const { std::cell::RefCell::new(None) }; }

struct Q {
    reqs: Vec<String>,
    real: Vec<Result<R, String>>,
    scale: Vec<f64>,
    /// the real arena with every present length written as 0, in `ar.dump` layout (None: not a tree / not encodable)
    shape: Vec<Option<String>>,
}

fn one_matrix(names: &[String], cells: &[f64], ultrametric: bool, q: &mut Q, rep: &mut Report, label: &str) {
    one_matrix_scaled(names, cells, ultrametric, q, rep, label, 0);
    // the same matrix with its zero distances written with the sign bit set (what "-0.000000" in a Phylip file parses to): a
    // zero is a zero, the run must be the same (every third matrix that has a zero)
    if cells.iter().any(|v| *v == 0.0) && cells.len() % 3 == 0 {
        one_matrix_scaled(names, cells, ultrametric, q, rep, label, NEG_ZERO);
    }
}

/// pseudo scale exponent: no scaling, zeros replaced by -0.0
const NEG_ZERO: i32 = i32::MIN;
/// pseudo scale exponent: the crate sees the integers divided by 10 — decimal distances as they come out of a file, NOT
/// exactly representable, so the size-weighted averages round; ties between them are where a rounded average can fall an ulp
/// below an earlier merge height.  Oracles on the real result only (the model's exact arithmetic is no reference for rounding).
const TENTHS: i32 = i32::MIN + 1;

/// `cells` are integers; the crate sees them multiplied by 2^scale_exp (exact), the model and the definitional
/// clustering see the integers, and every length / height is compared after the same exact scaling: magnitudes far from 1
/// (1e-24, 1e+60) must not change a single decision
fn one_matrix_scaled(names: &[String], cells: &[f64], ultrametric: bool, q: &mut Q, rep: &mut Report, label: &str, scale_exp: i32) {
    let neg_zero = scale_exp == NEG_ZERO;
    let tenths = scale_exp == TENTHS;
    let scale_exp = if neg_zero || tenths { 0 } else { scale_exp };
    let scale = if tenths { 0.1 } else { 2f64.powi(scale_exp) };
    let _ = scale;
    let int_cells = cells;
    // tenths: the correctly rounded quotient k/10 is what the decimal text "0.7" parses to (k x 0.1 is a different number)
    let scaled: Vec<f64> = cells.iter().map(|v| if neg_zero && *v == 0.0 { -0.0 } else if tenths { v / 10.0 } else { v * scale }).collect();
    if neg_zero {
        rep.count("zeros_written_as_negative_zero");
    }
    let cells = &scaled[..];
    let dup_names = { let mut u = names.to_vec(); u.sort(); u.dedup(); u.len() != names.len() };
    let n = names.len();
    let req = format!("up.run\t{}\t{}", if names.is_empty() { "_".to_string() } else { names.iter().map(|x| hex(x)).collect::<Vec<_>>().join(",") },
        if int_cells.is_empty() { "_".to_string() } else { int_cells.iter().map(|v| format!("{}", *v as i64)).collect::<Vec<_>>().join(" ") });
    // the oracles' replay line carries the factor in the decimal stream
    let req = if tenths { format!("{req}\tdiv10") } else { req };
    let req_ctx = if neg_zero { format!("{req}\t(real matrix: every zero written as -0.0)") } else if scale_exp == 0 { req.clone() } else { format!("{req}\t(real matrix = these integers x 2^{scale_exp})") };
    rep.case(&req_ctx, n >= 3);
    if scale_exp != 0 {
        rep.count(&format!("scaled_by_2^{scale_exp}"));
    }
    if dup_names {
        rep.count("repeated_taxon_labels");
    }
    rep.count(&format!("matrices:{label}"));
    let m = DistanceMatrix::new(names.to_vec(), cells);
    let r = guarded(AssertUnwindSafe(|| m.upgma()));
    let real: Result<R, String> = match r {
        Err(_) => Err("panic".into()),
        Ok(Err(_)) => Err("err".into()),
        Ok(Ok(tree)) => {
            let slots = slots_of(&tree);
            if let Err(e) = check_inv(&slots, true) {
                rep.oracle("well-formed", &inv_sig(&e), &req, &e);
            }
            // the arena itself (slot numbers, child order, which records exist), lengths written as 0: compared with the arena
            // the model builds through add / add_child / merge_children (UPG.upgmaShape)
            let mut z = slots.clone();
            for sl in z.iter_mut() {
                if sl.parent_edge.is_some() { sl.parent_edge = Some(0.0); }
                if let Some(ce) = sl.child_edges.as_mut() { for e in ce.iter_mut() { e.1 = 0.0; } }
            }
            REAL_SHAPE.with(|c| *c.borrow_mut() = enc_arena_scaled(&z).ok());
            match live_roots(&slots).first().and_then(|x| rose_of(&slots, *x)) {
                Some(rose) => Ok(from_rose(&rose)),
                None => Err("no-root".into()),
            }
        }
    };
    if let Err(e) = &real {
        if e == "panic" {
            rep.oracle("no-panic", "upgma", &req, "panic");
        } else if n >= 2 && int_cells.iter().all(|v| *v >= 0.0) {
            rep.oracle("shape", "refused", &req, e);
        }
    }
    // matrices with negative entries are outside the property's domain: the model mirrors the code there too (that is where the
    // clamp of the repaired crate acts), so they are compared with the model, but the property's oracles do not apply
    let in_domain = int_cells.iter().all(|v| *v >= 0.0);
    if !in_domain {
        rep.count("matrices_with_negative_entries_model_only");
    }
    if let (Ok(t), true) = (&real, in_domain) {
        // ---- oracles on the real result ----
        let mut bad = None;
        SCALE.with(|s| s.set(scale));
        fn walk(r: &R, bad: &mut Option<&'static str>) {
            if !r.kids.is_empty() && r.kids.len() != 2 {
                *bad = Some("not-binary");
            }
            for k in r.kids.iter() {
                match &k.len {
                    None => *bad = Some("missing-length"),
                    // "non-negative branch lengths" has no tolerance: -5.6e-17 is a negative length (a downstream square root, a
                    // logarithm or a strict reader rejects it); -0.0 is a zero
                    Some((l, _)) if *l < 0.0 => *bad = Some("negative-branch-length"),
                    _ => {}
                }
                walk(k, bad);
            }
        }
        walk(t, &mut bad);
        if let Some(b) = bad {
            rep.oracle("shape", b, &req, &format!("{t:?}"));
        }
        let mut leaves = vec![];
        leaf_depths(t, 0.0, &mut leaves);
        let mut got: Vec<String> = leaves.iter().map(|x| x.0.clone()).collect();
        got.sort();
        let mut want = names.to_vec();
        want.sort();
        if got != want {
            rep.oracle("shape", "leaves-are-not-the-taxa", &req, &format!("{got:?}"));
        }
        let h = leaves.iter().map(|x| x.1).fold(0.0, f64::max);
        if leaves.iter().any(|x| (x.1 - h).abs() > 1e-9 * h.max(scale)) {
            rep.oracle("ultrametric", "leaves-not-equidistant-from-root", &req, &format!("{leaves:?}"));
        }
        let idx = |a: usize, b: usize| -> f64 { if a == b { 0.0 } else { let (i, j) = (a.max(b), a.min(b)); cells[i * (i - 1) / 2 + j] } };
        let int_idx = |a: usize, b: usize| -> f64 { if a == b { 0.0 } else { let (i, j) = (a.max(b), a.min(b)); int_cells[i * (i - 1) / 2 + j] } };
        if dup_names {
            // clusters and pair distances are keyed by name below: not applicable with repeated labels (the model tie is positional)
            rep.count("name_keyed_oracles_skipped_repeated_labels");
        } else if let Some(expect) = naive_upgma(names, &int_idx).map(|v| v.into_iter().map(|(s, h)| (s, h * scale)).collect::<Vec<_>>()) {
            let mut cs = vec![];
            clusters(t, &mut cs);
            // clusters are compared exactly, merge heights within a relative tolerance (the two computations round
            // differently; comparing rounded values would flip at a rounding boundary)
            let norm = |v: &Vec<(BTreeSet<String>, f64)>| -> Vec<(BTreeSet<String>, f64)> { let mut w: Vec<_> = v.clone(); w.sort_by(|a, b| a.0.cmp(&b.0)); w };
            let (g, w) = (norm(&cs), norm(&expect));
            let same = g.len() == w.len() && g.iter().zip(w.iter()).all(|(x, y)| x.0 == y.0 && (x.1 - y.1).abs() <= 1e-9 * x.1.abs().max(y.1.abs()).max(scale));
            if !same {
                rep.oracle("average-linkage", "clusters-or-heights-differ", &req, &format!("{g:?} expected {w:?}"));
            }
            rep.count("naive_clustering_compared");
        } else {
            rep.count("naive_clustering_skipped_ambiguous");
        }
        if ultrametric && !dup_names {
            let mut pd = std::collections::BTreeMap::new();
            pair_dist(t, &mut pd);
            for a in 0..n {
                for b in 0..a {
                    let key = if names[a] <= names[b] { (names[a].clone(), names[b].clone()) } else { (names[b].clone(), names[a].clone()) };
                    let got = pd.get(&key).cloned().unwrap_or(f64::NAN);
                    if (got - idx(a, b)).abs() > 1e-9 * idx(a, b).max(scale) {
                        rep.oracle("ultrametric", "tree-does-not-reproduce-the-matrix", &req, &format!("{key:?}: {got} vs {}", idx(a, b)));
                    }
                }
            }
            rep.count("ultrametric_inputs");
        }
    }
    if tenths {
        rep.count("decimal_matrices_judged_by_the_oracles_only");
        return;
    }
    q.reqs.push(req);
    q.shape.push(if real.is_ok() { REAL_SHAPE.with(|c| c.borrow_mut().take()) } else { None });
    q.real.push(real);
    q.scale.push(scale);
}

fn flush(q: &mut Q, driver: &str, rep: &mut Report) {
    if q.reqs.is_empty() {
        return;
    }
    let mut shape_reqs: Vec<String> = vec![];
    let mut shape_expect: Vec<String> = vec![];
    match run_driver(driver, &q.reqs) {
        Err(e) => rep.mismatch("c15.upgma", "driver-failed", "", "", &e),
        Ok(ans) => {
            rep.count_n("model_requests", ans.len() as u64);
            for i in 0..ans.len() {
                let m = &ans[i];
                match (&q.real[i], m.strip_prefix("ok ")) {
                    (Ok(t), Some(body)) => {
                        let mut parts = body.split(' ');
                        let tree = parts.next().unwrap_or("");
                        let margin = parts.next().unwrap_or("-");
                        let tie = parts.next() == Some("1");
                        let dyadic = parts.next() == Some("1");
                        // when every intermediate value is dyadic the f64 computation is exact and must agree, ties included;
                        // otherwise an exact tie or a tiny positive margin can be decided differently by rounding: not compared
                        let mv = rat_to_f64(margin).unwrap_or(f64::INFINITY);
                        if !dyadic && (tie || mv < 1e-6) {
                            rep.count("model_compare_skipped_rounding_sensitive_tie");
                            continue;
                        }
                        rep.count(if dyadic { "model_compared_exact_dyadic" } else { "model_compared_1e-9" });
                        if let Some(sh) = &q.shape[i] {
                            shape_reqs.push(q.reqs[i].replacen("up.run", "up.shape", 1));
                            shape_expect.push(format!("ok {sh}"));
                        }
                        let exact = dyadic;
                        match parse_model(tree) {
                            None => rep.mismatch("c15.upgma", "undecodable", &q.reqs[i], "", m),
                            Some(mt) => {
                                if let Err(e) = same_tree(t, &mt, exact, q.scale[i]) {
                                    rep.mismatch("c15.upgma", "up.run:differs", &q.reqs[i], &format!("{e}; real {t:?}"), m);
                                }
                            }
                        }
                    }
                    (Err(e), None) => {
                        if e == "panic" || m.starts_with("panic") != (e == "panic") {
                            rep.mismatch("c15.upgma", &format!("up.run:{e}!={}", m.split(' ').next().unwrap_or("")), &q.reqs[i], e, m);
                        }
                    }
                    (Ok(_), None) => rep.mismatch("c15.upgma", "up.run:ok!=err", &q.reqs[i], "ok", m),
                    (Err(e), Some(_)) => rep.mismatch("c15.upgma", &format!("up.run:{e}!=ok"), &q.reqs[i], e, m),
                }
            }
        }
    }
    if !shape_reqs.is_empty() {
        match run_driver(driver, &shape_reqs) {
            Err(e) => rep.mismatch("c15.upgma", "driver-failed", "", "", &e),
            Ok(ans) => {
                rep.count_n("arena_shapes_compared", ans.len() as u64);
                for i in 0..ans.len() {
                    if ans[i] != shape_expect[i] {
                        rep.mismatch("c15.upgma", "up.shape:differs", &shape_reqs[i], &shape_expect[i], &ans[i]);
                    }
                }
            }
        }
    }
    q.reqs.clear();
    q.real.clear();
    q.scale.clear();
    q.shape.clear();
}

/// ultrametric matrix from a random clock-like tree with integer node heights
fn ultrametric(rng: &mut Rng, n: usize) -> Vec<f64> {
    // random binary merging order with strictly increasing heights (even integers so that halves are integers)
    let mut cl: Vec<(Vec<usize>, u64)> = (0..n).map(|i| (vec![i], 0)).collect();
    let mut d = vec![vec![0.0f64; n]; n];
    let mut h = 0u64;
    while cl.len() > 1 {
        let a = rng.below(cl.len());
        let mut b = rng.below(cl.len());
        if a == b {
            b = (a + 1) % cl.len();
        }
        h += 2 * rng.range(1, 9) as u64;
        for &x in cl[a].0.iter() {
            for &y in cl[b].0.iter() {
                d[x][y] = h as f64;
                d[y][x] = h as f64;
            }
        }
        let (hi, lo) = (a.max(b), a.min(b));
        let mut m = cl[hi].0.clone();
        m.extend(cl[lo].0.iter().cloned());
        cl.remove(hi);
        cl.remove(lo);
        cl.push((m, h));
    }
    let mut cells = vec![];
    for i in 1..n {
        for j in 0..i {
            cells.push(d[i][j]);
        }
    }
    cells
}

/// UPGMA on matrices whose element type is f32 (oracles on the real result only): the heights are kept in f64 and every height is
/// half an f32 value, so all differences and sums along a root path are exact — the leaves are equidistant from the root to the
/// last bit (1e-12 relative is allowed), lengths are non-negative, the arena is well formed, the leaves are the taxa
fn f32_stream(rng: &mut Rng, count: usize, rep: &mut Report) {
    for _ in 0..count {
        let n = rng.range(3, 14);
        let names: Vec<String> = (0..n).map(|i| format!("f{i}")).collect();
        let ints: Vec<usize> = (0..tri(n)).map(|_| rng.range(1, 99)).collect();
        // one matrix in four holds the smallest f32 there are (subnormal: halving one in f32 loses its last bit, halving it
        // once widened to f64 does not)
        let tiny = rng.chance(1, 4);
        let cells: Vec<f32> = ints.iter().map(|k| if tiny { f32::from_bits(*k as u32) } else { *k as f32 / 10.0 }).collect();
        let case = format!("up.run.f32\t{}\t{}\t({})", names.join(","), ints.iter().map(|k| k.to_string()).collect::<Vec<_>>().join(" "), if tiny { "cells = the f32 with these bit patterns" } else { "cells = these integers / 10 as f32" });
        if tiny { rep.count("matrices:f32-subnormal"); }
        rep.case(&case, true);
        rep.count("matrices:f32-element-type");
        let m = DistanceMatrix::<f32>::new(names.clone(), &cells);
        match guarded(AssertUnwindSafe(|| m.upgma())) {
            Err(_) => rep.oracle("no-panic", "upgma-f32", &case, "panic"),
            Ok(Err(e)) => rep.oracle("shape", "refused", &case, &format!("{e:?}")),
            Ok(Ok(tree)) => {
                let slots = slots_of(&tree);
                if let Err(e) = check_inv(&slots, true) {
                    rep.oracle("well-formed", &inv_sig(&e), &case, &e);
                    continue;
                }
                let Some(rose) = live_roots(&slots).first().and_then(|x| rose_of(&slots, *x)) else { continue };
                let t = from_rose(&rose);
                let mut leaves = vec![];
                leaf_depths(&t, 0.0, &mut leaves);
                let h = leaves.iter().map(|x| x.1).fold(0.0, f64::max);
                let lo = leaves.iter().map(|x| x.1).fold(f64::INFINITY, f64::min);
                let mut got: Vec<String> = leaves.iter().map(|x| x.0.clone()).collect();
                got.sort();
                let mut want = names.clone();
                want.sort();
                if got != want {
                    rep.oracle("shape", "leaves-are-not-the-taxa", &case, &format!("{got:?}"));
                }
                if !(h - lo <= 1e-12 * h.max(1.0)) {
                    rep.oracle("ultrametric", "leaves-not-equidistant-from-root:f32-matrix", &case, &format!("depths from {lo} to {h}: {leaves:?}"));
                }
                // the pair joined first is the closest pair and hangs half its distance below the join: the shortest tip branch
                // is exactly half the smallest cell (a power-of-two division of an f32 widened to f64 is exact)
                let min_cell = cells.iter().fold(f32::INFINITY, |a, b| a.min(*b)) as f64;
                let min_tip = tree.get_leaves().iter().filter_map(|l| tree.get(l).ok().and_then(|n| n.parent_edge)).fold(f64::INFINITY, f64::min);
                if min_tip != min_cell / 2.0 {
                    rep.oracle("ultrametric", "closest-pair-not-at-half-its-distance:f32-matrix", &case, &format!("shortest tip branch {min_tip:e}, smallest cell {min_cell:e}"));
                }
                let mut neg = false;
                rose.for_each(&mut |x, root| if !root && x.len.map_or(true, |l| l < 0.0) { neg = true; });
                if neg {
                    rep.oracle("shape", "negative-or-missing-branch-length:f32-matrix", &case, &rose.newick());
                }
            }
        }
    }
}

pub fn run(thorough: bool, seed: u64, driver: &str, rep: &mut Report) {
    {
        let mut r0 = Rng::new(seed ^ 0xf32);
        f32_stream(&mut r0, if thorough { 4000 } else { 400 }, rep);
    }
    enum Job {
        Exhaustive { n: usize, maxv: usize },
        Random { seed: u64, count: usize },
    }
    let mut rng = Rng::new(seed);
    // corpus (always first): decimal ties whose size-weighted average is rounded an ulp BELOW an earlier merge height — the
    // unrepaired crate returned a branch of -5.55e-17 here (found by the decimal stream, see known_findings.json)
    {
        let mut q = Q { reqs: vec![], real: vec![], scale: vec![], shape: vec![] };
        for (n, cells) in [(4usize, vec![1.0, 7.0, 7.0, 7.0, 7.0, 7.0]), (4, vec![3.0, 7.0, 7.0, 7.0, 7.0, 7.0]), (5, vec![1.0, 3.0, 3.0, 3.0, 3.0, 3.0, 3.0, 3.0, 3.0, 3.0]), (4, vec![1.0, 9.0, 9.0, 9.0, 9.0, 9.0])] {
            let names: Vec<String> = (0..n).map(|i| format!("c{i}")).collect();
            one_matrix_scaled(&names, &cells, false, &mut q, rep, "corpus-decimal-ties", TENTHS);
        }
    }
    let mut jobs = vec![Job::Exhaustive { n: 2, maxv: 4 }, Job::Exhaustive { n: 3, maxv: if thorough { 5 } else { 4 } }, Job::Exhaustive { n: 4, maxv: if thorough { 3 } else { 2 } }];
    if thorough {
        jobs.push(Job::Exhaustive { n: 5, maxv: 1 });
    }
    for _ in 0..(if thorough { 300 } else { 32 }) {
        jobs.push(Job::Random { seed: rng.next(), count: if thorough { 300 } else { 60 } });
    }
    let d = driver.to_string();
    parallel(
        jobs,
        n_workers(),
        "C15",
        |job, rep| {
            let mut q = Q { reqs: vec![], real: vec![], scale: vec![], shape: vec![] };
            match job {
                Job::Exhaustive { n, maxv } => {
                    let cells_n = tri(n);
                    let total = ((maxv + 1) as u64).pow(cells_n as u32);
                    let names: Vec<String> = (0..n).map(|i| format!("t{i}")).collect();
                    for code in 0..total {
                        let mut k = code;
                        let cells: Vec<f64> = (0..cells_n).map(|_| { let v = (k % (maxv as u64 + 1)) as f64; k /= maxv as u64 + 1; v }).collect();
                        one_matrix(&names, &cells, false, &mut q, rep, &format!("exhaustive_n{n}"));
                        if q.reqs.len() > 20_000 {
                            flush(&mut q, &d, rep);
                        }
                    }
                }
                Job::Random { seed, count } => {
                    let mut rng = Rng::new(seed);
                    for i in 0..count {
                        let n = match i % 12 { 0 => 2, 1 => 3, _ => rng.range(3, if thorough { 60 } else { 30 }) };
                        let mut names = taxa(n, &mut rng);
                        // a fifth of the matrices carry repeated (or empty) taxon labels: clustering is positional
                        if i % 5 == 4 {
                            for _ in 0..rng.range(1, 3) {
                                let (a, b) = (rng.below(n), rng.below(n));
                                names[a] = if rng.chance(1, 4) { String::new() } else { names[b].clone() };
                            }
                        }
                        // a quarter are presented to the crate at a magnitude far from 1 (exact power-of-two scaling)
                        let scale_exp = if i % 4 == 3 { *rng.pick(&[-80, -200, 64, 200, -30]) } else { 0 };
                        if scale_exp != 0 {
                            let ultra = i % 3 == 0;
                            let cells: Vec<f64> = if ultra { ultrametric(&mut rng, n) } else if i % 3 == 1 { (0..tri(n)).map(|_| rng.range(1, 1_000_000) as f64).collect() } else { (0..tri(n)).map(|_| rng.range(0, 6) as f64).collect() };
                            one_matrix_scaled(&names, &cells, ultra, &mut q, rep, "scaled", scale_exp);
                            continue;
                        }
                        // a few negative entries (outside the domain; model only): the clamp at zero is part of the transcription
                        if i % 12 == 6 {
                            let cells: Vec<f64> = (0..tri(n)).map(|_| if rng.chance(1, 5) { -(rng.range(1, 9) as f64) } else { rng.range(0, 12) as f64 }).collect();
                            one_matrix_scaled(&names, &cells, false, &mut q, rep, "negative-entries", 0);
                            continue;
                        }
                        // decimal distances with many ties (tenths): every average is rounded
                        if i % 6 == 5 {
                            let hi = *rng.pick(&[3usize, 7, 9, 12]);
                            let cells: Vec<f64> = (0..tri(n)).map(|_| rng.range(1, hi) as f64).collect();
                            one_matrix_scaled(&names, &cells, false, &mut q, rep, "decimal-with-ties", TENTHS);
                            continue;
                        }
                        match i % 3 {
                            0 => {
                                let cells = ultrametric(&mut rng, n);
                                one_matrix(&names, &cells, true, &mut q, rep, "ultrametric");
                            }
                            1 => {
                                // tie-free with high probability: large distinct integers
                                let cells: Vec<f64> = (0..tri(n)).map(|_| rng.range(1, 1_000_000) as f64).collect();
                                one_matrix(&names, &cells, false, &mut q, rep, "random-large-integers");
                            }
                            _ => {
                                // deliberate ties: small integers
                                let cells: Vec<f64> = (0..tri(n)).map(|_| rng.range(0, 6) as f64).collect();
                                one_matrix(&names, &cells, false, &mut q, rep, "random-with-ties");
                            }
                        }
                    }
                }
            }
            flush(&mut q, &d, rep);
        },
        rep,
    );
}
