//! C01 — Newick write→parse round trip; C16 — output formats and Nexus.
use crate::c02;
use crate::gen::*;
use crate::util::*;
use phylotree::tree::{NewickFormat, Tree};

pub const FORMATS: [NewickFormat; 9] = [
    NewickFormat::AllFields,
    NewickFormat::Topology,
    NewickFormat::NoComments,
    NewickFormat::OnlyNames,
    NewickFormat::OnlyLengths,
    NewickFormat::LeafLengthsAllNames,
    NewickFormat::LeafLengthsLeafNames,
    NewickFormat::InternalLengthsLeafNames,
    NewickFormat::AllLengthsLeafNames,
];

/// a label inside the property's domain: metacharacter-free text, or text whose metacharacters and
/// whitespace sit inside verbatim double quotes
fn gen_name(rng: &mut Rng, uniq: usize) -> String {
    let plain = ["A", "tip", "x_1", "é", "名前", "a.b-c", "T'", "0", "1e5", "nan", "#", "a|b", "€uro"];
    match rng.below(15) {
        // backslashes are ordinary characters of a label (the format has no escapes): inside a label, at its end,
        // directly before an opening or a closing double quote
        10 => format!("a\\b{}", uniq),
        11 => format!("dir{}\\", uniq),
        12 => format!("\"D:\\runs\\sample {}\\\"", uniq),
        13 => format!("p{}\\\"q r\"", uniq),
        14 => if rng.chance(1, 2) { format!("\"line{}\r\nnext\r\"", uniq) } else { format!("\"run {}\n#2 of 3\"", uniq) },
        0..=5 => format!("{}{}", rng.pick(&plain), uniq),
        6 => format!("\"{} {}\"", rng.pick(&plain), uniq),
        7 => format!("\"a(b),c:d;[e]{}\"", uniq),
        8 => format!("p{}\"q r\"s", uniq),
        9 => format!("\"\t{}\u{2003}\"", uniq),
        // a quoted label keeps its line breaks verbatim, CR LF included
        _ => format!("\"line{}\r\nnext\r\"", uniq),
    }
}

fn gen_comment(rng: &mut Rng) -> String {
    // line breaks of either convention inside a comment are part of the comment (CR LF is not "normalised")
    let c = ["c", "&&NHX:S=human:E=1.1.1.1", "a b", "(x,y);", "\"", "[[", "é ü", ":1.5", " ", "two\r\nlines", "\r\n", "cr\ronly", "lf\nonly", "a\r\n\r\nb\n\r", "run 7\n#2 of 3\nseed 11", "\n# header", "#x"];
    if rng.chance(1, 2) { rng.pick(&c).to_string() } else { rng.pick(MAGIC_COMMENTS).to_string() }
}

pub fn label_c01(rng: &mut Rng, t: &mut Rose, kind: LenKind, len_mode: LenMode) {
    let mut k = 0;
    let leafy = rng.below(10);
    let inty = rng.below(10);
    let cm = rng.below(6);
    let root_len = rng.chance(1, 3);
    // lengths on internal branches only / on terminal branches only are partial annotations too
    let pattern = rng.below(8);
    let repeats = rng.chance(1, 8);
    let mut last_name: Option<String> = None;
    let mut f = |r: &mut Rose, is_root: bool, _d: usize| {
        k += 1;
        let tip = r.kids.is_empty();
        let named = if tip { leafy > 1 || rng.chance(1, 2) } else { inty > 5 && rng.chance(2, 3) };
        if named {
            // in one tree out of eight labels may repeat (the previous label is given again: neighbouring tips with one
            // name are legal for the writer, the parser and the Nexus export, which lists every tip)
            r.name = Some(match &last_name {
                Some(n) if repeats && rng.chance(1, 2) => n.clone(),
                _ => gen_name(rng, k),
            });
            last_name = r.name.clone();
        }
        if cm > 2 && rng.chance(1, 3) {
            r.comment = Some(gen_comment(rng));
        }
        let want = match len_mode {
            LenMode::None => false,
            LenMode::All => true,
            LenMode::Mixed => match pattern {
                0 => !tip,
                1 => tip,
                _ => rng.chance(1, 2),
            },
        };
        if want && (!is_root || root_len) {
            r.len = Some(gen_len(rng, kind));
        }
    };
    t.for_each_mut(&mut f, true, 0);
}

fn build(rng: &mut Rng, r: &Rose) -> (Tree, &'static str, u64) {
    let seed = rng.next() % 1_000_000;
    match rng.below(6) {
        4 | 5 => {
            // regrouped / resolved after the API build: parents with LARGER ids than their descendants, fresh unnamed
            // internal nodes (the caller re-reads the tree that was actually built)
            let mut st = crate::real::RealState::new();
            let (a, _) = st.exec(&format!("real.build\tgrown\t{}\t{seed}", r.canon()));
            if a == "ok" { (st.tree, "grown", seed) } else { (build_api(r), "api", 0) }
        }
        0 => if rng.chance(1, 2) { (build_api(r), "api", 0) } else { (build_bottom_up(r, &mut Rng::new(seed)), "bottomup", seed) },
        1 => (build_api_bfs(r), "bfs", 0),
        2 => if rng.chance(1, 2) { (build_with_tombstones(r, &mut Rng::new(seed)), "tomb", seed) } else { (build_with_tombstones2(r, &mut Rng::new(seed)), "tomb2", seed) },
        _ => match Tree::from_newick(&r.newick()) {
            Ok(t) => (t, "parse", 0),
            Err(_) => (build_api(r), "api", 0),
        },
    }
}

fn strip(r: &Rose, f: usize) -> Rose {
    let tip = r.kids.is_empty();
    let keep_name = match f {
        0 | 2 | 3 | 5 => true,
        6 | 7 | 8 => tip,
        _ => false,
    };
    let keep_len = match f {
        0 | 2 | 4 | 8 => true,
        7 => !tip,
        5 | 6 => tip,
        _ => false,
    };
    Rose {
        name: if keep_name { r.name.clone() } else { None },
        len: if keep_len { r.len } else { None },
        comment: if f == 0 { r.comment.clone() } else { None },
        kids: r.kids.iter().map(|k| strip(k, f)).collect(),
    }
}

fn rose_of_tree(t: &Tree) -> Option<Rose> {
    let s = slots_of(t);
    live_roots(&s).first().and_then(|r| rose_of(&s, *r))
}

struct Job {
    seed: u64,
    n: usize,
    formats: bool,
    max_size: usize,
}

fn do_job(job: Job, driver: &str, rep: &mut Report) {
    let mut rng = Rng::new(job.seed);
    let mut reqs: Vec<String> = vec![];
    let mut expect: Vec<String> = vec![];
    let mut texts: Vec<String> = vec![];
    for i in 0..job.n {
        let size = if i % 40 == 0 { rng.range(1, job.max_size) } else { rng.range(1, 16) };
        let mut r = if size <= 6 && rng.chance(1, 2) { let v = all_shapes(size); v[rng.below(v.len())].clone() } else { random_shape(&mut rng, size) };
        let kind = match rng.below(3) {
            0 => LenKind::Dyadic,
            1 => LenKind::Decimal,
            _ => LenKind::Wild,
        };
        let mode = *rng.pick(&[LenMode::All, LenMode::None, LenMode::Mixed, LenMode::Mixed]);
        label_c01(&mut rng, &mut r, kind, mode);
        // a NaN branch length is a value like any other for the writer and the parser (all NaNs are identified when
        // lengths are compared): now and then one present length is replaced by NaN
        if rng.chance(1, 10) {
            let mut done = false;
            let pick = rng.below(8);
            let mut seen = 0;
            r.for_each_mut(&mut |x: &mut Rose, _root: bool, _d: usize| {
                if x.len.is_some() {
                    if seen == pick && !done { x.len = Some(f64::NAN); done = true; }
                    seen += 1;
                }
            }, true, 0);
            if done { rep.count("lengths:one-NaN"); }
        }
        let (tree, how, bseed) = build(&mut rng, &r);
        // a tree object with a PAST: bipartition / distance queries were answered (and their caches filled) before it is written
        let past = rng.chance(1, 3);
        if past {
            let _ = guarded(std::panic::AssertUnwindSafe(|| { let _ = tree.get_partitions(); let _ = tree.distance_matrix(); let _ = tree.robinson_foulds(&tree.clone()); }));
            rep.count("objects-with-a-past");
        }
        if how == "grown" {
            match rose_of_tree(&tree) {
                Some(actual) => r = actual,
                None => continue,
            }
        }
        rep.count(&format!("layout:{how}"));
        rep.count(&format!("lengths:{kind:?}/{mode:?}"));
        let canon = r.canon();
        rep.case(&canon, r.size() >= 2 && (r.len.is_some() || r.kids.iter().any(|k| k.len.is_some() || k.name.is_some())));
        let arena = enc_arena_lex(&slots_of(&tree));
        let fmts: Vec<usize> = if job.formats { (0..9).collect() } else { vec![0] };
        for f in fmts {
            let t2 = tree.clone();
            let w = guarded(move || t2.to_formatted_newick(FORMATS[f]));
            let (ans, text) = match w {
                Err(_) => ("panic".to_string(), None),
                Ok(Err(_)) => ("err".to_string(), None),
                Ok(Ok(s)) => (format!("ok {}", hex(&s)), Some(s)),
            };
            reqs.push(format!("nw.write\t{f}\t{arena}"));
            expect.push(ans.clone());
            // ---- oracle: parse back, compare with the harness's own strip, write again ----
            let case = format!("real.build\t{how}\t{canon}\t{bseed}\nnw.format\t{f}");
            match text {
                None => rep.oracle("write", &format!("fmt{f}:{ans}"), &case, &ans),
                Some(w1) => {
                    if f == 0 {
                        if tree.to_newick().ok().as_deref() != Some(&w1) {
                            rep.oracle("write", "to_newick-vs-AllFields", &case, &w1);
                        }
                        texts.push(w1.clone());
                        // the same round trip through a FILE: `to_file` writes exactly this text and `from_file` reads back exactly
                        // what parsing this text gives (whatever the text holds: line breaks, lines that start with `#`, ...)
                        if rng.chance(1, 6) {
                            let path = std::env::temp_dir().join(format!("pvh-c01-{}-{}.nwk", std::process::id(), rng.next() % 1_000_000_000));
                            let t3 = tree.clone();
                            let p3 = path.clone();
                            let fr = guarded(std::panic::AssertUnwindSafe(move || t3.to_file(&p3).map_err(|e| format!("{e:?}")).and_then(|_| Tree::from_file(&p3).map_err(|e| format!("{e:?}")))));
                            let on_disk = std::fs::read_to_string(&path).unwrap_or_default();
                            let _ = std::fs::remove_file(&path);
                            rep.count("roundtrip:through-a-file");
                            let want = strip(&r, 0).canon();
                            match fr {
                                Err(_) => rep.oracle("roundtrip", "file:panic", &case, &w1),
                                Ok(Err(e)) => rep.oracle("roundtrip", "file:error", &case, &format!("{w1:?}: {e}")),
                                Ok(Ok(p)) => {
                                    let got = rose_of_tree(&p).map(|x| x.canon()).unwrap_or_default();
                                    if got != want || on_disk != w1 {
                                        rep.oracle("roundtrip", "file:tree-or-content-differs", &case, &format!("file {on_disk:?} for text {w1:?}: expected {want} got {got}"));
                                    }
                                }
                            }
                        }
                    }
                    let w1c = w1.clone();
                    match guarded(move || Tree::from_newick(&w1c)) {
                        Err(_) => rep.oracle("roundtrip", &format!("fmt{f}:reparse-panic"), &case, &w1),
                        Ok(Err(e)) => rep.oracle("roundtrip", &format!("fmt{f}:reparse-error"), &case, &format!("{w1:?}: {e:?}")),
                        Ok(Ok(p)) => {
                            let want = strip(&r, f).canon();
                            let got = rose_of_tree(&p).map(|x| x.canon()).unwrap_or_default();
                            if want != got {
                                rep.oracle("roundtrip", &format!("fmt{f}:tree-differs"), &case, &format!("text {w1:?}: expected {want} got {got}"));
                            } else if f == 0 {
                                match p.to_newick() {
                                    Ok(w2) if w2 == w1 => {}
                                    other => rep.oracle("roundtrip", "rewrite-differs", &case, &format!("{w1:?} vs {other:?}")),
                                }
                            }
                        }
                    }
                }
            }
        }
        // ---- second write of the SAME object after an in-place edit of a payload field (name / comment) made through each of
        // the public mutable accessors: the writer must describe the tree as it is now, whatever it wrote before ----
        if rng.chance(1, 3) {
            let mut t3 = tree.clone();
            let _ = t3.to_newick();
            let _ = t3.to_formatted_newick(FORMATS[3]);
            let slots = slots_of(&t3);
            let named: Vec<usize> = (0..slots.len()).filter(|&i| !slots[i].deleted && slots[i].name.as_ref().map_or(false, |n| slots.iter().filter(|x| !x.deleted && x.name.as_ref() == Some(n)).count() == 1)).collect();
            let live: Vec<usize> = (0..slots.len()).filter(|&i| !slots[i].deleted).collect();
            let via = rng.below(3);
            let mut edited = false;
            let mut how_edit = String::new();
            match via {
                0 if !named.is_empty() => {
                    let i = *rng.pick(&named);
                    let old = slots[i].name.clone().unwrap();
                    if let Some(n) = t3.get_by_name_mut(&old) {
                        n.name = Some(format!("{old}x"));
                        edited = true;
                        how_edit = format!("get_by_name_mut({old:?}).name = {:?}", format!("{old}x"));
                    }
                }
                1 if !live.is_empty() => {
                    let i = *rng.pick(&live);
                    if let Ok(n) = t3.get_mut(&i) {
                        n.comment = Some("edited".into());
                        edited = true;
                        how_edit = format!("get_mut({i}).comment = \"edited\"");
                    }
                }
                _ if !live.is_empty() => {
                    let i = *rng.pick(&live);
                    if let Ok(n) = t3.get_mut(&i) {
                        n.set_name(format!("n{i}"));
                        edited = true;
                        how_edit = format!("get_mut({i}).set_name(\"n{i}\")");
                    }
                }
                _ => {}
            }
            if edited {
                rep.count("second-write-after-in-place-edit");
                let arena2 = enc_arena_lex(&slots_of(&t3));
                let t4 = t3.clone();
                let w = guarded(move || t4.to_newick());
                let ans = match &w {
                    Err(_) => "panic".to_string(),
                    Ok(Err(_)) => "err".to_string(),
                    Ok(Ok(s)) => format!("ok {}", hex(s)),
                };
                reqs.push(format!("nw.write\t0\t{arena2}"));
                expect.push(ans);
                let case = format!("real.build\t{how}\t{canon}\t{bseed}\nnw.format\t0\n(in-place edit: {how_edit})\nnw.format\t0");
                if let Ok(Ok(w1)) = w {
                    let want = rose_of_tree(&t3).map(|x| x.canon()).unwrap_or_default();
                    let got = Tree::from_newick(&w1).ok().and_then(|p| rose_of_tree(&p)).map(|x| x.canon()).unwrap_or_default();
                    if want != got {
                        rep.oracle("roundtrip", "second-write-after-edit:tree-differs", &case, &format!("text {w1:?}: expected {want} got {got}"));
                    }
                }
            }
        }
        if job.formats {
            // Nexus export of an object that was queried AND THEN EDITED without the cache reset (the export must describe the
            // tree as it is now: it never reads the bipartition caches): a leaf is removed after the leaf index was built
            let mut tree = tree;
            let mut r = r;
            let mut arena = arena;
            let mut how_ctx = String::new();
            if past && rng.chance(1, 2) {
                let tips: Vec<usize> = slots_of(&tree).iter().enumerate().filter(|(_, x)| !x.deleted && x.children.is_empty() && x.parent.is_some()).map(|(i, _)| i).collect();
                if tips.len() >= 2 {
                    let victim = *rng.pick(&tips);
                    if tree.prune(&victim).is_ok() {
                        if let Some(actual) = rose_of_tree(&tree) {
                            r = actual;
                            arena = enc_arena_lex(&slots_of(&tree));
                            how_ctx = format!("\nar.q\tparts (answered before the edit)\nar.prune\t{victim} (no cache reset)");
                            rep.count("nexus:after-unreset-edit");
                        }
                    }
                }
            }
            let t2 = tree.clone();
            let nx = guarded(move || t2.to_nexus());
            let ans = match &nx {
                Err(_) => "panic".to_string(),
                Ok(Err(_)) => "err".to_string(),
                Ok(Ok(s)) => format!("ok {}", hex(s)),
            };
            reqs.push(format!("nw.nexus\t{arena}"));
            expect.push(ans);
            if let Ok(Ok(s)) = nx {
                let names: Vec<String> = {
                    // arena order of the live tips
                    let sl = slots_of(&tree);
                    sl.iter().filter(|x| !x.deleted && x.children.is_empty()).filter_map(|x| x.name.clone()).collect()
                };
                let want_ntax = format!("NTAX={};", r.n_leaves());
                let want_labels = format!("TAXLABELS {};", names.join(" "));
                let want_tree = format!("TREE tree1 = {}", tree.to_newick().unwrap_or_default());
                let case = format!("real.build\t{how}\t{canon}\t{bseed}{how_ctx}\nnw.nexus");
                if !s.contains(&want_ntax) {
                    rep.oracle("nexus", "ntax", &case, &s);
                } else if !s.contains(&want_labels) {
                    rep.oracle("nexus", "taxlabels", &case, &s);
                } else if !s.contains(&want_tree) {
                    rep.oracle("nexus", "tree", &case, &s);
                }
            }
        }
    }
    match run_driver(driver, &reqs) {
        Err(e) => rep.mismatch("c01.write", "driver-failed", "", "", &e),
        Ok(ans) => {
            for i in 0..reqs.len() {
                if ans[i] != expect[i] {
                    let op = reqs[i].split('\t').take(if reqs[i].starts_with("nw.write") { 2 } else { 1 }).collect::<Vec<_>>().join(":");
                    let dec = |a: &str| a.strip_prefix("ok ").and_then(unhex).unwrap_or_else(|| a.to_string());
                    rep.mismatch("c01.write", &format!("{op}:differs"), &reqs[i], &dec(&expect[i]), &dec(&ans[i]));
                }
            }
            rep.count_n("model_requests", reqs.len() as u64);
        }
    }
    // parser side of the tie on exactly the texts the writer produced
    c02::compare_chunk_quiet(&texts, driver, rep, "c01.parse");
}

/// a tree file of several hundred kilobytes whose labels are multi-byte characters: whatever way the file is read (at once, in
/// blocks of any size), every label comes back as written
fn large_file_roundtrip(rep: &mut Report) {
    for (k, stem) in ["日本語の木の葉", "Espèce_n°_été_", "ŁódźŻółć€"].iter().enumerate() {
        let n = 9000 + 37 * k;
        let mut t = Tree::new();
        let root = t.add(phylotree::tree::Node::new());
        for i in 0..n {
            let _ = t.add_child(phylotree::tree::Node::new_named(&format!("{stem}{i}")), root, Some(1.0 + (i % 7) as f64));
        }
        let case = format!("real.star\t{n} tips named {stem}<i>\tto_file -> from_file");
        rep.case(&case, true);
        rep.count("large_files_with_multibyte_labels");
        let path = std::env::temp_dir().join(format!("pvh-c01-big-{}-{k}.nwk", std::process::id()));
        let p2 = path.clone();
        let t2 = t.clone();
        let r = guarded(std::panic::AssertUnwindSafe(move || t2.to_file(&p2).map_err(|e| format!("{e:?}")).and_then(|_| Tree::from_file(&p2).map_err(|e| format!("{e:?}")))));
        let _ = std::fs::remove_file(&path);
        match r {
            Ok(Ok(b)) => {
                let (a, b2) = (t.get_leaf_names(), b.get_leaf_names());
                if a != b2 {
                    let first = a.iter().zip(b2.iter()).position(|(x, y)| x != y);
                    rep.oracle("roundtrip", "file:large:labels-differ", &case, &format!("{} vs {} labels, first difference at tip {first:?}: {:?} vs {:?}", a.len(), b2.len(), first.and_then(|i| a.get(i)), first.and_then(|i| b2.get(i))));
                }
            }
            other => rep.oracle("roundtrip", "file:large:error", &case, &format!("{:?}", other.map(|x| x.map(|_| ())))),
        }
    }
}

/// C16 on inputs the random stream does not draw: a caterpillar deeper than any recursion guard a writer might carry, written in
/// every format and compared with a text put together here field by field; and a Nexus export of tips whose names look like
/// the place holders of a text template
fn fixed_formats(rep: &mut Report) {
    use phylotree::tree::Node;
    let depth = 1500usize;
    let mut t = Tree::new();
    let mut cur = t.add(Node::new_named("n0"));
    for k in 0..depth {
        let _ = t.add_child(Node::new_named(&format!("t{k}")), cur, Some((k % 5 + 1) as f64));
        let name = if k + 1 == depth { format!("t{depth}") } else { format!("n{}", k + 1) };
        match t.add_child(Node::new_named(&name), cur, Some(((k + 1) % 3 + 1) as f64)) {
            Ok(id) => cur = id,
            Err(_) => return,
        }
    }
    for f in 0..9 {
        let (tip_name, int_name) = match f { 0 | 2 | 3 | 5 => (true, true), 6 | 7 | 8 => (true, false), _ => (false, false) };
        let (tip_len, int_len) = match f { 0 | 2 | 4 | 8 => (true, true), 7 => (false, true), 5 | 6 => (true, false), _ => (false, false) };
        let field = |name: String, len: Option<usize>, tip: bool| {
            let mut s = String::new();
            if if tip { tip_name } else { int_name } { s += &name; }
            if let Some(l) = len { if if tip { tip_len } else { int_len } { s += &format!(":{l}"); } }
            s
        };
        let mut want = String::new();
        for k in 0..depth {
            want.push('(');
            want += &field(format!("t{k}"), Some(k % 5 + 1), true);
            want.push(',');
        }
        want += &field(format!("t{depth}"), Some(depth % 3 + 1), true);
        for k in (0..depth).rev() {
            want.push(')');
            want += &field(format!("n{k}"), if k == 0 { None } else { Some(k % 3 + 1) }, false);
        }
        want.push(';');
        let case = format!("real.caterpillar\t{depth} nested clades, tips t<k>, clades n<k>\tto_formatted_newick {:?}", FORMATS[f]);
        rep.case(&case, true);
        rep.count("deep_caterpillar_formats");
        let t2 = t.clone();
        match guarded(move || t2.to_formatted_newick(FORMATS[f])) {
            Ok(Ok(got)) => if got != want {
                let at = got.bytes().zip(want.bytes()).position(|(a, b)| a != b).unwrap_or(got.len().min(want.len()));
                let cut = |s: &str| s.chars().skip(at.saturating_sub(20)).take(60).collect::<String>();
                rep.oracle("format", &format!("deep-tree:{:?}", FORMATS[f]), &case, &format!("first difference at byte {at}: got ...{}... want ...{}...", cut(&got), cut(&want)));
            },
            other => rep.oracle("format", "deep-tree:error", &case, &format!("{:?}", other.map(|x| x.map(|_| ())))),
        }
    }
    for names in [["{n}", "{labels}", "{nwk}"], ["{nwk}", "{n}", "{}"], ["{0}", "%s", "$1"], ["{labels}", "\\n", "{{n}}"]] {
        let mut t = Tree::new();
        let root = t.add(Node::new());
        for (i, n) in names.iter().enumerate() {
            let _ = t.add_child(Node::new_named(n), root, Some(1.0 + i as f64));
        }
        let case = format!("real.star\ttips named {names:?}\tto_nexus");
        rep.case(&case, true);
        rep.count("nexus:template-like-names");
        let t2 = t.clone();
        match guarded(move || t2.to_nexus()) {
            Ok(Ok(s)) => {
                let want = [format!("NTAX={};", names.len()), format!("TAXLABELS {};", names.join(" ")), format!("TREE tree1 = {}", t.to_newick().unwrap_or_default())];
                for (w, what) in want.iter().zip(["ntax", "taxlabels", "tree"]) {
                    if !s.contains(w.as_str()) {
                        rep.oracle("nexus", &format!("{what}:template-like-names"), &case, &s);
                        break;
                    }
                }
            }
            other => rep.oracle("nexus", "template-like-names:error", &case, &format!("{:?}", other.map(|x| x.map(|_| ())))),
        }
    }
}

pub fn run(prop: &str, thorough: bool, seed: u64, driver: &str, rep: &mut Report) {
    if prop == "C16" {
        fixed_formats(rep);
    }
    if prop == "C01" {
        large_file_roundtrip(rep);
    }
    let mut rng = Rng::new(seed);
    let formats = prop == "C16";
    let (jobs_n, per) = if thorough { (160, 5000) } else { (16, if formats { 500 } else { 1500 }) };
    let jobs: Vec<Job> = (0..jobs_n).map(|_| Job { seed: rng.next(), n: per, formats, max_size: if thorough { 400 } else { 120 } }).collect();
    let d = driver.to_string();
    parallel(jobs, n_workers(), prop, |j, r| do_job(j, &d, r), rep);
}
