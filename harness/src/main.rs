//! pvh — correspondence harness and implementation-side property oracles for phylotree-rs.
//! usage: pvh run <Cxx> --tier quick|thorough --seed N --driver PATH --out FILE
//!        pvh replay <script-file> --driver PATH
mod c01;
mod c02;
mod c03;
mod c04;
mod c05;
mod c08;
mod c09;
mod c11;
mod c13;
mod c14;
mod c15;
mod c17;
mod c18;
mod c19;
mod c20;
mod sp;
mod case;
mod gen;
mod real;
mod util;

use std::time::Instant;
use util::*;

fn arg(args: &[String], key: &str, default: &str) -> String {
    args.iter().position(|a| a == key).and_then(|i| args.get(i + 1)).cloned().unwrap_or_else(|| default.to_string())
}

fn main() {
    // panics of the code under test are observed through catch_unwind; keep stderr quiet
    std::panic::set_hook(Box::new(|info| {
        let s = info.to_string();
        let _ = crate::util::LAST_PANIC.try_with(|p| {
            if let Ok(mut p) = p.try_borrow_mut() {
                *p = s;
            }
        });
    }));
    let args: Vec<String> = std::env::args().collect();
    if args.len() < 3 {
        eprintln!("usage: pvh run <Cxx> [--tier T] [--seed N] [--driver P] [--out F] | pvh replay <file> [--driver P]");
        std::process::exit(2);
    }
    let driver = arg(&args, "--driver", "/verif/lean/PhyloModel/.lake/build/bin/driver");
    match args[1].as_str() {
        "run" => {
            let prop = args[2].clone();
            let tier = arg(&args, "--tier", "quick");
            let seed: u64 = arg(&args, "--seed", "1").parse().unwrap_or(1);
            let out = arg(&args, "--out", "");
            let t0 = Instant::now();
            let mut rep = Report::new(&prop, "");
            // a panic of the harness's own code outside a worker job (an assumption about the implementation's data that holds on
            // the unchanged tree was broken): reported with the case being judged, the results gathered so far are kept
            let caught = std::panic::catch_unwind(std::panic::AssertUnwindSafe(|| {
            match prop.as_str() {
                "C03" => {
                    rep = Report::new("C03", "edit histories (corpus, exhaustive op/argument sequences on small shapes, random walks); a case is one history, identified by its script; non-trivial = at least one successful structural edit and at least one rejected call");
                    c03::run(&c03::Cfg { tier_thorough: tier == "thorough", seed, driver: driver.clone() }, &mut rep);
                }
                "C01" | "C16" => {
                    rep = Report::new(&prop, if prop == "C01" { "trees (all small shapes and random shapes up to hundreds of nodes) x arena layouts (API pre-order, API breadth-first, with removed slots, parsed) x field mixtures (plain / quoted / non-ASCII names, comments, absent / dyadic / decimal / arbitrary-bit-pattern lengths incl. -0, subnormals, 1e300, infinities); a case is one labelled tree; non-trivial = at least two nodes and at least one name or length" } else { "the same trees as C01, each written in all nine NewickFormat values and as Nexus; a case is one labelled tree; non-trivial as in C01" });
                    c01::run(&prop, tier == "thorough", seed, &driver, &mut rep);
                }
                "C05" => {
                    rep = Report::new("C05", "leaf-labelled trees: every shape up to a node/leaf bound crossed with EVERY permutation of the leaf names, random trees to 80 leaves incl. the bitset block-boundary leaf counts 31,32,33,63,64,65, three arena layouts; a case is one labelled tree; non-trivial = at least one non-trivial split and at least one non-tip branch inducing a trivial split");
                    c05::run_c05(tier == "thorough", seed, &driver, &mut rep);
                }
                "C06" | "C07" => {
                    rep = Report::new(&prop, "ordered pairs of trees on a common leaf set (every ordered pair of leaf-labelled shapes up to a leaf bound, or a sample per first tree above 150 labelled shapes; random pairs to 40 leaves by subtree regrafting or independent shapes), both root styles, plus pairs with different leaf sets (C06) / missing lengths (C07); a case is one ordered pair; non-trivial = the trees differ in at least one split (C06) / any pair (C07)");
                    c05::run_pairs(&prop, tier == "thorough", seed, &driver, &mut rep);
                }
                "C09" | "C10" | "C12" => {
                    let rule = match prop.as_str() {
                        "C09" => "trees (every shape up to a node bound with three length masks, random trees) in four arena layouts; every ordered pair of node ids incl. removed and out-of-range ids (sampled above a pair bound): root path, common ancestor, distance; a case is one tree; non-trivial = present and absent branch lengths both occur",
                        "C10" => "trees (every shape up to a node bound, random trees to 150 nodes) in four arena layouts incl. removed slots; every start node incl. removed and out-of-range ids x seven traversal/listing queries; a case is one tree; non-trivial = at least three live nodes",
                        _ => "trees (every shape up to a node bound with three length masks, every rooted binary shape up to a leaf bound, random and hand-binarised random trees, trees after random edit histories) in four arena layouts; all statistics; a case is one tree; non-trivial = rooted binary with at least three leaves",
                    };
                    rep = Report::new(&prop, rule);
                    c09::run(&prop, tier == "thorough", seed, &driver, &mut rep);
                }
                "C04" => {
                    rep = Report::new("C04", "random edit histories (five arena layouts incl. removed slots before the root) interleaved with the documented cache reset and with every read-only query in random order and multiplicity; id-level answers are compared with the model, name-level answers with the same queries on a tree freshly parsed from the current Newick text and with a second evaluation in another order; a case is one history; non-trivial = at least one successful edit followed by queries");
                    c04::run(tier == "thorough", seed, &driver, &mut rep);
                }
                "C11" => {
                    rep = Report::new("C11", "single editing operations on trees in four arena layouts: on every shape up to a node bound with two length masks EVERY argument (every node for prune incl. removed/out-of-range, every ordered pair for merge_children, several factors, several seeds for resolve), random operations on random trees to 60 nodes; the arena after the operation is compared with the model and with a rose-level expectation computed by the harness; a case is one (tree, operation); non-trivial = the operation succeeded");
                    c11::run(tier == "thorough", seed, &driver, &mut rep);
                }
                "C13" => {
                    rep = Report::new("C13", "matrices of every size from 0 to a bound with distinct cell values: every ordered pair read, every pair set and the whole table read back, indexed iteration, pair-keyed map, extrema with ties; random set/get sequences against a plain table; the crate's floating-point inverse index against an integer inverse at every triangular-number boundary (stride-sampled in the quick tier) below 2^50; a case is one matrix or one sequence; non-trivial = at least three taxa");
                    c13::run(tier == "thorough", seed, &driver, &mut rep);
                }
                "C14" => {
                    rep = Report::new("C14", "Phylip texts: every string up to a length bound over 0 1 . a space newline, mutated valid files (extra/missing row or field, size 0/1, +n, trailing blanks, CRLF, asymmetry, non-zero diagonal, blank line), and matrices of size 1..25 with dyadic / decimal / arbitrary-bit-pattern f64 and f32 entries written in both layouts and parsed by all three entry points; a case is one text or one (matrix, layout); non-trivial = contains a newline / at least two taxa");
                    c14::run(tier == "thorough", seed, &driver, &mut rep);
                }
                "C08" => {
                    rep = Report::new("C08", "trees (every shape up to a node bound with all / no / mixed lengths; random trees to hundreds of leaves, polytomies, unary nodes, both root styles, internal labels spelled like leaves) in five arena layouts (leaf arena order differs from name order); stream A = dyadic lengths, every sum exact, compared for EXACT equality with three model computations (arena fold, rose recursion, recursive algorithm); stream B = decimal lengths compared within 1e-9 with an independent path walk; a case is one tree; non-trivial = unique leaf names, at least three leaves, a node with two or more children");
                    c08::run(tier == "thorough", seed, &driver, &mut rep);
                }
                "C15" => {
                    rep = Report::new("C15", "symmetric non-negative integer matrices: every matrix on 2-4 taxa with entries up to a bound, random matrices to 30 (60) taxa with large distinct entries (tie-free), with small entries (deliberate ties), and ultrametric matrices derived from random clock-like trees, taxa in random order; the exact rational model is compared with the crate's tree (topology, child order, names; lengths exactly when dyadic, else 1e-9; cases whose smallest positive decision margin is below 1e-6 are not compared); a case is one matrix; non-trivial = at least three taxa");
                    c15::run(tier == "thorough", seed, &driver, &mut rep);
                }
                "C17" => {
                    rep = Report::new("C17", "generator calls: leaf counts 2..60 (2..300), three shapes, three branch-length distributions, both length flags, several seeds (seedable-RNG hook); the random choices are read back from the real result and the model must rebuild the identical tree and tip numbering from them; a case is one call; non-trivial = at least three leaves");
                    c17::run(tier == "thorough", seed, &driver, &mut rep);
                }
                "C19" => {
                    rep = Report::new("C19", "trees (every shape up to a node bound, random trees to 120 nodes, five arena layouts) with dyadic branch lengths (a few with a missing length); the model emits for every non-root node its parent, the exact angle of its branch as a rational fraction of a turn, and the length; the harness applies cos/sin and compares every coordinate within 1e-9 of the drawing's extent; a case is one tree; non-trivial = all lengths present and at least four nodes");
                    c19::run(tier == "thorough", seed, &driver, &mut rep);
                }
                "C20" => {
                    rep = Report::new("C20", "cross product of every public function of Tree (with every choice of live / removed / out-of-range node arguments and nine comparison partners), DistanceMatrix (sizes 0-3, non-finite matrices) and the generators (n = 0..3, in a watchdogged child process) with every class of degenerate value: empty tree, single node, unnamed / duplicate leaves, missing lengths, non-binary, unrooted, unary chain, two roots, everything removed, removed slot before the root, stale caches after an un-reset edit, trees degenerated by random edit histories; each call isolated by catch_unwind; a case is one call; non-trivial = the call did not simply succeed");
                    c20::run(tier == "thorough", seed, &driver, &mut rep);
                }
                "C18" => {
                    rep = Report::new("C18", "runs of the REAL phylotree binary built from the working tree on generated tree files (dyadic lengths, all / mixed / no lengths, root lengths, named internal nodes): stats, matrix (both layouts, -o), distance, compare, collapse (six thresholds, -e), rescale, remove (random tips and whole sibling groups), resolve (-o); outputs compared with the library in-process, with independent computations of the harness and with the arena / split / matrix / CLI models; a case is one tree file; non-trivial = at least four nodes");
                    c18::run(tier == "thorough", seed, &driver, &mut rep);
                }
                "C02" => {
                    rep = Report::new("C02", "strings fed to Tree::from_newick (corpus, every string up to a length bound over the token alphabet ( ) , ; : [ ] \" a 1 space, every short float lexeme, mutated valid Newick, random Unicode); a case is one string; non-trivial = contains at least one structural token");
                    c02::run(tier == "thorough", seed, &driver, &mut rep);
                }
                _ => {
                    eprintln!("unknown property {prop}");
                    std::process::exit(2);
                }
            }
            }));
            if caught.is_err() {
                let case = util::LAST_CASE.with(|c| c.borrow().clone());
                let what = util::LAST_PANIC.with(|c| c.borrow().clone());
                rep.oracle("judge", "panicked-on-the-implementation's-data", &case, &what);
            }
            let js = rep.to_json(&tier, seed, t0.elapsed().as_secs_f64());
            let text = serde_json::to_string_pretty(&js).unwrap();
            if out.is_empty() {
                println!("{text}");
            } else {
                std::fs::write(&out, text).unwrap();
            }
        }
        "scan-f32-double-rounding" => {
            // tool (not part of any check): every finite f32 whose `Display` text, parsed as f64 and then narrowed to f32, is NOT the
            // value itself (decimal -> f64 -> f32 double rounding).  The result is the corpus `F32_DOUBLE_ROUNDING` of c14.rs.
            let threads = 16u64;
            let hs: Vec<_> = (0..threads).map(|t| std::thread::spawn(move || {
                let mut out = vec![];
                let mut b = t as u32;
                loop {
                    let v = f32::from_bits(b);
                    if v.is_finite() {
                        let txt = format!("{v}");
                        let via = txt.parse::<f64>().unwrap() as f32;
                        if via.to_bits() != b { out.push(b); }
                    }
                    match b.checked_add(threads as u32) { Some(n) if n < 0x8000_0000 => b = n, _ => break }
                }
                out
            })).collect();
            let mut all: Vec<u32> = hs.into_iter().flat_map(|h| h.join().unwrap()).collect();
            all.sort();
            println!("{:x?}", all);
        }
        "probe-parse-deep" => {
            // child-process entry point of C02's deep-nesting stream: exit 0 = parsed, 3 = error value, anything else (a signal
            // after stack exhaustion, a panic) = the parser is not total on this text
            let depth: usize = args[2].parse().unwrap_or(1000);
            let kind = args[3].as_str();
            let text = c02::deep_text(depth, kind);
            let code = match phylotree::tree::Tree::from_newick(&text) {
                Ok(t) => {
                    // the tree is leaked on purpose: only the parser is under test here (dropping is flat anyway)
                    let n = t.size();
                    std::mem::forget(t);
                    if n >= depth { 0 } else { 4 }
                }
                Err(_) => 3,
            };
            std::process::exit(code);
        }
        "probe-gen" => {
            let code = c20::probe_gen(&args[2], args[3].parse().unwrap_or(0), args[4] == "1");
            std::process::exit(code);
        }
        "replay" => {
            let script = std::fs::read_to_string(&args[2]).expect("cannot read script");
            let mut st = real::RealState::new();
            let mut model_cmds = vec![];
            let mut real_ans = vec![];
            for line in script.lines() {
                if line.is_empty() {
                    continue;
                }
                let (a, m) = st.exec(line);
                model_cmds.push(m.unwrap_or_else(|| line.to_string()));
                real_ans.push(a);
            }
            let model_ans = run_driver(&driver, &model_cmds).unwrap_or_else(|e| vec![e; model_cmds.len()]);
            for i in 0..model_cmds.len() {
                println!("> {}", script.lines().filter(|l| !l.is_empty()).nth(i).unwrap());
                println!("  impl : {}", real_ans[i]);
                println!("  model: {}", model_ans.get(i).cloned().unwrap_or_default());
            }
            let slots = gen::slots_of(&st.tree);
            println!("invariant on the real arena: {:?}", gen::check_inv(&slots, false));
        }
        _ => std::process::exit(2),
    }
}
