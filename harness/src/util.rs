//! Shared utilities: PRNG, hex codecs, driver batch runner, report accumulation.
use std::collections::{BTreeMap, HashSet};
use std::hash::{Hash, Hasher};
use std::io::Write;
use std::process::{Command, Stdio};

/// SplitMix64: every random choice of a run derives from one seed.
#[derive(Clone)]
pub struct Rng(pub u64);
impl Rng {
    pub fn new(seed: u64) -> Self {
        Rng(seed.wrapping_mul(0x9E3779B97F4A7C15) ^ 0xD1B54A32D192ED03)
    }
    pub fn next(&mut self) -> u64 {
        self.0 = self.0.wrapping_add(0x9E3779B97F4A7C15);
        let mut z = self.0;
        z = (z ^ (z >> 30)).wrapping_mul(0xBF58476D1CE4E5B9);
        z = (z ^ (z >> 27)).wrapping_mul(0x94D049BB133111EB);
        z ^ (z >> 31)
    }
    pub fn below(&mut self, n: usize) -> usize {
        if n == 0 {
            0
        } else {
            (self.next() % n as u64) as usize
        }
    }
    pub fn range(&mut self, lo: usize, hi: usize) -> usize {
        lo + self.below(hi - lo + 1)
    }
    pub fn chance(&mut self, num: usize, den: usize) -> bool {
        self.below(den) < num
    }
    pub fn pick<'a, T>(&mut self, v: &'a [T]) -> &'a T {
        &v[self.below(v.len())]
    }
    pub fn shuffle<T>(&mut self, v: &mut [T]) {
        for i in (1..v.len()).rev() {
            let j = self.below(i + 1);
            v.swap(i, j);
        }
    }
}

pub fn hex(s: &str) -> String {
    let mut o = String::with_capacity(s.len() * 2);
    for b in s.bytes() {
        o.push_str(&format!("{:02x}", b));
    }
    o
}
pub fn unhex(s: &str) -> Option<String> {
    if s.len() % 2 != 0 {
        return None;
    }
    let mut v = Vec::with_capacity(s.len() / 2);
    for i in (0..s.len()).step_by(2) {
        v.push(u8::from_str_radix(&s[i..i + 2], 16).ok()?);
    }
    String::from_utf8(v).ok()
}
pub fn enc_opt_str(o: &Option<String>) -> String {
    match o {
        None => "-".into(),
        Some(s) => format!("h{}", hex(s)),
    }
}
pub fn dec_opt_str(s: &str) -> Option<Option<String>> {
    if s == "-" {
        Some(None)
    } else if let Some(r) = s.strip_prefix('h') {
        unhex(r).map(Some)
    } else {
        None
    }
}
pub fn enc_opt_usize(o: Option<usize>) -> String {
    match o {
        None => "-".into(),
        Some(n) => n.to_string(),
    }
}
pub fn enc_ids(v: &[usize]) -> String {
    v.iter().map(|x| x.to_string()).collect::<Vec<_>>().join(" ")
}

/// Runs the model driver once over a batch of request lines; returns one answer per request.
pub fn run_driver(driver: &str, requests: &[String]) -> Result<Vec<String>, String> {
    let mut child = Command::new(driver)
        .stdin(Stdio::piped())
        .stdout(Stdio::piped())
        .stderr(Stdio::inherit())
        .spawn()
        .map_err(|e| format!("cannot start driver {driver}: {e}"))?;
    let mut stdin = child.stdin.take().unwrap();
    let payload = {
        let mut s = String::new();
        for r in requests {
            debug_assert!(!r.contains('\n'));
            s.push_str(r);
            s.push('\n');
        }
        s
    };
    let writer = std::thread::spawn(move || {
        let _ = stdin.write_all(payload.as_bytes());
    });
    let out = child.wait_with_output().map_err(|e| e.to_string())?;
    let _ = writer.join();
    let text = String::from_utf8_lossy(&out.stdout);
    let lines: Vec<String> = text.lines().map(|l| l.to_string()).collect();
    if lines.len() != requests.len() {
        return Err(format!(
            "driver answered {} lines for {} requests (exit {:?})",
            lines.len(),
            requests.len(),
            out.status.code()
        ));
    }
    Ok(lines)
}

#[derive(Clone, Debug)]
pub struct Failure {
    /// "oracle" (implementation violates the property on a concrete input) or
    /// "correspondence" (model and implementation disagree)
    pub kind: String,
    /// name of the oracle or of the correspondence stream
    pub name: String,
    /// stable classification of where/how it fails (used to match known findings)
    pub signature: String,
    /// the failing input / history, in protocol syntax, replayable
    pub case: String,
    pub impl_observed: String,
    pub model_observed: String,
}

/// Accumulates what a run covered and what it found.
pub struct Report {
    pub property: String,
    pub evaluations: u64,
    distinct: HashSet<u64>,
    pub rule: String,
    pub samples: Vec<String>,
    pub dist: BTreeMap<String, u64>,
    pub failures: Vec<Failure>,
    pub fail_counts: BTreeMap<String, u64>,
    pub notes: Vec<String>,
    pub exhaustive: bool,
}
impl Report {
    pub fn new(property: &str, rule: &str) -> Self {
        Report {
            property: property.into(),
            evaluations: 0,
            distinct: HashSet::new(),
            rule: rule.into(),
            samples: vec![],
            dist: BTreeMap::new(),
            failures: vec![],
            fail_counts: BTreeMap::new(),
            notes: vec![],
            exhaustive: false,
        }
    }
    /// one evaluated case; `nontrivial` by the property's rule; `canon` identifies the case
    pub fn case(&mut self, canon: &str, nontrivial: bool) {
        self.evaluations += 1;
        LAST_CASE.with(|c| {
            let mut c = c.borrow_mut();
            c.clear();
            c.push_str(canon);
        });
        if nontrivial {
            let mut h = std::collections::hash_map::DefaultHasher::new();
            canon.hash(&mut h);
            self.distinct.insert(h.finish());
        }
        if self.samples.len() < 12 && (self.evaluations.is_power_of_two() || self.samples.len() < 3) {
            let mut s = canon.to_string();
            if s.len() > 600 {
                s.truncate(600);
                s.push_str("...");
            }
            self.samples.push(s);
        }
    }
    pub fn count(&mut self, key: &str) {
        *self.dist.entry(key.to_string()).or_insert(0) += 1;
    }
    pub fn count_n(&mut self, key: &str, n: u64) {
        *self.dist.entry(key.to_string()).or_insert(0) += n;
    }
    pub fn fail(&mut self, f: Failure) {
        *self.fail_counts.entry(format!("{}:{}:{}", f.kind, f.name, f.signature)).or_insert(0) += 1;
        self.store(f);
    }
    /// keeps up to three distinct examples per signature, preferring short cases
    fn store(&mut self, f: Failure) {
        let same = |g: &Failure| g.kind == f.kind && g.name == f.name && g.signature == f.signature;
        if self.failures.iter().any(|g| same(g) && g.case == f.case) {
            return;
        }
        if self.failures.iter().filter(|g| same(g)).count() < 3 {
            self.failures.push(f);
        } else if let Some(slot) = self.failures.iter_mut().filter(|g| same(g)).max_by_key(|g| g.case.len()) {
            if f.case.len() < slot.case.len() {
                *slot = f;
            }
        }
    }
    pub fn oracle(&mut self, name: &str, signature: &str, case: &str, observed: &str) {
        self.fail(Failure {
            kind: "oracle".into(),
            name: name.into(),
            signature: signature.into(),
            case: case.into(),
            impl_observed: observed.into(),
            model_observed: String::new(),
        });
    }
    pub fn mismatch(&mut self, stream: &str, signature: &str, case: &str, imp: &str, model: &str) {
        self.fail(Failure {
            kind: "correspondence".into(),
            name: stream.into(),
            signature: signature.into(),
            case: case.into(),
            impl_observed: imp.into(),
            model_observed: model.into(),
        });
    }
    /// fold another (worker) report into this one
    pub fn merge(&mut self, o: Report) {
        self.evaluations += o.evaluations;
        self.distinct.extend(o.distinct);
        for s in o.samples {
            if self.samples.len() < 16 {
                self.samples.push(s);
            }
        }
        for (k, v) in o.dist {
            *self.dist.entry(k).or_insert(0) += v;
        }
        for f in o.failures {
            self.store(f);
        }
        for (k, v) in o.fail_counts {
            *self.fail_counts.entry(k).or_insert(0) += v;
        }
        self.notes.extend(o.notes);
    }
    pub fn distinct_nontrivial(&self) -> u64 {
        self.distinct.len() as u64
    }
    pub fn to_json(&self, tier: &str, seed: u64, wall_s: f64) -> serde_json::Value {
        let trunc = |s: &str| {
            if s.len() > 4000 {
                format!("{}...", &s[..4000])
            } else {
                s.to_string()
            }
        };
        serde_json::json!({
            "property": self.property,
            "tier": tier,
            "seed": seed,
            "evaluations": self.evaluations,
            "distinct_nontrivial": self.distinct_nontrivial(),
            "rule": self.rule,
            "samples": self.samples,
            "distribution": self.dist,
            "exhaustive": self.exhaustive,
            "notes": self.notes,
            "fail_counts": self.fail_counts,
            "failures": self.failures.iter().map(|f| serde_json::json!({
                "kind": f.kind, "name": f.name, "signature": f.signature, "case": trunc(&f.case),
                "impl_observed": trunc(&f.impl_observed), "model_observed": trunc(&f.model_observed)
            })).collect::<Vec<_>>(),
            "wall_s": wall_s,
        })
    }
}

/// Runs `jobs` on `workers` threads; every job gets its own report, merged in job order.
pub fn parallel<J: Send>(jobs: Vec<J>, workers: usize, property: &str, f: impl Fn(J, &mut Report) + Sync, rep: &mut Report) {
    let n = jobs.len();
    let queue = std::sync::Mutex::new(jobs.into_iter().enumerate().collect::<Vec<_>>());
    let results = std::sync::Mutex::new(Vec::<(usize, Report)>::new());
    std::thread::scope(|s| {
        for _ in 0..workers.max(1) {
            s.spawn(|| loop {
                let job = { queue.lock().unwrap().pop() };
                let Some((idx, job)) = job else { break };
                let mut r = Report::new(property, "");
                // a panic of the judging code itself (not of the code under test, which runs inside `guarded`): an assumption
                // about the implementation's data that holds on the unchanged tree was broken; reported with the case that was
                // being judged instead of losing the whole run
                if std::panic::catch_unwind(std::panic::AssertUnwindSafe(|| f(job, &mut r))).is_err() {
                    let case = LAST_CASE.with(|c| c.borrow().clone());
                    let what = LAST_PANIC.with(|c| c.borrow().clone());
                    r.oracle("judge", "panicked-on-the-implementation's-data", &case, &what);
                }
                results.lock().unwrap().push((idx, r));
            });
        }
    });
    let mut rs = results.into_inner().unwrap();
    assert_eq!(rs.len(), n);
    rs.sort_by_key(|(i, _)| *i);
    for (_, r) in rs {
        rep.merge(r);
    }
}

thread_local! { static CRUMB_FILE: std::cell::RefCell<Option<(std::fs::File, u64)>> = const { std::cell::RefCell::new(None) }; }
static CRUMB_SEQ: std::sync::atomic::AtomicU64 = std::sync::atomic::AtomicU64::new(0);

/// writes the script of the state being driven to this thread's breadcrumb file (only when PVH_CRUMBS_DIR is set)
pub fn crumb(history: &[String]) {
    use std::io::{Seek, Write};
    let Ok(dir) = std::env::var("PVH_CRUMBS_DIR") else { return };
    CRUMB_FILE.with(|c| {
        let mut c = c.borrow_mut();
        if c.is_none() {
            let k = CRUMB_SEQ.fetch_add(1, std::sync::atomic::Ordering::Relaxed);
            if let Ok(f) = std::fs::File::create(format!("{dir}/crumb-{}-{k}.txt", std::process::id())) {
                *c = Some((f, 0));
            }
        }
        if let Some((f, _)) = c.as_mut() {
            let text = history.join("\n");
            let _ = f.set_len(0);
            let _ = f.seek(std::io::SeekFrom::Start(0));
            let _ = f.write_all(text.as_bytes());
        }
    });
}

pub fn n_workers() -> usize {
    std::thread::available_parallelism().map(|n| n.get()).unwrap_or(4).min(16)
}

thread_local! {
    /// the case most recently registered on this thread (context of a panic of the judging code)
    pub static LAST_CASE: std::cell::RefCell<String> = std::cell::RefCell::new(String::new());
    /// message and location of the most recent panic on this thread (filled by the panic hook)
    pub static LAST_PANIC: std::cell::RefCell<String> = std::cell::RefCell::new(String::new());
}

/// Run `f`, turning a panic into `Err(message)`.
pub fn guarded<T>(f: impl FnOnce() -> T + std::panic::UnwindSafe) -> Result<T, String> {
    std::panic::catch_unwind(f).map_err(|e| {
        if let Some(s) = e.downcast_ref::<&str>() {
            s.to_string()
        } else if let Some(s) = e.downcast_ref::<String>() {
            s.clone()
        } else {
            "panic".to_string()
        }
    })
}
