//! C02 — the Newick parser is total and only returns well-formed trees (also feeds C01's parser tie).
use crate::gen::*;
use crate::util::*;
use phylotree::tree::Tree;

pub const ALPHABET: [char; 11] = ['(', ')', ',', ';', ':', '[', ']', '"', 'a', '1', ' '];

/// what the real parser does on `text`: `ok <arena bits>` / `err` / `panic`
pub fn real_parse(text: &str) -> (String, Option<Tree>) {
    let t = text.to_string();
    match guarded(move || Tree::from_newick(&t)) {
        Err(_) => ("panic".into(), None),
        Ok(Err(_)) => ("err".into(), None),
        Ok(Ok(tree)) => (format!("ok {}", enc_arena_bits(&slots_of(&tree))), Some(tree)),
    }
}

fn model_canon(ans: &str) -> String {
    if let Some(a) = ans.strip_prefix("ok ") {
        match lex_arena_to_bits(a) {
            Some(b) => format!("ok {b}"),
            None => format!("undecodable {ans}"),
        }
    } else {
        class(ans).to_string()
    }
}
fn class(a: &str) -> &str {
    a.split(' ').next().unwrap_or("")
}

/// is the text outside the property's "quotes only as balanced label delimiters" domain?
fn quote_free(s: &str) -> bool {
    !s.contains('"')
}

/// the normal-form clause's domain: double quotes occur only as balanced delimiters inside labels — never inside a
/// comment or a branch length, and every quoted section is closed before the text ends
fn quotes_only_delimit_labels(s: &str) -> bool {
    #[derive(PartialEq)]
    enum F { Name, Len, Comment }
    let (mut f, mut inq) = (F::Name, false);
    for c in s.chars() {
        if inq {
            if c == '"' {
                inq = false;
            }
            continue;
        }
        match f {
            F::Comment => {
                if c == '"' { return false; }
                if c == ']' { f = F::Name; }
            }
            _ => match c {
                '"' => {
                    if f != F::Name { return false; }
                    inq = true;
                }
                '[' => f = F::Comment,
                ':' => f = F::Len,
                // an opening parenthesis does not end a branch-length field in this parser (`:("…` keeps reading a length)
                ',' | ')' => f = F::Name,
                ';' => return true,
                _ => {}
            },
        }
    }
    !inq
}

/// oracle for the rejection clause, for EVERY text, under the plain lexical reading of the format: a double quote (outside a
/// bracket comment) opens or closes a quoted section, `[` (outside a quoted section) opens a comment that the next `]`
/// closes; parentheses and semicolons inside a quoted section or a comment are not structural.  A terminating structural
/// `;` must exist and the structural parentheses before it must be balanced and never close more than were opened.
/// (This reading does not look at the parser's fields at all: a text it calls unbalanced must be rejected whatever the
/// parser thinks it is reading.)
fn must_reject(s: &str) -> Option<&'static str> {
    let (mut inq, mut inc) = (false, false);
    let mut depth: i64 = 0;
    let mut terminated = false;
    for c in s.chars() {
        if inc {
            if c == ']' { inc = false; }
            continue;
        }
        if inq {
            if c == '"' { inq = false; }
            continue;
        }
        match c {
            '"' => inq = true,
            '[' => inc = true,
            '(' => depth += 1,
            ')' => {
                depth -= 1;
                if depth < 0 {
                    return Some("unbalanced-close");
                }
            }
            ';' => { terminated = true; break; }
            _ => {}
        }
    }
    if !terminated {
        return Some("no-semicolon");
    }
    if depth != 0 {
        return Some("unbalanced-open");
    }
    None
}

/// implementation-side oracles on one parse result
fn oracles(text: &str, ans: &str, tree: &Option<Tree>, rep: &mut Report) {
    let hx = format!("nw.parse\t{}", hex(text));
    if ans == "panic" {
        rep.oracle("no-panic", "from_newick:panic", &hx, "from_newick panicked");
        return;
    }
    if let Some(why) = must_reject(text) {
        if class(ans) == "ok" {
            rep.oracle("reject", why, &hx, "accepted");
        }
    }
    let Some(tree) = tree else { return };
    let slots = slots_of(tree);
    if let Err(e) = check_inv(&slots, true) {
        rep.oracle("well-formed", &inv_sig(&e), &hx, &e);
        return;
    }
    if slots.is_empty() {
        rep.oracle("well-formed", "empty-tree", &hx, "a tree without nodes was returned");
        return;
    }
    // one rooted tree containing all of its nodes
    let roots = live_roots(&slots);
    let reach = rose_of(&slots, roots[0]).map(|r| r.size()).unwrap_or(0);
    if reach != slots.len() {
        rep.oracle("well-formed", "unreachable-nodes", &hx, &format!("{} of {} nodes reachable from the root", reach, slots.len()));
        return;
    }
    // normal form: the written form parses back to an equal tree and is written identically again
    if quote_free(text) || quotes_only_delimit_labels(text) {
        let t2 = tree.clone();
        let r = guarded(move || {
            let w1 = t2.to_newick().map_err(|e| format!("to_newick: {e:?}"))?;
            let p = Tree::from_newick(&w1).map_err(|e| format!("re-parse of {w1:?}: {e:?}"))?;
            let w2 = p.to_newick().map_err(|e| format!("to_newick: {e:?}"))?;
            Ok::<_, String>((w1, w2, p))
        });
        match r {
            Err(_) => rep.oracle("normal-form", "panic", &hx, "write/re-parse panicked"),
            Ok(Err(e)) => rep.oracle("normal-form", "error", &hx, &e),
            Ok(Ok((w1, w2, p))) => {
                let a = rose_of(&slots, roots[0]).map(|r| r.canon());
                let ps = slots_of(&p);
                let b = live_roots(&ps).first().and_then(|r| rose_of(&ps, *r)).map(|r| r.canon());
                if w1 != w2 {
                    rep.oracle("normal-form", "rewrite-differs", &hx, &format!("{w1:?} vs {w2:?}"));
                } else if a != b {
                    rep.oracle("normal-form", "reparse-differs", &hx, &format!("{a:?} vs {b:?}"));
                }
            }
        }
    }
}

/// very deeply nested text: `left` = ((((a,b),b),b)...); `right` = (b,(b,(b,...a)))); `unary` = ((((a)))); `unbalanced` = one
/// closing parenthesis missing (must be an error value)
pub fn deep_text(depth: usize, kind: &str) -> String {
    let mut s = String::with_capacity(depth * 4 + 8);
    match kind {
        "left" | "unbalanced" => {
            for _ in 0..depth { s.push('('); }
            s.push('a');
            for i in 0..depth { if kind == "unbalanced" && i == depth / 2 { s.push_str(",b"); } else { s.push_str(",b)"); } }
        }
        "right" => {
            for _ in 0..depth { s.push_str("(b,"); }
            s.push('a');
            for _ in 0..depth { s.push(')'); }
        }
        _ => {
            for _ in 0..depth { s.push('('); }
            s.push_str("a:1");
            for _ in 0..depth { s.push_str("):1"); }
        }
    }
    s.push(';');
    s
}

/// "for every input string the parser terminates and returns either an error or a tree": text nested far deeper than any
/// call stack is deep, parsed in a child process with the default stack (the parser is a loop over the characters with an
/// explicit parent stack; only the parser runs, nothing recursive is called on the result)
fn deep_nesting(rep: &mut Report, thorough: bool) {
    let exe = std::env::current_exe().map(|p| p.to_string_lossy().to_string()).unwrap_or_default();
    let depths: &[usize] = if thorough { &[10_000, 200_000, 1_000_000] } else { &[10_000, 200_000] };
    for &depth in depths {
        for kind in ["left", "right", "unary", "unbalanced"] {
            let case = format!("nw.parse-deep\t{kind}\t{depth}");
            rep.case(&case, true);
            rep.count("deep_nesting_texts");
            let mut child = match std::process::Command::new(&exe).args(["probe-parse-deep", &depth.to_string(), kind]).stdout(std::process::Stdio::null()).stderr(std::process::Stdio::null()).spawn() {
                Ok(c) => c,
                Err(_) => continue,
            };
            let t0 = std::time::Instant::now();
            let outcome = loop {
                match child.try_wait() {
                    Ok(Some(st)) => break match st.code() { Some(0) => "ok", Some(3) => "err", Some(4) => "nodes-missing", _ => "crash" },
                    Ok(None) => {
                        if t0.elapsed().as_secs_f64() > 60.0 { let _ = child.kill(); let _ = child.wait(); break "hang"; }
                        std::thread::sleep(std::time::Duration::from_millis(5));
                    }
                    Err(_) => break "crash",
                }
            };
            let want = if kind == "unbalanced" { "err" } else { "ok" };
            if outcome != want {
                rep.oracle(if outcome == "hang" { "terminates" } else { "no-panic" }, &format!("deep-nesting:{kind}:{outcome}"), &case, &format!("the parser process ended with {outcome} on {kind}-nested text of depth {depth} (expected {want})"));
            }
        }
    }
}

pub fn nontrivial(text: &str) -> bool {
    text.chars().any(|c| "(),;:".contains(c))
}

/// compares one chunk of texts between the real parser and the model
pub fn compare_chunk(texts: &[String], driver: &str, rep: &mut Report, stream: &str, with_oracles: bool) {
    let reqs: Vec<String> = texts.iter().map(|t| format!("nw.parse\t{}", hex(t))).collect();
    let answers = match run_driver(driver, &reqs) {
        Ok(a) => a,
        Err(e) => {
            rep.mismatch(stream, "driver-failed", "", "", &e);
            return;
        }
    };
    for (i, t) in texts.iter().enumerate() {
        let (ans, tree) = real_parse(t);
        rep.case(&reqs[i], nontrivial(t));
        rep.count(&format!("outcome:{}", class(&ans)));
        if with_oracles {
            oracles(t, &ans, &tree, rep);
        }
        let m = model_canon(&answers[i]);
        if m != ans {
            let sig = if class(&m) != class(&ans) { format!("nw.parse:{}!={}", class(&ans), class(&m)) } else { "nw.parse:differs".to_string() };
            rep.mismatch(stream, &sig, &reqs[i], &ans, &m);
        }
    }
}

/// parser tie only (no case counting, no oracles): used by other properties on their own texts
pub fn compare_chunk_quiet(texts: &[String], driver: &str, rep: &mut Report, stream: &str) {
    let reqs: Vec<String> = texts.iter().map(|t| format!("nw.parse\t{}", hex(t))).collect();
    let answers = match run_driver(driver, &reqs) {
        Ok(a) => a,
        Err(e) => {
            rep.mismatch(stream, "driver-failed", "", "", &e);
            return;
        }
    };
    rep.count_n("model_requests", reqs.len() as u64);
    for (i, t) in texts.iter().enumerate() {
        let (ans, _) = real_parse(t);
        let m = model_canon(&answers[i]);
        if m != ans {
            let sig = if class(&m) != class(&ans) { format!("nw.parse:{}!={}", class(&ans), class(&m)) } else { "nw.parse:differs".to_string() };
            rep.mismatch(stream, &sig, &reqs[i], &ans, &m);
        }
    }
}

fn nth_string(mut k: u64, len: usize, alpha: &[char]) -> String {
    let mut s = String::new();
    for _ in 0..len {
        s.push(alpha[(k % alpha.len() as u64) as usize]);
        k /= alpha.len() as u64;
    }
    s
}

/// mutate a valid Newick text: delete / duplicate / swap / insert a token, truncate
pub fn mutate(rng: &mut Rng, s: &str) -> String {
    let mut v: Vec<char> = s.chars().collect();
    let n = rng.range(1, 3);
    for _ in 0..n {
        if v.is_empty() {
            break;
        }
        let i = rng.below(v.len());
        match rng.below(6) {
            0 => {
                v.remove(i);
            }
            1 => {
                let c = v[i];
                v.insert(i, c);
            }
            2 => {
                let j = rng.below(v.len());
                v.swap(i, j);
            }
            3 => {
                let toks = ['(', ')', ',', ';', ':', '[', ']', '"', ' ', '\t', '\n', 'x', '7', '.', '-', 'e', '\u{a0}', '\u{2003}', '\u{200b}', 'é'];
                v.insert(i, *rng.pick(&toks));
            }
            4 => {
                if rng.chance(1, 2) {
                    v.truncate(i);
                } else {
                    // a double quote directly after a branch length (and sometimes a second one later)
                    if let Some(pos) = (0..v.len()).filter(|k| *k > 0 && v[*k - 1].is_ascii_digit() && (v[*k] == ',' || v[*k] == ')')).nth(i % 3) {
                        v.insert(pos, '"');
                        if rng.chance(2, 3) && pos + 2 < v.len() {
                            let j = pos + 2 + rng.below(v.len() - pos - 2);
                            v.insert(j, '"');
                        }
                    }
                }
            }
            _ => {
                let toks = ['(', ')', ',', ';', ':', '\\', '"', ' ', '['];
                v[i] = *rng.pick(&toks);
            }
        }
    }
    v.into_iter().collect()
}

fn random_unicode(rng: &mut Rng, len: usize) -> String {
    let mut s = String::new();
    let ws = ['\u{9}', '\u{a}', '\u{b}', '\u{c}', '\u{d}', ' ', '\u{85}', '\u{a0}', '\u{1680}', '\u{2000}', '\u{2005}', '\u{200a}', '\u{2028}', '\u{2029}', '\u{202f}', '\u{205f}', '\u{3000}', '\u{200b}', '\u{feff}'];
    for _ in 0..len {
        match rng.below(10) {
            0..=3 => s.push(*rng.pick(&ALPHABET)),
            4 => s.push(*rng.pick(&ws)),
            5 => s.push(*rng.pick(&['.', '-', '+', 'e', 'E', 'i', 'n', 'f', 'N', 'a', '0', '9', '\\'])),
            _ => loop {
                if let Some(c) = char::from_u32((rng.next() % 0x110000) as u32) {
                    s.push(c);
                    break;
                }
            },
        }
    }
    s
}

/// labels under stress: everything that interacts with the quote / comment state, including the backslash (an ordinary
/// character: the format has no escapes)
pub const QUOTE4: [char; 4] = ['a', '\\', '"', ' '];
pub const QUOTE6: [char; 6] = ['a', '\\', '"', ' ', '[', ']'];

enum Job {
    QuoteStress { len: usize, six: bool, from: u64, to: u64 },
    Texts(Vec<String>, &'static str),
    Exhaustive { len: usize, from: u64, to: u64 },
    Lexemes { len: usize },
    Mutated { seed: u64, n: usize },
    Unicode { seed: u64, n: usize },
}

fn do_job(job: Job, driver: &str, rep: &mut Report) {
    match job {
        Job::Texts(t, stream) => {
            rep.count_n("corpus", t.len() as u64);
            compare_chunk(&t, driver, rep, stream, true)
        }
        Job::QuoteStress { len, six, from, to } => {
            // `<s>;` (a one-node tree whose label is s) and `(<s>:1,b);`
            let alpha: &[char] = if six { &QUOTE6 } else { &QUOTE4 };
            let mut chunk: Vec<String> = Vec::with_capacity(2 * (to - from) as usize);
            for k in from..to {
                let s = nth_string(k, len, alpha);
                chunk.push(format!("{s};"));
                chunk.push(format!("({s}:1,b);"));
            }
            rep.count_n(&format!("quote_stress_{}_len_{len}", alpha.len()), 2 * (to - from));
            compare_chunk(&chunk, driver, rep, "c02.quotes", true);
        }
        Job::Exhaustive { len, from, to } => {
            let chunk: Vec<String> = (from..to).map(|k| nth_string(k, len, &ALPHABET)).collect();
            rep.count_n(&format!("exhaustive_len_{len}"), to - from);
            compare_chunk(&chunk, driver, rep, "c02.exhaustive", true);
        }
        Job::Lexemes { len } => {
            let num_alpha = ['0', '1', '.', 'e', 'E', '-', '+', 'i', 'n', 'f', 'a', 'N'];
            let total = (num_alpha.len() as u64).pow(len as u32);
            let chunk: Vec<String> = (0..total).map(|k| format!("(a:{},b);", nth_string(k, len, &num_alpha))).collect();
            rep.count_n(&format!("lexeme_len_{len}"), total);
            compare_chunk(&chunk, driver, rep, "c02.lexemes", true);
        }
        Job::Mutated { seed, n } => {
            let mut rng = Rng::new(seed);
            let mut chunk = vec![];
            for i in 0..n {
                let size = rng.range(1, if i % 50 == 0 { 120 } else { 14 });
                let mut t = random_shape(&mut rng, size);
                let kind = match rng.below(3) {
                    0 => LenKind::Dyadic,
                    1 => LenKind::Decimal,
                    _ => LenKind::Wild,
                };
                let (rl, fancy) = (rng.chance(1, 3), rng.chance(1, 3));
                label(&mut rng, &mut t, &LabelOpts { comments_pct: 20, len_mode: LenMode::Mixed, len_kind: kind, root_len: rl, fancy_names: fancy, ..Default::default() });
                let mut s = t.newick();
                if rng.chance(4, 5) {
                    s = mutate(&mut rng, &s);
                    rep.count("mutated");
                } else {
                    rep.count("valid");
                }
                chunk.push(s);
            }
            compare_chunk(&chunk, driver, rep, "c02.mutated", true);
        }
        Job::Unicode { seed, n } => {
            let mut rng = Rng::new(seed);
            let chunk: Vec<String> = (0..n).map(|_| { let len = rng.range(0, 24); random_unicode(&mut rng, len) }).collect();
            compare_chunk(&chunk, driver, rep, "c02.unicode", true);
        }
    }
}

pub fn run(thorough: bool, seed: u64, driver: &str, rep: &mut Report) {
    let mut rng = Rng::new(seed);
    let mut jobs = vec![];
    // --- corpus (minimised past failures and boundary cases) ---
    let corpus = [
        ";", "A;", ",;", ");", "(A)B,C;", "(A)(B);", "(A,B)C(D);", "(A,B);", "((A,B),C)R:1;", "(A:1e3,B:.5,C:5.)[c];x", "(\"a (b\",c);",
        "(A,B)", "((A,B);", "(A,B));", "( A , B ) ;", "(A:1 2,B);", "(A[x]y[z],B);", "(A:nan,B:inf,C:-Infinity,D:+1);", "(,);", "();", "(:1,:2):3;",
        "A:1;", "[c];", "\"q\";", ":;", "(A;B);", "(A,B;", "a;b;", "(a\u{a0}b,c);", "(a\u{200b}b,c);", "(A:1:2,B);", "(A::,B);", "(A:1e,B);",
        // found while proving the label-domain theorem for texts WITH quotes (the proof forced the hypothesis "no quote is read
        // inside a branch length"): a quote after a length toggles the quote flag without being stored
        "(a:1\"(,)\",c));", "(a:1\",(b\",c);", "(a:1\",b\");", "(a:1\"(,)\",c);", "(a:\"1,b);", "(a:1\"\",b);", "(a:1\"[x],b\");",
    ];
    let mut texts: Vec<String> = corpus.iter().map(|s| s.to_string()).collect();
    for lex in ["infinity", "INFINITY", "-Infinity", "+inf", "nan", "-NaN", "1e400", "1e-400", "0x10", "1_0", "١", "1e+5", "1.e5", ".e5", "infinit", "1e5e5"] {
        texts.push(format!("(a:{lex},b);"));
    }
    jobs.push(Job::Texts(texts, "c02.corpus"));
    // --- exhaustive short strings over the token alphabet ---
    let max_len = if thorough { 8 } else { 6 };
    for len in 0..=max_len {
        let total = (ALPHABET.len() as u64).pow(len as u32);
        let mut from = 0;
        while from < total {
            let to = (from + 100_000).min(total);
            jobs.push(Job::Exhaustive { len, from, to });
            from = to;
        }
    }
    rep.notes.push(format!("all strings of length <= {max_len} over the 11-symbol token alphabet were enumerated"));
    rep.exhaustive = false; // the exhaustive stream is complete for its bound; the other streams are samples
    // --- labels under stress: all strings over {a \ " space} and over {a \ " space [ ]} as the label of a node ---
    let (l4, l6) = if thorough { (11, 9) } else { (9, 7) };
    for (six, maxl) in [(false, l4), (true, l6)] {
        let base: u64 = if six { 6 } else { 4 };
        for len in 0..=maxl {
            let total = base.pow(len as u32);
            let mut from = 0;
            while from < total {
                let to = (from + 50_000).min(total);
                jobs.push(Job::QuoteStress { len, six, from, to });
                from = to;
            }
        }
    }
    rep.notes.push(format!("all labels of length <= {l4} over a, backslash, double quote, blank and of length <= {l6} over those plus [ ] were enumerated inside `<s>;` and `(<s>:1,b);`"));
    // --- float lexemes inside `(a:<lexeme>,b);` ---
    for len in 0..=(if thorough { 6 } else { 4 }) {
        jobs.push(Job::Lexemes { len });
    }
    // --- mutated valid Newick (mostly-valid stream) and random Unicode (malformed stream) ---
    let (n_mut, n_uni) = if thorough { (400, 200) } else { (6, 4) };
    for _ in 0..n_mut {
        jobs.push(Job::Mutated { seed: rng.next(), n: 10_000 });
    }
    for _ in 0..n_uni {
        jobs.push(Job::Unicode { seed: rng.next(), n: 10_000 });
    }
    deep_nesting(rep, thorough);
    let d = driver.to_string();
    parallel(jobs, n_workers(), "C02", |j, r| do_job(j, &d, r), rep);
}
