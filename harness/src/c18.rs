//! C18 — command-line subcommands agree with the library semantics (the REAL binary built from the working tree).
use crate::gen::*;
use crate::sp::*;
use crate::util::*;
use phylotree::tree::Tree;
use phylotree::verif::RawSlot;
use std::collections::BTreeMap;
use std::process::Command;

const DEFAULT_BIN: &str = "/verif/harness/target/cli/debug/phylotree";
/// the real binary built from /repo (the check stages a private copy and names it in PVH_CLI)
fn bin() -> String {
    std::env::var("PVH_CLI").unwrap_or_else(|_| DEFAULT_BIN.to_string())
}

struct Run {
    stdout: String,
    code: Option<i32>,
}
fn run_cli(args: &[&str]) -> Run {
    match Command::new(bin()).args(args).output() {
        Ok(o) => Run { stdout: String::from_utf8_lossy(&o.stdout).to_string(), code: o.status.code() },
        Err(e) => Run { stdout: format!("cannot run {}: {e}", bin()), code: None },
    }
}

/// `--output FILE` must change nothing but the destination: the file holds exactly what the plain run printed (minus the
/// newline `println!` adds for trees; `distance` / `matrix` write the same bytes), stdout stays empty, the exit status is
/// the same.  The file EXISTS BEFOREHAND with longer content (a re-run of a pipeline into the same path): nothing of it
/// may survive.
fn check_output_option(sub: &str, args: &[&str], plain: &Run, out: &str, tree_output: bool, ctx: &str, rep: &mut Report) {
    if plain.code != Some(0) {
        return;
    }
    let junk = "STALE CONTENT OF AN EARLIER RUN;\n".repeat(1 + plain.stdout.len() / 8);
    if std::fs::write(out, &junk).is_err() {
        return;
    }
    // the output file is named the way people name files: the extension says nothing about what is written
    let out_owned = { let k = plain.stdout.len() % 6; let ext = ["", ".NEX", ".nexus", ".txt", ".tree.bak", ".phy"][k]; format!("{out}{ext}") };
    let out = out_owned.as_str();
    if std::fs::write(out, &junk).is_err() {
        return;
    }
    let mut a: Vec<&str> = args.to_vec();
    a.push("-o");
    a.push(out);
    let r2 = run_cli(&a);
    let content = std::fs::read_to_string(out).unwrap_or_else(|_| "<unreadable>".into());
    let want = if tree_output { plain.stdout.strip_suffix('\n').unwrap_or(&plain.stdout).to_string() } else { plain.stdout.clone() };
    rep.count(&format!("output-option:{sub}"));
    if r2.code != Some(0) || !r2.stdout.is_empty() || content != want {
        let sig = if content.contains("STALE CONTENT") { format!("{sub}:stale-content-survives") } else { sub.to_string() };
        rep.oracle("output-option", &sig, &format!("{ctx} -o OUT   (OUT existed before, with longer content)"), &format!("exit {:?} stdout {:?} file {:?} expected {:?}", r2.code, r2.stdout, content.chars().take(400).collect::<String>(), want));
    }
    let _ = std::fs::remove_file(out);
}

/// `-o` given as a BARE relative file name (no directory part), the tool started in a scratch directory: same content as the plain run
fn check_relative_output(sub: &str, args: &[&str], plain: &Run, dir: &str, tree_output: bool, ctx: &str, rep: &mut Report) {
    if plain.code != Some(0) {
        return;
    }
    let name = format!("rel-out-{}.txt", std::process::id());
    let mut a: Vec<&str> = args.to_vec();
    a.push("-o");
    a.push(&name);
    let o = Command::new(bin()).args(&a).current_dir(dir).output();
    let path = format!("{dir}/{name}");
    let content = std::fs::read_to_string(&path).unwrap_or_else(|_| "<missing>".into());
    let _ = std::fs::remove_file(&path);
    let want = if tree_output { plain.stdout.strip_suffix('\n').unwrap_or(&plain.stdout).to_string() } else { plain.stdout.clone() };
    rep.count(&format!("relative-output:{sub}"));
    let code = o.as_ref().ok().and_then(|x| x.status.code());
    if code != Some(0) || content != want {
        rep.oracle("output-option", &format!("{sub}:bare-relative-file-name"), &format!("{ctx} -o OUT.txt   (a bare file name, resolved against the working directory)"), &format!("exit {code:?} file {:?} expected {:?}", content.chars().take(300).collect::<String>(), want.chars().take(300).collect::<String>()));
    }
}

/// `-o` naming the INPUT file itself (an in-place transform): the file afterwards holds what the plain run printed
fn check_in_place(sub: &str, args_before_file: &[&str], file: &str, args_after_file: &[&str], plain: &Run, ctx: &str, rep: &mut Report) {
    if plain.code != Some(0) {
        return;
    }
    let copy = format!("{file}.inplace.nwk");
    if std::fs::copy(file, &copy).is_err() {
        return;
    }
    let mut a: Vec<&str> = args_before_file.to_vec();
    a.push(&copy);
    a.extend_from_slice(args_after_file);
    a.push("-o");
    a.push(&copy);
    let r2 = run_cli(&a);
    let content = std::fs::read_to_string(&copy).unwrap_or_else(|_| "<unreadable>".into());
    let want = plain.stdout.strip_suffix('\n').unwrap_or(&plain.stdout).to_string();
    rep.count(&format!("in-place-output:{sub}"));
    if r2.code != Some(0) || content != want {
        rep.oracle("output-option", &format!("{sub}:in-place"), &format!("{ctx} -o <the input file itself>"), &format!("exit {:?} file {:?} expected {:?}", r2.code, content.chars().take(300).collect::<String>(), want.chars().take(300).collect::<String>()));
    }
    let _ = std::fs::remove_file(&copy);
}

fn tmp(dir: &str, k: &mut usize, text: &str) -> String {
    *k += 1;
    let p = format!("{dir}/t{}.nwk", *k);
    // files end the way files end: nothing, a newline, blank lines, CR LF, trailing blanks, a further tree on the next line —
    // the tool reads the FIRST tree of the file and everything after its semicolon is ignored (as `from_newick` does)
    let tail = ["", "\n", "\n\n", "\r\n", "  \n", "\n(ignored,second,tree);\n", "\n\n\n"][*k % 7];
    std::fs::write(&p, format!("{text}{tail}")).unwrap();
    p
}

fn slots_from_dump(d: &str) -> Option<Vec<RawSlot>> {
    if d == "_" {
        return Some(vec![]);
    }
    let mut v = vec![];
    for (i, s) in d.split('|').enumerate() {
        let f: Vec<&str> = s.split(',').collect();
        if f.len() != 8 {
            return None;
        }
        let deleted = f[0] == "1";
        v.push(RawSlot {
            id: if deleted { 0 } else { i },
            name: dec_opt_str(f[4])?,
            parent: if f[1] == "-" { None } else { f[1].parse().ok() },
            children: f[6].split(' ').filter(|x| !x.is_empty()).filter_map(|x| x.parse().ok()).collect(),
            parent_edge: if f[3] == "-" { None } else { Some(f[3].parse::<i64>().ok()? as f64 / UNIT as f64) },
            comment: dec_opt_str(f[5])?,
            child_edges: None,
            depth: f[2].parse().ok()?,
            deleted,
            has_subtree_distances: false,
        });
    }
    Some(v)
}
fn rose_of_slots(slots: &[RawSlot]) -> Option<Rose> {
    live_roots(slots).first().and_then(|r| rose_of(slots, *r))
}
fn rose_of_text(text: &str) -> Option<Rose> {
    let t = Tree::from_newick(text.trim_end()).ok()?;
    rose_of_slots(&slots_of(&t))
}

fn leaf_dists(r: &Rose) -> BTreeMap<(String, String), Option<f64>> {
    fn go(r: &Rose, out: &mut BTreeMap<(String, String), Option<f64>>) -> Vec<(String, Option<f64>)> {
        if r.kids.is_empty() {
            return vec![(r.name.clone().unwrap_or_default(), Some(0.0))];
        }
        let mut per: Vec<Vec<(String, Option<f64>)>> = vec![];
        for k in r.kids.iter() {
            per.push(go(k, out).into_iter().map(|(n, d)| (n, match (d, k.len) { (Some(a), Some(b)) => Some(a + b), _ => None })).collect());
        }
        for i in 0..per.len() {
            for j in i + 1..per.len() {
                for a in per[i].iter() {
                    for b in per[j].iter() {
                        let key = if a.0 <= b.0 { (a.0.clone(), b.0.clone()) } else { (b.0.clone(), a.0.clone()) };
                        out.insert(key, match (a.1, b.1) { (Some(x), Some(y)) => Some(x + y), _ => None });
                    }
                }
            }
        }
        per.into_iter().flatten().collect()
    }
    let mut out = BTreeMap::new();
    go(r, &mut out);
    out
}

struct Pend {
    ctx: String,
    /// expected canonical rose of the model arena after the command (None = error exit expected iff model errs)
    cli_tree: Option<String>,
    cli_failed: bool,
    kind: &'static str,
    expect_line: Option<String>,
}

/// `phylotree generate`: the trees the command prints (or writes, one file per tree with -n/-o) satisfy what the generators promise
/// (this is the UNGUARDED binary: thread_rng(), not the seeded hook).  Used by C18 and by C17.
pub fn generate_stream(dir: &str, rng: &mut Rng, count: usize, rep: &mut Report) {
    // ---- `generate`: the trees the command prints (or writes, one file per tree with -n/-o) satisfy what the generators promise
    // (this is the UNGUARDED binary: thread_rng(), not the seeded hook) ----
    for gi in 0..count {
        let n = rng.range(2, 40);
        let shape = ["yule", "ete3", "caterpillar"][gi % 3];
        let distr = ["uniform", "exponential", "gamma"][(gi / 3) % 3];
        let brlens = gi % 2 == 0;
        let multi = gi % 6 == 5;
        let mut args: Vec<String> = vec!["generate".into(), "-t".into(), n.to_string(), "-s".into(), shape.into(), "-d".into(), distr.into()];
        if brlens {
            args.push("-b".into());
        }
        let out_dir = format!("{dir}/gen{gi}");
        if multi {
            args.extend(["-n".to_string(), "3".to_string(), "-o".to_string(), out_dir.clone()]);
        }
        let a: Vec<&str> = args.iter().map(|x| x.as_str()).collect();
        let r = run_cli(&a);
        rep.count("runs:generate");
        let ctx = format!("phylotree {}", args.join(" "));
        rep.case(&ctx, true);
        let texts: Vec<String> = if multi {
            (1..=3).map(|i| std::fs::read_to_string(format!("{out_dir}/{i}_{n}_tips.nwk")).unwrap_or_else(|_| "<missing>".into())).collect()
        } else {
            vec![r.stdout.clone()]
        };
        if r.code != Some(0) {
            rep.oracle("generate", "error-exit", &ctx, &format!("exit {:?} {}", r.code, r.stdout));
            continue;
        }
        for text in texts {
            match Tree::from_newick(text.trim_end()) {
                Err(_) => rep.oracle("generate", "output-not-parseable", &ctx, &text),
                Ok(g) => {
                    let slots = slots_of(&g);
                    let tips: Vec<&phylotree::verif::RawSlot> = slots.iter().filter(|s| s.children.is_empty()).collect();
                    let mut names: Vec<String> = tips.iter().filter_map(|s| s.name.clone()).collect();
                    names.sort();
                    names.dedup();
                    let lens_ok = slots.iter().all(|s| s.parent.is_none() || (s.parent_edge.is_some() == brlens && s.parent_edge.map_or(true, |l| l >= 0.0 && l.is_finite() && (distr != "uniform" || (0.002..1.0).contains(&l)))));
                    let ok = slots.len() == 2 * n - 1 && tips.len() == n && names.len() == n && g.is_binary().unwrap_or(false) && g.is_rooted().unwrap_or(false) && lens_ok
                        && (shape != "caterpillar" || g.colless().ok() == Some((n - 1) * (n - 2) / 2));
                    if !ok {
                        rep.oracle("generate", "not-a-valid-tree-of-the-requested-size", &ctx, &text);
                    }
                }
            }
        }
        let _ = std::fs::remove_dir_all(&out_dir);
    }
}

pub fn run(thorough: bool, seed: u64, driver: &str, rep: &mut Report) {
    if !std::path::Path::new(&bin()).exists() {
        rep.mismatch("c18.cli", "binary-missing", "", "", &format!("{} was not built", bin()));
        return;
    }
    let dir = format!("/verif/work/cli-{}", std::process::id());
    let _ = std::fs::create_dir_all(&dir);
    let mut k = 0usize;
    let mut rng = Rng::new(seed);
    let mut reqs: Vec<String> = vec![];
    let mut pend: Vec<Option<Pend>> = vec![];
    // ---- how the FILE is read: a tree wrapped over several lines (with a `;` inside a comment on an early line) is the same
    // tree as the text on one line; a file that is not UTF-8 is refused (no label is invented for undecodable bytes) ----
    {
        let wrapped = ["(A:1,\n(B[&note=x;y]:2,C:3):4,\nD:5);\n", "(A[;]:1,\r\n B:2,\r\n (C:3,D:4)[a;b;c]:5);", "((A:1,B:2)[first line; still a comment]:3,\n\n(C:1,D:1):2,\nE:7)R;\n(ignored,second,tree);\n"];
        for (i, text) in wrapped.iter().enumerate() {
            let one_line: String = text.lines().map(|l| l.trim()).collect::<Vec<_>>().join("");
            let (fw, fo) = (format!("{dir}/wrapped{i}.nwk"), format!("{dir}/oneline{i}.nwk"));
            if std::fs::write(&fw, text).is_err() || std::fs::write(&fo, &one_line).is_err() { continue; }
            let ctx0 = format!("tree file (several lines): {text:?}");
            rep.case(&ctx0, true);
            for args in [vec!["rescale", "2"], vec!["stats"], vec!["matrix"], vec!["resolve"]] {
                let (mut a, mut b) = (args.clone(), args.clone());
                a.push(&fw); b.push(&fo);
                let (ra, rb) = (run_cli(&a), run_cli(&b));
                rep.count("runs:wrapped-file");
                if rb.code == Some(0) && args[0] != "resolve" && (ra.code != rb.code || ra.stdout != rb.stdout) {
                    rep.oracle("file-reading", &format!("{}:wrapped-file-differs-from-one-line-file", args[0]), &format!("{ctx0}\nphylotree {} FILE", args.join(" ")), &format!("exit {:?} {:?}; the same text on one line: exit {:?} {:?}", ra.code, ra.stdout.chars().take(300).collect::<String>(), rb.code, rb.stdout.chars().take(300).collect::<String>()));
                } else if rb.code == Some(0) && ra.code != rb.code {
                    rep.oracle("file-reading", &format!("{}:wrapped-file-refused", args[0]), &format!("{ctx0}\nphylotree {} FILE", args.join(" ")), &format!("exit {:?}", ra.code));
                }
            }
        }
        for (i, bytes) in [&b"((A:1,caf\xe9:1):1,C:1,D:1);"[..], &b"((A:1,B:1)\xff\xfe:1,C:1,D:1);"[..], &b"(A:1,B:2,C:3)[\xe8];"[..]].iter().enumerate() {
            let f = format!("{dir}/latin{i}.nwk");
            if std::fs::write(&f, bytes).is_err() { continue; }
            let ctx0 = format!("tree file (bytes that are not UTF-8): {:?}", String::from_utf8_lossy(bytes));
            rep.case(&ctx0, true);
            for sub in ["stats", "matrix"] {
                let r = run_cli(&[sub, &f]);
                rep.count("runs:non-utf8-file");
                if r.code == Some(0) {
                    rep.oracle("file-reading", &format!("{sub}:undecodable-file-accepted"), &format!("{ctx0}\nphylotree {sub} FILE"), &r.stdout.chars().take(300).collect::<String>());
                }
            }
        }
    }
    // ---- numeric corners and annotated trees (contract oracles on the real binary only; the arena model carries exact integers):
    // NaN / infinite lengths and thresholds for collapse ("only branches SHORTER than the threshold become zero": NaN is not shorter
    // than anything, nothing is shorter than NaN), bracket comments through every transform with and without -o ----
    {
        let texts = ["((A:0.5,B:NaN)X:0.3,C:0.01,D:2)R;", "((A:inf,B:-inf)X:0.3,C:-0.0,D:1e-300)R;", "((A:0.5[&&NHX:S=a],B:0.25[c b])X:0.3[x],C:0.01,D:2[(;)])R[root];", "(A:NaN,B:NaN,C:NaN);"];
        for text in texts {
            let file = tmp(&dir, &mut k, text);
            let Some(t) = rose_of_text(text) else { continue };
            let ctx0 = format!("tree file: {text}");
            rep.case(&ctx0, true);
            for thr_s in ["0.1", "NaN", "inf", "0", "1e-310"] {
                let thr: f64 = thr_s.parse().unwrap();
                for excl in [false, true] {
                    let mut args = vec!["collapse", file.as_str(), thr_s];
                    if excl { args.push("-e"); }
                    let r = run_cli(&args);
                    rep.count("runs:collapse-numeric-corners");
                    let ctx = format!("{ctx0}\nphylotree collapse FILE {thr_s}{}", if excl { " -e" } else { "" });
                    let mut want = t.clone();
                    want.for_each_mut(&mut |x, root, _| {
                        if !root && !(excl && x.kids.is_empty()) {
                            if let Some(l) = x.len { if l < thr { x.len = Some(0.0); } }
                        }
                    }, true, 0);
                    match if r.code == Some(0) { rose_of_text(&r.stdout) } else { None } {
                        None => rep.oracle("collapse", "numeric-corner:error-exit-or-unparseable", &ctx, &format!("exit {:?} {}", r.code, r.stdout)),
                        Some(g) => if g.canon() != want.canon() { rep.oracle("collapse", "numeric-corner:not-only-shorter-branches-zeroed", &ctx, &format!("{}expected {}", r.stdout, want.newick())); },
                    }
                    check_output_option("collapse", &args, &r, &format!("{dir}/oc{k}.nwk"), true, &ctx, rep);
                }
            }
            let r = run_cli(&["rescale", "2", &file]);
            check_output_option("rescale", &["rescale", "2", &file], &r, &format!("{dir}/or{k}.nwk"), true, &format!("{ctx0}\nphylotree rescale 2 FILE"), rep);
            let r = run_cli(&["remove", &file, "A"]);
            check_output_option("remove", &["remove", &file, "A"], &r, &format!("{dir}/om{k}.nwk"), true, &format!("{ctx0}\nphylotree remove FILE A"), rep);
            let _ = std::fs::remove_file(&file);
        }
    }
    // ---- several input files in one invocation: `stats F1 F2 F3` prints one row per file (prefixed by the file name), `compare REF
    // C1 C2 C3` one numbered row per compared file, `rescale k F1 F2 -o DIR` one output file per input — each row / file must be
    // what the single-file invocation gives for that file, whatever its position in the list ----
    for round in 0..(if thorough { 40 } else { 6 }) {
        let nl = rng.range(4, 9);
        let mut files: Vec<String> = vec![];
        let mut texts: Vec<String> = vec![];
        let names = ["A", "B", "C", "D", "E", "F", "G", "H", "I"];
        for _ in 0..rng.range(2, 4) {
            let mut t = random_shape(&mut rng, nl * 2);
            let mut tries = 0;
            while t.n_leaves() != nl && tries < 300 { t = random_shape(&mut rng, nl * 2); tries += 1; }
            if t.n_leaves() != nl { continue; }
            let mut ln: Vec<&str> = names[..nl].to_vec();
            rng.shuffle(&mut ln);
            t.for_each_mut(&mut |r: &mut Rose, root: bool, _d: usize| {
                r.name = if r.kids.is_empty() { ln.pop().map(|x| x.to_string()) } else { None };
                r.len = if root { None } else { Some(gen_len(&mut rng, LenKind::Dyadic)) };
                r.comment = None;
            }, true, 0);
            let text = t.newick();
            // input files are named the way people name them: inner dots, other or no extensions, the same stem twice
            k += 1;
            let fname = match (round + files.len()) % 7 {
                // characters a path may legally hold: the file-name column is the escaped (`{:?}`) form of the path
                5 => format!("{dir}/odd \"q\" \\b{k}.nwk"),
                6 => format!("{dir}/tab\tin name{k}.nwk"),
                0 => format!("{dir}/gene.v{k}.nwk"),
                1 => format!("{dir}/gene.v{k}.tre"),
                2 => format!("{dir}/sample{k}"),
                3 => format!("{dir}/run.{k}.final.newick"),
                _ => format!("{dir}/t{k}.nwk"),
            };
            std::fs::write(&fname, &text).unwrap();
            files.push(fname);
            texts.push(text);
        }
        if files.len() < 2 { continue; }
        // now and then the same file is given twice
        if round % 3 == 2 {
            files.push(files[0].clone());
            texts.push(texts[0].clone());
        }
        let ctx0 = format!("tree files: {}", texts.join(" | "));
        rep.case(&ctx0, true);
        rep.count("runs:several-files");
        // stats
        let single: Vec<String> = files.iter().map(|f| run_cli(&["stats", f]).stdout.lines().nth(1).unwrap_or("").to_string()).collect();
        let mut args = vec!["stats"];
        for f in files.iter() { args.push(f); }
        let r = run_cli(&args);
        let lines: Vec<&str> = r.stdout.lines().collect();
        let ok = r.code == Some(0) && lines.len() == files.len() + 1 && lines[0] == "filename\theight\tdiameter\tnodes\ttips\trooted\tbinary\tncherries\tcolless\tsackin"
            && (0..files.len()).all(|i| lines[i + 1] == format!("{:?}\t{}", std::path::Path::new(&files[i]), single[i]));
        if !ok {
            rep.oracle("stats", "several-files:rows-differ-from-single-file-runs", &format!("{ctx0}\nphylotree stats F1 .. F{}", files.len()), &format!("exit {:?}\n{}\nsingle-file rows: {single:?}", r.code, r.stdout));
        }
        // an input that is not a regular file (a pipe: /dev/stdin) is an input like any other: it gets its row
        if round % 2 == 0 {
            use std::io::Write;
            let child = Command::new(bin()).args(["stats", &files[0], "/dev/stdin"]).stdin(std::process::Stdio::piped()).stdout(std::process::Stdio::piped()).stderr(std::process::Stdio::null()).spawn();
            if let Ok(mut ch) = child {
                if let Some(mut si) = ch.stdin.take() { let _ = si.write_all(texts[1].as_bytes()); }
                if let Ok(o) = ch.wait_with_output() {
                    let out = String::from_utf8_lossy(&o.stdout).to_string();
                    let rows: Vec<&str> = out.lines().skip(1).collect();
                    rep.count("runs:stats-with-a-piped-input");
                    if o.status.code() != Some(0) || rows.len() != 2 || !rows[1].ends_with(&single[1]) {
                        rep.oracle("stats", "piped-input-has-no-row", &format!("{ctx0}\nphylotree stats F1 /dev/stdin   (the second tree piped in)"), &format!("exit {:?}\n{out}expected second row ...{}", o.status.code(), single[1]));
                    }
                }
            }
        }
        // compare: first file is the reference
        let single: Vec<String> = files[1..].iter().map(|f| run_cli(&["compare", &files[0], f]).stdout.lines().nth(1).unwrap_or("").to_string()).collect();
        let mut args = vec!["compare"];
        for f in files.iter() { args.push(f); }
        let r = run_cli(&args);
        let lines: Vec<&str> = r.stdout.lines().collect();
        let ok = r.code == Some(0) && lines.len() == files.len() && (0..files.len() - 1).all(|i| {
            // the single run numbers its only row 0
            let want = single[i].strip_prefix("0\t").map(|rest| format!("{i}\t{rest}"));
            Some(lines[i + 1].to_string()) == want
        });
        if !ok {
            rep.oracle("compare", "several-files:rows-differ-from-single-file-runs", &format!("{ctx0}\nphylotree compare REF C1 .. C{}", files.len() - 1), &format!("exit {:?}\n{}\nsingle-file rows: {single:?}", r.code, r.stdout));
        }
        // rescale into a directory
        let out_dir = format!("{dir}/multi{round}");
        let _ = std::fs::remove_dir_all(&out_dir);
        let single: Vec<String> = files.iter().map(|f| run_cli(&["rescale", "2", f]).stdout.trim_end_matches('\n').to_string()).collect();
        let mut args = vec!["rescale", "2"];
        for f in files.iter() { args.push(f); }
        args.push("-o");
        args.push(&out_dir);
        let r = run_cli(&args);
        let got: Vec<String> = files.iter().map(|f| std::fs::read_to_string(format!("{out_dir}/{}", std::path::Path::new(f).file_name().unwrap().to_string_lossy())).unwrap_or_else(|_| "<missing>".into())).collect();
        if r.code != Some(0) || got != single {
            rep.oracle("rescale", "several-files:outputs-differ-from-single-file-runs", &format!("{ctx0}\nphylotree rescale 2 F1 .. F{} -o DIR", files.len()), &format!("exit {:?}\nfiles: {got:?}\nsingle-file outputs: {single:?}", r.code));
        }
        let _ = std::fs::remove_dir_all(&out_dir);
        for f in files.iter() { let _ = std::fs::remove_file(f); }
    }
    generate_stream(&dir, &mut rng, if thorough { 120 } else { 18 }, rep);
    // ---- lengths of wildly different magnitude: a pair of tips that sit together below a very long branch is as far apart as the
    // short branches between them say — exactly (the lengths are powers of two, the path does not cross the long branch) ----
    for mi in 0..(if thorough { 40 } else { 6 }) {
        let big = 2f64.powi(*rng.pick(&[45, 60, 80, 200]));
        let (a, b) = (2f64.powi(-(rng.range(8, 12) as i32)), 2f64.powi(-(rng.range(5, 9) as i32)));
        let text = match mi % 3 {
            0 => format!("((A:{a},B:{b}):{big},C:1,D:2);"),
            1 => format!("(C:1,((A:{a},B:{b}):{a},E:3):{big},D:2);"),
            _ => format!("((((A:{a},B:{b}):{big},C:1):{big},D:2):1,E:1);"),
        };
        let file = tmp(&dir, &mut k, &text);
        let r = run_cli(&["distance", &file, "A", "B"]);
        rep.count("runs:distance-below-a-very-long-branch");
        rep.case(&format!("tree file: {text}\nphylotree distance FILE A B"), true);
        let want = format!("Seq1\tSeq2\tDistance\nA\tB\t{}\n", a + b);
        if r.code != Some(0) || r.stdout != want {
            rep.oracle("distance", "differs-from-path-walk", &format!("tree file: {text}\nphylotree distance FILE A B"), &format!("exit {:?}\n{}\nexpected\n{want}", r.code, r.stdout));
        }
        let r = run_cli(&["matrix", &file]);
        let cell = r.stdout.lines().find(|l| l.starts_with("B")).and_then(|l| l.split_whitespace().nth(1).map(|x| x.to_string()));
        if r.code != Some(0) || cell.as_deref().and_then(|x| x.parse::<f64>().ok()) != Some(a + b) {
            rep.oracle("matrix", "differs-from-library", &format!("tree file: {text}\nphylotree matrix FILE (cell B-A)"), &r.stdout);
        }
        let _ = std::fs::remove_file(&file);
    }
    let n_trees = if thorough { 600 } else { 60 };
    for ti in 0..n_trees {
        let size = rng.range(2, 30);
        let mut t = if size <= 6 && rng.chance(1, 2) { let v = all_shapes(size); v[rng.below(v.len())].clone() } else { random_shape(&mut rng, size) };
        let mode = match ti % 6 { 0 => LenMode::None, 1 => LenMode::Mixed, _ => LenMode::All };
        label(&mut rng, &mut t, &LabelOpts { len_mode: mode, root_len: ti % 5 == 0, internal_names_pct: 40, ..Default::default() });
        if ti % 5 == 0 {
            t.len = Some(gen_len(&mut rng, LenKind::Dyadic));
        }
        // taxa whose names concatenate ambiguously (a + bc = ab + c), and labels with characters that are markup elsewhere
        if ti % 4 == 2 {
            rename_leaves_concat(&mut rng, &mut t);
            rep.count("trees_with_concatenation_ambiguous_taxa");
        } else if ti % 4 == 3 && spice_names(&mut rng, &mut t, 30) > 0 {
            rep.count("trees_with_markup_like_labels");
            // a name that starts with a dash is an OPTION to any command line (exit status 2 from the argument parser, by
            // convention — not a question the property asks): such names are kept away from the argument lists
            t.for_each_mut(&mut |x, _, _| if let Some(n) = x.name.as_mut() { if n.starts_with('-') { n.insert(0, 'x'); } }, true, 0);
        }
        // quoted labels holding a comma or a blank: ONE argument on the command line is ONE name, whatever it contains
        if ti % 8 == 1 {
            let mut n = 0;
            t.for_each_mut(&mut |x, _, _| if x.kids.is_empty() && n < 3 { if let Some(nm) = x.name.as_mut() { *nm = if n % 2 == 0 { format!("\"{nm},x\"") } else { format!("\"two words {nm}\"") }; n += 1; } }, true, 0);
            rep.count("trees_with_quoted_labels_holding_commas_or_blanks");
        }
        let text = t.newick();
        let file = tmp(&dir, &mut k, &text);
        let Ok(lib) = Tree::from_newick(&text) else { continue };
        let arena = enc_arena_scaled(&slots_of(&lib)).unwrap_or_else(|_| "_".into());
        let load = format!("ar.load\t{arena}");
        let ctx0 = format!("tree file: {text}");
        rep.case(&ctx0, t.size() >= 4);
        let all_len = { let mut ok = true; t.for_each(&mut |x, root| if !root && x.len.is_none() { ok = false }); ok };
        let leaves: Vec<String> = t.leaf_names().into_iter().flatten().collect();

        // ---------------- stats ----------------
        {
            let r = run_cli(&["stats", &file]);
            rep.count("runs:stats");
            let lines: Vec<&str> = r.stdout.lines().collect();
            let f = |x: Result<String, String>| x.unwrap_or_else(|_| "-".into());
            let want = format!(
                "{}\t{}\t{}\t{}\t{}\t{}\t{}\t{}\t{}",
                f(lib.height().map(|v| format!("{v}")).map_err(|_| String::new())), f(lib.diameter().map(|v| format!("{v}")).map_err(|_| String::new())), lib.size(), lib.n_leaves(),
                f(lib.is_rooted().map(|v| format!("{v}")).map_err(|_| String::new())), f(lib.is_binary().map(|v| format!("{v}")).map_err(|_| String::new())),
                f(lib.cherries().map(|v| format!("{v}")).map_err(|_| String::new())), f(lib.colless().map(|v| format!("{v}")).map_err(|_| String::new())), f(lib.sackin().map(|v| format!("{v}")).map_err(|_| String::new()))
            );
            if r.code != Some(0) || lines.len() != 2 || lines[0] != "height\tdiameter\tnodes\ttips\trooted\tbinary\tncherries\tcolless\tsackin" || lines[1] != want {
                rep.oracle("stats", "differs-from-library", &format!("{ctx0}\nphylotree stats FILE"), &format!("exit {:?}\n{}\nexpected row {want}", r.code, r.stdout));
            }
            // model: the same columns from the arena model
            reqs.push(load.clone());
            pend.push(None);
            let cols: Vec<&str> = lines.get(1).map(|l| l.split('\t').collect()).unwrap_or_default();
            // the whole row through the model of the tool's own logic (CLIR.statsRow): "-" for a refused value
            if cols.len() == 9 {
                let sc = |c: &str| if c == "-" { "-".to_string() } else { c.parse::<f64>().ok().and_then(scaled).map_or(format!("?{c}"), |n| n.to_string()) };
                let b = |c: &str| match c { "true" => "1", "false" => "0", x => x }.to_string();
                reqs.push(format!("cli.stats\t{UNIT}"));
                pend.push(Some(Pend { ctx: format!("{ctx0}\nphylotree stats FILE (whole row)"), cli_tree: None, cli_failed: false, kind: "value",
                    expect_line: Some(format!("ok {} {} {} {} {} {} {} {} {}", sc(cols[0]), sc(cols[1]), cols[2], cols[3], b(cols[4]), b(cols[5]), cols[6], cols[7], cols[8])) }));
            }
            for (i, q) in [(0usize, format!("ar.q\theight\t{UNIT}")), (1, format!("ar.q\tdiameter\t{UNIT}")), (3, "ar.q\tn_leaves".to_string()), (4, "ar.q\tis_rooted".to_string()), (5, "ar.q\tis_binary".to_string()), (6, "ar.q\tcherries".to_string()), (7, "ar.q\tcolless".to_string()), (8, "ar.q\tsackin".to_string())] {
                let col = cols.get(i).cloned().unwrap_or("?");
                // the model's answer in the CLI's rendering
                let expect = if col == "-" { "err".to_string() } else {
                    match i {
                        0 | 1 => col.parse::<f64>().ok().and_then(scaled).map_or(format!("?{col}"), |n| format!("ok {n}")),
                        4 | 5 => format!("ok {}", if col == "true" { 1 } else { 0 }),
                        _ => format!("ok {col}"),
                    }
                };
                reqs.push(q);
                pend.push(Some(Pend { ctx: format!("{ctx0}\nphylotree stats FILE (column {i})"), cli_tree: None, cli_failed: false, kind: "value", expect_line: Some(expect) }));
            }
        }
        // ---------------- matrix ----------------
        if ti % 2 == 0 {
            for square in [false, true] {
                let mut args = vec!["matrix", file.as_str()];
                if square {
                    args.push("-s");
                }
                let r = run_cli(&args);
                rep.count("runs:matrix");
                let want = lib.distance_matrix().ok().and_then(|m| m.to_phylip(square).ok());
                match (&want, r.code) {
                    (Some(w), Some(0)) => {
                        if r.stdout != format!("{w}\n") {
                            rep.oracle("matrix", "differs-from-library", &format!("{ctx0}\nphylotree matrix FILE{}", if square { " -s" } else { "" }), &r.stdout);
                        }
                        // -o writes the same content without the println newline
                        let out = format!("{dir}/m{k}.phy");
                        let _ = std::fs::write(&out, "STALE CONTENT OF AN EARLIER RUN\n".repeat(2 + w.len() / 8));
                        let mut a2 = args.clone();
                        a2.push("-o");
                        a2.push(&out);
                        let r2 = run_cli(&a2);
                        let content = std::fs::read_to_string(&out).unwrap_or_default();
                        if r2.code != Some(0) || content != *w || !r2.stdout.is_empty() {
                            rep.oracle("output-option", "matrix", &format!("{ctx0}\nphylotree matrix FILE -o OUT"), &format!("exit {:?} stdout {:?} file {:?}", r2.code, r2.stdout, content));
                        }
                        let _ = std::fs::remove_file(&out);
                    }
                    (None, Some(0)) => rep.oracle("matrix", "accepted-where-library-fails", &ctx0, &r.stdout),
                    (Some(_), c) => rep.oracle("matrix", "failed-where-library-succeeds", &ctx0, &format!("exit {c:?}")),
                    (None, _) => {}
                }
                // model: the numbers of the triangular text
                if !square {
                    let nums: Vec<String> = r.stdout.lines().skip(1).flat_map(|l| l.split_whitespace().skip(1).map(|x| x.to_string()).collect::<Vec<_>>()).collect();
                    let taxa: Vec<String> = r.stdout.lines().skip(1).filter_map(|l| l.split_whitespace().next().map(|x| x.to_string())).collect();
                    let expect = if r.code == Some(0) {
                        format!("ok {} | {}", if taxa.is_empty() { "_".to_string() } else { taxa.iter().map(|x| hex(x)).collect::<Vec<_>>().join(",") }, nums.iter().map(|x| x.parse::<f64>().ok().and_then(scaled).map_or(format!("?{x}"), |n| n.to_string())).collect::<Vec<_>>().join(" "))
                    } else { "err".into() };
                    reqs.push(format!("dm\tfast\t{UNIT}"));
                    pend.push(Some(Pend { ctx: format!("{ctx0}\nphylotree matrix FILE"), cli_tree: None, cli_failed: false, kind: "value", expect_line: Some(expect) }));
                }
            }
        }
        // ---------------- distance ----------------
        if leaves.len() >= 2 && ti % 3 == 0 {
            let mut picks: Vec<String> = leaves.clone();
            rng.shuffle(&mut picks);
            picks.truncate(3);
            // a tip named twice is two arguments: every pair of ARGUMENT positions gets its row (a tip with itself reads 0)
            if ti % 6 == 3 && picks.len() >= 2 {
                let again = picks[0].clone();
                let at = rng.range(1, picks.len());
                picks.insert(at, again);
                rep.count("distance:a-tip-named-twice");
            }
            let mut args = vec!["distance", file.as_str()];
            for p in picks.iter() {
                args.push(p);
            }
            // (the model request below also covers names of INTERNAL nodes; the path-walk oracle is about tips)
            let r = run_cli(&args);
            rep.count("runs:distance");
            check_output_option("distance", &args, &r, &format!("{dir}/o{k}.tsv"), false, &format!("{ctx0}\nphylotree distance FILE {picks:?}"), rep);
            if ti % 2 == 1 {
                check_relative_output("distance", &args, &r, &dir, false, &format!("{ctx0}\nphylotree distance FILE {picks:?}"), rep);
            }
            // the working directory holds a FILE spelled exactly like one of the tips (a list of other names): a tip argument is a name
            if ti % 3 == 0 && ti % 6 != 0 && picks[0].chars().all(|c| c.is_alphanumeric() || c == '_') {
                let decoy = format!("{dir}/{}", picks[0]);
                if std::fs::write(&decoy, leaves.join("\n")).is_ok() {
                    let o = Command::new(bin()).args(&args).current_dir(&dir).output();
                    let _ = std::fs::remove_file(&decoy);
                    rep.count("runs:distance-with-a-file-named-like-a-tip");
                    if let Ok(o) = o {
                        if String::from_utf8_lossy(&o.stdout) != r.stdout || o.status.code() != r.code {
                            rep.oracle("distance", "a-file-named-like-a-tip-changes-the-answer", &format!("{ctx0}\nphylotree distance FILE {picks:?}   (working directory holds a file named {:?})", picks[0]), &String::from_utf8_lossy(&o.stdout));
                        }
                    }
                }
            }
            let dists = leaf_dists(&t);
            let mut want = "Seq1\tSeq2\tDistance\n".to_string();
            let mut expect_fail = false;
            for i in 0..picks.len() {
                for j in i + 1..picks.len() {
                    let key = if picks[i] <= picks[j] { (picks[i].clone(), picks[j].clone()) } else { (picks[j].clone(), picks[i].clone()) };
                    if picks[i] == picks[j] {
                        want.push_str(&format!("{}\t{}\t0\n", picks[i], picks[j]));
                        continue;
                    }
                    match dists.get(&key) {
                        Some(Some(d)) => want.push_str(&format!("{}\t{}\t{d}\n", picks[i], picks[j])),
                        _ => expect_fail = true,
                    }
                }
            }
            // the table through the model of the tool's loop (CLIR.cliDistance): every pair of argument positions, in order
            {
                let names = picks.iter().map(|x| hex(x)).collect::<Vec<_>>().join(",");
                let expect = if r.code == Some(0) {
                    let rows: Vec<String> = r.stdout.lines().skip(1).map(|l| { let f: Vec<&str> = l.split('\t').collect(); if f.len() == 3 { format!("{}:{}:{}", hex(f[0]), hex(f[1]), f[2].parse::<f64>().ok().and_then(scaled).map_or(format!("?{}", f[2]), |n| n.to_string())) } else { format!("?{l}") } }).collect();
                    format!("ok {}", rows.join(";"))
                } else { "err".to_string() };
                reqs.push(load.clone());
                pend.push(None);
                reqs.push(format!("cli.distance\t{names}"));
                pend.push(Some(Pend { ctx: format!("{ctx0}\nphylotree distance FILE {picks:?}"), cli_tree: None, cli_failed: false, kind: "value", expect_line: Some(expect) }));
            }
            if expect_fail {
                if r.code == Some(0) {
                    rep.oracle("distance", "missing-length-accepted", &format!("{ctx0}\nphylotree distance FILE {picks:?}"), &r.stdout);
                }
            } else if r.code != Some(0) || r.stdout != want {
                rep.oracle("distance", "differs-from-path-walk", &format!("{ctx0}\nphylotree distance FILE {picks:?}"), &format!("exit {:?}\n{}\nexpected\n{want}", r.code, r.stdout));
            }
        }
        // ---------------- distance between NAMED INTERNAL nodes and tips (the tool resolves names; it does not ask for tips) ----------------
        if ti % 3 == 0 && leaves.len() >= 2 {
            let mut all_names: Vec<String> = vec![];
            let mut internal: Vec<String> = vec![];
            t.for_each(&mut |x, _| if let Some(n) = &x.name { all_names.push(n.clone()); if !x.kids.is_empty() { internal.push(n.clone()); } });
            internal.retain(|n| all_names.iter().filter(|m| *m == n).count() == 1 && !n.starts_with('-'));
            if let Some(inner) = internal.first() {
                let picks2 = vec![leaves[0].clone(), inner.clone(), leaves[leaves.len() - 1].clone()];
                let mut args = vec!["distance", file.as_str()];
                for p in picks2.iter() { args.push(p); }
                let r = run_cli(&args);
                rep.count("runs:distance-with-an-internal-node");
                let names = picks2.iter().map(|x| hex(x)).collect::<Vec<_>>().join(",");
                let expect = if r.code == Some(0) {
                    let rows: Vec<String> = r.stdout.lines().skip(1).map(|l| { let f: Vec<&str> = l.split('\t').collect(); if f.len() == 3 { format!("{}:{}:{}", hex(f[0]), hex(f[1]), f[2].parse::<f64>().ok().and_then(scaled).map_or(format!("?{}", f[2]), |n| n.to_string())) } else { format!("?{l}") } }).collect();
                    format!("ok {}", rows.join(";"))
                } else { "err".to_string() };
                reqs.push(load.clone());
                pend.push(None);
                reqs.push(format!("cli.distance\t{names}"));
                pend.push(Some(Pend { ctx: format!("{ctx0}\nphylotree distance FILE {picks2:?}"), cli_tree: None, cli_failed: false, kind: "value", expect_line: Some(expect) }));
            }
        }
        // ---------------- compare ----------------
        if ti % 2 == 0 && leaves.len() >= 4 && all_len {
            let mut other = t.clone();
            other.for_each_mut(&mut |x, _, _| rng.shuffle(&mut x.kids), true, 0);
            // regraft to change some splits
            let mut o2 = other.clone();
            if o2.kids.len() >= 2 && !o2.kids[0].kids.is_empty() {
                if let Some(moved) = o2.kids[0].kids.pop() {
                    o2.kids.push(moved);
                    if o2.kids[0].kids.is_empty() && o2.kids[0].name.is_none() {
                        o2.kids.remove(0);
                    }
                }
            }
            // ... and the SAME unrooted tree rooted on another edge (the reference re-rooted on the branch above its first
            // grandchild, a zero-length branch closing the old root): identical splits, so every distance is zero
            let mut cands = vec![o2];
            if t.kids.len() == 2 && t.kids[0].kids.len() >= 2 {
                let a = &t.kids[0];
                let mut b = t.kids[1].clone();
                b.len = match (b.len, a.len) { (Some(x), Some(y)) => Some(x + y), _ => None };
                let mut rest: Vec<Rose> = a.kids[1..].to_vec();
                rest.push(b);
                let x = Rose { name: a.name.clone(), len: Some(0.0), comment: None, kids: rest };
                cands.push(Rose { name: t.name.clone(), len: None, comment: None, kids: vec![a.kids[0].clone(), x] });
                rep.count("compare:rerooted-copy-of-the-reference");
            }
            // a compared tree on ANOTHER leaf set (one tip renamed) has no splits in common with the reference in any meaningful
            // sense: the tool must not print a row of counts for it and report success
            if ti % 4 == 0 {
                let mut alien = other.clone();
                let mut done = false;
                alien.for_each_mut(&mut |x, _, _| if x.kids.is_empty() && !done { x.name = Some("zz_not_in_the_reference".into()); done = true; }, true, 0);
                let f3 = tmp(&dir, &mut k, &alien.newick());
                let r = run_cli(&["compare", &file, &f3]);
                rep.count("compare:different-leaf-set");
                let rows: Vec<&str> = r.stdout.lines().skip(1).filter(|l| !l.trim().is_empty()).collect();
                if r.code == Some(0) && !rows.is_empty() {
                    rep.oracle("compare", "row-printed-for-a-tree-on-another-leaf-set", &format!("{ctx0}\ncompared file: {}\nphylotree compare REF CMP", alien.newick()), &r.stdout);
                }
                let _ = std::fs::remove_file(&f3);
            }
            for o2 in cands {
            if rose_leafset(&o2) == rose_leafset(&t) && o2.leaf_names().iter().all(|n| n.is_some()) {
                let f2 = tmp(&dir, &mut k, &o2.newick());
                let r = run_cli(&["compare", &file, &f2]);
                rep.count("runs:compare");
                let (sa, sb) = (brute_splits(&t), brute_splits(&o2));
                let common = sa.keys().filter(|x| sb.contains_key(*x)).count();
                let lines: Vec<&str> = r.stdout.lines().collect();
                let cols: Vec<&str> = lines.get(1).map(|l| l.split('\t').collect()).unwrap_or_default();
                let bad = r.code != Some(0) || cols.len() != 9 || lines[0] != "tree\tpath\treference\tcommon\tcompared\trf\tnorm_rf\trf_w\tbranch_score" || cols[0] != "0" || cols[1] != f2
                    || cols[2] != (sa.len() - common).to_string() || cols[3] != common.to_string() || cols[4] != (sb.len() - common).to_string();
                let lib2 = Tree::from_newick(&o2.newick()).unwrap();
                let cmp = lib.clone().compare_topologies(&lib2);
                let bad2 = match (&cmp, cols.len() == 9) {
                    (Ok(c), true) => cols[5] != format!("{}", c.rf) || cols[6] != format!("{}", c.norm_rf) || cols[7] != format!("{}", c.weighted_rf) || cols[8] != format!("{}", c.branch_score),
                    _ => true,
                };
                if bad || bad2 {
                    rep.oracle("compare", "differs-from-independent-computation", &format!("{ctx0}\ncompared file: {}\nphylotree compare REF CMP", o2.newick()), &format!("exit {:?}\n{}", r.code, r.stdout));
                }
                // model: rf total wrf kf2 from the split model
                if cols.len() == 9 {
                    reqs.push(load.clone());
                    pend.push(None);
                    reqs.push(format!("ar.load2\t{}", enc_arena_scaled(&slots_of(&lib2)).unwrap_or_else(|_| "_".into())));
                    pend.push(None);
                    reqs.push("sp\tcmp".into());
                    pend.push(Some(Pend { ctx: format!("{ctx0}\ncompared file: {}\nphylotree compare REF CMP", o2.newick()), cli_tree: None, cli_failed: false, kind: "cmp", expect_line: Some(format!("{} {} {} {}", cols[5], cols[6], cols[7], cols[8])) }));
                    // the three count columns through the model of the tool's own row (CLIR.cliCompareRow)
                    reqs.push("cli.compare".into());
                    pend.push(Some(Pend { ctx: format!("{ctx0}\ncompared file: {}\nphylotree compare REF CMP (reference / common / compared)", o2.newick()), cli_tree: None, cli_failed: false, kind: "value", expect_line: Some(format!("ok {} {} {}", cols[2], cols[3], cols[4])) }));
                }
                // identical splits: nothing differs, whatever the rooting
                if sa.len() == common && sb.len() == common && cols.len() == 9 && (cols[5] != "0" || cols[6] != "0") && sa.len() > 0 {
                    rep.oracle("compare", "nonzero-rf-for-identical-splits", &format!("{ctx0}\ncompared file: {}\nphylotree compare REF CMP", o2.newick()), &r.stdout);
                }
            }
            }
        }
        // ---------------- collapse ----------------
        {
            let thr = *rng.pick(&[0.0, 0.5, 1.0, 2.0, 4.0, 100.0]);
            let excl = rng.chance(1, 2);
            // the threshold in whatever spelling a float literal may have on a command line
            let thr_text = match (ti / 2) % 4 { 0 => format!("{thr}"), 1 => format!("{thr:e}"), 2 => format!("+{thr}"), _ => format!("{thr:.3}") };
            let mut args = vec!["collapse".to_string(), file.clone(), thr_text];
            if excl {
                args.push("-e".into());
            }
            let a: Vec<&str> = args.iter().map(|x| x.as_str()).collect();
            let r = run_cli(&a);
            rep.count("runs:collapse");
            let ctx = format!("{ctx0}\nphylotree collapse FILE {thr}{}", if excl { " -e" } else { "" });
            check_output_option("collapse", &a, &r, &format!("{dir}/o{k}.nwk"), true, &ctx, rep);
            if ti % 3 == 0 {
                let after: Vec<&str> = a[2..].to_vec();
                check_in_place("collapse", &["collapse"], &file, &after, &r, &ctx, rep);
            }
            let got = if r.code == Some(0) { rose_of_text(&r.stdout) } else { None };
            // contract: topology, names, comments unchanged; a length becomes 0 iff it was below the threshold
            // (and the node is not an excluded tip), else it is unchanged
            let mut want = t.clone();
            want.for_each_mut(&mut |x, root, _| {
                if !root && !(excl && x.kids.is_empty()) {
                    if let Some(l) = x.len {
                        if l < thr {
                            x.len = Some(0.0);
                        }
                    }
                }
            }, true, 0);
            match &got {
                None => rep.oracle("collapse", if r.code == Some(0) { "output-not-parseable" } else { "error-exit" }, &ctx, &format!("exit {:?} {}", r.code, r.stdout)),
                Some(g) => {
                    if g.canon() != want.canon() {
                        rep.oracle("collapse", "not-only-short-branches-zeroed", &ctx, &format!("{}expected {}", r.stdout, want.newick()));
                    }
                }
            }
            // `--verbose` ("print the number of collapsed branches at the end") changes only what it documents: the tree on
            // standard output is the same, and the last line of standard error is the number of branches set to zero
            if ti % 2 == 1 && r.code == Some(0) {
                let mut av: Vec<&str> = a.clone();
                av.push("-v");
                let o = Command::new(bin()).args(&av).output();
                rep.count("runs:collapse-verbose");
                match o {
                    Err(_) => {}
                    Ok(o) => {
                        let out = String::from_utf8_lossy(&o.stdout).to_string();
                        let err = String::from_utf8_lossy(&o.stderr).to_string();
                        let mut zeroed = 0usize;
                        t.for_each(&mut |x, root| if !root && !(excl && x.kids.is_empty()) { if let Some(l) = x.len { if l < thr { zeroed += 1; } } });
                        if o.status.code() != Some(0) || out != r.stdout {
                            rep.oracle("collapse", "verbose-changes-the-output", &format!("{ctx} -v"), &format!("exit {:?}\n{out}without -v:\n{}", o.status.code(), r.stdout));
                        }
                        if err.lines().last().map(|l| l.trim().to_string()) != Some(zeroed.to_string()) {
                            rep.oracle("collapse", "verbose-count", &format!("{ctx} -v"), &format!("last line of stderr {:?}, {zeroed} branches are below the threshold", err.lines().last()));
                        }
                    }
                }
            }
            reqs.push(load.clone());
            pend.push(None);
            reqs.push(format!("cli.collapse\t{}\t{}", scaled(thr).unwrap_or(0), excl as u8));
            pend.push(Some(Pend { ctx: ctx.clone(), cli_tree: None, cli_failed: r.code != Some(0), kind: "class", expect_line: None }));
            reqs.push("ar.dump".into());
            pend.push(Some(Pend { ctx, cli_tree: got.map(|g| g.canon()), cli_failed: r.code != Some(0), kind: "tree", expect_line: None }));
        }
        // ---------------- rescale ----------------
        {
            let kf = *rng.pick(&[2i64, 3, 0]);
            // the factor in other spellings of the same number
            let kf_text = match ti % 4 { 0 => format!("{kf}"), 1 => format!("{kf}e0"), 2 => format!("{kf}.0"), _ => format!("+{kf}") };
            let r = run_cli(&["rescale", &kf_text, &file]);
            rep.count("runs:rescale");
            let ctx = format!("{ctx0}\nphylotree rescale {kf} FILE");
            check_output_option("rescale", &["rescale", &format!("{kf}"), &file], &r, &format!("{dir}/o{k}.nwk"), true, &ctx, rep);
            if ti % 3 == 2 {
                check_in_place("rescale", &["rescale", &format!("{kf}")], &file, &[], &r, &ctx, rep);
            }
            if ti % 3 == 1 {
                check_relative_output("rescale", &["rescale", &format!("{kf}"), &file], &r, &dir, true, &ctx, rep);
            }
            let mut want = t.clone();
            want.for_each_mut(&mut |x, _, _| x.len = x.len.map(|l| l * kf as f64), true, 0);
            let got = if r.code == Some(0) { rose_of_text(&r.stdout) } else { None };
            match &got {
                None => rep.oracle("rescale", "error-exit-or-unparseable", &ctx, &format!("exit {:?} {}", r.code, r.stdout)),
                Some(g) if g.canon() != want.canon() => rep.oracle("rescale", "not-every-length-multiplied", &ctx, &r.stdout),
                _ => {}
            }
            reqs.push(load.clone());
            pend.push(None);
            reqs.push(format!("ar.rescale\t{kf}"));
            pend.push(None);
            reqs.push("ar.dump".into());
            pend.push(Some(Pend { ctx, cli_tree: got.map(|g| g.canon()), cli_failed: r.code != Some(0), kind: "tree", expect_line: None }));
            // a non-integer factor: contract only
            let r = run_cli(&["rescale", "0.5", &file]);
            let mut want = t.clone();
            want.for_each_mut(&mut |x, _, _| x.len = x.len.map(|l| l * 0.5), true, 0);
            if r.code != Some(0) || rose_of_text(&r.stdout).map(|g| g.canon()) != Some(want.canon()) {
                rep.oracle("rescale", "factor-0.5", &format!("{ctx0}\nphylotree rescale 0.5 FILE"), &r.stdout);
            }
        }
        // ---------------- remove ----------------
        if leaves.len() >= 3 {
            let mut picks = leaves.clone();
            rng.shuffle(&mut picks);
            let np = rng.range(1, (leaves.len() - 2).min(4));
            picks.truncate(np);
            // sometimes remove a whole group of siblings (an internal node loses all of its children)
            if ti % 3 == 0 {
                let mut found: Option<Vec<String>> = None;
                t.for_each(&mut |x, root| {
                    if !root && found.is_none() && !x.kids.is_empty() && x.kids.iter().all(|c| c.kids.is_empty() && c.name.is_some()) && x.kids.len() + 2 <= leaves.len() {
                        found = Some(x.kids.iter().filter_map(|c| c.name.clone()).collect());
                    }
                });
                if let Some(f) = found {
                    picks = f;
                    rep.count("remove:whole-sibling-group");
                }
            }
            let mut args = vec!["remove", file.as_str()];
            for p in picks.iter() {
                args.push(p);
            }
            let r = run_cli(&args);
            rep.count("runs:remove");
            let ctx = format!("{ctx0}\nphylotree remove FILE {}", picks.join(" "));
            check_output_option("remove", &args, &r, &format!("{dir}/o{k}.nwk"), true, &ctx, rep);
            let got = if r.code == Some(0) { rose_of_text(&r.stdout) } else { None };
            // does the library refuse? (compress on a mixed present/absent pair)
            let lib_ok = {
                let mut l2 = lib.clone();
                let mut ok = true;
                for p in picks.iter() {
                    match l2.get_by_name(p).map(|n| (n.id, n.is_tip())) {
                        Some((id, true)) => { let _ = l2.prune(&id); }
                        _ => ok = false,
                    }
                }
                ok
            };
            match &got {
                None => {
                    // an error exit is legitimate only when compress refuses a mixed pair
                    let mixed = !all_len && t.leaf_names().len() > 0;
                    if !mixed && lib_ok {
                        rep.oracle("remove", "error-exit", &ctx, &format!("exit {:?} {}", r.code, r.stdout));
                    }
                }
                Some(g) => {
                    let mut want_leaves: Vec<String> = leaves.iter().filter(|l| !picks.contains(l)).cloned().collect();
                    want_leaves.sort();
                    let mut got_leaves: Vec<Option<String>> = g.leaf_names();
                    got_leaves.sort();
                    if got_leaves != want_leaves.iter().cloned().map(Some).collect::<Vec<_>>() {
                        rep.oracle("remove", "not-exactly-the-named-tips-disappear", &ctx, &format!("{}remaining tips {got_leaves:?} expected {want_leaves:?}", r.stdout));
                    } else {
                        let (before, after) = (leaf_dists(&t), leaf_dists(g));
                        for (key, d) in after.iter() {
                            if before.get(key) != Some(d) && d.is_some() {
                                rep.oracle("remove", "tip-to-tip-distance-changed", &ctx, &format!("{key:?}: {:?} -> {d:?}", before.get(key)));
                                break;
                            }
                        }
                        let mut unary = false;
                        g.for_each(&mut |x, root| if !root && x.kids.len() == 1 { unary = true });
                        if unary {
                            rep.oracle("remove", "unary-node-left", &ctx, &r.stdout);
                        }
                    }
                }
            }
            reqs.push(load.clone());
            pend.push(None);
            reqs.push(format!("cli.remove\t{}", picks.iter().map(|x| hex(x)).collect::<Vec<_>>().join(",")));
            pend.push(Some(Pend { ctx: ctx.clone(), cli_tree: None, cli_failed: r.code != Some(0), kind: "class", expect_line: None }));
            reqs.push("ar.dump".into());
            pend.push(Some(Pend { ctx, cli_tree: got.map(|g| g.canon()), cli_failed: r.code != Some(0), kind: "tree", expect_line: None }));
        }
        // ---------------- resolve ----------------
        if ti % 3 == 1 {
            let r = run_cli(&["resolve", &file]);
            rep.count("runs:resolve");
            let ctx = format!("{ctx0}\nphylotree resolve FILE");
            match if r.code == Some(0) { rose_of_text(&r.stdout) } else { None } {
                None => rep.oracle("resolve", "error-exit-or-unparseable", &ctx, &format!("exit {:?} {}", r.code, r.stdout)),
                Some(g) => {
                    let mut poly = false;
                    g.for_each(&mut |x, _| if x.kids.len() > 2 { poly = true });
                    let mut a = g.leaf_names();
                    let mut b = t.leaf_names();
                    a.sort();
                    b.sort();
                    let (d0, d1) = (leaf_dists(&t), leaf_dists(&g));
                    let same = d0.iter().all(|(k2, v)| v.is_none() || d1.get(k2) == Some(v));
                    if poly || a != b || !same {
                        rep.oracle("resolve", if poly { "not-binary" } else if a != b { "leaf-set-changed" } else { "distances-changed" }, &ctx, &r.stdout);
                    }
                    // -o
                    let out = format!("{dir}/r{k}.nwk");
                    let _ = std::fs::write(&out, "STALE CONTENT OF AN EARLIER RUN;\n".repeat(2 + r.stdout.len() / 8));
                    let r2 = run_cli(&["resolve", &file, "-o", &out]);
                    let content = std::fs::read_to_string(&out).unwrap_or_default();
                    // the resolution is random, so the file is not compared with the plain run: it must be exactly one tree in
                    // normal form (what the library writes for what it parses), with nothing before or after it
                    let normal = Tree::from_newick(&content).ok().and_then(|p| p.to_newick().ok()).map_or(false, |w| w == content);
                    if r2.code != Some(0) || !r2.stdout.is_empty() || rose_of_text(&content).is_none() || content.ends_with('\n') || !normal {
                        rep.oracle("output-option", "resolve", &ctx, &format!("exit {:?} stdout {:?} file {:?}", r2.code, r2.stdout, content));
                    }
                    let _ = std::fs::remove_file(&out);
                }
            }
        }
        let _ = std::fs::remove_file(&file);
    }
    // ---------------- model comparison ----------------
    match run_driver(driver, &reqs) {
        Err(e) => rep.mismatch("c18.cli", "driver-failed", "", "", &e),
        Ok(ans) => {
            rep.count_n("model_requests", ans.len() as u64);
            for i in 0..ans.len() {
                let Some(p) = &pend[i] else { continue };
                let m = &ans[i];
                match p.kind {
                    "value" => {
                        let e = p.expect_line.clone().unwrap_or_default();
                        let agree = if e == "err" { m.starts_with("err") } else { *m == e };
                        if !agree {
                            rep.mismatch("c18.cli", &format!("{}:differs", reqs[i].split('\t').take(if reqs[i].starts_with("cli.") { 1 } else { 2 }).collect::<Vec<_>>().join(".")), &p.ctx, &e, m);
                        }
                    }
                    "cmp" => {
                        // model: ok rf tot wrf kf2 ; cli: rf nrf wrf kf
                        let e = p.expect_line.clone().unwrap_or_default();
                        let c: Vec<f64> = e.split(' ').filter_map(|x| x.parse().ok()).collect();
                        let v: Vec<f64> = m.strip_prefix("ok ").unwrap_or("").split(' ').filter_map(|x| x.parse().ok()).collect();
                        let good = c.len() == 4 && v.len() == 4 && c[0] == v[0] && canon_f64(c[1]) == canon_f64(v[0] / v[1]) && c[2] == v[2] / UNIT as f64 && canon_f64(c[3]) == canon_f64((v[3] / (UNIT as f64 * UNIT as f64)).sqrt());
                        if !good {
                            rep.mismatch("c18.cli", "compare:differs", &p.ctx, &e, m);
                        }
                    }
                    "class" => {
                        if m.starts_with("err") != p.cli_failed {
                            rep.mismatch("c18.cli", &format!("{}:exit-status", reqs[i].split('\t').next().unwrap_or("")), &p.ctx, if p.cli_failed { "error exit" } else { "exit 0" }, m);
                        }
                    }
                    _ => {
                        if p.cli_failed {
                            continue;
                        }
                        let model_rose = slots_from_dump(m).and_then(|s| rose_of_slots(&s)).map(|r| r.canon());
                        if model_rose != p.cli_tree {
                            rep.mismatch("c18.cli", "result-tree:differs", &p.ctx, &format!("{:?}", p.cli_tree), &format!("{model_rose:?}"));
                        }
                    }
                }
            }
        }
    }
    let _ = std::fs::remove_dir_all(&dir);
}
