//! C08 — both distance-matrix algorithms return the true leaf-to-leaf path lengths.
use crate::case::*;
use crate::gen::*;
use crate::real::*;
use crate::util::*;
use phylotree::tree::Tree;
use std::collections::BTreeMap;
use std::panic::AssertUnwindSafe;

fn enc_taxa(t: &[String]) -> String {
    if t.is_empty() { "_".into() } else { t.iter().map(|x| hex(x)).collect::<Vec<_>>().join(",") }
}

/// `ok taxa | scaled cells` (stream A: every value is an exact multiple of 1/1024)
pub fn real_dm(tree: &Tree, recursive: bool) -> (String, Option<(Vec<String>, Vec<f64>)>) {
    let r = guarded(AssertUnwindSafe(|| if recursive { tree.distance_matrix_recursive() } else { tree.distance_matrix() }));
    match r {
        Err(_) => ("panic".into(), None),
        Ok(Err(e)) => (format!("err {}", err_kind(&e)), None),
        Ok(Ok(m)) => {
            let cells: Vec<f64> = m.iter().cloned().collect();
            let s = format!("ok {} | {}", enc_taxa(&m.taxa), cells.iter().map(|v| scaled(*v).map_or(format!("inexact:{v}"), |n| n.to_string())).collect::<Vec<_>>().join(" "));
            (s, Some((m.taxa.clone(), cells)))
        }
    }
}

/// independent path walk on the rose tree: (sum with missing = 1 edge, true sum if all present) per leaf pair by name
fn walk(r: &Rose) -> BTreeMap<(String, String), (f64, Option<f64>, usize)> {
    fn go(r: &Rose, out: &mut BTreeMap<(String, String), (f64, Option<f64>, usize)>) -> Vec<(String, f64, Option<f64>, usize)> {
        if r.kids.is_empty() {
            return vec![(r.name.clone().unwrap_or_default(), 0.0, Some(0.0), 0)];
        }
        let mut per: Vec<Vec<(String, f64, Option<f64>, usize)>> = vec![];
        for k in r.kids.iter() {
            let sub = go(k, out);
            per.push(sub.into_iter().map(|(n, a, b, e)| (n, a + k.len.unwrap_or(1.0), match (b, k.len) { (Some(x), Some(y)) => Some(x + y), _ => None }, e + 1)).collect());
        }
        for i in 0..per.len() {
            for j in i + 1..per.len() {
                for a in per[i].iter() {
                    for b in per[j].iter() {
                        let key = if a.0 <= b.0 { (a.0.clone(), b.0.clone()) } else { (b.0.clone(), a.0.clone()) };
                        out.insert(key, (a.1 + b.1, match (a.2, b.2) { (Some(x), Some(y)) => Some(x + y), _ => None }, a.3 + b.3));
                    }
                }
            }
        }
        per.into_iter().flatten().collect()
    }
    let mut out = BTreeMap::new();
    go(r, &mut out);
    out
}

fn close(a: f64, b: f64) -> bool {
    a == b || (a - b).abs() <= 1e-9 * a.abs().max(b.abs()).max(1e-300)
}

fn one_tree(t: &Rose, rng: &mut Rng, rep: &mut Report, batch: &mut Batch, exact: bool) {
    let how = *rng.pick(&["api", "bfs", "tomb", "tomb2", "parse", "grown", "bottomup"]);
    let start = format!("real.build\t{how}\t{}\t{}", t.canon(), rng.next() % 100_000);
    let mut st = RealState::new();
    let mut case = Case::new();
    if case.step(&mut st, &start, Cmp::Ignore) != "ok" {
        rep.count("start_rejected");
        return;
    }
    verify(&mut st, &mut case, rng, rep, exact, true, false);
    // the matrix must also be right on a tree that was queried before and then edited (per-node caches)
    if rng.chance(1, 2) {
        let op = match rng.below(4) {
            0 => "ar.rescale\t2".to_string(),
            1 => "ar.rescale\t3".to_string(),
            _ => crate::c03::random_op(rng, &st),
        };
        // stream B trees are not loaded into the arena model: their steps are not compared
        let a = case.step(&mut st, &op, if exact { Cmp::Class } else { Cmp::Ignore });
        if !exact {
            if let Some(last) = case.steps.last_mut() {
                last.0.model_cmd = "nop".into();
            }
        }
        // the documented reset after a change (distance_matrix_recursive reads the leaf index)
        case.step(&mut st, "real.reset_cache", Cmp::Ignore);
        if class_of(&a) != "panic" {
            rep.count("recomputed_after_edit");
            verify(&mut st, &mut case, rng, rep, exact, false, false);
        }
    }
    // a leaf renamed IN PLACE after the matrices (and the sorted leaf index behind the bipartition code) were computed, with NO
    // cache reset: `distance_matrix` never reads the bipartition caches, so its taxa and rows must follow the new name at once
    if rng.chance(1, 3) {
        let slots = slots_of(&st.tree);
        let tips: Vec<usize> = (0..slots.len()).filter(|&i| !slots[i].deleted && slots[i].children.is_empty() && slots[i].name.is_some()).collect();
        if !tips.is_empty() {
            let _ = st.tree.distance_matrix_recursive();
            let _ = st.tree.get_partitions();
            let i = *rng.pick(&tips);
            let nm = format!("{}{}", *rng.pick(&["0", "ZZ", "a", "~"]), rng.below(1000));
            let a = case.step(&mut st, &format!("ar.setname\t{i}\th{}", hex(&nm)), if exact { Cmp::Class } else { Cmp::Ignore });
            if !exact {
                if let Some(last) = case.steps.last_mut() {
                    last.0.model_cmd = "nop".into();
                }
            }
            if class_of(&a) == "ok" {
                rep.count("fast_matrix_after_unreset_rename");
                verify(&mut st, &mut case, rng, rep, exact, false, true);
            }
        }
    }
    batch.push(case);
}

fn verify(st: &mut RealState, case: &mut Case, rng: &mut Rng, rep: &mut Report, exact: bool, count: bool, fast_only: bool) {
    let start = case.script();
    let slots = slots_of(&st.tree);
    let Some(r) = live_roots(&slots).first().and_then(|x| rose_of(&slots, *x)) else { return };
    let names = r.leaf_names();
    let uniq = names.iter().all(|n| n.is_some()) && { let mut v: Vec<_> = names.iter().flatten().collect(); v.sort(); v.dedup(); v.len() == names.len() };
    let mut all_len = true;
    let mut no_len = true;
    r.for_each(&mut |x, root| if !root { if x.len.is_none() { all_len = false } else { no_len = false } });
    if count {
        rep.case(&start, uniq && names.len() >= 3 && r.max_arity() >= 2);
        rep.count(&format!("lengths:{}", if all_len { "all" } else if no_len { "none" } else { "mixed" }));
        rep.count(&format!("leaves:{}", names.len() / 20 * 20));
    }
    // ---- both algorithms on the real crate ----
    let (fast, fast_m) = real_dm(&st.tree, false);
    // (fast_only: the leaf index may legitimately be stale — an in-place rename without the documented reset — so the
    // recursive algorithm, which reads it, is not asked)
    let (rec, rec_m) = if fast_only { ("skipped".to_string(), None) } else { real_dm(&st.tree, true) };
    if exact {
        // model tie (exact integers): the fold model, the rose-level recursion, the recursive algorithm
        let (a, _) = st.exec("nop");
        let _ = a;
        // with a leaf name carried by two leaves (an internal node spelled like a leaf became a tip after an edit) the
        // order of the two rows is not determined by the tree: outside the property's domain, only the outcome class is compared
        let cmp = || if uniq { Cmp::OkExact } else { Cmp::Class };
        if !uniq {
            rep.count("duplicate_leaf_names_after_edit:class_only");
        }
        case.steps.push((Step { real_cmd: "dm\tfast".into(), model_cmd: format!("dm\tfast\t{UNIT}"), real_ans: fast.clone() }, cmp()));
        case.steps.push((Step { real_cmd: "dm\tfast".into(), model_cmd: format!("dm\trose\t{UNIT}"), real_ans: fast.clone() }, cmp()));
        if !fast_only {
            case.steps.push((Step { real_cmd: "dm\trec".into(), model_cmd: "dm\trec".into(), real_ans: rec.clone() }, cmp()));
        }
    }
    let ctx = format!("{start}\ndm\tfast");
    if fast == "panic" || rec == "panic" {
        rep.oracle("no-panic", if fast == "panic" { "distance_matrix" } else { "distance_matrix_recursive" }, &ctx, "panic");
    }
    if !uniq || live_roots(&slots).len() != 1 {
        return;
    }
    // ---- oracle: two-sided comparison with an independent path walk and with pairwise queries ----
    let w = walk(&r);
    let mut sorted: Vec<String> = names.iter().flatten().cloned().collect();
    sorted.sort();
    let check = |m: &Option<(Vec<String>, Vec<f64>)>, which: &str, rep: &mut Report, want_true: bool| {
        let Some((taxa, cells)) = m else { return };
        if *taxa != sorted {
            rep.oracle("taxa-order", which, &ctx, &format!("{taxa:?}"));
            return;
        }
        let n = taxa.len();
        if cells.len() != n * n.saturating_sub(1) / 2 {
            rep.oracle("matrix-size", which, &ctx, &format!("{} cells for {n} taxa", cells.len()));
            return;
        }
        for i in 1..n {
            for j in 0..i {
                let key = (taxa[j].clone(), taxa[i].clone());
                let Some((mixed, truth, edges)) = w.get(&key) else {
                    rep.oracle("path-length", &format!("{which}:pair-missing"), &ctx, &format!("{key:?}"));
                    continue;
                };
                let got = cells[i * (i - 1) / 2 + j];
                let want = if want_true { truth.unwrap_or(f64::NAN) } else if no_len { *edges as f64 } else { *mixed };
                if !close(got, want) {
                    rep.oracle("path-length", &format!("{which}:{}", if no_len { "edge-count" } else { "sum-of-branch-lengths" }), &ctx, &format!("{key:?}: {got} expected {want}"));
                }
            }
        }
    };
    if all_len || no_len {
        match &fast_m {
            None => rep.oracle("path-length", "fast:refused", &ctx, &fast),
            Some(_) => check(&fast_m, "fast", rep, false),
        }
    } else {
        check(&fast_m, "fast", rep, false);
    }
    if all_len && !fast_only {
        match &rec_m {
            None => rep.oracle("path-length", "recursive:refused", &ctx, &rec),
            Some(_) => check(&rec_m, "recursive", rep, true),
        }
        // the two computations agree with each other and with pairwise distance queries
        if let (Some((_, a)), Some((_, b))) = (&fast_m, &rec_m) {
            if a.len() != b.len() || a.iter().zip(b.iter()).any(|(x, y)| !close(*x, *y)) {
                rep.oracle("agree", "fast-vs-recursive", &ctx, &format!("{a:?} vs {b:?}"));
            }
        }
        if let Some((taxa, cells)) = &fast_m {
            let n = taxa.len();
            for _ in 0..(n * 2).min(40) {
                let (i, j) = (rng.below(n), rng.below(n));
                if i == j {
                    continue;
                }
                let (a, b) = (i.max(j), i.min(j));
                // look the leaves up among the tips (an internal node may carry the same label)
                let leaf = |name: &str| st.tree.get_leaves().into_iter().find(|i| st.tree.get(i).map(|x| x.name.as_deref() == Some(name)).unwrap_or(false)).unwrap();
                let ia = leaf(&taxa[a]);
                let ib = leaf(&taxa[b]);
                match st.tree.get_distance(&ia, &ib) {
                    Ok((Some(d), _)) if close(d, cells[a * (a - 1) / 2 + b]) => {}
                    other => rep.oracle("agree", "matrix-vs-get_distance", &ctx, &format!("{other:?} vs {}", cells[a * (a - 1) / 2 + b])),
                }
            }
        }
    } else if rec_m.is_some() && !fast_only {
        rep.oracle("missing-length", "recursive-accepted", &ctx, &rec);
    }
}

pub fn run(thorough: bool, seed: u64, driver: &str, rep: &mut Report) {
    struct Job {
        seed: u64,
        nodes: Option<usize>,
        random: usize,
        exact: bool,
        big: bool,
    }
    let mut rng = Rng::new(seed);
    let mut jobs = vec![];
    for n in 1..=(if thorough { 8 } else { 7 }) {
        jobs.push(Job { seed: rng.next(), nodes: Some(n), random: 0, exact: true, big: false });
    }
    for i in 0..(if thorough { 300 } else { 24 }) {
        jobs.push(Job { seed: rng.next(), nodes: None, random: if thorough { 150 } else { 50 }, exact: i % 3 != 0, big: i % 6 == 0 });
    }
    let d = driver.to_string();
    parallel(
        jobs,
        n_workers(),
        "C08",
        |job, rep| {
            let mut rng = Rng::new(job.seed);
            let mut batch = Batch::new("c08.matrix");
            if let Some(n) = job.nodes {
                for s in all_shapes(n) {
                    for mode in [LenMode::All, LenMode::None, LenMode::Mixed] {
                        let mut t = s.clone();
                        let rl0 = rng.chance(1, 3);
                        label(&mut rng, &mut t, &LabelOpts { len_mode: mode, internal_names_pct: 30, root_len: rl0, ..Default::default() });
                        if mode == LenMode::None && rng.chance(1, 2) { t.len = Some(*rng.pick(&[0.0, 1.0, 2.5])); }
                        one_tree(&t, &mut rng, rep, &mut batch, true);
                    }
                    rep.count("exhaustive_shapes");
                }
            }
            for i in 0..job.random {
                let size = if job.big && i % 5 == 0 { rng.range(200, if thorough { 600 } else { 300 }) } else { rng.range(2, 80) };
                let mut t = random_shape(&mut rng, size);
                let mode = *rng.pick(&[LenMode::All, LenMode::All, LenMode::All, LenMode::None, LenMode::Mixed]);
                let kind = if job.exact { LenKind::Dyadic } else { LenKind::Decimal };
                let fancy = rng.chance(1, 2);
                let rl = rng.chance(1, 3);
                label(&mut rng, &mut t, &LabelOpts { len_mode: mode, len_kind: kind, fancy_names: fancy, internal_names_pct: 30, root_len: rl, ..Default::default() });
                if mode == LenMode::None && rng.chance(1, 3) { t.len = Some(*rng.pick(&[0.0, 1.0, 2.5])); }
                if i % 7 == 0 {
                    crate::c05::collide_internal_names(&mut rng, &mut t, 40);
                }
                // quoted labels next to plain ones: the quotes are part of the name (that is how the parser stores them) — in the
                // taxa of both matrices, in their sorted order, and for lookups by name
                if i % 9 == 4 {
                    t.for_each_mut(&mut |x, _, _| if x.kids.is_empty() { if let Some(n) = x.name.as_mut() { match rng.below(4) { 0 => *n = format!("\"{n}\""), 1 => *n = format!("\"{n} x\""), _ => {} } } }, true, 0);
                    rep.count("trees_with_quoted_leaf_labels");
                }
                // a leaf name of exactly ten characters that is a prefix of another leaf name
                if i % 9 == 5 {
                    let mut k = 0;
                    let base = format!("Taxon_{:04}", rng.below(10000));
                    t.for_each_mut(&mut |x, _, _| if x.kids.is_empty() && x.name.is_some() && k < 2 { x.name = Some(if k == 0 { base.clone() } else { format!("{base}_melanogaster") }); k += 1; }, true, 0);
                    rep.count("trees_with_a_ten_character_prefix_pair");
                }
                // stream B (decimal lengths) has no exact model tie: the harness compares within 1e-9
                one_tree(&t, &mut rng, rep, &mut batch, job.exact && size <= 120);
                rep.count(if job.exact { "random:stream-A-exact" } else { "random:stream-B-1e-9" });
                if batch.n_requests() > 20_000 {
                    batch.flush(&d, rep);
                }
            }
            batch.flush(&d, rep);
        },
        rep,
    );
    // lengths at the very top of the float range: a path of 2^1023 + 2^1022 is finite and exactly representable; both matrices
    // and the pairwise query must return it (no intermediate doubling, averaging or squaring may overflow)
    for (k, text) in ["(A:8.98846567431158e307,B:4.49423283715579e307);", "((A:8.98846567431158e307,C:1):1,B:4.49423283715579e307,D:2);",
                      "(A:4.49423283715579e307,(B:4.49423283715579e307,C:2.247116418577895e307):2.247116418577895e307);"].iter().enumerate() {
        let case = format!("real.parse\t{}", hex(text));
        rep.case(&case, true);
        rep.count("trees_with_lengths_at_the_top_of_the_float_range");
        let Ok(t) = Tree::from_newick(text) else { continue };
        let (fast, rec) = (real_dm(&t, false).1, real_dm(&t, true).1);
        let leaves = t.get_leaves();
        let mut bad = vec![];
        for a in leaves.iter() {
            for b in leaves.iter() {
                if a >= b { continue; }
                let (na, nb) = (t.get(a).unwrap().name.clone().unwrap(), t.get(b).unwrap().name.clone().unwrap());
                let want = t.get_distance(a, b).ok().and_then(|d| d.0);
                for (which, m) in [("fast", &fast), ("recursive", &rec)] {
                    let got = m.as_ref().and_then(|(taxa, cells)| { let (i, j) = (taxa.iter().position(|x| *x == na)?, taxa.iter().position(|x| *x == nb)?); let (i, j) = (i.max(j), i.min(j)); cells.get(i * (i - 1) / 2 + j).cloned() });
                    if got.map(|v| v.to_bits()) != want.map(|v| v.to_bits()) || !want.map_or(false, |v| v.is_finite()) {
                        bad.push(format!("{which} {na}-{nb}: {got:?} vs get_distance {want:?}"));
                    }
                }
            }
        }
        if !bad.is_empty() {
            rep.oracle("matrix", "top-of-range-path-length", &format!("{case}\n(tree {k}: {text})"), &bad.join("; "));
        }
    }
    // degenerate: unnamed leaves / empty tree must be errors (never panics) on both sides
    let mut batch = Batch::new("c08.matrix");
    for s in ["((h41:-[-],-:-[-])-:-[-],h42:-[-])-:-[-]", "h41:-[-]", "(h41:3ff0000000000000[-])-:-[-]"] {
        let r = crate::real::parse_rose(s).unwrap();
        let mut rng2 = Rng::new(seed ^ 5);
        one_tree(&r, &mut rng2, rep, &mut batch, true);
        rep.count("degenerate");
    }
    batch.flush(driver, rep);
}
