//! C11 — editing operations have exactly their documented effect.
use crate::case::*;
use crate::gen::*;
use crate::real::*;
use crate::util::*;
use phylotree::verif::RawSlot;
use std::collections::BTreeMap;

/// leaf-to-leaf path lengths by leaf name (None = a branch on the path lacks a length), leaves = named tips
fn leaf_dists(r: &Rose) -> BTreeMap<(String, String), Option<i64>> {
    fn go(r: &Rose, out: &mut BTreeMap<(String, String), Option<i64>>) -> Vec<(String, Option<i64>)> {
        if r.kids.is_empty() {
            return vec![(r.name.clone().unwrap_or_else(|| "?".into()), Some(0))];
        }
        let mut per: Vec<Vec<(String, Option<i64>)>> = vec![];
        for k in r.kids.iter() {
            let sub = go(k, out);
            let l = k.len.and_then(scaled);
            per.push(sub.into_iter().map(|(n, d)| (n, match (d, l) { (Some(a), Some(b)) => Some(a + b), _ => None })).collect());
        }
        for i in 0..per.len() {
            for j in i + 1..per.len() {
                for a in per[i].iter() {
                    for b in per[j].iter() {
                        let d = match (a.1, b.1) { (Some(x), Some(y)) => Some(x + y), _ => None };
                        let key = if a.0 <= b.0 { (a.0.clone(), b.0.clone()) } else { (b.0.clone(), a.0.clone()) };
                        out.insert(key, d);
                    }
                }
            }
        }
        per.into_iter().flatten().collect()
    }
    let mut out = BTreeMap::new();
    go(r, &mut out);
    out
}

fn leafset(r: &Rose) -> Vec<Option<String>> {
    let mut v = r.leaf_names();
    v.sort();
    v
}

fn root_rose(slots: &[RawSlot]) -> Option<Rose> {
    live_roots(slots).first().and_then(|r| rose_of(slots, *r))
}

fn n_desc(r: &Rose) -> usize {
    r.size() - 1
}

fn all_len(r: &Rose) -> bool {
    let mut ok = true;
    r.for_each(&mut |x, root| {
        if !root && x.len.is_none() {
            ok = false
        }
    });
    ok
}

/// rose-level expectation for prune: the tree with the subtree rooted at slot `x` removed
fn remove_slot(slots: &[RawSlot], at: usize, x: usize) -> Option<Rose> {
    if at == x {
        return None;
    }
    let s = &slots[at];
    Some(Rose { name: s.name.clone(), len: s.parent_edge, comment: s.comment.clone(), kids: s.children.iter().filter_map(|c| remove_slot(slots, *c, x)).collect() })
}

fn one_op(start: &str, op: &str, rep: &mut Report, batch: &mut Batch) {
    one_op_after(start, &[], op, rep, batch)
}

/// `prelude`: in-place edits of the tree object before the operation under test (branch lengths overwritten through the public
/// setters, both records); the operation's contract is judged on the tree as it is after them
fn one_op_after(start: &str, prelude: &[String], op: &str, rep: &mut Report, batch: &mut Batch) {
    let mut st = RealState::new();
    let mut case = Case::new();
    if case.step(&mut st, start, Cmp::Ignore) != "ok" {
        rep.count("start_rejected");
        return;
    }
    for p in prelude {
        case.step(&mut st, p, Cmp::Class);
        rep.count("lengths_overwritten_in_place_before_the_operation");
    }
    let before_slots = slots_of(&st.tree);
    let Some(before) = root_rose(&before_slots) else { return };
    let root_id = live_roots(&before_slots)[0];
    let ans = case.step(&mut st, op, Cmp::Class);
    case.step(&mut st, "ar.dump", Cmp::Exact);
    let opname = op.split('\t').next().unwrap().trim_start_matches("ar.").trim_start_matches("real.").to_string();
    rep.count(&format!("op:{}:{}", opname, class_of(&ans)));
    let after_slots = slots_of(&st.tree);
    let after = root_rose(&after_slots);
    let script = case.script();
    let fail = |rep: &mut Report, sig: &str, obs: String| rep.oracle(&format!("effect-{opname}"), sig, &script, &obs);
    rep.case(&script, class_of(&ans) == "ok");
    if class_of(&ans) == "panic" {
        rep.oracle("no-panic", &opname, &script, &ans);
        batch.push(case);
        return;
    }
    let f: Vec<&str> = op.split('\t').collect();
    match opname.as_str() {
        "prune" => {
            let x: usize = f[1].parse().unwrap();
            let live = x < before_slots.len() && !before_slots[x].deleted;
            if !live {
                if class_of(&ans) != "err" || after.as_ref().map(|r| r.canon()) != Some(before.canon()) {
                    fail(rep, "dead-argument", format!("{ans}"));
                }
            } else {
                let want = remove_slot(&before_slots, root_id, x).map(|r| r.canon());
                if class_of(&ans) != "ok" || after.as_ref().map(|r| r.canon()) != want {
                    fail(rep, "not-exactly-the-subtree", format!("{ans}: after {:?} expected {:?}", after.as_ref().map(|r| r.canon()), want));
                }
            }
        }
        "merge" => {
            let (c1, c2): (usize, usize) = (f[1].parse().unwrap(), f[2].parse().unwrap());
            let live = |i: usize| i < before_slots.len() && !before_slots[i].deleted;
            let sib = live(c1) && live(c2) && c1 != c2 && before_slots[c1].parent == before_slots[c2].parent && before_slots[c1].parent.is_some();
            if !sib {
                if live(c1) && live(c2) && c1 != c2 && before_slots[c1].parent.is_none() && before_slots[c2].parent.is_none() {
                    return; // two roots of a forest: outside this property
                }
                if class_of(&ans) != "err" {
                    fail(rep, "non-siblings-not-refused", ans.clone());
                } else if after.as_ref().map(|r| r.canon()) != Some(before.canon()) {
                    fail(rep, "refused-but-changed", format!("{:?}", after.as_ref().map(|r| r.canon())));
                }
            } else {
                // expected: parent's list = old list without c1, c2 ++ [new(c1, c2)], everything else untouched
                let p = before_slots[c1].parent.unwrap();
                let dec = |s: &str| -> Option<f64> { if s == "-" { None } else { s.parse::<i64>().ok().map(|n| n as f64 / UNIT as f64) } };
                let (e1, e2, pe) = (dec(f[3]), dec(f[4]), dec(f[5]));
                let name = dec_opt_str(f[6]).unwrap();
                fn build(slots: &[RawSlot], at: usize, p: usize, c1: usize, c2: usize, e1: Option<f64>, e2: Option<f64>, pe: Option<f64>, name: &Option<String>, len_override: Option<Option<f64>>) -> Rose {
                    let s = &slots[at];
                    let mut kids: Vec<Rose> = vec![];
                    for c in s.children.iter() {
                        if at == p && (*c == c1 || *c == c2) {
                            continue;
                        }
                        kids.push(build(slots, *c, p, c1, c2, e1, e2, pe, name, None));
                    }
                    if at == p {
                        let k1 = build(slots, c1, p, c1, c2, e1, e2, pe, name, Some(e1));
                        let k2 = build(slots, c2, p, c1, c2, e1, e2, pe, name, Some(e2));
                        kids.push(Rose { name: name.clone(), len: pe, comment: None, kids: vec![k1, k2] });
                    }
                    Rose { name: s.name.clone(), len: len_override.unwrap_or(s.parent_edge), comment: s.comment.clone(), kids }
                }
                let want = build(&before_slots, root_id, p, c1, c2, e1, e2, pe, &name, None).canon();
                if class_of(&ans) != "ok" || after.as_ref().map(|r| r.canon()) != Some(want.clone()) {
                    fail(rep, "not-exactly-regrouped", format!("{ans}: after {:?} expected {want}", after.as_ref().map(|r| r.canon())));
                }
            }
        }
        "rescale" => {
            let k: i64 = f[1].parse().unwrap();
            let mut want = before.clone();
            want.for_each_mut(&mut |r, _, _| r.len = r.len.map(|l| l * k as f64), true, 0);
            if after.as_ref().map(|r| r.canon()) != Some(want.canon()) {
                fail(rep, "not-every-length-multiplied", format!("after {:?}", after.as_ref().map(|r| r.canon())));
            }
        }
        "compress" | "resolve" | "ladderize" => {
            let Some(after) = after else {
                fail(rep, "tree-lost", ans.clone());
                batch.push(case);
                return;
            };
            if leafset(&after) != leafset(&before) {
                fail(rep, "leaf-set-changed", format!("{:?} vs {:?}", leafset(&before), leafset(&after)));
            }
            let uniq = { let l = leafset(&before); l.iter().all(|n| n.is_some()) && l.windows(2).all(|w| w[0] != w[1]) };
            if uniq && (class_of(&ans) == "ok") {
                let (da, db) = (leaf_dists(&after), leaf_dists(&before));
                // resolve adds zero-length branches: distances are preserved where they were defined
                let same = if opname == "resolve" { db.iter().all(|(k, v)| v.is_none() || da.get(k) == Some(v)) } else { da == db };
                if !same {
                    fail(rep, "leaf-distances-changed", format!("before {db:?} after {da:?}"));
                }
            }
            if class_of(&ans) == "ok" {
                let mut bad = None;
                after.for_each(&mut |r, root| match opname.as_str() {
                    "compress" if !root && r.kids.len() == 1 => bad = Some("unary-node-left"),
                    "resolve" if r.kids.len() > 2 => bad = Some("polytomy-left"),
                    "ladderize" if r.kids.windows(2).any(|w| n_desc(&w[0]) > n_desc(&w[1])) => bad = Some("children-not-ordered-by-subtree-size"),
                    _ => {}
                });
                if let Some(b) = bad {
                    fail(rep, b, after.canon());
                }
                if opname == "ladderize" {
                    // nothing but the order of children changes
                    fn sorted(r: &Rose) -> String {
                        let mut k: Vec<String> = r.kids.iter().map(sorted).collect();
                        k.sort();
                        format!("({}){:?}{:?}{:?}", k.join(","), r.name, r.len.map(|l| l.to_bits()), r.comment)
                    }
                    if sorted(&after) != sorted(&before) {
                        fail(rep, "more-than-order-changed", after.canon());
                    }
                }
                if opname == "resolve" && all_len(&before) && !all_len(&after) {
                    fail(rep, "new-branch-without-length", after.canon());
                }
            } else if opname == "compress" {
                // mixed present/absent pair: refused, but the (partially compressed) tree keeps its leaves
                rep.count("compress:refused");
            }
        }
        _ => {}
    }
    if let Err(e) = check_inv(&after_slots, false) {
        rep.oracle("inv", &format!("{opname}:{}", inv_sig(&e)), &script, &e);
    }
    batch.push(case);
}

pub fn run(thorough: bool, seed: u64, driver: &str, rep: &mut Report) {
    let mut rng = Rng::new(seed);
    struct Job {
        seed: u64,
        nodes: Option<usize>,
        random: usize,
    }
    let mut jobs = vec![];
    for n in 1..=(if thorough { 7 } else { 6 }) {
        jobs.push(Job { seed: rng.next(), nodes: Some(n), random: 0 });
    }
    for _ in 0..(if thorough { 300 } else { 24 }) {
        jobs.push(Job { seed: rng.next(), nodes: None, random: if thorough { 200 } else { 60 } });
    }
    let d = driver.to_string();
    parallel(
        jobs,
        n_workers(),
        "C11",
        |job, rep| {
            let mut rng = Rng::new(job.seed);
            let mut batch = Batch::new("c11.ops");
            let mut run_all = |t: &Rose, rng: &mut Rng, exhaustive: bool, rep: &mut Report, batch: &mut Batch| {
                let how = *rng.pick(&["api", "bfs", "tomb", "tomb2", "parse", "grown", "bottomup"]);
                let start = format!("real.build\t{how}\t{}\t{}", t.canon(), rng.next() % 100_000);
                // learn the arena to enumerate arguments
                let mut st = RealState::new();
                if st.exec(&start).0 != "ok" {
                    return;
                }
                let n = st.tree.size();
                // rescale by factors the integer model cannot carry (real code only): "every length multiplied by the factor", for the
                // floats next to 1.0, tiny and huge factors, a negative one — both records of every branch, bit for bit
                // ... and on a copy in which a few branches carry lengths at the ends of the float range (largest finite, infinite,
                // subnormal — written through the public setters, both records): a product that overflows IS infinite, an infinite
                // length stays infinite, zero times infinity is NaN — the IEEE product, nothing else
                let mut extreme = st.tree.clone();
                let mut n_ext = 0;
                for i in 0..n {
                    let Ok(node) = extreme.get(&i) else { continue };
                    let (Some(p), Some(_)) = (node.parent, node.parent_edge) else { continue };
                    if !rng.chance(1, 3) {
                        continue;
                    }
                    let v = *rng.pick(&[f64::MAX, f64::INFINITY, f64::NEG_INFINITY, 1e308, 5e-324, -f64::MAX, 2.2250738585072014e-308]);
                    extreme.get_mut(&i).unwrap().set_parent(p, Some(v));
                    extreme.get_mut(&p).unwrap().set_child_edge(&i, Some(v));
                    n_ext += 1;
                }
                for (variant, base) in [("", &st.tree), ("\n(a few lengths first set to the ends of the float range through the public setters)", &extreme)] {
                    if !variant.is_empty() && n_ext == 0 {
                        continue;
                    }
                    let before = slots_of(base);
                    let factors: Vec<f64> = if variant.is_empty() { vec![1.0 + f64::EPSILON, 1.0 - f64::EPSILON / 2.0, 1.0 + 2.0 * f64::EPSILON, 0.1, -2.5, 1e-300, 3e200] } else { vec![1.0, 2.0, 1e10, -3.0, 0.0, 0.5, 1e-10] };
                    for f in factors {
                        let mut t2 = base.clone();
                        t2.rescale(f);
                        if !variant.is_empty() {
                            rep.count("rescale_of_extreme_lengths");
                        }
                        let after = slots_of(&t2);
                        rep.count("rescale_by_non_integer_factors");
                        let same = |a: f64, b: f64| (a.is_nan() && b.is_nan()) || a.to_bits() == b.to_bits();
                        let mut bad = None;
                        for (i, (b, a)) in before.iter().zip(after.iter()).enumerate() {
                            match (b.parent_edge, a.parent_edge) {
                                (None, None) => {}
                                (Some(x), Some(y)) if same(x * f, y) => {}
                                other => { bad = Some(format!("node {i}: child-side record {other:?} for factor {f:e}")); break; }
                            }
                            match (&b.child_edges, &a.child_edges) {
                                (Some(x), Some(y)) if x.len() == y.len() && x.iter().zip(y.iter()).all(|(p, q)| p.0 == q.0 && same(p.1 * f, q.1)) => {}
                                (None, None) => {}
                                other => { bad = Some(format!("node {i}: parent-side records {other:?} for factor {f:e}")); break; }
                            }
                        }
                        if let Some(b) = bad {
                            rep.oracle("effect-rescale", if variant.is_empty() { "not-every-length-multiplied:non-integer-factor" } else { "not-every-length-multiplied:extreme-lengths" }, &format!("{start}{variant}\nreal.rescale\t{f:e}"), &b);
                        }
                    }
                }
                let mut ops: Vec<String> = vec!["ar.compress".into(), "ar.ladderize".into(), format!("real.resolve\t{}", rng.next() % 1000)];
                for k in [0i64, 2, 3, -1] {
                    ops.push(format!("ar.rescale\t{k}"));
                }
                if !exhaustive {
                    // on larger trees (incl. polytomies of dozens of children): a few prunes and regroupings at random places
                    for _ in 0..3 {
                        ops.push(format!("ar.prune\t{}", rng.below(n + 1)));
                    }
                    let slots = slots_of(&st.tree);
                    for _ in 0..2 {
                        let parents: Vec<usize> = (0..slots.len()).filter(|&i| !slots[i].deleted && slots[i].children.len() >= 2).collect();
                        if parents.is_empty() {
                            break;
                        }
                        let ch = &slots[*rng.pick(&parents)].children;
                        ops.push(format!("ar.merge\t{}\t{}\t512\t-\t2048\th58", rng.pick(ch), rng.pick(ch)));
                    }
                }
                if exhaustive {
                    for x in 0..=n {
                        ops.push(format!("ar.prune\t{x}"));
                    }
                    for a in 0..=n {
                        for b in 0..=n {
                            ops.push(format!("ar.merge\t{a}\t{b}\t512\t-\t2048\th58"));
                        }
                    }
                    // every outcome of resolve's random choices is sampled through several seeds
                    for s in 0..6 {
                        ops.push(format!("real.resolve\t{s}"));
                    }
                } else {
                    for _ in 0..4 {
                        ops.push(crate::c03::random_op(rng, &st));
                    }
                    for _ in 0..3 {
                        ops.push(format!("ar.prune\t{}", rng.below(n + 1)));
                    }
                }
                for (k, op) in ops.into_iter().enumerate() {
                    if op.starts_with("ar.add_child") || op.starts_with("ar.add_copy") || op.starts_with("ar.setlen") || op.starts_with("ar.reset_depths") {
                        continue;
                    }
                    one_op(&start, &op, rep, batch);
                    // ... and on the object after one or two of its branch lengths were overwritten in place
                    if k % 3 == 0 && n >= 2 {
                        let prelude: Vec<String> = (0..rng.range(1, 2)).map(|_| format!("ar.setlen\t{}\t{}", rng.below(n), scaled(gen_len(rng, LenKind::Dyadic)).unwrap())).collect();
                        one_op_after(&start, &prelude, &op, rep, batch);
                    }
                }
            };
            if let Some(n) = job.nodes {
                for s in all_shapes(n) {
                    for mode in [LenMode::All, LenMode::Mixed] {
                        let mut t = s.clone();
                        let rl = rng.chance(1, 3); label(&mut rng, &mut t, &LabelOpts { len_mode: mode, comments_pct: 20, root_len: rl, ..Default::default() });
                        run_all(&t, &mut rng, true, rep, &mut batch);
                        rep.count("exhaustive_shapes_x_masks");
                    }
                    if batch.n_requests() > 100_000 {
                        batch.flush(&d, rep);
                    }
                }
            }
            for _ in 0..job.random {
                let size = rng.range(2, 60);
                let mut t = random_shape(&mut rng, size);
                let mode = *rng.pick(&[LenMode::All, LenMode::All, LenMode::Mixed, LenMode::None]);
                let rl = rng.chance(1, 3); label(&mut rng, &mut t, &LabelOpts { len_mode: mode, comments_pct: 10, root_len: rl, ..Default::default() }); if odd_labels(&mut rng, &mut t) { rep.count("trees_with_odd_labels"); }
                run_all(&t, &mut rng, false, rep, &mut batch);
                rep.count("random_trees");
                if batch.n_requests() > 100_000 {
                    batch.flush(&d, rep);
                }
            }
            batch.flush(&d, rep);
        },
        rep,
    );
}
