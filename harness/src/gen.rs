//! Tree generators, builders into the real crate, and encoders of the real arena.
use crate::util::*;
use phylotree::tree::{Node, Tree};
use phylotree::verif::{raw_slots, RawSlot};

pub const UNIT: i64 = 1024; // stream A lengths are integer multiples of 1/1024

#[derive(Clone, Debug, PartialEq)]
pub struct Rose {
    pub name: Option<String>,
    pub len: Option<f64>,
    pub comment: Option<String>,
    pub kids: Vec<Rose>,
}
impl Rose {
    pub fn leaf() -> Rose {
        Rose { name: None, len: None, comment: None, kids: vec![] }
    }
    pub fn size(&self) -> usize {
        1 + self.kids.iter().map(|k| k.size()).sum::<usize>()
    }
    pub fn n_leaves(&self) -> usize {
        if self.kids.is_empty() {
            1
        } else {
            self.kids.iter().map(|k| k.n_leaves()).sum()
        }
    }
    pub fn height(&self) -> usize {
        1 + self.kids.iter().map(|k| k.height()).max().unwrap_or(0)
    }
    pub fn max_arity(&self) -> usize {
        self.kids.len().max(self.kids.iter().map(|k| k.max_arity()).max().unwrap_or(0))
    }
    pub fn for_each_mut(&mut self, f: &mut dyn FnMut(&mut Rose, bool, usize), is_root: bool, depth: usize) {
        f(self, is_root, depth);
        for k in self.kids.iter_mut() {
            k.for_each_mut(f, false, depth + 1);
        }
    }
    pub fn for_each(&self, f: &mut dyn FnMut(&Rose, bool)) {
        fn go(r: &Rose, f: &mut dyn FnMut(&Rose, bool), root: bool) {
            f(r, root);
            for k in r.kids.iter() {
                go(k, f, false);
            }
        }
        go(self, f, true)
    }
    pub fn leaf_names(&self) -> Vec<Option<String>> {
        let mut v = vec![];
        self.for_each(&mut |r, _| {
            if r.kids.is_empty() {
                v.push(r.name.clone())
            }
        });
        v
    }
    /// canonical text of the rose tree (independent of the crate's writer): hex names, exact length bits
    pub fn canon(&self) -> String {
        let mut s = String::new();
        if !self.kids.is_empty() {
            s.push('(');
            for (i, k) in self.kids.iter().enumerate() {
                if i > 0 {
                    s.push(',');
                }
                s.push_str(&k.canon());
            }
            s.push(')');
        }
        s.push_str(&enc_opt_str(&self.name));
        s.push(':');
        match self.len {
            None => s.push('-'),
            Some(l) => s.push_str(&canon_f64(l)),
        }
        s.push('[');
        s.push_str(&enc_opt_str(&self.comment));
        s.push(']');
        s
    }
    /// the harness's own Newick writer (uses Rust's `Display` for lengths)
    pub fn newick(&self) -> String {
        fn go(r: &Rose, s: &mut String) {
            if !r.kids.is_empty() {
                s.push('(');
                for (i, k) in r.kids.iter().enumerate() {
                    if i > 0 {
                        s.push(',');
                    }
                    go(k, s);
                }
                s.push(')');
            }
            if let Some(n) = &r.name {
                s.push_str(n);
            }
            if let Some(l) = r.len {
                s.push(':');
                s.push_str(&format!("{}", l));
            }
            if let Some(c) = &r.comment {
                s.push('[');
                s.push_str(c);
                s.push(']');
            }
        }
        let mut s = String::new();
        go(self, &mut s);
        s.push(';');
        s
    }
}

/// bit-exact rendering of a float; all NaNs are identified
pub fn canon_f64(l: f64) -> String {
    if l.is_nan() {
        "nan".into()
    } else {
        format!("{:016x}", l.to_bits())
    }
}

/// all ordered rooted tree shapes with exactly `n` nodes
pub fn all_shapes(n: usize) -> Vec<Rose> {
    fn forests(n: usize, memo: &mut Vec<Option<Vec<Vec<Rose>>>>) -> Vec<Vec<Rose>> {
        // all ordered forests with n nodes in total
        if let Some(v) = &memo[n] {
            return v.clone();
        }
        let mut out = vec![];
        if n == 0 {
            out.push(vec![]);
        } else {
            for first in 1..=n {
                // first tree has `first` nodes: a root plus a forest of first-1 nodes
                let sub = forests(first - 1, memo);
                let rest = forests(n - first, memo);
                for s in sub.iter() {
                    for r in rest.iter() {
                        let mut f = vec![Rose { name: None, len: None, comment: None, kids: s.clone() }];
                        f.extend(r.iter().cloned());
                        out.push(f);
                    }
                }
            }
        }
        memo[n] = Some(out.clone());
        out
    }
    if n == 0 {
        return vec![];
    }
    let mut memo = vec![None; n + 1];
    forests(n - 1, &mut memo)
        .into_iter()
        .map(|kids| Rose { name: None, len: None, comment: None, kids })
        .collect()
}

/// random shape with about `size` nodes: arity distribution {1:10%, 2:55%, 3:20%, 4-8:15%}; where the budget allows, one node in
/// twelve has 33 to 96 children
pub fn random_shape(rng: &mut Rng, size: usize) -> Rose {
    fn go(rng: &mut Rng, budget: usize) -> Rose {
        // budget = number of nodes in this subtree (>= 1)
        if budget <= 1 {
            return Rose::leaf();
        }
        let avail = budget - 1;
        let r = rng.below(100);
        let mut arity = if r < 10 {
            1
        } else if r < 65 {
            2
        } else if r < 85 {
            3
        } else {
            rng.range(4, 8)
        };
        // now and then a polytomy far wider than any of the above (a star, an unresolved clade of dozens of taxa)
        if avail >= 34 && rng.chance(1, 12) {
            arity = rng.range(33, avail.min(96));
        }
        if arity > avail {
            arity = avail;
        }
        // split avail into `arity` positive parts
        let mut parts = vec![1usize; arity];
        for _ in 0..(avail - arity) {
            let i = rng.below(arity);
            parts[i] += 1;
        }
        // skew: sometimes make it caterpillar-like
        if rng.chance(1, 4) && arity >= 2 {
            let total: usize = parts.iter().sum();
            let i = rng.below(arity);
            for p in parts.iter_mut() {
                *p = 1;
            }
            parts[i] = total - (arity - 1);
        }
        Rose { name: None, len: None, comment: None, kids: parts.into_iter().map(|p| go(rng, p)).collect() }
    }
    go(rng, size.max(1))
}

#[derive(Clone, Copy, Debug, PartialEq)]
pub enum LenMode {
    None,
    All,
    Mixed,
}
#[derive(Clone, Copy, Debug, PartialEq)]
pub enum LenKind {
    /// integer multiples of 1/1024 in [0, 8): every sum the code forms is exact
    Dyadic,
    /// arbitrary bit patterns (no NaN): negative, -0, subnormal, huge, infinities
    Wild,
    /// short decimals such as 0.1, 0.37: not dyadic, sums round
    Decimal,
}

pub fn gen_len(rng: &mut Rng, kind: LenKind) -> f64 {
    match kind {
        LenKind::Dyadic => {
            let r = rng.below(10);
            let n = if r == 0 { 0 } else if r < 4 { rng.range(1, 8) * 1024 } else { rng.range(1, 8191) };
            n as f64 / UNIT as f64
        }
        LenKind::Decimal => {
            let n = rng.range(0, 9999);
            format!("{}.{:03}", n / 1000, n % 1000).parse::<f64>().unwrap()
        }
        LenKind::Wild => {
            let specials = [
                0.0,
                -0.0,
                1e300,
                -1e300,
                f64::INFINITY,
                f64::NEG_INFINITY,
                f64::MIN_POSITIVE,
                5e-324,
                -5e-324,
                1.0,
                -1.5,
                0.1,
                1e-7,
                123456789.125,
                f64::MAX,
                f64::MIN,
                1e21,
                1e-5,
            ];
            if rng.chance(1, 3) {
                *rng.pick(&specials)
            } else if rng.chance(1, 3) {
                // a short decimal mantissa at a far-away exponent (1.5e-29, 7.25e-100, 3e40): Display writes these positionally, with
                // dozens of zeros; the correctly rounded value of that text is the number itself
                let m = rng.range(1, 999_999_999);
                let e = *rng.pick(&[-300i32, -250, -100, -60, -40, -31, -29, -25, -23, 25, 40, 100, 250]) - rng.below(9) as i32;
                format!("{m}e{e}").parse::<f64>().unwrap()
            } else {
                loop {
                    let v = f64::from_bits(rng.next());
                    if !v.is_nan() {
                        return v;
                    }
                }
            }
        }
    }
}

pub struct LabelOpts {
    pub leaf_names: bool,
    pub internal_names_pct: usize,
    pub comments_pct: usize,
    pub len_mode: LenMode,
    pub len_kind: LenKind,
    pub root_len: bool,
    pub fancy_names: bool,
}
impl Default for LabelOpts {
    fn default() -> Self {
        LabelOpts {
            leaf_names: true,
            internal_names_pct: 50,
            comments_pct: 0,
            len_mode: LenMode::All,
            len_kind: LenKind::Dyadic,
            root_len: false,
            fancy_names: false,
        }
    }
}

/// unique leaf names whose sorted order is a random permutation of tree order
pub fn unique_names(rng: &mut Rng, n: usize, fancy: bool) -> Vec<String> {
    let mut names: Vec<String> = (0..n)
        .map(|i| {
            if fancy {
                match i % 5 {
                    0 => format!("T{}", i),
                    1 => format!("T{}x", i / 2),
                    2 => format!("é{}", i),
                    3 => format!("a_{}", i),
                    _ => format!("Z{}", i),
                }
            } else {
                format!("L{}", i)
            }
        })
        .collect();
    names.sort();
    names.dedup();
    let mut k = 0;
    while names.len() < n {
        names.push(format!("U{}", k));
        k += 1;
    }
    rng.shuffle(&mut names);
    names
}

pub fn label(rng: &mut Rng, t: &mut Rose, o: &LabelOpts) {
    let n = t.n_leaves();
    let mut names = unique_names(rng, n, o.fancy_names);
    let mut k = 0usize;
    // a partially annotated tree is not always "each branch independently": lengths on internal branches only (the crate's own
    // InternalLengthsLeafNames output), on terminal branches only, or on a minority of the branches are drawn per tree
    let mixed_pattern = if o.len_mode == LenMode::Mixed { rng.below(10) } else { 9 };
    let mut f = |r: &mut Rose, is_root: bool, _d: usize| {
        if r.kids.is_empty() {
            if o.leaf_names {
                r.name = names.pop();
            }
        } else if rng.below(100) < o.internal_names_pct {
            r.name = Some(format!("I{}", k));
            k += 1;
        }
        if rng.below(100) < o.comments_pct {
            // a comment is opaque data: strings that are annotations with a meaning in OTHER tools and formats (Nexus rooting
            // flags, weights, NHX, BEAST / FigTree attributes, support values) are comments like any other
            const MAGIC: &[&str] = MAGIC_COMMENTS;
            r.comment = Some(match rng.below(6) {
                0 => "c".to_string(),
                1 => "&&NHX:x=1".to_string(),
                2 => "a b,(c):d;\"q".to_string(),
                3 | 4 => rng.pick(MAGIC).to_string(),
                _ => format!("n{}", rng.below(100)),
            });
        }
        let want = match o.len_mode {
            LenMode::None => false,
            LenMode::All => true,
            LenMode::Mixed => match mixed_pattern {
                0 => !r.kids.is_empty(),
                1 => r.kids.is_empty(),
                2 => rng.chance(1, 4),
                _ => rng.chance(2, 3),
            },
        };
        if want && (!is_root || o.root_len) {
            r.len = Some(gen_len(rng, o.len_kind));
        }
    };
    t.for_each_mut(&mut f, true, 0);
}

/// Characters that mean nothing to any format of the crate and must therefore pass through every function untouched: markup
/// (`&`, `<`, `>`), shell / regex / path / format-string metacharacters, digits-and-signs that read as numbers, multi-byte
/// letters.  `text_safe` leaves out nothing here (none of them is Newick or Phylip syntax, none is white space).
/// comment texts that are annotations with a meaning in other tools and formats; to this crate a comment is opaque data
pub const MAGIC_COMMENTS: &[&str] = &["&R", "&U", "&r", "&u", "&", "&&", "&W 0.5", "&&NHX", "&&NHX:S=human:E=1.1", "&!color=#ff0000", "&rate=0.1,height=2", "100", "0.95", "1e-3",
                                      "R", "U", "!", "%", "\\", "'", "()", "[", "&R ", " &R", "&R&U", "%s{}", "<b>", "-", "0", "nan"];

pub const SPICE: &[&str] = &["&", "<", ">", "&amp", "&#38", "'", "%", "%s", "{}", "{0}", "#", "@", "!", "$", "^", "*", "_", "-", "+", "=", "|", "\\", "/", "?", ".", "~", "`", "0x", "1e3", "-1", "é", "ß", "Ω", "日本", "🌳"];

/// rewrites about `pct` percent of the names of a tree by inserting one of the SPICE strings at a random position (front,
/// middle, end) or by making the whole name one of them followed by a counter (so names stay pairwise different)
pub fn spice_names(rng: &mut Rng, t: &mut Rose, pct: usize) -> usize {
    let mut k = 0usize;
    t.for_each_mut(
        &mut |r, _, _| {
            if let Some(n) = r.name.as_mut() {
                if rng.below(100) < pct {
                    let s = *rng.pick(SPICE);
                    let chars: Vec<char> = n.chars().collect();
                    let at = match rng.below(3) { 0 => 0, 1 => chars.len(), _ => rng.below(chars.len() + 1) };
                    let mut out: String = chars[..at].iter().collect();
                    out.push_str(s);
                    out.extend(chars[at..].iter());
                    *n = out;
                    k += 1;
                }
            }
        },
        true,
        0,
    );
    k
}

/// pairwise different names that are closed under concatenation as far as possible (all words of length 1..=3 over `a b c`):
/// two DIFFERENT sets of such names often concatenate to the same string (`a`+`bc` = `ab`+`c`), so a set of taxa must never be
/// identified with the concatenation (or any separator-free rendering) of its names
pub fn concat_names(rng: &mut Rng, n: usize) -> Vec<String> {
    // half of the time the unary family x, xx, xxx, ...: any two sets of names of the same total length concatenate alike
    if rng.chance(1, 2) {
        let c = *rng.pick(&["a", "T", "0", "é"]);
        let mut v: Vec<String> = (1..=n).map(|k| c.repeat(k)).collect();
        rng.shuffle(&mut v);
        return v;
    }
    let mut all: Vec<String> = vec![];
    for a in ["a", "b", "c"] {
        all.push(a.to_string());
        for b in ["a", "b", "c"] {
            all.push(format!("{a}{b}"));
            for c in ["a", "b", "c"] {
                all.push(format!("{a}{b}{c}"));
            }
        }
    }
    // short words first with high probability: collisions need the short ones
    let (mut short, mut long): (Vec<String>, Vec<String>) = all.into_iter().partition(|x| x.len() <= 2);
    rng.shuffle(&mut short);
    rng.shuffle(&mut long);
    short.extend(long);
    let mut v: Vec<String> = short.into_iter().take(n).collect();
    let mut k = 0;
    while v.len() < n {
        v.push(format!("abc{k}"));
        k += 1;
    }
    rng.shuffle(&mut v);
    v
}

/// gives the leaves of a tree the names of [`concat_names`]
pub fn rename_leaves_concat(rng: &mut Rng, t: &mut Rose) {
    let mut names = concat_names(rng, t.n_leaves());
    t.for_each_mut(&mut |r, _, _| if r.kids.is_empty() { r.name = names.pop(); }, true, 0);
}

/// labels are data: on about one tree in five, some names get characters that are syntax elsewhere (markup, format strings,
/// shell) and some are wrapped in double quotes (the quotes are part of the name, possibly with a blank inside)
pub fn odd_labels(rng: &mut Rng, t: &mut Rose) -> bool {
    if !rng.chance(1, 5) {
        return false;
    }
    spice_names(rng, t, 25);
    t.for_each_mut(&mut |x, _, _| if let Some(n) = x.name.as_mut() { if !n.contains('"') { match rng.below(8) { 0 => *n = format!("\"{n}\""), 1 => *n = format!("\"{n} x\""), _ => {} } } }, true, 0);
    true
}

/// Build through the public API in pre-order: ids equal pre-order positions.
pub fn build_api(t: &Rose) -> Tree {
    fn node_of(r: &Rose) -> Node {
        let mut n = match &r.name {
            Some(s) => Node::new_named(s),
            None => Node::new(),
        };
        n.comment = r.comment.clone();
        n
    }
    fn go(tree: &mut Tree, r: &Rose, parent: usize) {
        for k in r.kids.iter() {
            let id = tree.add_child(node_of(k), parent, k.len).unwrap();
            go(tree, k, id);
        }
    }
    let mut tree = Tree::new();
    let mut rn = node_of(t);
    rn.parent_edge = t.len;
    let root = tree.add(rn);
    go(&mut tree, t, root);
    tree
}

/// Build through the public API in breadth-first order (ids differ from pre-order).
pub fn build_api_bfs(t: &Rose) -> Tree {
    let mut tree = Tree::new();
    let mut rn = match &t.name {
        Some(s) => Node::new_named(s),
        None => Node::new(),
    };
    rn.comment = t.comment.clone();
    rn.parent_edge = t.len;
    let root = tree.add(rn);
    let mut queue: std::collections::VecDeque<(&Rose, usize)> = std::collections::VecDeque::new();
    queue.push_back((t, root));
    while let Some((r, id)) = queue.pop_front() {
        for k in r.kids.iter() {
            let mut n = match &k.name {
                Some(s) => Node::new_named(s),
                None => Node::new(),
            };
            n.comment = k.comment.clone();
            let cid = tree.add_child(n, id, k.len).unwrap();
            queue.push_back((k, cid));
        }
    }
    tree
}

/// Build BOTTOM-UP: tips are created first as parentless nodes (`Tree::add`), and every node with two or more children is
/// created AFTER its first two child subtrees by `merge_children` on two parentless nodes (the documented agglomerative
/// use); the order in which the two child subtrees are created is random, so the first-created node (slot 0) can be the
/// first or the LAST child of its parent, the root is the last slot created on its path, and every parent id is larger than
/// its first two children's.  Further children and chains of one-child nodes are added top-down below the merged node.
pub fn build_bottom_up(t: &Rose, rng: &mut Rng) -> Tree {
    fn node_of(r: &Rose) -> Node {
        let mut n = match &r.name {
            Some(s) => Node::new_named(s),
            None => Node::new(),
        };
        n.comment = r.comment.clone();
        n
    }
    fn top_down(tree: &mut Tree, r: &Rose, parent: usize) {
        let id = tree.add_child(node_of(r), parent, r.len).unwrap();
        for k in r.kids.iter() {
            top_down(tree, k, id);
        }
    }
    /// returns the id of the (still parentless) root of the subtree built for `r`
    fn up(tree: &mut Tree, r: &Rose, rng: &mut Rng) -> usize {
        if r.kids.len() < 2 {
            let id = tree.add(node_of(r));
            for k in r.kids.iter() {
                top_down(tree, k, id);
            }
            return id;
        }
        let (a, b) = if rng.chance(1, 2) {
            let a = up(tree, &r.kids[0], rng);
            let b = up(tree, &r.kids[1], rng);
            (a, b)
        } else {
            let b = up(tree, &r.kids[1], rng);
            let a = up(tree, &r.kids[0], rng);
            (a, b)
        };
        let id = tree.merge_children(&a, &b, r.kids[0].len, r.kids[1].len, None, r.name.clone()).unwrap();
        if r.comment.is_some() {
            tree.get_mut(&id).unwrap().comment = r.comment.clone();
        }
        for k in r.kids.iter().skip(2) {
            top_down(tree, k, id);
        }
        id
    }
    let mut tree = Tree::new();
    let root = up(&mut tree, t, rng);
    if t.len.is_some() {
        tree.get_mut(&root).unwrap().parent_edge = t.len;
    }
    tree
}

/// Build with tombstones: junk subtrees are attached at random places (also before the root's first
/// child) and pruned again, so removed slots are interleaved with live ones.
pub fn build_with_tombstones(t: &Rose, rng: &mut Rng) -> Tree {
    fn go(tree: &mut Tree, r: &Rose, parent: usize, rng: &mut Rng, junk: &mut Vec<usize>) {
        for k in r.kids.iter() {
            if rng.chance(1, 3) {
                // junk sibling created before the real child, pruned at the end
                let j = tree.add_child(Node::new_named("JUNK"), parent, Some(1.0)).unwrap();
                if rng.chance(1, 2) {
                    tree.add_child(Node::new_named("JUNK2"), j, None).unwrap();
                }
                junk.push(j);
            }
            let mut n = match &k.name {
                Some(s) => Node::new_named(s),
                None => Node::new(),
            };
            n.comment = k.comment.clone();
            let id = tree.add_child(n, parent, k.len).unwrap();
            go(tree, k, id, rng, junk);
        }
    }
    let mut tree = Tree::new();
    let mut rn = match &t.name {
        Some(s) => Node::new_named(s),
        None => Node::new(),
    };
    rn.comment = t.comment.clone();
    rn.parent_edge = t.len;
    let root = tree.add(rn);
    let mut junk = vec![];
    go(&mut tree, t, root, rng, &mut junk);
    // junk siblings were pushed before the real child, so removing them restores the child order
    for j in junk {
        tree.prune(&j).unwrap();
    }
    tree
}

/// Like `build_with_tombstones`, and in addition tips (a childless root included) may have HAD children: junk children are
/// attached below them and pruned at the end, junk siblings may also follow the last real child, and an orphan node may be
/// added with `Tree::add` and pruned.  The live tree is `t`; a single live node can sit in an arena of several slots.
pub fn build_with_tombstones2(t: &Rose, rng: &mut Rng) -> Tree {
    fn junk_below(tree: &mut Tree, parent: usize, rng: &mut Rng, junk: &mut Vec<usize>) {
        let j = tree.add_child(Node::new_named("JUNK"), parent, Some(1.0)).unwrap();
        if rng.chance(1, 2) {
            tree.add_child(Node::new_named("JUNK2"), j, None).unwrap();
        }
        junk.push(j);
    }
    fn go(tree: &mut Tree, r: &Rose, me: usize, rng: &mut Rng, junk: &mut Vec<usize>) {
        if r.kids.is_empty() {
            if rng.chance(1, 3) {
                junk_below(tree, me, rng, junk);
            }
            return;
        }
        for k in r.kids.iter() {
            if rng.chance(1, 4) {
                junk_below(tree, me, rng, junk);
            }
            let mut n = match &k.name {
                Some(s) => Node::new_named(s),
                None => Node::new(),
            };
            n.comment = k.comment.clone();
            let id = tree.add_child(n, me, k.len).unwrap();
            go(tree, k, id, rng, junk);
        }
        if rng.chance(1, 4) {
            junk_below(tree, me, rng, junk);
        }
    }
    let mut tree = Tree::new();
    let mut rn = match &t.name {
        Some(s) => Node::new_named(s),
        None => Node::new(),
    };
    rn.comment = t.comment.clone();
    rn.parent_edge = t.len;
    let root = tree.add(rn);
    let mut junk = vec![];
    if t.kids.is_empty() {
        // the property's smallest tree with a past: always some removed slots
        junk_below(&mut tree, root, rng, &mut junk);
    }
    go(&mut tree, t, root, rng, &mut junk);
    for j in junk {
        tree.prune(&j).unwrap();
    }
    tree
}

/// exact scaled integer of a stream-A length, if it is one
pub fn scaled(l: f64) -> Option<i64> {
    let v = l * UNIT as f64;
    if v.is_finite() && v.fract() == 0.0 && v.abs() < 9.0e15 {
        Some(v as i64)
    } else {
        None
    }
}

pub fn enc_len_scaled(l: Option<f64>) -> Result<String, String> {
    match l {
        None => Ok("-".into()),
        Some(v) => scaled(v).map(|n| n.to_string()).ok_or_else(|| format!("length {v} is not a multiple of 1/{UNIT}")),
    }
}

/// the real arena in the driver's slot syntax, lengths as scaled integers (stream A)
pub fn enc_arena_scaled(slots: &[RawSlot]) -> Result<String, String> {
    if slots.is_empty() {
        return Ok("_".into());
    }
    let mut out = vec![];
    for s in slots {
        let ce = match &s.child_edges {
            None => String::new(),
            Some(v) => {
                let mut parts = vec![];
                for (c, e) in v {
                    parts.push(format!("{}={}", c, enc_len_scaled(Some(*e))?));
                }
                parts.join(" ")
            }
        };
        out.push(format!(
            "{},{},{},{},{},{},{},{}",
            if s.deleted { 1 } else { 0 },
            enc_opt_usize(s.parent),
            s.depth,
            enc_len_scaled(s.parent_edge)?,
            enc_opt_str(&s.name),
            enc_opt_str(&s.comment),
            enc_ids(&s.children),
            ce
        ));
    }
    Ok(out.join("|"))
}

/// the real arena in slot syntax with lengths as `Display` lexemes (text streams)
pub fn enc_arena_lex(slots: &[RawSlot]) -> String {
    if slots.is_empty() {
        return "_".into();
    }
    let lex = |l: Option<f64>| match l {
        None => "-".to_string(),
        Some(v) => format!("h{}", hex(&format!("{}", v))),
    };
    slots
        .iter()
        .map(|s| {
            format!(
                "{},{},{},{},{},{},{},",
                if s.deleted { 1 } else { 0 },
                enc_opt_usize(s.parent),
                s.depth,
                lex(s.parent_edge),
                enc_opt_str(&s.name),
                enc_opt_str(&s.comment),
                enc_ids(&s.children),
            )
        })
        .collect::<Vec<_>>()
        .join("|")
}

pub fn slots_of(tree: &Tree) -> Vec<RawSlot> {
    raw_slots(tree)
}

/// abstraction of the real arena from slot `x` (by child lists), with a step bound against cycles
pub fn rose_of(slots: &[RawSlot], x: usize) -> Option<Rose> {
    fn go(slots: &[RawSlot], x: usize, budget: &mut usize) -> Option<Rose> {
        if *budget == 0 || x >= slots.len() || slots[x].deleted {
            return None;
        }
        *budget -= 1;
        let s = &slots[x];
        let mut kids = vec![];
        for c in s.children.iter() {
            kids.push(go(slots, *c, budget)?);
        }
        Some(Rose { name: s.name.clone(), len: s.parent_edge, comment: s.comment.clone(), kids })
    }
    let mut budget = slots.len() + 1;
    go(slots, x, &mut budget)
}

pub fn live_roots(slots: &[RawSlot]) -> Vec<usize> {
    (0..slots.len()).filter(|&i| !slots[i].deleted && slots[i].parent.is_none()).collect()
}

/// The arena invariant of C03, evaluated on the real arena. Returns the first violated clause.
pub fn check_inv(slots: &[RawSlot], require_single_root: bool) -> Result<(), String> {
    let n = slots.len();
    let live = |i: usize| i < n && !slots[i].deleted;
    for (i, s) in slots.iter().enumerate() {
        if s.deleted {
            if !s.children.is_empty()
                || s.parent.is_some()
                || s.parent_edge.is_some()
                || s.child_edges.as_ref().map_or(false, |m| !m.is_empty())
                || s.name.is_some()
                || s.comment.is_some()
                || s.depth != 0
            {
                return Err(format!("tombstone-not-default slot={i}"));
            }
            continue;
        }
        if s.id != i {
            return Err(format!("id-mismatch slot={i} id={}", s.id));
        }
        let mut seen = std::collections::HashSet::new();
        for &c in s.children.iter() {
            if !live(c) {
                return Err(format!("child-not-live parent={i} child={c}"));
            }
            if !seen.insert(c) {
                return Err(format!("duplicate-child parent={i} child={c}"));
            }
            if slots[c].parent != Some(i) {
                return Err(format!("child-parent-link parent={i} child={c}"));
            }
            if slots[c].depth != s.depth + 1 {
                return Err(format!("depth parent={i} child={c} depth={} expected={}", slots[c].depth, s.depth + 1));
            }
            let ce = s.child_edges.as_ref().and_then(|m| m.iter().find(|(k, _)| *k == c).map(|(_, e)| *e));
            let same = match (ce, slots[c].parent_edge) {
                (None, None) => true,
                (Some(a), Some(b)) => a.to_bits() == b.to_bits() || (a.is_nan() && b.is_nan()),
                _ => false,
            };
            if !same {
                return Err(format!("edge-records-differ parent={i} child={c}"));
            }
        }
        if let Some(m) = &s.child_edges {
            for (c, _) in m {
                if !s.children.contains(c) {
                    return Err(format!("stray-child-edge parent={i} child={c}"));
                }
            }
        }
        match s.parent {
            Some(p) => {
                if !live(p) {
                    return Err(format!("parent-not-live node={i} parent={p}"));
                }
                if !slots[p].children.contains(&i) {
                    return Err(format!("parent-does-not-list node={i} parent={p}"));
                }
            }
            None => {
                if s.depth != 0 {
                    return Err(format!("root-depth node={i} depth={}", s.depth));
                }
            }
        }
    }
    if require_single_root {
        let roots = live_roots(slots);
        let any_live = slots.iter().any(|s| !s.deleted);
        if any_live && roots.len() != 1 {
            return Err(format!("roots={}", roots.len()));
        }
    }
    Ok(())
}

/// the public read accessors of `Node` (`get_depth`, `is_root`, `is_tip`, `get_child_edge`, the public fields) against the raw
/// view of the arena, for every live node
pub fn accessors_agree(t: &Tree, slots: &[RawSlot]) -> Result<(), String> {
    for (i, s) in slots.iter().enumerate() {
        if s.deleted {
            if t.get(&i).is_ok() {
                return Err(format!("removed-slot-readable slot={i}"));
            }
            continue;
        }
        let n = t.get(&i).map_err(|e| format!("live-slot-not-readable slot={i} {e:?}"))?;
        if n.id != s.id || n.parent != s.parent || n.children != s.children || n.name != s.name || n.comment != s.comment {
            return Err(format!("public-fields slot={i}"));
        }
        if n.get_depth() != s.depth {
            return Err(format!("get_depth slot={i} says {} stored {}", n.get_depth(), s.depth));
        }
        if n.is_root() != s.parent.is_none() || n.is_tip() != s.children.is_empty() {
            return Err(format!("is_root-is_tip slot={i}"));
        }
        for &c in s.children.iter() {
            let raw = s.child_edges.as_ref().and_then(|m| m.iter().find(|(k, _)| *k == c).map(|(_, e)| *e));
            let got = n.get_child_edge(&c);
            let same = match (raw, got) { (None, None) => true, (Some(a), Some(b)) => a.to_bits() == b.to_bits() || (a.is_nan() && b.is_nan()), _ => false };
            if !same {
                return Err(format!("get_child_edge parent={i} child={c} says {got:?} stored {raw:?}"));
            }
        }
        if n.get_child_edge(&slots.len()).is_some() {
            return Err(format!("get_child_edge-of-a-stranger parent={i}"));
        }
    }
    Ok(())
}

/// short signature of an invariant failure (clause name only)
pub fn inv_sig(msg: &str) -> String {
    let w = msg.split_whitespace().next().unwrap_or("inv");
    w.split('=').next().unwrap_or(w).to_string()
}

/// the real arena in slot syntax with lengths as exact bit patterns (`canon_f64`)
pub fn enc_arena_bits(slots: &[RawSlot]) -> String {
    if slots.is_empty() {
        return "_".into();
    }
    let b = |l: Option<f64>| match l {
        None => "-".to_string(),
        Some(v) => canon_f64(v),
    };
    slots
        .iter()
        .map(|s| {
            let ce = match &s.child_edges {
                None => String::new(),
                Some(v) => v.iter().map(|(c, e)| format!("{}={}", c, canon_f64(*e))).collect::<Vec<_>>().join(" "),
            };
            format!(
                "{},{},{},{},{},{},{},{}",
                if s.deleted { 1 } else { 0 },
                enc_opt_usize(s.parent),
                s.depth,
                b(s.parent_edge),
                enc_opt_str(&s.name),
                enc_opt_str(&s.comment),
                enc_ids(&s.children),
                ce
            )
        })
        .collect::<Vec<_>>()
        .join("|")
}

/// rewrites a model arena whose lengths are lexemes (`h<hex>`) into bit patterns, using Rust's own
/// `f64::from_str` — the codec the model is parametrised by
pub fn lex_arena_to_bits(arena: &str) -> Option<String> {
    if arena == "_" {
        return Some("_".into());
    }
    let conv = |t: &str| -> Option<String> {
        if t == "-" {
            Some("-".into())
        } else {
            let lex = unhex(t.strip_prefix('h')?)?;
            Some(canon_f64(lex.parse::<f64>().ok()?))
        }
    };
    let mut out = vec![];
    for slot in arena.split('|') {
        let f: Vec<&str> = slot.split(',').collect();
        if f.len() != 8 {
            return None;
        }
        let ce: Option<Vec<String>> = f[7]
            .split(' ')
            .filter(|x| !x.is_empty())
            .map(|x| {
                let (c, e) = x.split_once('=')?;
                Some(format!("{}={}", c, conv(e)?))
            })
            .collect();
        out.push(format!("{},{},{},{},{},{},{},{}", f[0], f[1], f[2], conv(f[3])?, f[4], f[5], f[6], ce?.join(" ")));
    }
    Some(out.join("|"))
}
