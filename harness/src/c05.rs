//! C05 bipartitions, C06 Robinson–Foulds, C07 weighted RF / branch score.
use crate::gen::*;
use crate::sp::*;
use crate::util::*;
use phylotree::tree::Tree;

enum Kind {
    Exact(String),
    /// model: keyed lists; compare sorted multisets of lengths
    Branches(String),
    /// model: `ok rf tot`; real: Ok(quotient) — must be the f64 quotient rf/tot (NaN when tot = 0)
    Rfn(Result<f64, String>),
    /// model: `ok kf2` (scaled^2); real: Ok(sqrt)
    Kf(Result<f64, String>),
    /// model: `ok rf tot wrf kf2`; real comparison report
    Cmp(Result<(f64, f64, f64, f64), String>),
    Load,
}

struct Q {
    reqs: Vec<String>,
    kinds: Vec<Kind>,
    case_of: Vec<usize>,
    cases: Vec<String>,
}
impl Q {
    fn new() -> Self {
        Q { reqs: vec![], kinds: vec![], case_of: vec![], cases: vec![] }
    }
    fn case(&mut self, c: String) {
        self.cases.push(c);
    }
    fn push(&mut self, req: String, k: Kind) {
        self.reqs.push(req);
        self.kinds.push(k);
        self.case_of.push(self.cases.len() - 1);
    }
    fn flush(&mut self, driver: &str, rep: &mut Report, stream: &str) {
        if self.reqs.is_empty() {
            return;
        }
        match run_driver(driver, &self.reqs) {
            Err(e) => rep.mismatch(stream, "driver-failed", "", "", &e),
            Ok(ans) => {
                rep.count_n("model_requests", ans.len() as u64);
                for i in 0..ans.len() {
                    let m = &ans[i];
                    let op = self.reqs[i].split('\t').take(2).collect::<Vec<_>>().join(".");
                    let (ok, imp) = match &self.kinds[i] {
                        Kind::Load => (m == "ok", "ok".to_string()),
                        Kind::Exact(e) => (same_class_or_exact(e, m), e.clone()),
                        Kind::Branches(e) => (same_class_or_exact(e, &model_branches_canon(m)), e.clone()),
                        Kind::Rfn(r) => match (r, m.strip_prefix("ok ")) {
                            (Ok(q), Some(body)) => {
                                let v: Vec<f64> = body.split(' ').filter_map(|x| x.parse().ok()).collect();
                                let want = if v.len() == 2 { v[0] / v[1] } else { f64::NAN };
                                (canon_f64(want) == canon_f64(*q), format!("ok {q}"))
                            }
                            (Err(e), None) => (m.starts_with("err"), e.clone()),
                            (Ok(q), None) => (false, format!("ok {q}")),
                            (Err(e), Some(_)) => (false, e.clone()),
                        },
                        Kind::Kf(r) => match (r, m.strip_prefix("ok ")) {
                            (Ok(q), Some(body)) => {
                                let k2: f64 = body.parse().unwrap_or(f64::NAN);
                                let want = (k2 / (UNIT as f64 * UNIT as f64)).sqrt();
                                (canon_f64(want) == canon_f64(*q), format!("ok {q}"))
                            }
                            (Err(e), None) => (class2(m) == class2(e), e.clone()),
                            (Ok(q), None) => (false, format!("ok {q}")),
                            (Err(e), Some(_)) => (false, e.clone()),
                        },
                        Kind::Cmp(r) => match (r, m.strip_prefix("ok ")) {
                            (Ok((rf, nrf, w, kf)), Some(body)) => {
                                let v: Vec<f64> = body.split(' ').filter_map(|x| x.parse().ok()).collect();
                                if v.len() != 4 {
                                    (false, format!("ok {rf} {nrf} {w} {kf}"))
                                } else {
                                    let good = v[0] == *rf
                                        && canon_f64(v[0] / v[1]) == canon_f64(*nrf)
                                        && v[2] / UNIT as f64 == *w
                                        && canon_f64((v[3] / (UNIT as f64 * UNIT as f64)).sqrt()) == canon_f64(*kf);
                                    (good, format!("ok {rf} {nrf} {w} {kf}"))
                                }
                            }
                            (Err(e), None) => (class2(m) == class2(e), e.clone()),
                            (Ok(x), None) => (false, format!("ok {x:?}")),
                            (Err(e), Some(_)) => (false, e.clone()),
                        },
                    };
                    if !ok {
                        let cls = |a: &str| a.split(' ').next().unwrap_or("").to_string();
                        let sig = if cls(&imp) != cls(m) { format!("{op}:{}!={}", cls(&imp), cls(m)) } else { format!("{op}:differs") };
                        rep.mismatch(stream, &sig, &format!("{}\n{}", self.cases[self.case_of[i]], self.reqs[i]), &imp, m);
                    }
                }
            }
        }
        self.reqs.clear();
        self.kinds.clear();
        self.case_of.clear();
        self.cases.clear();
    }
}

/// error kinds matter for the named errors of C06/C07; otherwise only the class
fn class2(a: &str) -> String {
    let mut it = a.split(' ');
    let c = it.next().unwrap_or("");
    if c == "err" {
        let k = it.next().unwrap_or("");
        if k == "MissingBranchLengths" || k == "DifferentTipIndices" {
            return format!("err {k}");
        }
        return "err".into();
    }
    c.to_string()
}
fn same_class_or_exact(imp: &str, model: &str) -> bool {
    if imp.starts_with("ok") || model.starts_with("ok") {
        imp == model
    } else {
        class2(imp) == class2(model)
    }
}

fn next_perm(v: &mut Vec<usize>) -> bool {
    // lexicographic next permutation
    let n = v.len();
    if n < 2 {
        return false;
    }
    let mut i = n - 1;
    while i > 0 && v[i - 1] >= v[i] {
        i -= 1;
    }
    if i == 0 {
        return false;
    }
    let mut j = n - 1;
    while v[j] <= v[i - 1] {
        j -= 1;
    }
    v.swap(i - 1, j);
    v[i..].reverse();
    true
}

fn assign_names(shape: &Rose, perm: &[usize], names: &[&str]) -> Rose {
    let mut t = shape.clone();
    let mut k = 0;
    t.for_each_mut(
        &mut |r, _, _| {
            if r.kids.is_empty() {
                r.name = Some(names[perm[k]].to_string());
                k += 1;
            }
        },
        true,
        0,
    );
    t
}

/// all shapes with at most `max_nodes` nodes and exactly `n` leaves
fn shapes_with_leaves(n: usize, max_nodes: usize) -> Vec<Rose> {
    let mut v = vec![];
    for k in 1..=max_nodes {
        for s in all_shapes(k) {
            if s.n_leaves() == n {
                v.push(s);
            }
        }
    }
    v
}

fn build_any(rng: &mut Rng, r: &Rose) -> (Tree, String) {
    let seed = rng.next() % 100_000;
    // the first two children merged under a root created AFTER them: the root is not slot 0 and an ordinary internal node may be
    if r.kids.len() >= 2 && r.comment.is_none() && rng.chance(1, 4) {
        let case = format!("real.build\tmerge2\t{}\t0", r.canon());
        let mut st = crate::real::RealState::new();
        if st.exec(&case).0 == "ok" {
            return (st.tree, case);
        }
    }
    match rng.below(4) {
        3 => (build_bottom_up(r, &mut Rng::new(seed)), format!("real.build\tbottomup\t{}\t{seed}", r.canon())),
        0 => (build_api(r), format!("real.build\tapi\t{}\t0", r.canon())),
        1 => (build_api_bfs(r), format!("real.build\tbfs\t{}\t0", r.canon())),
        _ => if rng.chance(1, 2) { (build_with_tombstones(r, &mut Rng::new(seed)), format!("real.build\ttomb\t{}\t{seed}", r.canon())) } else { (build_with_tombstones2(r, &mut Rng::new(seed)), format!("real.build\ttomb2\t{}\t{seed}", r.canon())) },
    }
}

/// a spelling that a sloppy comparison would identify with `n`: quoting, letter case, a suffix, leading or trailing white space
/// (only reachable through the API: the Newick parser drops unquoted blanks), invisible characters, a combining mark —
/// distinct labels are distinct taxa, however similar
pub fn look_alike_of(rng: &mut Rng, n: &str) -> String {
    match rng.below(14) {
        0 | 1 => format!("'{n}'"),
        2 => format!("\"{n}\""),
        3 => n.to_lowercase(),
        4 => format!("{n}_"),
        5 => format!("{n}.0"),
        6 => format!("{n} "),
        7 => format!("{n}\t"),
        8 => format!(" {n}"),
        9 => format!("{n}\n"),
        10 => format!("{n}\u{a0}"),
        11 => format!("{n}\u{200b}"),
        12 => n.to_uppercase(),
        _ => format!("{n}\u{301}"),
    }
}

fn arena_of(t: &Tree) -> String {
    enc_arena_scaled(&slots_of(t)).unwrap_or_else(|_| "_".into())
}

/// internal nodes get labels spelled like leaves elsewhere in the tree (numeric ids vs support values):
/// the leaf index must only ever be consulted for tips
pub fn collide_internal_names(rng: &mut Rng, t: &mut Rose, pct: usize) {
    let leaves: Vec<String> = t.leaf_names().into_iter().flatten().collect();
    if leaves.is_empty() {
        return;
    }
    t.for_each_mut(
        &mut |r, _, _| {
            if !r.kids.is_empty() && rng.below(100) < pct {
                r.name = Some(rng.pick(&leaves).clone());
            }
        },
        true,
        0,
    );
}

// ---------- metamorphic variants (C05 invariances) ----------
fn reorder(rng: &mut Rng, r: &Rose) -> Rose {
    let mut t = r.clone();
    t.for_each_mut(&mut |x, _, _| rng.shuffle(&mut x.kids), true, 0);
    t
}
fn add_unary(rng: &mut Rng, r: &Rose) -> Rose {
    fn go(rng: &mut Rng, r: &Rose, is_root: bool) -> Rose {
        let mut me = Rose { name: r.name.clone(), len: r.len, comment: None, kids: r.kids.iter().map(|k| go(rng, k, false)).collect() };
        if !is_root && rng.chance(1, 3) {
            // hang `me` under a fresh unary node
            me = Rose { name: None, len: Some(1.0), comment: None, kids: vec![me] };
        }
        me
    }
    go(rng, r, true)
}
/// the same unrooted tree drawn with a three-child root instead of a two-child root (or back)
fn reroot_style(r: &Rose) -> Option<Rose> {
    if r.kids.len() == 2 {
        let (x, y) = if !r.kids[0].kids.is_empty() { (0, 1) } else if !r.kids[1].kids.is_empty() { (1, 0) } else { return None };
        let mut kids = r.kids[x].kids.clone();
        let mut other = r.kids[y].clone();
        other.len = match (other.len, r.kids[x].len) {
            (Some(a), Some(b)) => Some(a + b),
            _ => None,
        };
        kids.push(other);
        Some(Rose { name: r.name.clone(), len: None, comment: None, kids })
    } else {
        None
    }
}
fn rename(r: &Rose, f: &dyn Fn(&str) -> String) -> Rose {
    let mut t = r.clone();
    t.for_each_mut(
        &mut |x, _, _| {
            if x.kids.is_empty() {
                x.name = x.name.as_ref().map(|n| f(n));
            }
        },
        true,
        0,
    );
    t
}

fn c05_tree(r: &Rose, rng: &mut Rng, q: &mut Q, rep: &mut Report, metamorphic: bool) {
    let (tree, case) = build_any(rng, r);
    let real = real_parts(&tree);
    let brute = brute_parts(r);
    let nsplits = brute_splits(r).len();
    let trivial_inner = {
        // has a non-tip non-root branch that is a trivial split
        let n = r.n_leaves();
        let mut found = false;
        fn go(r: &Rose, root: bool, n: usize, found: &mut bool) {
            if !root && !r.kids.is_empty() {
                let k = r.n_leaves();
                if k < 2 || n - k < 2 {
                    *found = true;
                }
            }
            for c in r.kids.iter() {
                go(c, false, n, found);
            }
        }
        go(r, true, n, &mut found);
        found
    };
    rep.case(&r.canon(), nsplits >= 1 && trivial_inner);
    rep.count(&format!("splits:{}", nsplits.min(9)));
    if real != brute {
        rep.oracle("splits-exact", if real.starts_with("ok") { "set-differs" } else { "error" }, &format!("{case}\nsp\tparts"), &format!("reported {real} expected {brute}"));
    }
    if let Some(m) = crate::sp::parts_view_mismatch(&tree) {
        rep.oracle("splits-view", "partition_to_leaves", &format!("{case}\nsp\tparts"), &m);
    }
    q.case(case.clone());
    q.push(format!("ar.load\t{}", arena_of(&tree)), Kind::Load);
    q.push("sp\tparts".into(), Kind::Exact(real.clone()));
    if metamorphic && rng.chance(1, 4) {
        // ---- a tree OBJECT WITH A PAST: the splits were asked, then the object went through a few edit calls — accepted ones and
        // REFUSED ones (a refused call must leave the tree as it was) — and the documented reset; what is reported then must be
        // the splits of the tree the arena holds now (brute force over the raw arena), whatever happened before ----
        let mut st = crate::real::RealState::new();
        st.tree = tree.clone();
        let mut script = case.clone();
        let mut refused = 0;
        for _ in 0..rng.range(1, 4) {
            let op = crate::c03::random_op(rng, &st);
            let (a, _) = st.exec(&op);
            script.push('\n');
            script.push_str(&op);
            if a.starts_with("err") {
                refused += 1;
            }
            if a == "panic" {
                break;
            }
        }
        st.tree.reset_bipartition_cache();
        script.push_str("\nreal.reset_cache\nsp.live\tparts");
        let sl = slots_of(&st.tree);
        if let Some(now) = live_roots(&sl).first().and_then(|r| rose_of(&sl, *r)) {
            let uniq = rose_leafset(&now).len() == now.n_leaves() && now.leaf_names().iter().all(|n| n.is_some());
            if uniq && live_roots(&sl).len() == 1 {
                rep.count(if refused > 0 { "splits_after_a_history_with_refused_calls" } else { "splits_after_a_history" });
                let got = real_parts(&st.tree);
                let want = brute_parts(&now);
                if got != want {
                    rep.oracle("splits-after-history", if got.starts_with("ok") { "set-differs" } else { "error" }, &script, &format!("reported {got} expected {want}"));
                }
            }
        }
    }
    if metamorphic {
        // invariances on the real code
        let r2 = reorder(rng, r);
        let p2 = real_parts(&build_api(&r2));
        if p2 != real {
            rep.oracle("splits-invariant", "child-reorder", &format!("{case}\nsp\tparts"), &format!("{real} vs reordered {p2}"));
        }
        let r3 = add_unary(rng, r);
        let p3 = real_parts(&build_api(&r3));
        if p3 != real {
            rep.oracle("splits-invariant", "unary-nodes", &format!("real.build\tapi\t{}\t0\nsp\tparts", r3.canon()), &format!("{real} vs with unary nodes {p3}"));
        }
        if let Some(r4) = reroot_style(r) {
            let p4 = real_parts(&build_api(&r4));
            if p4 != real {
                rep.oracle("splits-invariant", "root-style", &format!("{case}\nsp\tparts"), &format!("{real} vs three-child root {p4}"));
            }
        }
        // renaming that reverses the sort order: every bit position changes
        let names: Vec<String> = rose_leafset(r).into_iter().collect();
        let n = names.len();
        let map = |s: &str| -> String {
            let i = names.iter().position(|x| x == s).unwrap_or(0);
            format!("z{:04}", n - i)
        };
        let r5 = rename(r, &map);
        let p5 = real_parts(&build_api(&r5));
        let expect = brute_parts(&r5);
        if p5 != expect {
            rep.oracle("splits-invariant", "renaming", &format!("real.build\tapi\t{}\t0\nsp\tparts", r5.canon()), &format!("{p5} expected {expect}"));
        }
    }
}

pub fn run_c05(thorough: bool, seed: u64, driver: &str, rep: &mut Report) {
    let names = ["A", "B", "C", "D", "E", "F", "G"];
    struct Job {
        shapes: Vec<Rose>,
        n: usize,
        seed: u64,
        random: usize,
    }
    let mut rng = Rng::new(seed);
    let mut jobs: Vec<Job> = vec![];
    let (max_leaves, max_nodes) = if thorough { (6, 10) } else { (5, 8) };
    for n in 2..=max_leaves {
        let shapes = shapes_with_leaves(n, max_nodes);
        for chunk in shapes.chunks(40) {
            jobs.push(Job { shapes: chunk.to_vec(), n, seed: rng.next(), random: 0 });
        }
    }
    for _ in 0..(if thorough { 200 } else { 16 }) {
        jobs.push(Job { shapes: vec![], n: 0, seed: rng.next(), random: if thorough { 500 } else { 150 } });
    }
    let d = driver.to_string();
    parallel(
        jobs,
        n_workers(),
        "C05",
        |job, rep| {
            let mut rng = Rng::new(job.seed);
            let mut q = Q::new();
            for shape in job.shapes.iter() {
                let mut perm: Vec<usize> = (0..job.n).collect();
                let mut first = true;
                loop {
                    let mut t = assign_names(shape, &perm, &names);
                    if !first && rng.chance(1, 4) {
                        collide_internal_names(&mut rng, &mut t, 60);
                        rep.count("internal_labels_spelled_like_leaves");
                    }
                    c05_tree(&t, &mut rng, &mut q, rep, first);
                    first = false;
                    rep.count("exhaustive_labelled_shapes");
                    if !next_perm(&mut perm) {
                        break;
                    }
                }
                q.flush(&d, rep, "c05.parts");
            }
            for i in 0..job.random {
                // block-boundary leaf counts are always included
                let nl = match i % 10 {
                    0 => *rng.pick(&[31usize, 32, 33, 63, 64, 65]),
                    _ => rng.range(4, 40),
                };
                let mut t = random_shape(&mut rng, nl * 2);
                let fancy = rng.chance(1, 2);
                label(&mut rng, &mut t, &LabelOpts { fancy_names: fancy, len_mode: LenMode::Mixed, ..Default::default() });
                rep.count(&format!("random_leaves:{}", t.n_leaves() / 10 * 10));
                if i % 3 == 0 {
                    collide_internal_names(&mut rng, &mut t, 40);
                    rep.count("internal_labels_spelled_like_leaves");
                }
                if i % 5 == 1 {
                    let ls: Vec<String> = rose_leafset(&t).into_iter().collect();
                    if ls.len() >= 3 {
                        let n1 = rng.pick(&ls).clone();
                        let n2 = ls.iter().find(|x| **x != n1).unwrap().clone();
                        let variant = look_alike_of(&mut rng, &n1);
                        if !ls.contains(&variant) {
                            t = rename(&t, &|x: &str| -> String { if x == n2 { variant.clone() } else { x.to_string() } });
                            rep.count("look_alike_leaf_labels");
                        }
                    }
                }
                c05_tree(&t, &mut rng, &mut q, rep, true);
            }
            q.flush(&d, rep, "c05.parts");
        },
        rep,
    );
    // degenerate inputs: unnamed / duplicate leaves must be errors on both sides
    let mut q = Q::new();
    let mut rng2 = Rng::new(seed ^ 77);
    for s in ["((h41:-[-],-:-[-])-:-[-],h42:-[-])-:-[-]", "((h41:-[-],h41:-[-])-:-[-],h42:-[-],h43:-[-])-:-[-]", "h41:-[-]", "(h41:-[-])-:-[-]"] {
        let r = crate::real::parse_rose(s).unwrap();
        let (tree, case) = build_any(&mut rng2, &r);
        q.case(case);
        q.push(format!("ar.load\t{}", arena_of(&tree)), Kind::Load);
        q.push("sp\tparts".into(), Kind::Exact(real_parts(&tree)));
        rep.count("degenerate");
    }
    q.flush(driver, rep, "c05.parts");
}

// ---------------------------------------------------------------------------------------------

fn pair_requests(a: &Rose, b: &Rose, rng: &mut Rng, q: &mut Q, rep: &mut Report, weighted: bool, same_leafset: bool) {
    let (mut ta, ca) = build_any(rng, a);
    let (mut tb, cb) = build_any(rng, b);
    let case = format!("{ca}\n{}", cb.replacen("real.build", "real.build2", 1));
    q.case(case.clone());
    q.push(format!("ar.load\t{}", arena_of(&ta)), Kind::Load);
    q.push(format!("ar.load2\t{}", arena_of(&tb)), Kind::Load);
    let fresh = |r: &Rose| build_api(r);
    if !weighted {
        // ---------------- C06 ----------------
        let rf_ab = real_rf(&ta, &tb);
        let rf_ba = real_rf(&fresh(b), &fresh(a));
        q.push("sp\trf".into(), Kind::Exact(rf_ab.clone()));
        q.push("sp\trfn".into(), Kind::Rfn(real_rfn(&fresh(a), &fresh(b))));
        let cmp = fresh(a).compare_topologies(&fresh(b));
        let all_lens = |r: &Rose| {
            let mut ok = true;
            r.for_each(&mut |x, root| {
                if !root && x.len.is_none() {
                    ok = false
                }
            });
            ok
        };
        if all_lens(a) && all_lens(b) {
            q.push(
                "sp\tcmp".into(),
                Kind::Cmp(cmp.as_ref().map(|c| (c.rf, c.norm_rf, c.weighted_rf, c.branch_score)).map_err(|e| format!("err {}", crate::real::err_kind(e)))),
            );
        }
        let sig_case = format!("{case}\nsp\trf");
        if !same_leafset {
            rep.count("different_leafsets");
            if rf_ab.starts_with("ok") {
                rep.oracle("rf-reject", "robinson_foulds", &sig_case, &rf_ab);
            }
            if real_rfn(&fresh(a), &fresh(b)).is_ok() {
                rep.oracle("rf-reject", "robinson_foulds_norm", &sig_case, "accepted");
            }
            if all_lens(a) && all_lens(b) && cmp.is_ok() {
                rep.oracle("rf-reject", "compare_topologies", &sig_case, "accepted");
            }
            // a refused comparison leaves BOTH objects as they were: each still answers like a freshly built copy of itself
            for (which, obj, r) in [("receiver", &ta, a), ("argument", &tb, b)] {
                let own = obj.get_partitions().map(|p| p.len()).map_err(|_| ());
                let fr = fresh(r).get_partitions().map(|p| p.len()).map_err(|_| ());
                let z = real_rf(obj, &fresh(r));
                if own != fr || z != "ok 0" {
                    rep.oracle("rf-reject", "object-changed-by-a-refused-comparison", &sig_case, &format!("{which}: get_partitions {own:?} (fresh {fr:?}), rf against a fresh copy of itself {z}"));
                }
            }
            return;
        }
        if rf_ab != rf_ba {
            rep.oracle("rf-symmetric", "asymmetric", &sig_case, &format!("rf(a,b)={rf_ab} rf(b,a)={rf_ba}"));
        }
        let (delta, tot, same_root) = brute_delta(a, b);
        let both_rooted = a.kids.len() == 2 && b.kids.len() == 2;
        if let Some(v) = rf_ab.strip_prefix("ok ").and_then(|x| x.parse::<usize>().ok()) {
            let allowed_plus2 = both_rooted && !same_root && delta != 0;
            if !(v == delta || (v == delta + 2 && allowed_plus2)) {
                rep.oracle("rf-value", if v == delta + 2 { "correction-misapplied" } else { "not-split-count" }, &sig_case, &format!("rf={v} delta={delta} both_rooted={both_rooted} same_root={same_root}"));
            }
            if a.kids.len() >= 3 && b.kids.len() >= 3 && v != delta {
                rep.oracle("rf-value", "unrooted-not-delta", &sig_case, &format!("rf={v} delta={delta}"));
            }
            if let Ok(nrf) = real_rfn(&fresh(a), &fresh(b)) {
                if tot > 0 {
                    let want = v as f64 / tot as f64;
                    if nrf != want || (a.kids.len() >= 3 && b.kids.len() >= 3 && !(0.0..=1.0).contains(&nrf)) {
                        rep.oracle("rf-norm", "quotient", &sig_case, &format!("nrf={nrf} rf={v} tot={tot}"));
                    }
                }
            }
            if let Ok(c) = &cmp {
                if all_lens(a) && all_lens(b) && c.rf != v as f64 {
                    rep.oracle("rf-report", "differs-from-report", &sig_case, &format!("rf={v} report={}", c.rf));
                }
            }
        } else {
            rep.oracle("rf-value", "error-on-common-leafset", &sig_case, &rf_ab);
        }
        // reorder: rf(a, reorder(a)) = 0 ; rename both consistently: unchanged
        let ra = reorder(rng, a);
        let z = real_rf(&fresh(a), &fresh(&ra));
        if z != "ok 0" {
            rep.oracle("rf-reorder", "nonzero", &format!("real.build\tapi\t{}\t0\nreal.build2\tapi\t{}\t0\nsp\trf", a.canon(), ra.canon()), &z);
        }
        let names: Vec<String> = rose_leafset(a).into_iter().collect();
        let n = names.len();
        let map = |s: &str| -> String {
            let i = names.iter().position(|x| x == s).unwrap_or(0);
            format!("y{:04}", (i * 7 + 3) % n.max(1) + if n > 0 && (7 % n == 0 || n % 7 == 0) { i * 1000 } else { 0 })
        };
        let (a2, b2) = (rename(a, &map), rename(b, &map));
        if rose_leafset(&a2).len() == n {
            let r2 = real_rf(&fresh(&a2), &fresh(&b2));
            if r2 != rf_ab {
                rep.oracle("rf-rename", "changed", &sig_case, &format!("{rf_ab} vs renamed {r2}"));
            }
        }
        // ---- the SAME objects after an edit and the documented reset: nothing cached by the first comparison may survive ----
        if n >= 2 && rf_ab.starts_with("ok") {
            let _ = ta.compare_topologies(&tb);
            let (x, y) = { let i = rng.below(n); let mut j = rng.below(n); if i == j { j = (i + 1) % n; } (names[i].clone(), names[j].clone()) };
            let swap = |s: &str| -> String { if s == x { y.clone() } else if s == y { x.clone() } else { s.to_string() } };
            let a_sw = rename(a, &swap);
            let leaf_id = |t: &Tree, nm: &str| t.get_leaves().into_iter().find(|i| t.get(i).ok().and_then(|k| k.name.clone()).as_deref() == Some(nm));
            if let (Some(ix), Some(iy)) = (leaf_id(&ta, &x), leaf_id(&ta, &y)) {
                ta.get_mut(&ix).unwrap().set_name(y.clone());
                ta.get_mut(&iy).unwrap().set_name(x.clone());
                ta.reset_bipartition_cache();
                tb.reset_bipartition_cache();
                let rf2 = real_rf(&ta, &tb);
                let rf2_fresh = real_rf(&fresh(&a_sw), &fresh(b));
                rep.count("rf_after_edit_and_reset");
                if rf2 != rf2_fresh {
                    rep.oracle("rf-after-edit", "differs-from-fresh-trees", &format!("{case}\n# leaves {x} and {y} of the first tree swap names, reset_bipartition_cache, robinson_foulds again"), &format!("reused objects: {rf2}; fresh trees: {rf2_fresh}"));
                }
                let (d2, _, same_root2) = brute_delta(&a_sw, b);
                if let Some(v) = rf2.strip_prefix("ok ").and_then(|x| x.parse::<usize>().ok()) {
                    let allowed_plus2 = both_rooted && !same_root2 && d2 != 0;
                    if !(v == d2 || (v == d2 + 2 && allowed_plus2)) {
                        rep.oracle("rf-after-edit", "not-split-count", &format!("{case}\n# leaves {x} and {y} of the first tree swap names, reset_bipartition_cache, robinson_foulds again"), &format!("rf={v} delta={d2} both_rooted={both_rooted} same_root={same_root2}"));
                    }
                }
            }
        }
        // ---- GROWTH of objects that were already used for everything that leaves a trace (distance matrices fill per-node
        // caches, comparisons fill the leaf index and the split maps): a new leaf is added below an internal node of each tree,
        // the documented reset is called, and the comparison must be that of the trees as they are now ----
        if rf_ab.starts_with("ok") {
            let (mut ga, mut gb) = (fresh(a), fresh(b));
            let _ = ga.distance_matrix();
            let _ = gb.distance_matrix();
            let _ = ga.distance_matrix_recursive();
            let _ = ga.robinson_foulds(&gb);
            let _ = gb.compare_topologies(&ga);
            let grow = |t: &mut Tree, rng: &mut Rng| -> Option<usize> {
                let sl = slots_of(t);
                let inner: Vec<usize> = (0..sl.len()).filter(|&i| !sl[i].deleted && !sl[i].children.is_empty()).collect();
                let p = *rng.pick(&inner);
                t.add_child(phylotree::tree::Node::new_named("NEWLEAF"), p, Some(1.0)).ok().map(|_| p)
            };
            if let (Some(pa), Some(pb)) = (grow(&mut ga, rng), grow(&mut gb, rng)) {
                ga.reset_bipartition_cache();
                gb.reset_bipartition_cache();
                let reused = real_rf(&ga, &gb);
                // the reference objects are rebuilt through the API from the trees as they are now (not through Newick text:
                // labels with blanks in them are legal taxa but do not survive the text form)
                let rebuilt = |t: &Tree| -> Option<Tree> { let sl = slots_of(t); rose_of(&sl, t.get_root().ok()?).map(|r| build_api(&r)) };
                let fa = rebuilt(&ga);
                let fb = rebuilt(&gb);
                if let (Some(fa), Some(fb)) = (fa, fb) {
                    let fresh_rf = real_rf(&fa, &fb);
                    rep.count("rf_after_growth_and_reset");
                    if reused != fresh_rf {
                        rep.oracle("rf-after-edit", "growth:differs-from-fresh-trees", &format!("{case}\n# distance_matrix + comparisons on both objects, add_child(NEWLEAF) below node {pa} of the first and node {pb} of the second, reset_bipartition_cache, robinson_foulds"), &format!("reused objects: {reused}; freshly built trees: {fresh_rf}"));
                    }
                }
            }
        }
    } else {
        // ---------------- C07 ----------------
        let w = real_wrf(&ta, &tb);
        q.push("sp\twrf".into(), Kind::Exact(w.clone()));
        let kf = fresh(a).khuner_felsenstein(&fresh(b)).map_err(|e| format!("err {}", crate::real::err_kind(&e)));
        q.push("sp\tkf2".into(), Kind::Kf(kf.clone()));
        let cmp = fresh(a).compare_topologies(&fresh(b));
        q.push("sp\tcmp".into(), Kind::Cmp(cmp.as_ref().map(|c| (c.rf, c.norm_rf, c.weighted_rf, c.branch_score)).map_err(|e| format!("err {}", crate::real::err_kind(e)))));
        // the SAME object as receiver and argument (the diagonal of an all-against-all table): zero, and the object is unharmed
        {
            let obj = fresh(a);
            let w = obj.weighted_robinson_foulds(&obj).map(|v| v.to_bits()).map_err(|_| ());
            let k = obj.khuner_felsenstein(&obj).map(|v| v.to_bits()).map_err(|_| ());
            let parts_after = obj.get_partitions().map(|p| p.len()).map_err(|_| ());
            let parts_fresh = fresh(a).get_partitions().map(|p| p.len()).map_err(|_| ());
            let w_ref = fresh(a).weighted_robinson_foulds(&fresh(a)).map(|v| v.to_bits()).map_err(|_| ());
            let k_ref = fresh(a).khuner_felsenstein(&fresh(a)).map(|v| v.to_bits()).map_err(|_| ());
            rep.count("same_object_as_both_arguments");
            if w != w_ref || k != k_ref || parts_after != parts_fresh || (w.is_ok() && w != Ok(0f64.to_bits())) {
                rep.oracle("wrf-self", "same-object-as-receiver-and-argument", &format!("real.build\tapi\t{}\t0\nsp.self", a.canon()), &format!("wrf {w:?} (two copies: {w_ref:?}) kf {k:?} (two copies: {k_ref:?}) partitions afterwards {parts_after:?} (fresh {parts_fresh:?})"));
            }
        }
        q.push("sp\tbranches\t0".into(), Kind::Branches(real_branches(&fresh(a), &fresh(b), false)));
        q.push("sp\tbranches\t1".into(), Kind::Branches(real_branches(&fresh(a), &fresh(b), true)));
        let sig_case = format!("{case}\nsp\twrf");
        match brute_wrf_kf2(a, b) {
            None => {
                rep.count("missing_lengths");
                if w != "err MissingBranchLengths" {
                    rep.oracle("wrf-missing", "not-missing-length-error", &sig_case, &w);
                }
                if !matches!(&kf, Err(e) if e == "err MissingBranchLengths") {
                    rep.oracle("kf-missing", "not-missing-length-error", &sig_case, &format!("{kf:?}"));
                }
            }
            Some((bw, bk)) => {
                if w != format!("ok {bw}") {
                    rep.oracle("wrf-value", "differs-from-definition", &sig_case, &format!("{w} expected {bw}"));
                }
                let want = (bk as f64 / (UNIT as f64 * UNIT as f64)).sqrt();
                match &kf {
                    Ok(v) if canon_f64(*v) == canon_f64(want) => {}
                    other => rep.oracle("kf-value", "differs-from-definition", &sig_case, &format!("{other:?} expected {want}")),
                }
                let w_ba = real_wrf(&fresh(b), &fresh(a));
                if w_ba != w {
                    rep.oracle("wrf-symmetric", "asymmetric", &sig_case, &format!("{w} vs {w_ba}"));
                }
                if let Ok(c) = &cmp {
                    if format!("ok {}", scaled(c.weighted_rf).unwrap_or(i64::MIN)) != w || Some(c.branch_score) != kf.clone().ok() {
                        rep.oracle("wrf-report", "differs-from-report", &sig_case, &format!("{w} {kf:?} vs report {c:?}"));
                    }
                }
                // common rescaling by 2 doubles both
                let (mut x, mut y) = (fresh(a), fresh(b));
                x.rescale(2.0);
                y.rescale(2.0);
                let w2 = real_wrf(&x, &y);
                if w2 != format!("ok {}", 2 * bw) {
                    rep.oracle("wrf-scale", "not-linear", &sig_case, &format!("{w} scaled by 2 gives {w2}"));
                }
                // ... and a common rescaling by a power of two FAR from 1 multiplies both exactly (scaling by a power of two is exact
                // and sqrt is correctly rounded): magnitudes around 1e-21 / 1e-90 / 1e+60 must not change a single term
                for e in [-70i32, -300, 200] {
                    let f = 2f64.powi(e);
                    let (mut x, mut y) = (fresh(a), fresh(b));
                    x.rescale(f);
                    y.rescale(f);
                    rep.count("wrf_kf_at_extreme_magnitudes");
                    let ctx = format!("{case}\n# both trees rescaled by 2^{e}\nsp\twrf");
                    match x.weighted_robinson_foulds(&y) {
                        Ok(v) if v == (bw as f64 / UNIT as f64) * f => {}
                        other => rep.oracle("wrf-scale", "not-linear-at-extreme-magnitude", &ctx, &format!("{other:?} expected {:e}", (bw as f64 / UNIT as f64) * f)),
                    }
                    match x.khuner_felsenstein(&y) {
                        Ok(v) if v == want * f => {}
                        other => rep.oracle("kf-scale", "not-linear-at-extreme-magnitude", &ctx, &format!("{other:?} expected {:e}", want * f)),
                    }
                    if let Ok(c) = x.compare_topologies(&y) {
                        if c.weighted_rf != (bw as f64 / UNIT as f64) * f || c.branch_score != want * f {
                            rep.oracle("wrf-report", "not-linear-at-extreme-magnitude", &ctx, &format!("{c:?}"));
                        }
                    }
                }
                // beyond the range in which a SQUARE of a difference is representable (2^-600: squares underflow to zero;
                // 2^520: squares overflow) the weighted RF distance — a sum of absolute differences — is still exact, in the
                // stand-alone function and in the report (the branch score legitimately under/overflows there: not compared)
                for e in [-600i32, 520] {
                    let f = 2f64.powi(e);
                    let (mut x, mut y) = (fresh(a), fresh(b));
                    x.rescale(f);
                    y.rescale(f);
                    rep.count("wrf_beyond_the_square_range");
                    let ctx = format!("{case}\n# both trees rescaled by 2^{e}\nsp\twrf");
                    let wantw = (bw as f64 / UNIT as f64) * f;
                    match x.weighted_robinson_foulds(&y) {
                        Ok(v) if v == wantw => {}
                        other => rep.oracle("wrf-scale", "not-linear-beyond-the-square-range", &ctx, &format!("{other:?} expected {wantw:e}")),
                    }
                    match x.compare_topologies(&y) {
                        Ok(c) if c.weighted_rf == wantw => {}
                        other => rep.oracle("wrf-report", "not-linear-beyond-the-square-range", &ctx, &format!("{:?} expected weighted_rf {wantw:e}", other.map(|c| c.weighted_rf))),
                    }
                }
                // zero against a reordering of itself
                let ra = reorder(rng, a);
                let z = real_wrf(&fresh(a), &fresh(&ra));
                if z != "ok 0" {
                    rep.oracle("wrf-reorder", "nonzero", &sig_case, &z);
                }
                // ---- the SAME objects after an edit and the documented reset: every length-based entry point was used on
                // them, the first tree is rescaled by 2, the caches are reset, and everything is asked again ----
                let _ = ta.khuner_felsenstein(&tb);
                let _ = ta.compare_topologies(&tb);
                let _ = real_branches(&ta, &tb, true);
                ta.rescale(2.0);
                ta.reset_bipartition_cache();
                tb.reset_bipartition_cache();
                let mut a2 = a.clone();
                a2.for_each_mut(&mut |x, _, _| x.len = x.len.map(|l| l * 2.0), true, 0);
                rep.count("wrf_after_edit_and_reset");
                if let Some((bw2, bk2)) = brute_wrf_kf2(&a2, b) {
                    let ctx = format!("{case}\n# all comparisons once, rescale(2) on the first tree, reset_bipartition_cache, compare again");
                    let w3 = real_wrf(&ta, &tb);
                    if w3 != format!("ok {bw2}") {
                        rep.oracle("wrf-after-edit", "differs-from-definition", &ctx, &format!("{w3} expected {bw2}"));
                    }
                    let want = (bk2 as f64 / (UNIT as f64 * UNIT as f64)).sqrt();
                    match ta.khuner_felsenstein(&tb) {
                        Ok(v) if canon_f64(v) == canon_f64(want) => {}
                        other => rep.oracle("kf-after-edit", "differs-from-definition", &ctx, &format!("{other:?} expected {want}")),
                    }
                    if let Ok(c) = ta.compare_topologies(&tb) {
                        if format!("ok {}", scaled(c.weighted_rf).unwrap_or(i64::MIN)) != format!("ok {bw2}") {
                            rep.oracle("wrf-after-edit", "report-differs-from-definition", &ctx, &format!("{c:?} expected {bw2}"));
                        }
                    }
                    let br = real_branches(&ta, &tb, false);
                    let br_fresh = real_branches(&fresh(&a2), &fresh(b), false);
                    if br != br_fresh {
                        rep.oracle("wrf-after-edit", "branch-listing-differs-from-fresh-trees", &ctx, &format!("{br:?} vs {br_fresh:?}"));
                    }
                }
            }
        }
    }
}

fn relabel_lengths(rng: &mut Rng, t: &mut Rose, mode: LenMode) {
    let pattern = rng.below(8);
    t.for_each_mut(
        &mut |r, root, _| {
            r.len = None;
            let want = match mode {
                LenMode::All => true,
                LenMode::None => false,
                LenMode::Mixed => match pattern {
                    0 => !r.kids.is_empty(),
                    1 => r.kids.is_empty(),
                    _ => rng.chance(5, 6),
                },
            };
            if !root && want {
                r.len = Some(gen_len(rng, LenKind::Dyadic));
            }
        },
        true,
        0,
    );
}

pub fn run_pairs(prop: &str, thorough: bool, seed: u64, driver: &str, rep: &mut Report) {
    let weighted = prop == "C07";
    let names = ["A", "B", "C", "D", "E", "F"];
    struct Job {
        seed: u64,
        n: usize,
        exhaustive: bool,
        random: usize,
    }
    let mut rng = Rng::new(seed);
    let mut jobs = vec![];
    let (max_leaves, max_nodes) = if thorough { (5, 8) } else { (4, 6) };
    for n in 3..=max_leaves {
        jobs.push(Job { seed: rng.next(), n, exhaustive: true, random: 0 });
    }
    for _ in 0..(if thorough { 400 } else { 32 }) {
        jobs.push(Job { seed: rng.next(), n: 0, exhaustive: false, random: if thorough { 500 } else { 120 } });
    }
    let d = driver.to_string();
    let stream = if weighted { "c07.pairs" } else { "c06.pairs" };
    parallel(
        jobs,
        n_workers(),
        prop,
        |job, rep| {
            let mut rng = Rng::new(job.seed);
            let mut q = Q::new();
            if job.exhaustive {
                // every ordered pair of leaf-labelled shapes on the common leaf set
                let shapes = shapes_with_leaves(job.n, max_nodes);
                let mut labelled: Vec<Rose> = vec![];
                for s in shapes.iter() {
                    let mut perm: Vec<usize> = (0..job.n).collect();
                    loop {
                        labelled.push(assign_names(s, &perm, &names));
                        if !next_perm(&mut perm) {
                            break;
                        }
                    }
                }
                // all ordered pairs when small, otherwise a fixed-size sample per first tree
                let per = if labelled.len() <= 150 { labelled.len() } else { (if thorough { 60 } else { 12 }).min(labelled.len()) };
                for i in 0..labelled.len() {
                    for k in 0..per {
                        let j = if per == labelled.len() { k } else { rng.below(labelled.len()) };
                        let (mut a, mut b) = (labelled[i].clone(), labelled[j].clone());
                        let mode = if weighted { if rng.chance(1, 6) { LenMode::Mixed } else { LenMode::All } } else { *rng.pick(&[LenMode::All, LenMode::None]) };
                        relabel_lengths(&mut rng, &mut a, mode);
                        relabel_lengths(&mut rng, &mut b, mode);
                        rep.case(&format!("{} | {}", a.canon(), b.canon()), brute_delta(&a, &b).0 > 0 || weighted);
                        rep.count(&format!("exhaustive_pairs_n{}", job.n));
                        pair_requests(&a, &b, &mut rng, &mut q, rep, weighted, true);
                    }
                    if q.reqs.len() > 50_000 {
                        q.flush(&d, rep, stream);
                    }
                }
                q.flush(&d, rep, stream);
            }
            for i in 0..job.random {
                let nl = rng.range(4, 40);
                let mut a = random_shape(&mut rng, nl * 2);
                label(&mut rng, &mut a, &LabelOpts::default());
                // second tree: same leaf names on another shape with the same number of leaves, or a local rearrangement
                let mut b = if rng.chance(1, 2) {
                    let mut b = a.clone();
                    // move a random subtree elsewhere (keeps the leaf set)
                    perturb(&mut rng, &mut b);
                    b
                } else {
                    let mut b = random_shape(&mut rng, nl * 2);
                    // force the same number of leaves by re-drawing
                    let mut tries = 0;
                    while b.n_leaves() != a.n_leaves() && tries < 200 {
                        b = random_shape(&mut rng, nl * 2);
                        tries += 1;
                    }
                    if b.n_leaves() != a.n_leaves() {
                        b = a.clone();
                    }
                    let mut ln: Vec<String> = rose_leafset(&a).into_iter().collect();
                    rng.shuffle(&mut ln);
                    b.for_each_mut(
                        &mut |r, _, _| {
                            if r.kids.is_empty() {
                                r.name = ln.pop();
                            }
                        },
                        true,
                        0,
                    );
                    b
                };
                let mode = if weighted { if i % 6 == 0 { LenMode::Mixed } else { LenMode::All } } else { *rng.pick(&[LenMode::All, LenMode::None]) };
                relabel_lengths(&mut rng, &mut a, mode);
                relabel_lengths(&mut rng, &mut b, mode);
                // exactly ONE length missing in one of the two trees (a terminal or an internal branch), everything else present:
                // the answer depends on which side lacks it only as far as the definitions say
                if weighted && i % 8 == 3 {
                    let target = if rng.chance(1, 2) { &mut a } else { &mut b };
                    let tips_only = rng.chance(2, 3);
                    let mut cands = 0usize;
                    target.for_each(&mut |x, root| if !root && x.len.is_some() && (!tips_only || x.kids.is_empty()) { cands += 1; });
                    if cands > 0 {
                        let pick = rng.below(cands);
                        let mut k = 0usize;
                        target.for_each_mut(&mut |x, root, _| { if !root && x.len.is_some() && (!tips_only || x.kids.is_empty()) { if k == pick { x.len = None; } k += 1; } }, true, 0);
                        rep.count("pairs_with_exactly_one_missing_length");
                    }
                }
                #[allow(unused_assignments)]
                let mut same = true;
                if !weighted && i % 7 == 0 {
                    // different leaf sets: rename one leaf / drop one leaf
                    same = false;
                    let variant = rng.below(6);
                    if variant >= 3 {
                        // one taxon more, sorting after / before every other one (the smaller sorted list is then a PREFIX / a
                        // suffix of the larger one), or the last-sorting taxon renamed: position-wise comparisons of the two sorted
                        // lists must not stop at the shorter one, nor look at sizes only
                        let extra = match variant { 3 => "~last", 4 => " first", _ => "~renamed-last" };
                        if variant == 5 {
                            let last = rose_leafset(&b).into_iter().max();
                            b.for_each_mut(&mut |r, _, _| if r.kids.is_empty() && r.name == last { r.name = Some(extra.into()); }, true, 0);
                        } else {
                            let at = rng.below(b.kids.len() + 1);
                            b.kids.insert(at, Rose { name: Some(extra.into()), len: Some(1.0), comment: None, kids: vec![] });
                        }
                        rep.count("different_leafsets:prefix-suffix-or-renamed-last");
                    } else if rng.chance(1, 2) {
                        let mut done = false;
                        b.for_each_mut(
                            &mut |r, _, _| {
                                if r.kids.is_empty() && !done {
                                    r.name = Some("OTHER".into());
                                    done = true;
                                }
                            },
                            true,
                            0,
                        );
                    } else if b.kids.len() > 2 {
                        b.kids.pop();
                    } else {
                        b.kids.push(Rose { name: Some("EXTRA".into()), len: Some(1.0), comment: None, kids: vec![] });
                    }
                    if rose_leafset(&a) == rose_leafset(&b) {
                        same = true;
                    }
                }
                // look-alike taxon labels: one leaf is renamed (consistently in both trees) to a spelling that differs from another
                // leaf's label only by quoting, letter case or a suffix — distinct labels are distinct taxa, however similar
                if i % 5 == 2 {
                    let ls: Vec<String> = rose_leafset(&a).into_iter().collect();
                    if ls.len() >= 3 {
                        let n1 = rng.pick(&ls).clone();
                        let n2 = ls.iter().find(|x| **x != n1).unwrap().clone();
                        // one case in four: two labels that READ as the same number ("7" / "07", "+7", "7.0", "7e0") — distinct
                        // strings are distinct taxa and have one position in the sorted index, whatever order the trees list them in
                        let numeric = rng.chance(1, 4);
                        let variant = if numeric { rng.pick(&["07", "+7", "7.0", "7e0", "007", "0x7", "７"]).to_string() } else { look_alike_of(&mut rng, &n1) };
                        if !ls.contains(&variant) && !rose_leafset(&b).contains(&variant) && !(numeric && (ls.contains(&"7".to_string()) || rose_leafset(&b).contains("7"))) {
                            let map = |x: &str| -> String { if x == n2 { variant.clone() } else if numeric && x == n1 { "7".to_string() } else { x.to_string() } };
                            a = rename(&a, &map);
                            b = rename(&b, &map);
                            rep.count("look_alike_leaf_labels");
                        }
                    }
                }
                // a tree with a REPEATED tip label is not comparable, whichever side it is on: both directions refuse (and
                // the comparison report with them)
                if !weighted && i % 23 == 3 && b.n_leaves() >= 3 {
                    let ls: Vec<String> = rose_leafset(&b).into_iter().collect();
                    if ls.len() == b.n_leaves() && ls.len() >= 3 && rose_leafset(&a) == rose_leafset(&b) {
                        let (n1, n2) = (ls[0].clone(), ls[ls.len() - 1].clone());
                        let dup = rename(&b, &|x: &str| if x == n2 { n1.clone() } else { x.to_string() });
                        let case = format!("real.build\tapi\t{}\t0\nreal.build2\tapi\t{}\t0\nsp\trf", a.canon(), dup.canon());
                        rep.case(&case, true);
                        rep.count("pairs_with_a_repeated_label_on_one_side");
                        let (ga, gd) = (build_api(&a), build_api(&dup));
                        let r1 = real_rf(&ga, &gd);
                        let r2 = real_rf(&build_api(&dup), &build_api(&a));
                        let r3 = build_api(&a).compare_topologies(&build_api(&dup)).is_ok();
                        if r1.starts_with("ok") || r2.starts_with("ok") || r3 {
                            rep.oracle("rf-reject", "repeated-label-on-one-side-accepted", &case, &format!("rf(good,dup)={r1} rf(dup,good)={r2} report accepted={r3}"));
                        }
                    }
                }
                // the generator's intent is re-checked on the trees themselves (regrafting can turn a named
                // internal node into a tip)
                let uniq = |r: &Rose| rose_leafset(r).len() == r.n_leaves() && r.leaf_names().iter().all(|n| n.is_some());
                if !uniq(&a) || !uniq(&b) {
                    rep.count("random_pairs:skipped-degenerate");
                    continue;
                }
                same = rose_leafset(&a) == rose_leafset(&b);
                if weighted && !same {
                    rep.count("random_pairs:skipped-different");
                    continue;
                }
                if i % 4 == 1 {
                    collide_internal_names(&mut rng, &mut a, 40);
                    collide_internal_names(&mut rng, &mut b, 40);
                    rep.count("internal_labels_spelled_like_leaves");
                }
                rep.case(&format!("{} | {}", a.canon(), b.canon()), true);
                rep.count(&format!("random_pairs:{}", if same { "same" } else { "different" }));
                rep.count(&format!("root_styles:{}{}", a.kids.len().min(3), b.kids.len().min(3)));
                pair_requests(&a, &b, &mut rng, &mut q, rep, weighted, same);
            }
            q.flush(&d, rep, stream);
        },
        rep,
    );
}

/// prune-and-regraft of a random subtree: keeps the leaf set, changes some splits
fn perturb(rng: &mut Rng, t: &mut Rose) {
    // collect paths to all non-root nodes
    fn paths(r: &Rose, cur: &mut Vec<usize>, out: &mut Vec<Vec<usize>>) {
        for (i, k) in r.kids.iter().enumerate() {
            cur.push(i);
            out.push(cur.clone());
            paths(k, cur, out);
            cur.pop();
        }
    }
    fn take(r: &mut Rose, p: &[usize]) -> Rose {
        if p.len() == 1 {
            r.kids.remove(p[0])
        } else {
            take(&mut r.kids[p[0]], &p[1..])
        }
    }
    fn put(r: &mut Rose, p: &[usize], x: Rose) {
        if p.is_empty() || r.kids.is_empty() {
            if r.kids.is_empty() {
                // make the tip an internal node keeping its name on a new child
                let old = Rose { name: r.name.take(), len: Some(1.0), comment: None, kids: vec![] };
                r.kids.push(old);
            }
            r.kids.push(x);
        } else {
            let i = p[0].min(r.kids.len() - 1);
            put(&mut r.kids[i], &p[1..], x)
        }
    }
    let mut all = vec![];
    paths(t, &mut vec![], &mut all);
    if all.len() < 3 {
        return;
    }
    let p = rng.pick(&all).clone();
    let sub = take(t, &p);
    // drop emptied internal nodes
    fn clean(r: &mut Rose) {
        for k in r.kids.iter_mut() {
            clean(k);
        }
        r.kids.retain(|k| !(k.kids.is_empty() && k.name.is_none()));
    }
    clean(t);
    let mut all2 = vec![];
    paths(t, &mut vec![], &mut all2);
    let dest = if all2.is_empty() { vec![] } else { rng.pick(&all2).clone() };
    put(t, &dest, sub);
}
