//! Cases (sequences of protocol steps executed on the real crate) and their batch comparison with the model.
use crate::real::*;
use crate::util::*;

#[derive(Clone, Copy, PartialEq, Debug)]
pub enum Cmp {
    /// answers must be identical
    Exact,
    /// only the outcome class (ok / err / panic) must agree
    Class,
    /// classes must agree, and the whole answer when the class is `ok`
    OkExact,
    /// the model's answer is not compared (state loading)
    Ignore,
}

pub struct Case {
    pub steps: Vec<(Step, Cmp)>,
}

impl Case {
    pub fn new() -> Self {
        Case { steps: vec![] }
    }
    /// run `cmd` on the real state and record it
    pub fn step(&mut self, st: &mut RealState, cmd: &str, cmp: Cmp) -> String {
        let (ans, model) = st.exec(cmd);
        let model_cmd = model.unwrap_or_else(|| cmd.to_string());
        let cmp = if model_cmd != cmd && (cmd.starts_with("real.build") || cmd.starts_with("real.parse")) { Cmp::Ignore } else { cmp };
        self.steps.push((Step { real_cmd: cmd.to_string(), model_cmd, real_ans: ans.clone() }, cmp));
        ans
    }
    /// replayable text: one `R` line per step (the real-side script)
    pub fn script(&self) -> String {
        self.steps.iter().map(|(s, _)| s.real_cmd.clone()).collect::<Vec<_>>().join("\n")
    }
    pub fn model_script(&self) -> String {
        self.steps.iter().map(|(s, _)| s.model_cmd.clone()).collect::<Vec<_>>().join("\n")
    }
}

pub struct Batch {
    pub cases: Vec<Case>,
    pub stream: String,
}

impl Batch {
    pub fn new(stream: &str) -> Self {
        Batch { cases: vec![], stream: stream.into() }
    }
    pub fn push(&mut self, c: Case) {
        self.cases.push(c);
    }
    pub fn n_requests(&self) -> usize {
        self.cases.iter().map(|c| c.steps.len()).sum()
    }
    /// run the model over every recorded request and compare; clears the batch
    pub fn flush(&mut self, driver: &str, rep: &mut Report) {
        if self.cases.is_empty() {
            return;
        }
        let reqs: Vec<String> =
            self.cases.iter().flat_map(|c| c.steps.iter().map(|(s, _)| s.model_cmd.clone())).collect();
        let answers = match run_driver(driver, &reqs) {
            Ok(a) => a,
            Err(e) => {
                rep.mismatch(&self.stream, "driver-failed", "", "", &e);
                self.cases.clear();
                return;
            }
        };
        rep.count_n("model_requests", reqs.len() as u64);
        let mut k = 0;
        for c in self.cases.iter() {
            let mut reported = false;
            for (i, (s, cmp)) in c.steps.iter().enumerate() {
                let m = &answers[k];
                k += 1;
                if reported {
                    continue;
                }
                let agree = match cmp {
                    Cmp::Ignore => m == "ok",
                    Cmp::Exact => *m == s.real_ans,
                    Cmp::Class => class_of(m) == class_of(&s.real_ans),
                    Cmp::OkExact => {
                        class_of(m) == class_of(&s.real_ans) && (class_of(m) != "ok" || *m == s.real_ans)
                    }
                };
                if !agree {
                    let op = s.model_cmd.split('\t').next().unwrap_or("");
                    let cls = |a: &str| -> String {
                        let c = class_of(a);
                        if matches!(c, "ok" | "err" | "panic" | "diverge" | "bad-op" | "bad-oracle") { c.to_string() } else { "value".to_string() }
                    };
                    let sig = if cls(&s.real_ans) == cls(m) { format!("{}:differs", op) } else { format!("{}:{}!={}", op, cls(&s.real_ans), cls(m)) };
                    // the case up to and including the disagreeing step
                    let script: Vec<String> = c.steps[..=i].iter().map(|(s, _)| s.real_cmd.clone()).collect();
                    rep.mismatch(&self.stream, &sig, &script.join("\n"), &s.real_ans, m);
                    reported = true;
                }
            }
        }
        self.cases.clear();
    }
}
