//! C04 — query answers depend only on the tree, not on edit or query history.
use crate::case::*;
use crate::gen::*;
use crate::real::*;
use crate::util::*;
use phylotree::tree::Tree;

fn r2s<T: std::fmt::Debug, E: std::fmt::Debug>(r: Result<T, E>) -> String {
    match r {
        Ok(v) => format!("ok {v:?}"),
        Err(e) => {
            let d = format!("{e:?}");
            format!("err {}", d.split(|c: char| !c.is_alphanumeric()).next().unwrap_or("Err"))
        }
    }
}

/// Every read-only query, answered by NAME / canonical subtree text, never by arena id.
/// `order` permutes the order in which the queries are issued (they fill caches).
/// a caterpillar on the given (sorted, distinct) names with every branch of length 1, built through the API
fn reference_caterpillar(names: &[String]) -> Tree {
    let mut t = Tree::new();
    let mut cur = t.add(phylotree::tree::Node::new());
    for (i, n) in names.iter().enumerate() {
        if i + 2 < names.len() {
            t.add_child(phylotree::tree::Node::new_named(n), cur, Some(1.0)).unwrap();
            cur = t.add_child(phylotree::tree::Node::new(), cur, Some(1.0)).unwrap();
        } else {
            t.add_child(phylotree::tree::Node::new_named(n), cur, Some(1.0)).unwrap();
        }
    }
    t
}

pub fn battery(t: &Tree, order: &[usize]) -> Vec<(String, String)> {
    let slots = slots_of(t);
    let canon_of = |id: usize| -> String { rose_of(&slots, id).map(|r| r.canon()).unwrap_or_else(|| format!("<dead {id}>")) };
    let ids = |r: Result<Vec<usize>, phylotree::tree::TreeError>| -> String {
        match r {
            Ok(v) => format!("ok {}", v.iter().map(|i| canon_of(*i)).collect::<Vec<_>>().join(" ; ")),
            Err(e) => format!("err {}", err_kind(&e)),
        }
    };
    let root = t.get_root();
    let mut leaf_names: Vec<String> = t.get_leaf_names().into_iter().map(|n| n.unwrap_or_else(|| "<unnamed>".into())).collect();
    leaf_names.sort();
    // two leaves with the same name (an internal node spelled like a leaf that became a tip): the order of their two rows in
    // the fast matrix follows arena order, which is not a function of the tree — then only the outcome and the multiset of cells
    let dup_leaves = leaf_names.windows(2).any(|w| w[0] == w[1]);
    let qs: Vec<(&str, Box<dyn Fn() -> String + '_>)> = vec![
        ("n_leaves", Box::new(|| t.n_leaves().to_string())),
        ("leaf_names", Box::new(|| leaf_names.join(","))),
        ("is_binary", Box::new(|| r2s(t.is_binary()))),
        ("is_rooted", Box::new(|| r2s(t.is_rooted()))),
        ("height", Box::new(|| r2s(t.height()))),
        ("diameter", Box::new(|| r2s(t.diameter()))),
        ("length", Box::new(|| r2s(t.length()))),
        ("cherries", Box::new(|| r2s(t.cherries()))),
        ("colless", Box::new(|| r2s(t.colless()))),
        ("sackin", Box::new(|| r2s(t.sackin()))),
        ("colless_yule", Box::new(|| r2s(t.colless_yule().map(|v| v.to_bits())))),
        ("sackin_pda", Box::new(|| r2s(t.sackin_pda().map(|v| v.to_bits())))),
        ("unique_tips", Box::new(|| r2s(t.has_unique_tip_names()))),
        ("preorder", Box::new(|| match &root { Ok(r) => ids(t.preorder(r)), Err(_) => "err root".into() })),
        ("postorder", Box::new(|| match &root { Ok(r) => ids(t.postorder(r)), Err(_) => "err root".into() })),
        ("levelorder", Box::new(|| match &root { Ok(r) => ids(t.levelorder(r)), Err(_) => "err root".into() })),
        ("inorder", Box::new(|| match &root { Ok(r) => ids(t.inorder(r)), Err(_) => "err root".into() })),
        ("subtree_leaves", Box::new(|| match &root { Ok(r) => ids(t.get_subtree_leaves(r)), Err(_) => "err root".into() })),
        ("descendants", Box::new(|| match &root { Ok(r) => ids(t.get_descendants(r)), Err(_) => "err root".into() })),
        ("leaves", Box::new(|| { let mut v: Vec<String> = t.get_leaves().iter().map(|i| canon_of(*i)).collect(); v.sort(); v.join(" ; ") })),
        ("partitions", Box::new(|| crate::sp::real_parts(t))),
        ("partitions_again", Box::new(|| crate::sp::real_parts(t))),
        ("pair_distances", Box::new(|| {
            // every pair of named leaves, by name
            let mut named: Vec<(String, usize)> = t.get_leaves().iter().filter_map(|i| t.get(i).ok().and_then(|n| n.name.clone()).map(|n| (n, *i))).collect();
            named.sort();
            let mut out = vec![];
            for a in 0..named.len() {
                for b in 0..named.len() {
                    let d = t.get_distance(&named[a].1, &named[b].1);
                    out.push(format!("{}~{}={}", named[a].0, named[b].0, r2s(d.map(|(l, n)| (l.map(|x| x.to_bits()), n)))));
                }
            }
            out.join(",")
        })),
        ("lca_of_first_two", Box::new(|| {
            let mut named: Vec<(String, usize)> = t.get_leaves().iter().filter_map(|i| t.get(i).ok().and_then(|n| n.name.clone()).map(|n| (n, *i))).collect();
            named.sort();
            if named.len() < 2 { return "-".into(); }
            match t.get_common_ancestor(&named[0].1, &named[named.len() - 1].1) { Ok(i) => canon_of(i), Err(e) => format!("err {}", err_kind(&e)) }
        })),
        ("distance_matrix", Box::new(|| match guarded(std::panic::AssertUnwindSafe(|| t.distance_matrix())) {
            Err(_) => "panic".into(),
            Ok(Err(e)) => format!("err {}", err_kind(&e)),
            Ok(Ok(m)) => {
                let mut cells = m.iter().map(|v| v.to_bits()).collect::<Vec<_>>();
                if dup_leaves {
                    cells.sort();
                }
                format!("ok {:?} {:?}", m.taxa, cells)
            }
        })),
        ("distance_matrix_recursive", Box::new(|| match guarded(std::panic::AssertUnwindSafe(|| t.distance_matrix_recursive())) {
            Err(_) => "panic".into(),
            Ok(Err(e)) => format!("err {}", err_kind(&e)),
            Ok(Ok(m)) => format!("ok {:?} {:?}", m.taxa, m.iter().map(|v| v.to_bits()).collect::<Vec<_>>()),
        })),
        ("by_name", Box::new(|| leaf_names.iter().map(|n| {
            // a label carried by several nodes (e.g. two merge_children results given the same name) makes get_by_name
            // return "the first in arena order", which is not a function of the tree: then only "the answer is one of
            // the carriers" and the multiset of carriers are compared
            let carriers: Vec<usize> = t.search_nodes(|x| x.name.as_deref() == Some(n.as_str()));
            let got = t.get_by_name(n).map(|x| canon_of(x.id));
            if carriers.len() <= 1 {
                got.unwrap_or("-".into())
            } else {
                let mut v: Vec<String> = carriers.iter().map(|i| canon_of(*i)).collect();
                v.sort();
                let ok = got.as_ref().map_or(false, |g| v.contains(g));
                format!("ambiguous-label[{}]{}", v.join(" | "), if ok { "" } else { " ANSWER-IS-NOT-A-CARRIER" })
            }
        }).collect::<Vec<_>>().join(" ; "))),
        // lookups that must find nothing: the empty name, an absent name (removed or unnamed slots must not answer)
        ("by_name_absent", Box::new(|| ["", " ", "<no such name>"].iter().map(|n| t.get_by_name(n).map(|x| format!("found {}", canon_of(x.id))).unwrap_or("-".into())).collect::<Vec<_>>().join(" ; "))),
        ("search_all", Box::new(|| { let mut v: Vec<String> = t.search_nodes(|_| true).iter().map(|i| canon_of(*i)).collect(); v.sort(); format!("{} {}", v.len(), v.join(" ; ")) })),
        ("search_unnamed", Box::new(|| { let mut v: Vec<String> = t.search_nodes(|n| n.name.is_none()).iter().map(|i| canon_of(*i)).collect(); v.sort(); v.join(" ; ") })),
        // the length-aware bipartition answers are only observable through the weighted comparisons: against a fixed
        // reference tree on the same taxa and against the tree itself (Ok / Err is part of the answer)
        ("weighted_vs_reference", Box::new(|| {
            if dup_leaves || leaf_names.len() < 2 || leaf_names.iter().any(|n| n == "<unnamed>") {
                return "-".into();
            }
            let r = reference_caterpillar(&leaf_names);
            let me = t.clone();
            format!(
                "wrf={} kf={} cmp={} rf={} self_wrf={} self_kf={}",
                r2s(t.weighted_robinson_foulds(&r).map(|v| v.to_bits())),
                r2s(t.khuner_felsenstein(&r).map(|v| v.to_bits())),
                r2s(t.compare_topologies(&r).map(|c| (c.rf.to_bits(), c.norm_rf.to_bits(), c.weighted_rf.to_bits(), c.branch_score.to_bits()))),
                r2s(t.robinson_foulds(&r)),
                r2s(t.weighted_robinson_foulds(&me).map(|v| v.to_bits())),
                r2s(t.khuner_felsenstein(&me).map(|v| v.to_bits())),
            )
        })),
        // bit sets that come from ANOTHER tree on the same taxa, read as names by this tree (the view helper is a leaf-index
        // query like any other: whichever query comes first fills the index)
        ("partition_view", Box::new(|| {
            if dup_leaves || leaf_names.len() < 4 || leaf_names.iter().any(|n| n == "<unnamed>") {
                return "-".into();
            }
            let r = reference_caterpillar(&leaf_names);
            let Ok(parts) = r.get_partitions() else { return "reference-failed".into() };
            let mut v: Vec<String> = parts.iter().map(|p| r2s(t.partition_to_leaves(p))).collect();
            v.sort();
            v.join(" ; ")
        })),
        ("newick", Box::new(|| r2s(t.to_newick()))),
        ("nexus", Box::new(|| {
            // TAXLABELS follows arena order, which the documentation does not promise: compared as a multiset
            r2s(t.to_nexus().map(|s| {
                s.lines()
                    .map(|l| {
                        if let Some(rest) = l.trim_start().strip_prefix("TAXLABELS ") {
                            let mut v: Vec<&str> = rest.trim_end_matches(';').split(' ').collect();
                            v.sort();
                            format!("TAXLABELS {};", v.join(" "))
                        } else {
                            l.to_string()
                        }
                    })
                    .collect::<Vec<_>>()
                    .join("\n")
            }))
        })),
    ];
    let mut out: Vec<(String, String)> = vec![];
    let n = qs.len();
    let mut issued = vec![false; n];
    for &k in order.iter().chain((0..n).collect::<Vec<_>>().iter()) {
        let k = k % n;
        if issued[k] {
            continue;
        }
        issued[k] = true;
        out.push((qs[k].0.to_string(), qs[k].1()));
    }
    out.sort();
    out
}

fn diff(a: &[(String, String)], b: &[(String, String)]) -> Option<(String, String, String)> {
    for ((qa, va), (_, vb)) in a.iter().zip(b.iter()) {
        if va != vb {
            return Some((qa.clone(), va.clone(), vb.clone()));
        }
    }
    None
}

fn history(start: &str, nops: usize, rng: &mut Rng, rep: &mut Report, batch: &mut Batch) {
    let mut st = RealState::new();
    let mut case = Case::new();
    if case.step(&mut st, start, Cmp::Ignore) != "ok" {
        rep.count("start_rejected");
        return;
    }
    let mut edits = 0;
    let mut queried = 0;
    for step in 0..=nops {
        if step > 0 {
            let op = crate::c03::random_op(rng, &st);
            let a = case.step(&mut st, &op, Cmp::Class);
            if class_of(&a) == "panic" {
                rep.oracle("no-panic", op.split('\t').next().unwrap(), &case.script(), &a);
                return;
            }
            if class_of(&a) == "ok" {
                edits += 1;
            }
            // the documented reset after a change
            case.step(&mut st, "real.reset_cache", Cmp::Ignore);
        }
        if step > 0 && step < nops && rng.chance(1, 2) {
            continue;
        }
        // ---- model correspondence on id-level queries (fills the real caches as a side effect) ----
        let n = st.tree.size();
        let mut qs: Vec<String> = vec!["ar.q\tn_leaves".into(), "ar.q\tleaves".into(), "ar.q\tis_binary".into(), "ar.q\tis_rooted".into(), "ar.q\troot".into(),
            "sp\tparts".into(), "ar.q\tcherries".into(), "ar.q\tsackin".into(), "ar.q\tcolless".into(), "ar.q\tlength".into(), format!("ar.q\theight\t{UNIT}"), format!("ar.q\tdiameter\t{UNIT}"),
            "ar.q\tsearch\t-".into(), "sp\tparts".into(), "ar.q\tleaf_names".into(), "ar.q\tunique_tips".into(), "ar.q\tsize".into(), "ar.q\tsackin_pda_sq".into()];
        for _ in 0..4 {
            let (x, y) = (rng.below(n + 1), rng.below(n + 1));
            qs.push(format!("ar.q\tdist\t{x}\t{y}"));
            qs.push(format!("ar.q\tpreorder\t{x}"));
            qs.push(format!("ar.q\tlevelorder\t{y}"));
            qs.push(format!("ar.q\tsubtree_leaves\t{x}"));
            qs.push(format!("ar.q\tnode\t{x}"));
            qs.push(format!("ar.q\tchild_edge\t{x}\t{y}"));
        }
        rng.shuffle(&mut qs);
        for q in qs {
            let real_cmd = if q == "sp\tparts" { "sp.live\tparts".to_string() } else { q.clone() };
            case.step(&mut st, &real_cmd, Cmp::OkExact);
            queried += 1;
        }
        // ---- oracle: same answers as a freshly parsed tree, by name; repeatable; order-independent ----
        let slots = slots_of(&st.tree);
        let live = slots.iter().filter(|s| !s.deleted).count();
        let names = st.tree.get_leaf_names();
        let uniq = names.iter().all(|n| n.is_some()) && { let mut v: Vec<_> = names.iter().flatten().collect(); v.sort(); v.dedup(); v.len() == names.len() };
        if live < 2 || !uniq || live_roots(&slots).len() != 1 {
            rep.count("battery:skipped-outside-domain");
            continue;
        }
        let Ok(text) = st.tree.to_newick() else {
            rep.oracle("fresh-parse", "to_newick-failed", &case.script(), "");
            continue;
        };
        let Ok(fresh) = Tree::from_newick(&text) else {
            rep.oracle("fresh-parse", "reparse-failed", &case.script(), &text);
            continue;
        };
        let k = 32;
        let o1: Vec<usize> = (0..k).map(|_| rng.below(k)).collect();
        let o2: Vec<usize> = (0..k).map(|_| rng.below(k)).collect();
        let b_edit = battery(&st.tree, &o1);
        let b_fresh = battery(&fresh, &[]);
        rep.count("battery:evaluated");
        if let Some((q, a, b)) = diff(&b_edit, &b_fresh) {
            rep.oracle("fresh-parse", &q, &format!("{}\nbattery\t{q}", case.script()), &format!("edited: {a}\nfresh : {b}"));
        }
        let b_again = battery(&st.tree, &o2);
        if let Some((q, a, b)) = diff(&b_edit, &b_again) {
            rep.oracle("repeatable", &q, &format!("{}\nbattery\t{q}", case.script()), &format!("first: {a}\nlater: {b}"));
        }
        // a COPY of the edited object (`Tree::clone`) is the same tree: same answers, and removed slots stay removed in it
        let copy = st.tree.clone();
        let b_copy = battery(&copy, &[]);
        if let Some((q, a, b)) = diff(&b_edit, &b_copy) {
            rep.oracle("copy", &q, &format!("{}\nbattery\t{q}", case.script()), &format!("object: {a}\ncopy  : {b}"));
        }
        for (i, s) in slots.iter().enumerate() {
            if s.deleted && copy.get(&i).is_ok() {
                rep.oracle("removed-observable", "get-on-a-copy", &case.script(), &format!("get({i}) succeeded on tree.clone()"));
            }
        }
        // removed nodes are never observable
        for (i, s) in slots.iter().enumerate() {
            if s.deleted && st.tree.get(&i).is_ok() {
                rep.oracle("removed-observable", "get", &case.script(), &format!("get({i}) succeeded"));
            }
        }
        // ... not even to the caller's own predicate: `search_nodes` shows it every live node once, in arena order, and nothing else
        {
            let seen = std::cell::RefCell::new(Vec::<usize>::new());
            let _ = guarded(std::panic::AssertUnwindSafe(|| st.tree.search_nodes(|n| { seen.borrow_mut().push(n.id); false })));
            let live_ids: Vec<usize> = slots.iter().enumerate().filter(|(_, s)| !s.deleted).map(|(i, _)| i).collect();
            if *seen.borrow() != live_ids {
                rep.oracle("removed-observable", "search_nodes-predicate-shown-other-than-the-live-nodes", &case.script(), &format!("shown {:?}, live {:?}", seen.borrow(), live_ids));
            }
        }
        // ... through ANY query that takes a node id: a removed id (and an id that was never handed out) is refused by every
        // traversal, listing, path, ancestor and distance query — alone and paired with a live node, in either position
        let live: Option<usize> = slots.iter().position(|s| !s.deleted);
        let mut dead: Vec<usize> = slots.iter().enumerate().filter(|(_, s)| s.deleted).map(|(i, _)| i).collect();
        dead.truncate(6);
        dead.push(slots.len());
        dead.push(slots.len() + 7);
        let t = &st.tree;
        for &x in dead.iter() {
            let mut seen: Vec<&'static str> = vec![];
            if t.preorder(&x).is_ok() { seen.push("preorder"); }
            if t.postorder(&x).is_ok() { seen.push("postorder"); }
            if t.levelorder(&x).is_ok() { seen.push("levelorder"); }
            if t.inorder(&x).is_ok() { seen.push("inorder"); }
            if t.get_subtree(&x).is_ok() { seen.push("get_subtree"); }
            if t.get_descendants(&x).is_ok() { seen.push("get_descendants"); }
            if t.get_subtree_leaves(&x).is_ok() { seen.push("get_subtree_leaves"); }
            if t.get_path_from_root(&x).is_ok() { seen.push("get_path_from_root"); }
            if t.get_common_ancestor(&x, &x).is_ok() { seen.push("get_common_ancestor(x,x)"); }
            if t.get_distance(&x, &x).is_ok() { seen.push("get_distance(x,x)"); }
            if let Some(l) = live {
                if t.get_common_ancestor(&x, &l).is_ok() || t.get_common_ancestor(&l, &x).is_ok() { seen.push("get_common_ancestor-with-a-live-node"); }
                if t.get_distance(&x, &l).is_ok() || t.get_distance(&l, &x).is_ok() { seen.push("get_distance-with-a-live-node"); }
            }
            rep.count("dead_ids_queried");
            for q in seen {
                rep.oracle("removed-observable", q, &case.script(), &format!("{q} accepted the id {x} ({})", if x < slots.len() { "a removed node" } else { "never handed out" }));
            }
        }
    }
    rep.case(&case.script(), edits >= 1 && queried >= 1);
    batch.push(case);
}

/// The cache PROTOCOL, exhaustively over (one cache-touching query) x (one kind of edit): build a fresh object, issue exactly
/// ONE query that leaves something behind (so the caches are only partially filled), edit the tree, call the documented reset,
/// and ask everything — the answers must be those of a tree freshly parsed from the current text.  (Random histories issue
/// whole batteries before every edit and therefore never visit the states "leaf index filled, split map empty" etc.)
fn protocol_matrix(rng: &mut Rng, rep: &mut Report) {
    type Q = (&'static str, fn(&Tree));
    let warmers: [Q; 13] = [
        ("distance_matrix", |t| { let _ = t.distance_matrix(); }),
        ("distance_matrix_recursive", |t| { let _ = t.distance_matrix_recursive(); }),
        ("get_partitions", |t| { let _ = t.get_partitions(); }),
        ("robinson_foulds", |t| { let _ = t.robinson_foulds(&t.clone()); }),
        ("robinson_foulds_norm", |t| { let _ = t.robinson_foulds_norm(&t.clone()); }),
        ("weighted_robinson_foulds", |t| { let _ = t.weighted_robinson_foulds(&t.clone()); }),
        ("khuner_felsenstein", |t| { let _ = t.khuner_felsenstein(&t.clone()); }),
        ("compare_topologies", |t| { let _ = t.compare_topologies(&t.clone()); }),
        ("compare_branch_lengths", |t| { let _ = t.compare_branch_lengths(&t.clone(), true); }),
        ("to_nexus", |t| { let _ = t.to_nexus(); }),
        ("to_newick", |t| { let _ = t.to_newick(); }),
        ("height+diameter", |t| { let _ = t.height(); let _ = t.diameter(); }),
        ("colless+sackin", |t| { let _ = t.colless(); let _ = t.sackin(); }),
    ];
    let edits = ["prune-leaf", "add-leaf", "rename-leaf", "rescale", "merge-siblings", "compress", "rename-then-prune"];
    let mut cell = rng.below(1000);
    for round in 0..2 {
        let size = rng.range(5, 12);
        let mut t = random_shape(rng, size);
        label(rng, &mut t, &LabelOpts { len_mode: LenMode::All, ..Default::default() });
        t.len = None;
        for (wname, w) in warmers.iter() {
            for edit in edits.iter() {
                let mut tree = if round == 0 { build_api(&t) } else { build_bottom_up(&t, &mut Rng::new(7)) };
                w(&tree);
                let slots = slots_of(&tree);
                let tips: Vec<usize> = (0..slots.len()).filter(|&i| !slots[i].deleted && slots[i].children.is_empty() && slots[i].parent.is_some()).collect();
                let inner: Vec<usize> = (0..slots.len()).filter(|&i| !slots[i].deleted && slots[i].children.len() >= 2).collect();
                if tips.len() < 3 {
                    continue;
                }
                let tip = *rng.pick(&tips);
                let mut done = String::new();
                match *edit {
                    "prune-leaf" => { let _ = tree.prune(&tip); done = format!("prune({tip})"); }
                    "add-leaf" => { let p = *rng.pick(&inner); let _ = tree.add_child(phylotree::tree::Node::new_named("NEWLEAF"), p, Some(1.5)); done = format!("add_child(NEWLEAF, {p}, 1.5)"); }
                    "rename-leaf" => { if let Ok(n) = tree.get_mut(&tip) { n.set_name("0RENAMED".into()); } done = format!("get_mut({tip}).set_name(0RENAMED)"); }
                    "rescale" => { tree.rescale(2.0); done = "rescale(2)".into(); }
                    "merge-siblings" => { let p = *rng.pick(&inner); let ch = slots[p].children.clone(); let _ = tree.merge_children(&ch[0], &ch[1], Some(0.5), Some(0.25), Some(1.0), Some("MERGED".into())); done = format!("merge_children({}, {})", ch[0], ch[1]); }
                    "compress" => { let _ = tree.prune(&tip); let _ = tree.compress(); done = format!("prune({tip}); compress()"); }
                    _ => { if let Ok(n) = tree.get_mut(&tip) { n.set_name("zzRENAMED".into()); } let other = *tips.iter().find(|x| **x != tip).unwrap(); let _ = tree.prune(&other); done = format!("get_mut({tip}).set_name(zzRENAMED); prune({other})"); }
                }
                tree.reset_bipartition_cache();
                let ctx = format!("real.build\t{}\t{}\t7\n# one query on the fresh object: {wname}\n# edit: {done}\nreal.reset_cache", if round == 0 { "api" } else { "bottomup" }, t.canon());
                rep.case(&ctx, true);
                rep.count("protocol_matrix_cells");
                let names = tree.get_leaf_names();
                let uniq = names.iter().all(|n| n.is_some()) && { let mut v: Vec<_> = names.iter().flatten().collect(); v.sort(); v.dedup(); v.len() == names.len() };
                if !uniq {
                    continue;
                }
                let Some(fresh) = tree.to_newick().ok().and_then(|x| Tree::from_newick(&x).ok()) else {
                    rep.oracle("fresh-parse", "protocol:reparse-failed", &ctx, "");
                    continue;
                };
                let t2 = tree.clone();
                // the FIRST query after the reset rotates over the whole battery (whichever query comes first must fill what it needs)
                cell += 1;
                let b_edit = match guarded(std::panic::AssertUnwindSafe(|| battery(&t2, &[cell, 20, 21, 3]))) { Ok(b) => b, Err(_) => { rep.oracle("no-panic", "protocol:battery", &ctx, "panic"); continue; } };
                let b_fresh = battery(&fresh, &[]);
                if let Some((q, a, b)) = diff(&b_edit, &b_fresh) {
                    rep.oracle("fresh-parse", &format!("protocol:{q}"), &format!("{ctx}\nbattery\t{q}"), &format!("edited: {a}\nfresh : {b}"));
                }
            }
        }
    }
}

pub fn run(thorough: bool, seed: u64, driver: &str, rep: &mut Report) {
    {
        let mut r0 = Rng::new(seed ^ 0xc04);
        for _ in 0..(if thorough { 20 } else { 2 }) {
            protocol_matrix(&mut r0, rep);
        }
    }
    let mut rng = Rng::new(seed);
    let jobs: Vec<u64> = (0..(if thorough { 320 } else { 32 })).map(|_| rng.next()).collect();
    let d = driver.to_string();
    let per = if thorough { 200 } else { 25 };
    parallel(
        jobs,
        n_workers(),
        "C04",
        |s, rep| {
            let mut rng = Rng::new(s);
            let mut batch = Batch::new("c04.history");
            for i in 0..per {
                let size = if i % 4 == 0 { rng.range(2, 7) } else { rng.range(3, 40) };
                let mut t = random_shape(&mut rng, size);
                let mode = *rng.pick(&[LenMode::All, LenMode::All, LenMode::Mixed, LenMode::None]);
                let rl = rng.chance(1, 3); label(&mut rng, &mut t, &LabelOpts { len_mode: mode, comments_pct: 10, root_len: rl, ..Default::default() }); if odd_labels(&mut rng, &mut t) { rep.count("trees_with_odd_labels"); }
                let how = *rng.pick(&["api", "bfs", "tomb", "tomb2", "parse", "merge2", "grown", "bottomup"]);
                if how == "merge2" {
                    while t.kids.len() > 2 {
                        t.kids.pop();
                    }
                    while t.kids.len() < 2 {
                        let k = t.kids.len();
                        t.kids.push(Rose { name: Some(format!("M{k}")), len: None, comment: None, kids: vec![] });
                    }
                }
                t.len = None;
                let start = format!("real.build\t{how}\t{}\t{}", t.canon(), rng.next() % 100_000);
                rep.count(&format!("start:{how}"));
                let nops = rng.range(0, if thorough { 12 } else { 6 });
                history(&start, nops, &mut rng, rep, &mut batch);
                if batch.n_requests() > 100_000 {
                    batch.flush(&d, rep);
                }
            }
            batch.flush(&d, rep);
        },
        rep,
    );
}
