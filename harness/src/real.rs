//! Interpreter of the line protocol against the REAL crate: the same request syntax the model driver
//! understands, executed on `phylotree`'s `Tree` / `DistanceMatrix`.  A case is a list of steps
//! `(real request, model request, real answer)`; usually both requests are the same line.
use crate::gen::*;
use crate::util::*;
use phylotree::tree::{Node, Tree};
use std::panic::AssertUnwindSafe;

pub struct RealState {
    pub tree: Tree,
    pub tree2: Tree,
    pub seed: u64,
    /// every request executed on this state so far (the replay script of the state)
    pub history: Vec<String>,
}

pub struct Step {
    pub real_cmd: String,
    pub model_cmd: String,
    pub real_ans: String,
}

pub fn parse_rose(s: &str) -> Option<Rose> {
    fn node(b: &[u8], i: &mut usize) -> Option<Rose> {
        let mut kids = vec![];
        if *i < b.len() && b[*i] == b'(' {
            *i += 1;
            loop {
                kids.push(node(b, i)?);
                if *i >= b.len() {
                    return None;
                }
                if b[*i] == b',' {
                    *i += 1;
                } else if b[*i] == b')' {
                    *i += 1;
                    break;
                } else {
                    return None;
                }
            }
        }
        let start = *i;
        while *i < b.len() && b[*i] != b':' {
            *i += 1;
        }
        let name = dec_opt_str(std::str::from_utf8(&b[start..*i]).ok()?)?;
        *i += 1;
        let start = *i;
        while *i < b.len() && b[*i] != b'[' {
            *i += 1;
        }
        let ls = std::str::from_utf8(&b[start..*i]).ok()?;
        let len = if ls == "-" {
            None
        } else if ls == "nan" {
            Some(f64::NAN)
        } else {
            Some(f64::from_bits(u64::from_str_radix(ls, 16).ok()?))
        };
        *i += 1;
        let start = *i;
        while *i < b.len() && b[*i] != b']' {
            *i += 1;
        }
        let comment = dec_opt_str(std::str::from_utf8(&b[start..*i]).ok()?)?;
        *i += 1;
        Some(Rose { name, len, comment, kids })
    }
    let b = s.as_bytes();
    let mut i = 0;
    let r = node(b, &mut i)?;
    if i == b.len() {
        Some(r)
    } else {
        None
    }
}

fn opt_len(s: &str) -> Option<Option<f64>> {
    if s == "-" {
        Some(None)
    } else {
        s.parse::<i64>().ok().map(|n| Some(n as f64 / UNIT as f64))
    }
}

fn ans_ids(r: Result<Vec<usize>, phylotree::tree::TreeError>) -> String {
    match r {
        Ok(v) => format!("ok {}", enc_ids(&v)),
        Err(e) => format!("err {}", err_kind(&e)),
    }
}

pub fn err_kind(e: &phylotree::tree::TreeError) -> String {
    let d = format!("{:?}", e);
    d.split(|c: char| !c.is_alphanumeric()).next().unwrap_or("Err").to_string()
}

fn node_named(n: &Option<String>) -> Node {
    match n {
        Some(s) => Node::new_named(s),
        None => Node::new(),
    }
}

impl RealState {
    pub fn new() -> Self {
        RealState { tree: Tree::new(), tree2: Tree::new(), seed: 0, history: vec![] }
    }

    /// Executes one request on the real crate.  Returns the answer and, when the model must be sent a
    /// different line (state loading, oracle read-back), that line.
    pub fn exec(&mut self, cmd: &str) -> (String, Option<String>) {
        // breadcrumb: a stack overflow or an abort inside the crate kills the process and cannot be caught; the script of the
        // state that was being driven is left on disk so that `check` can name it (and replay it in a process of its own)
        self.history.push(cmd.to_string());
        crumb(&self.history);
        let r = guarded(AssertUnwindSafe(|| self.exec_inner(cmd)));
        match r {
            Ok(x) => x,
            Err(_) => ("panic".into(), None),
        }
    }

    fn exec_inner(&mut self, cmd: &str) -> (String, Option<String>) {
        let f: Vec<&str> = cmd.split('\t').collect();
        let bad = ("bad-op".to_string(), None);
        match f.as_slice() {
            // ---- construction of the real tree; the model is sent the resulting arena ----
            ["real.build", how, rose, seed] => {
                let Some(t) = parse_rose(rose) else { return bad };
                let seed: u64 = seed.parse().unwrap_or(0);
                let mut rng = Rng::new(seed);
                self.tree = match *how {
                    "api" => build_api(&t),
                    "bfs" => build_api_bfs(&t),
                    "tomb" => build_with_tombstones(&t, &mut rng),
                    "tomb2" => build_with_tombstones2(&t, &mut rng),
                    "bottomup" => build_bottom_up(&t, &mut rng),
                    "parse" => match Tree::from_newick(&t.newick()) {
                        Ok(t) => t,
                        Err(_) => return ("err".into(), None),
                    },
                    "grown" => {
                        // API build, then regroup random sibling pairs and resolve polytomies: internal nodes end up
                        // with LARGER arena ids than their descendants
                        let mut tree = build_api(&t);
                        let rounds = rng.range(1, 4);
                        for _ in 0..rounds {
                            let slots = slots_of(&tree);
                            let parents: Vec<usize> = (0..slots.len()).filter(|&i| !slots[i].deleted && slots[i].children.len() >= 2).collect();
                            if parents.is_empty() {
                                break;
                            }
                            let p = *rng.pick(&parents);
                            let ch = slots[p].children.clone();
                            let a = rng.below(ch.len());
                            let mut b = rng.below(ch.len());
                            if a == b {
                                b = (a + 1) % ch.len();
                            }
                            let l = |rng: &mut Rng| if rng.chance(1, 4) { None } else { Some(gen_len(rng, LenKind::Dyadic)) };
                            let (e1, e2, pe) = (l(&mut rng), l(&mut rng), l(&mut rng));
                            let _ = tree.merge_children(&ch[a], &ch[b], e1, e2, pe, None);
                        }
                        if rng.chance(1, 2) {
                            phylotree::verif::set_seed(seed);
                            let _ = tree.resolve();
                        }
                        tree
                    }
                    "merge2" => {
                        // two parentless nodes merged under a fresh root: the root is NOT slot 0
                        // (with more than two children the remaining subtrees are added below the fresh root afterwards)
                        if t.kids.len() < 2 {
                            return bad;
                        }
                        let mut tree = Tree::new();
                        let mut ids = vec![];
                        for k in t.kids.iter().take(2) {
                            let sub = build_api(k);
                            // graft: re-create the subtree in `tree`
                            let base = tree.size();
                            let slots = slots_of(&sub);
                            for s in slots.iter() {
                                let mut n = node_named(&s.name);
                                n.comment = s.comment.clone();
                                match s.parent {
                                    None => {
                                        tree.add(n);
                                    }
                                    Some(p) => {
                                        tree.add_child(n, p + base, s.parent_edge).unwrap();
                                    }
                                }
                            }
                            ids.push(base);
                        }
                        let root = tree.merge_children(&ids[0], &ids[1], t.kids[0].len, t.kids[1].len, None, t.name.clone())
                            .unwrap();
                        fn graft(tree: &mut Tree, r: &Rose, parent: usize) {
                            let mut n = node_named(&r.name);
                            n.comment = r.comment.clone();
                            let id = tree.add_child(n, parent, r.len).unwrap();
                            for k in r.kids.iter() {
                                graft(tree, k, id);
                            }
                        }
                        for k in t.kids.iter().skip(2) {
                            graft(&mut tree, k, root);
                        }
                        tree
                    }
                    _ => return bad,
                };
                match enc_arena_scaled(&slots_of(&self.tree)) {
                    Ok(a) => ("ok".into(), Some(format!("ar.load\t{a}"))),
                    Err(_) => ("ok".into(), Some("ar.load\t_".into())),
                }
            }
            ["real.build2", how, rose, seed] => {
                // second tree register: built like `real.build`, then swapped into place
                let keep = std::mem::replace(&mut self.tree, Tree::new());
                let (ans, model) = self.exec_inner(&format!("real.build\t{how}\t{rose}\t{seed}"));
                self.tree2 = std::mem::replace(&mut self.tree, keep);
                (ans, model.map(|m| m.replacen("ar.load", "ar.load2", 1)))
            }
            ["sp", rest @ ..] => {
                use crate::sp::*;
                let (a, b) = (&self.tree, &self.tree2);
                // comparisons run on fresh copies: the caches of the registers must not leak between requests
                let fa = a.clone();
                let fb = b.clone();
                let ans = match rest {
                    ["parts"] => real_parts(&fa),
                    ["rf"] => real_rf(&fa, &fb),
                    ["rfn"] => match real_rfn(&fa, &fb) {
                        Ok(v) => format!("ok {v}"),
                        Err(e) => e,
                    },
                    ["wrf"] => real_wrf(&fa, &fb),
                    ["kf2"] => match fa.khuner_felsenstein(&fb) {
                        Ok(v) => format!("ok sqrt={v}"),
                        Err(e) => format!("err {}", err_kind(&e)),
                    },
                    ["cmp"] => match fa.compare_topologies(&fb) {
                        Ok(c) => format!("ok {c:?}"),
                        Err(e) => format!("err {}", err_kind(&e)),
                    },
                    ["branches", t] => real_branches(&fa, &fb, *t == "1"),
                    _ => return bad,
                };
                (ans, None)
            }
            ["dm", "fast"] => (crate::c08::real_dm(&self.tree, false).0, Some(format!("dm\tfast\t{UNIT}"))),
            ["dm", "rec"] => (crate::c08::real_dm(&self.tree, true).0, Some("dm\trec".into())),
            ["up.run", taxa, cells] | ["up.run", taxa, cells, _] => {
                // optional 4th field: the factor the integers are multiplied by before the crate sees them (replay of the
                // decimal stream: `div10` = divided by ten, the value the decimal text parses to)
                let div10 = f.get(3) == Some(&"div10");
                let factor: f64 = f.get(3).and_then(|x| x.parse().ok()).unwrap_or(1.0);
                let names: Vec<String> = if *taxa == "_" { vec![] } else { taxa.split(',').filter_map(unhex).collect() };
                let vals: Vec<f64> = if *cells == "_" { vec![] } else { cells.split(' ').filter_map(|x| x.parse::<f64>().ok()).map(|v| if div10 { v / 10.0 } else { v * factor }).collect() };
                let m = phylotree::distance::DistanceMatrix::new(names, &vals);
                match m.upgma() {
                    Ok(t) => {
                        let ans = format!("ok {}", t.to_newick().unwrap_or_default());
                        self.tree = t;
                        (ans, None)
                    }
                    Err(e) => (format!("err {e:?}"), None),
                }
            }
            ["real.gen", shape, n, brlens, distr, seed] => {
                // a tree built by one of the crate's random generators (seeded through hook H1): a public construction like any other
                let (Ok(n), Ok(seed)) = (n.parse::<usize>(), seed.parse::<u64>()) else { return bad };
                let d = match *distr { "uniform" => phylotree::distr::Distr::Uniform, "exponential" => phylotree::distr::Distr::Exponential, _ => phylotree::distr::Distr::Gamma };
                phylotree::verif::set_seed(seed);
                let r = match *shape {
                    "ete3" => phylotree::generate_tree(n, *brlens == "1", d),
                    "yule" => phylotree::generate_yule(n, *brlens == "1", d),
                    _ => phylotree::generate_caterpillar(n, *brlens == "1", d),
                };
                match r {
                    Ok(t) => {
                        self.tree = t;
                        ("ok".into(), Some("nop".into()))
                    }
                    Err(e) => (format!("err {e:?}"), Some("nop".into())),
                }
            }
            ["real.clone"] => {
                self.tree = self.tree.clone();
                ("ok".into(), Some("nop".into()))
            }
            ["real.ladder", depth] => {
                // a caterpillar of `depth` levels built through add_child (every branch of length 1): level i holds a leaf
                // "L<i>" and the next internal node, the leaf first on even levels; the last internal node carries two leaves.
                // Deep trees are legal inputs of every query; only the oracles use this (the model is not sent the arena).
                let Ok(depth) = depth.parse::<usize>() else { return bad };
                let mut t = Tree::new();
                let mut cur = t.add(Node::new());
                for i in 0..depth {
                    if i % 2 == 0 {
                        t.add_child(Node::new_named(&format!("L{i}")), cur, Some(1.0)).unwrap();
                        cur = t.add_child(Node::new(), cur, Some(1.0)).unwrap();
                    } else {
                        let nxt = t.add_child(Node::new(), cur, Some(1.0)).unwrap();
                        t.add_child(Node::new_named(&format!("L{i}")), cur, Some(1.0)).unwrap();
                        cur = nxt;
                    }
                }
                t.add_child(Node::new_named("Lx"), cur, Some(1.0)).unwrap();
                t.add_child(Node::new_named("Ly"), cur, Some(1.0)).unwrap();
                self.tree = t;
                ("ok".into(), Some("nop".into()))
            }
            ["real.warm"] => {
                // every query that leaves something behind in the tree object (per-node distance caches, leaf index,
                // partition maps): state carried into later calls must never change their answers
                let t = &self.tree;
                let _ = guarded(std::panic::AssertUnwindSafe(|| {
                    let _ = t.distance_matrix();
                    let _ = t.distance_matrix_recursive();
                    let _ = t.get_partitions();
                    let _ = t.robinson_foulds(t);
                    let _ = t.weighted_robinson_foulds(t);
                    let _ = t.compare_topologies(t);
                    let _ = t.height();
                    let _ = t.diameter();
                    let _ = t.to_nexus();
                }));
                ("ok".into(), Some("nop".into()))
            }
            ["real.reset_cache"] => {
                self.tree.reset_bipartition_cache();
                ("ok".into(), Some("nop".into()))
            }
            ["sp.live", "parts"] => (crate::sp::real_parts(&self.tree), Some("sp\tparts".into())),
            ["battery", q] => {
                // C04 oracle replay: the query on the edited tree and on a fresh parse of its Newick text
                let a = crate::c04::battery(&self.tree, &[]);
                let fresh = self.tree.to_newick().ok().and_then(|t| Tree::from_newick(&t).ok());
                let b = fresh.map(|f| crate::c04::battery(&f, &[])).unwrap_or_default();
                let pick = |v: &Vec<(String, String)>| v.iter().find(|(k, _)| k == q).map(|x| x.1.clone()).unwrap_or_default();
                (format!("edited: {} || fresh: {}", pick(&a), pick(&b)), Some("nop".into()))
            }
            ["real.parse", hx] => {
                let Some(text) = unhex(hx) else { return bad };
                match Tree::from_newick(&text) {
                    Ok(t) => {
                        self.tree = t;
                        match enc_arena_scaled(&slots_of(&self.tree)) {
                            Ok(a) => ("ok".into(), Some(format!("ar.load\t{a}"))),
                            Err(e) => (format!("bad-case {e}"), None),
                        }
                    }
                    Err(_) => ("err".into(), None),
                }
            }
            ["ar.dump"] => match enc_arena_scaled(&slots_of(&self.tree)) {
                Ok(a) => (a, None),
                Err(e) => (format!("bad-case {e}"), None),
            },
            ["ar.inv"] => {
                let slots = slots_of(&self.tree);
                let ok = check_inv(&slots, false).is_ok();
                (format!("{} {}", if ok { 1 } else { 0 }, live_roots(&slots).len()), None)
            }
            ["ar.add", n] => {
                let Some(n) = dec_opt_str(n) else { return bad };
                let id = self.tree.add(node_named(&n));
                (format!("ok {id}"), None)
            }
            ["ar.add_child", p, e, n] => {
                let (Ok(p), Some(e), Some(n)) = (p.parse::<usize>(), opt_len(e), dec_opt_str(n)) else { return bad };
                match self.tree.add_child(node_named(&n), p, e) {
                    Ok(id) => (format!("ok {id}"), None),
                    Err(e) => (format!("err {}", err_kind(&e)), None),
                }
            }
            ["ar.add_copy", src, p, e] => {
                // the node argument is a COPY of a node of the tree itself (`tree.get(&src)?.clone()`, public API only): it
                // arrives with that node's links (parent, children, child edges, depth, caches); what is added must be a fresh
                // child carrying the copy's payload (name, comment) below `p`
                let (Ok(src), Ok(p), Some(e)) = (src.parse::<usize>(), p.parse::<usize>(), opt_len(e)) else { return bad };
                let node = match self.tree.get(&src) {
                    Ok(n) => n.clone(),
                    Err(e) => return (format!("err {}", err_kind(&e)), None),
                };
                match self.tree.add_child(node, p, e) {
                    Ok(id) => (format!("ok {id}"), None),
                    Err(e) => (format!("err {}", err_kind(&e)), None),
                }
            }
            ["ar.setlen", x, l] => {
                // a branch length OVERWRITTEN in place the way the crate's own command-line tool does it (`collapse`): both records
                // of the branch through the public setters — `set_parent` on the child, `set_child_edge` on the parent
                let (Ok(x), Some(Some(l))) = (x.parse::<usize>(), opt_len(l)) else { return bad };
                let p = match self.tree.get(&x) {
                    Ok(n) => n.parent,
                    Err(e) => return (format!("err {}", err_kind(&e)), None),
                };
                let Some(p) = p else { return ("err root".into(), None) };
                self.tree.get_mut(&x).unwrap().set_parent(p, Some(l));
                match self.tree.get_mut(&p) {
                    Ok(n) => {
                        n.set_child_edge(&x, Some(l));
                        ("ok".into(), None)
                    }
                    Err(e) => (format!("err {}", err_kind(&e)), None),
                }
            }
            ["ar.setname", x, name] => {
                // in-place edit of a node's name through the public mutable accessor (no cache is told about it)
                let Ok(x) = x.parse::<usize>() else { return bad };
                let Some(nm) = dec_opt_str(name) else { return bad };
                match self.tree.get_mut(&x) {
                    Ok(n) => {
                        n.name = nm;
                        ("ok".into(), None)
                    }
                    Err(e) => (format!("err {}", err_kind(&e)), None),
                }
            }
            ["ar.prune", x] => {
                let Ok(x) = x.parse::<usize>() else { return bad };
                match self.tree.prune(&x) {
                    Ok(()) => ("ok".into(), None),
                    Err(e) => (format!("err {}", err_kind(&e)), None),
                }
            }
            ["ar.compress"] => match self.tree.compress() {
                Ok(()) => ("ok".into(), None),
                Err(e) => (format!("err {}", err_kind(&e)), None),
            },
            ["ar.rescale", k] => {
                let Ok(k) = k.parse::<i64>() else { return bad };
                self.tree.rescale(k as f64);
                ("ok".into(), None)
            }
            ["real.resolve", seed] => {
                // the random choices are read back from the result and handed to the model as its oracle
                let Ok(seed) = seed.parse::<u64>() else { return bad };
                phylotree::verif::set_seed(seed);
                let before = self.tree.size();
                match self.tree.resolve() {
                    Ok(()) => {
                        let slots = slots_of(&self.tree);
                        let mut picks = vec![];
                        for s in slots.iter().skip(before) {
                            picks.extend(s.children.iter().cloned());
                        }
                        ("ok".into(), Some(format!("ar.resolve\t{}", enc_ids(&picks))))
                    }
                    Err(e) => (format!("err {}", err_kind(&e)), Some("ar.resolve\t".into())),
                }
            }
            ["ar.ladderize"] => match self.tree.ladderize() {
                Ok(()) => ("ok".into(), None),
                Err(e) => (format!("err {}", err_kind(&e)), None),
            },
            ["ar.reset_depths"] => match self.tree.reset_depths() {
                Ok(()) => ("ok".into(), None),
                Err(e) => (format!("err {}", err_kind(&e)), None),
            },
            ["ar.merge", c1, c2, e1, e2, pe, n] => {
                let (Ok(c1), Ok(c2), Some(e1), Some(e2), Some(pe), Some(n)) =
                    (c1.parse::<usize>(), c2.parse::<usize>(), opt_len(e1), opt_len(e2), opt_len(pe), dec_opt_str(n))
                else {
                    return bad;
                };
                match self.tree.merge_children(&c1, &c2, e1, e2, pe, n) {
                    Ok(id) => (format!("ok {id}"), None),
                    Err(e) => (format!("err {}", err_kind(&e)), None),
                }
            }
            ["ar.q", rest @ ..] => (self.query(rest), None),
            ["nw.parse", hx] => {
                let Some(text) = unhex(hx) else { return bad };
                let (ans, tree) = crate::c02::real_parse(&text);
                if let Some(t) = tree {
                    self.tree = t;
                }
                (ans, None)
            }
            ["nw.format", f] => {
                let Ok(f) = f.parse::<usize>() else { return bad };
                if f >= 9 {
                    return bad;
                }
                let arena = enc_arena_lex(&slots_of(&self.tree));
                let ans = match self.tree.to_formatted_newick(crate::c01::FORMATS[f]) {
                    Ok(s) => format!("ok {}", hex(&s)),
                    Err(e) => format!("err {}", err_kind(&e)),
                };
                (ans, Some(format!("nw.write\t{f}\t{arena}")))
            }
            ["nw.nexus"] => {
                let arena = enc_arena_lex(&slots_of(&self.tree));
                let ans = match self.tree.to_nexus() {
                    Ok(s) => format!("ok {}", hex(&s)),
                    Err(e) => format!("err {}", err_kind(&e)),
                };
                (ans, Some(format!("nw.nexus\t{arena}")))
            }
            _ => bad,
        }
    }

    fn query(&self, q: &[&str]) -> String {
        let t = &self.tree;
        let id = |s: &str| s.parse::<usize>().ok();
        let res_usize = |r: Result<usize, phylotree::tree::TreeError>| match r {
            Ok(v) => format!("ok {v}"),
            Err(e) => format!("err {}", err_kind(&e)),
        };
        let res_bool = |r: Result<bool, phylotree::tree::TreeError>| match r {
            Ok(v) => format!("ok {}", if v { 1 } else { 0 }),
            Err(e) => format!("err {}", err_kind(&e)),
        };
        let res_len = |r: Result<f64, phylotree::tree::TreeError>| match r {
            Ok(v) => match scaled(v) {
                Some(n) => format!("ok {n}"),
                None => format!("ok inexact:{v}"),
            },
            Err(e) => format!("err {}", err_kind(&e)),
        };
        match q {
            ["root"] => res_usize(t.get_root()),
            ["leaves"] => format!("ok {}", enc_ids(&t.get_leaves())),
            ["n_leaves"] => format!("ok {}", t.n_leaves()),
            ["size"] => format!("ok {}", t.size()),
            ["subtree", x] => id(x).map_or("bad-op".into(), |x| ans_ids(t.get_subtree(&x))),
            ["preorder", x] => id(x).map_or("bad-op".into(), |x| ans_ids(t.preorder(&x))),
            ["descendants", x] => id(x).map_or("bad-op".into(), |x| ans_ids(t.get_descendants(&x))),
            ["subtree_leaves", x] => id(x).map_or("bad-op".into(), |x| ans_ids(t.get_subtree_leaves(&x))),
            ["postorder", x] => id(x).map_or("bad-op".into(), |x| ans_ids(t.postorder(&x))),
            ["inorder", x] => id(x).map_or("bad-op".into(), |x| ans_ids(t.inorder(&x))),
            ["levelorder", x] => id(x).map_or("bad-op".into(), |x| ans_ids(t.levelorder(&x))),
            ["is_rooted"] => res_bool(t.is_rooted()),
            ["is_binary"] => res_bool(t.is_binary()),
            ["path", x] => id(x).map_or("bad-op".into(), |x| ans_ids(t.get_path_from_root(&x))),
            ["lca", x, y] => match (id(x), id(y)) {
                (Some(x), Some(y)) => res_usize(t.get_common_ancestor(&x, &y)),
                _ => "bad-op".into(),
            },
            ["dist", x, y] => match (id(x), id(y)) {
                (Some(x), Some(y)) => match t.get_distance(&x, &y) {
                    Ok((d, n)) => {
                        let ds = match d {
                            None => "-".to_string(),
                            Some(v) => scaled(v).map_or(format!("inexact:{v}"), |n| n.to_string()),
                        };
                        format!("ok {ds} {n}")
                    }
                    Err(e) => format!("err {}", err_kind(&e)),
                },
                _ => "bad-op".into(),
            },
            ["height", _u] => res_len(t.height()),
            ["diameter", _u] => res_len(t.diameter()),
            ["length"] => res_len(t.length()),
            ["cherries"] => res_usize(t.cherries()),
            ["colless"] => res_usize(t.colless()),
            ["sackin"] => res_usize(t.sackin()),
            // ---- queries added with Arena/QueryMore.lean ----
            ["leaf_names"] => format!("ok {}", t.get_leaf_names().iter().map(enc_opt_str).collect::<Vec<_>>().join(" ")),
            ["unique_tips"] => res_bool(t.has_unique_tip_names()),
            ["node", x] => id(x).map_or("bad-op".into(), |x| match t.get(&x) {
                Ok(n) => format!("ok {} {} {}", n.is_tip() as u8, n.is_root() as u8, n.get_depth()),
                Err(e) => format!("err {}", err_kind(&e)),
            }),
            ["child_edge", p, c] => match (id(p), id(c)) {
                (Some(p), Some(c)) => match t.get(&p) {
                    Ok(n) => match n.get_child_edge(&c) {
                        None => "ok -".into(),
                        Some(v) => scaled(v).map_or(format!("ok inexact:{v}"), |k| format!("ok {k}")),
                    },
                    Err(e) => format!("err {}", err_kind(&e)),
                },
                _ => "bad-op".into(),
            },
            // the normalised indices are floats in the crate; the answer compared with the model is the EXACT rational computed here
            // from the crate's own integer index and leaf count (independently of the model), and the crate's float must agree
            // with it to 1e-12 (relative) — otherwise the answer says so and the comparison fails
            ["sackin_yule"] => match (t.sackin(), t.sackin_yule()) {
                (Ok(s), Ok(v)) => {
                    let n = t.n_leaves() as i128;
                    match harmonic_from_2(n) {
                        None => "ok skipped-too-many-leaves".into(),
                        Some((hn, hd)) => {
                            // (s - 2 n H) / n = (s*hd - 2 n hn) / (n hd)
                            let (num, den) = reduce(s as i128 * hd - 2 * n * hn, n * hd);
                            let exact = num as f64 / den as f64;
                            if (v - exact).abs() <= 1e-12 * exact.abs().max(1.0) { format!("ok {num}/{den}") } else { format!("ok float-differs:{v}-vs-{num}/{den}") }
                        }
                    }
                }
                (Err(e), Err(_)) => format!("err {}", err_kind(&e)),
                (a, b) => format!("ok refusals-differ:{:?}-vs-{:?}", a.is_ok(), b.is_ok()),
            },
            ["sackin_pda_sq"] | ["colless_pda_sq"] => {
                let (i, v) = if q[0] == "sackin_pda_sq" { (t.sackin(), t.sackin_pda()) } else { (t.colless(), t.colless_pda()) };
                match (i, v) {
                    (Ok(i), Ok(v)) => {
                        let n = t.n_leaves() as i128;
                        let (num, den) = reduce((i as i128) * (i as i128), n * n * n);
                        let exact = num as f64 / den as f64;
                        if (v * v - exact).abs() <= 1e-12 * exact.abs().max(1.0) && v >= 0.0 { format!("ok {num}/{den}") } else { format!("ok float-differs:{v}^2-vs-{num}/{den}") }
                    }
                    (Err(e), Err(_)) => format!("err {}", err_kind(&e)),
                    (a, b) => format!("ok refusals-differ:{:?}-vs-{:?}", a.is_ok(), b.is_ok()),
                }
            }
            ["by_name", n] => match unhex(n) {
                Some(n) => format!("ok {}", enc_opt_usize(t.get_by_name(&n).map(|x| x.id))),
                None => "bad-op".into(),
            },
            ["search", n] => match dec_opt_str(n) {
                Some(n) => format!("ok {}", enc_ids(&t.search_nodes(|x| x.name == n))),
                None => "bad-op".into(),
            },
            _ => "bad-op".into(),
        }
    }
}

fn gcd(a: i128, b: i128) -> i128 {
    let (mut a, mut b) = (a.abs(), b.abs());
    while b != 0 {
        let t = a % b;
        a = b;
        b = t;
    }
    a
}
/// lowest terms, positive denominator
fn reduce(num: i128, den: i128) -> (i128, i128) {
    if den == 0 {
        return (0, 1);
    }
    let g = gcd(num, den).max(1);
    let (n, d) = (num / g, den / g);
    if d < 0 { (-n, -d) } else { (n, d) }
}
/// 1/2 + 1/3 + ... + 1/n as an exact fraction (`None` when it no longer fits)
fn harmonic_from_2(n: i128) -> Option<(i128, i128)> {
    let (mut num, mut den) = (0i128, 1i128);
    for i in 2..=n {
        // num/den + 1/i
        let nn = num.checked_mul(i)?.checked_add(den)?;
        let dd = den.checked_mul(i)?;
        let (a, b) = reduce(nn, dd);
        num = a;
        den = b;
        if den > 1_000_000_000_000_000_000_000_000_000_000_000i128 {
            return None;
        }
    }
    Some((num, den))
}

/// outcome class of an answer: ok / err / panic / other
pub fn class_of(ans: &str) -> &str {
    ans.split(' ').next().unwrap_or("")
}
