//! C19 — radial layout is a faithful drawing of the tree.
use crate::gen::*;
use crate::util::*;
use phylotree::tree::draw::radial_layout;
use phylotree::tree::Tree;
use std::f64::consts::PI;
use std::panic::AssertUnwindSafe;

fn rat(s: &str) -> Option<f64> {
    match s.split_once('/') {
        None => s.parse().ok(),
        Some((p, q)) => Some(p.parse::<f64>().ok()? / q.parse::<f64>().ok()?),
    }
}
fn close(a: f64, b: f64, scale: f64) -> bool {
    (a - b).abs() <= 1e-9 * scale.max(1.0)
}

struct Pending {
    case: String,
    real: Result<Vec<(f64, f64, f64, f64, Option<String>)>, String>,
    scale: f64,
}

fn one_tree(t: &Rose, rng: &mut Rng, reqs: &mut Vec<String>, pend: &mut Vec<Pending>, rep: &mut Report) {
    let how = *rng.pick(&["api", "bfs", "tomb", "tomb2", "parse", "grown", "bottomup"]);
    let seed = rng.next() % 100_000;
    let case = format!("real.build\t{how}\t{}\t{seed}", t.canon());
    let mut st = crate::real::RealState::new();
    let (a, model) = st.exec(&case);
    if a != "ok" {
        return;
    }
    let tree: &Tree = &st.tree;
    let slots = slots_of(tree);
    let Some(root) = live_roots(&slots).first().cloned() else { return };
    let Some(r) = rose_of(&slots, root) else { return };
    let mut all_len = true;
    r.for_each(&mut |x, is_root| if !is_root && x.len.is_none() { all_len = false });
    rep.case(&case, all_len && r.size() >= 4);
    let lay = guarded(AssertUnwindSafe(|| radial_layout(tree)));
    let real = match lay {
        Err(_) => {
            rep.oracle("no-panic", "radial_layout", &case, "panic");
            Err("panic".to_string())
        }
        Ok(Err(_)) => {
            if all_len {
                rep.oracle("layout", "refused-with-all-lengths", &case, "");
            }
            Err("err".to_string())
        }
        Ok(Ok(mut l)) => {
            if !all_len {
                rep.oracle("layout", "missing-length-accepted", &case, "");
            }
            if l.branches.len() != l.nodes.len() {
                rep.oracle("layout", "branches-vs-points", &case, &format!("{} vs {}", l.branches.len(), l.nodes.len()));
            }
            let v: Vec<(f64, f64, f64, f64, Option<String>)> = l.branches.iter().zip(l.nodes.iter()).map(|(b, n)| (b.xstart, b.ystart, b.xend, b.yend, n.label.clone())).collect();
            // ---------------- oracles on the real layout ----------------
            let pre = tree.preorder(&root).unwrap_or_default();
            if v.len() + 1 != pre.len() {
                rep.oracle("layout", "not-one-segment-per-non-root-node", &case, &format!("{} segments for {} nodes", v.len(), pre.len()));
            } else {
                // position of every node: root at the origin, others at their point
                let mut pos = std::collections::HashMap::new();
                pos.insert(root, (0.0, 0.0));
                let total = r.n_leaves() as f64;
                // wedges from leaf counts, computed independently (leaf counts by subtree)
                let leaves_of = |id: usize| rose_of(&slots, id).map(|x| x.n_leaves()).unwrap_or(0) as f64;
                let mut wedge_start = std::collections::HashMap::new();
                wedge_start.insert(root, 0.0f64);
                let scale = v.iter().map(|x| x.2.abs().max(x.3.abs())).fold(1.0, f64::max);
                for (k, id) in pre.iter().enumerate().skip(1) {
                    let (xs, ys, xe, ye, label) = &v[k - 1];
                    let s = &slots[*id];
                    let p = s.parent.unwrap();
                    let ppos = pos.get(&p).cloned().unwrap_or((f64::NAN, f64::NAN));
                    if !close(*xs, ppos.0, scale) || !close(*ys, ppos.1, scale) {
                        rep.oracle("segment", "does-not-start-at-parent", &case, &format!("node {id}: start ({xs},{ys}) parent at {ppos:?}"));
                    }
                    if l.nodes[k - 1].x != *xe || l.nodes[k - 1].y != *ye {
                        rep.oracle("segment", "point-is-not-segment-end", &case, &format!("node {id}"));
                    }
                    if *label != s.name {
                        rep.oracle("segment", "label", &case, &format!("node {id}: {label:?} vs {:?}", s.name));
                    }
                    let d = s.parent_edge.unwrap_or(f64::NAN);
                    let len = ((xe - xs).powi(2) + (ye - ys).powi(2)).sqrt();
                    if !close(len, d, scale) {
                        rep.oracle("segment", "euclidean-length-differs-from-branch-length", &case, &format!("node {id}: {len} vs {d}"));
                    }
                    pos.insert(*id, (*xe, *ye));
                    // wedge: starts where the previous sibling's wedge ended; direction = bisector
                    let sibs = &slots[p].children;
                    let mut start = *wedge_start.get(&p).unwrap_or(&0.0);
                    for c in sibs.iter() {
                        if c == id {
                            break;
                        }
                        start += leaves_of(*c) / total;
                    }
                    wedge_start.insert(*id, start);
                    let w = leaves_of(*id) / total;
                    if d > 1e-6 {
                        let ang = (ye - ys).atan2(xe - xs).rem_euclid(2.0 * PI);
                        let want = ((start + w / 2.0) * 2.0 * PI).rem_euclid(2.0 * PI);
                        let diff = (ang - want).abs().min(2.0 * PI - (ang - want).abs());
                        if diff > 1e-6 {
                            rep.oracle("wedge", "branch-not-on-the-bisector-of-its-wedge", &case, &format!("node {id}: angle {ang} expected {want}"));
                        }
                    }
                }
            }
            // the drawing of the tree rescaled by a power of two FAR from 1 is the drawing multiplied by that factor, EXACTLY: every
            // coordinate is a sum of products length x cos/sin, and scaling by a power of two commutes with both (no rounding)
            for e in [-70i32, -300, 100] {
                let f = 2f64.powi(e);
                let mut t2 = tree.clone();
                t2.rescale(f);
                rep.count("drawings_at_extreme_magnitudes");
                match guarded(AssertUnwindSafe(|| radial_layout(&t2))) {
                    Ok(Ok(l2)) => {
                        let same = l2.branches.len() == l.branches.len()
                            && l2.branches.iter().zip(l.branches.iter()).all(|(b2, b)| b2.xstart == b.xstart * f && b2.ystart == b.ystart * f && b2.xend == b.xend * f && b2.yend == b.yend * f)
                            && l2.nodes.iter().zip(l.nodes.iter()).all(|(n2, n)| n2.x == n.x * f && n2.y == n.y * f);
                        if !same {
                            rep.oracle("rescale", "drawing-of-rescaled-tree-is-not-the-rescaled-drawing", &format!("{case}\nar.rescale by 2^{e}\nlay"), "");
                        }
                    }
                    other => rep.oracle("layout", "refused-after-rescale", &format!("{case}\nar.rescale by 2^{e}\nlay"), &format!("{:?}", other.map(|x| x.map(|_| ())))),
                }
            }
            // rescale multiplies every coordinate — by ANY factor: ordinary, negative, zero of either sign, subnormal, huge,
            // infinite (0 x inf is NaN: NaN results are compared as NaN), successive factors applied to the same drawing
            let same_f = |a: f64, b: f64| a == b || (a.is_nan() && b.is_nan());
            for (k, factors) in [vec![2.5, -1.0, 0.1], vec![1e300, 1e-300], vec![1e-310], vec![5e-324], vec![f64::INFINITY], vec![-0.0], vec![0.0, f64::INFINITY]].iter().enumerate() {
                // every group starts from a fresh drawing (a zero, subnormal or infinite factor destroys it); the destructive
                // groups run on every third tree
                if k >= 1 {
                    if v.len() % 3 != 0 {
                        continue;
                    }
                    match radial_layout(&tree) {
                        Ok(fresh) => l = fresh,
                        Err(_) => continue,
                    }
                }
                // every second group works on a layout the CALLER has moved (public fields): rescaling multiplies every coordinate,
                // wherever the drawing sits
                if k % 2 == 1 {
                    for b in l.branches.iter_mut() { b.xstart += 10.0; b.xend += 10.0; b.ystart += 5.0; b.yend += 5.0; }
                    for n in l.nodes.iter_mut() { n.x += 10.0; n.y += 5.0; }
                }
                for &f in factors.iter() {
                    let before: Vec<(f64, f64, f64, f64)> = l.branches.iter().map(|b| (b.xstart, b.ystart, b.xend, b.yend)).collect();
                    let pts: Vec<(f64, f64)> = l.nodes.iter().map(|n| (n.x, n.y)).collect();
                    l.rescale(f);
                    rep.count("layout_rescalings");
                    let ok = l.branches.iter().zip(before.iter()).all(|(b, o)| same_f(b.xstart, o.0 * f) && same_f(b.ystart, o.1 * f) && same_f(b.xend, o.2 * f) && same_f(b.yend, o.3 * f))
                        && l.nodes.iter().zip(pts.iter()).all(|(n, o)| same_f(n.x, o.0 * f) && same_f(n.y, o.1 * f));
                    if !ok {
                        rep.oracle("rescale", "not-every-coordinate-multiplied", &format!("{case}\nlay.rescale by {f:e}"), "");
                    }
                }
            }
            Ok(v)
        }
    };
    let scale = match &real { Ok(v) => v.iter().map(|x| x.2.abs().max(x.3.abs())).fold(1.0, f64::max), Err(_) => 1.0 };
    reqs.push(model.unwrap_or_else(|| "ar.load\t_".into()));
    pend.push(Pending { case: String::new(), real: Ok(vec![]), scale: -1.0 }); // load
    reqs.push("lay".into());
    pend.push(Pending { case, real, scale });
}

pub fn run(thorough: bool, seed: u64, driver: &str, rep: &mut Report) {
    let mut rng = Rng::new(seed);
    let mut jobs: Vec<(u64, Option<usize>)> = vec![];
    for n in 1..=(if thorough { 7 } else { 6 }) {
        jobs.push((rng.next(), Some(n)));
    }
    for _ in 0..(if thorough { 300 } else { 24 }) {
        jobs.push((rng.next(), None));
    }
    let d = driver.to_string();
    parallel(
        jobs,
        n_workers(),
        "C19",
        |(s, nodes), rep| {
            let mut rng = Rng::new(s);
            let mut reqs = vec![];
            let mut pend = vec![];
            let mut trees: Vec<Rose> = vec![];
            if let Some(n) = nodes {
                for sh in all_shapes(n) {
                    let mut t = sh.clone();
                    label(&mut rng, &mut t, &LabelOpts { len_mode: LenMode::All, ..Default::default() });
                    trees.push(t);
                    rep.count("exhaustive_shapes");
                }
            } else {
                for i in 0..(if thorough { 300 } else { 80 }) {
                    let size = rng.range(1, 120);
                    let mut t = random_shape(&mut rng, size);
                    let mode = if i % 10 == 0 { LenMode::Mixed } else { LenMode::All };
                    label(&mut rng, &mut t, &LabelOpts { len_mode: mode, ..Default::default() });
                    // a zero length written with the sign bit set is a finite, non-negative length like any other zero
                    if i % 4 == 1 {
                        let mut k = 0;
                        t.for_each_mut(&mut |x, root, _| { if !root && x.len.is_some() && rng.chance(1, 6) { x.len = Some(-0.0); k += 1; } }, true, 0);
                        if k > 0 {
                            rep.count("trees_with_negative_zero_lengths");
                        }
                    }
                    // labels are data: characters that are markup, format-string or shell syntax elsewhere pass through untouched
                    if i % 3 == 0 && spice_names(&mut rng, &mut t, 40) > 0 {
                        rep.count("trees_with_markup_like_labels");
                    }
                    trees.push(t);
                    rep.count("random_trees");
                }
                // drawings far larger than any ordinary figure: wedges stay proportional to leaf counts however thin they get
                // (a broom of k clades of m tips each, and a random shape); every sixth job draws one
                if s % 6 == 0 {
                    let (k, m) = (rng.range(8, 14), rng.range(90, 160));
                    let mut broom = Rose::leaf();
                    for _ in 0..k {
                        let mut clade = Rose::leaf();
                        for _ in 0..m {
                            clade.kids.push(Rose::leaf());
                        }
                        broom.kids.push(clade);
                    }
                    label(&mut rng, &mut broom, &LabelOpts { len_mode: LenMode::All, ..Default::default() });
                    trees.push(broom);
                    let big = rng.range(1500, 2600);
                    let mut t = random_shape(&mut rng, big);
                    label(&mut rng, &mut t, &LabelOpts { len_mode: LenMode::All, ..Default::default() });
                    trees.push(t);
                    rep.count_n("large_trees", 2);
                }
            }
            for t in trees.iter() {
                one_tree(t, &mut rng, &mut reqs, &mut pend, rep);
            }
            match run_driver(&d, &reqs) {
                Err(e) => rep.mismatch("c19.layout", "driver-failed", "", "", &e),
                Ok(ans) => {
                    rep.count_n("model_requests", ans.len() as u64);
                    for i in 0..ans.len() {
                        let p = &pend[i];
                        if p.scale < 0.0 {
                            continue;
                        }
                        let m = &ans[i];
                        match (&p.real, m.strip_prefix("ok")) {
                            (Err(e), None) => {
                                if (e == "panic") != m.starts_with("panic") {
                                    rep.mismatch("c19.layout", "lay:class", &p.case, e, m);
                                }
                            }
                            (Ok(_), None) => rep.mismatch("c19.layout", "lay:ok!=err", &p.case, "ok", m),
                            (Err(e), Some(_)) => rep.mismatch("c19.layout", "lay:err!=ok", &p.case, e, m),
                            (Ok(v), Some(body)) => {
                                let segs: Vec<&str> = body.split(' ').filter(|x| !x.is_empty()).collect();
                                if segs.len() != v.len() {
                                    rep.mismatch("c19.layout", "lay:count", &p.case, &format!("{} segments", v.len()), &format!("{} segments", segs.len()));
                                    continue;
                                }
                                // positions from the model's exact angles; the harness applies cos/sin
                                let mut pos = std::collections::HashMap::new();
                                let mut root_known = false;
                                for (k, s) in segs.iter().enumerate() {
                                    let f: Vec<&str> = s.split(',').collect();
                                    let (par, id): (usize, usize) = (f[0].parse().unwrap_or(0), f[1].parse().unwrap_or(0));
                                    if !root_known {
                                        pos.insert(par, (0.0, 0.0));
                                        root_known = true;
                                    }
                                    let ang = rat(f[2]).unwrap_or(f64::NAN) * 2.0 * PI;
                                    let len = f[5].parse::<i64>().map(|n| n as f64 / UNIT as f64).unwrap_or(f64::NAN);
                                    let pp = pos.get(&par).cloned().unwrap_or((f64::NAN, f64::NAN));
                                    let e = (pp.0 + len * ang.cos(), pp.1 + len * ang.sin());
                                    pos.insert(id, e);
                                    let r = &v[k];
                                    let name = dec_opt_str(f[6]).unwrap_or(None);
                                    if !close(r.0, pp.0, p.scale) || !close(r.1, pp.1, p.scale) || !close(r.2, e.0, p.scale) || !close(r.3, e.1, p.scale) || r.4 != name {
                                        rep.mismatch("c19.layout", "lay:coordinates", &p.case, &format!("segment {k}: {:?}", r), &format!("({},{})->({},{}) {:?}", pp.0, pp.1, e.0, e.1, name));
                                        break;
                                    }
                                }
                            }
                        }
                    }
                }
            }
        },
        rep,
    );
}
