import PhyloModel.Arena.Query
import PhyloModel.Arena.QueryMore
import PhyloModel.Newick.Writer
import PhyloModel.Split.Model
import PhyloModel.Matrix.Store
import PhyloModel.Matrix.Phylip
import PhyloModel.Dist.Fold
import PhyloModel.Dist.RecWalk
import PhyloModel.Matrix.Upgma
import PhyloModel.Matrix.UpgmaClamp
import PhyloModel.Matrix.UpgmaArena
import PhyloModel.Misc.Generators
import PhyloModel.Misc.Layout
import PhyloModel.Arena.Cli
import PhyloModel.Arena.CliReport
import PhyloModel.Newick.FloatLexeme
/-! Line-protocol driver: runs the executable definitions of the model, one request per line
    (tab-separated fields), one answer line per request.  See /verif/PROTOCOL.md.
    Unknown or ill-formed requests answer `bad-op`; nothing is ever defaulted. -/

/-! ### codecs -/
def hexDigit (n : Nat) : Char := if n < 10 then Char.ofNat (48 + n) else Char.ofNat (87 + n)
def hexEnc (s : String) : String :=
  String.ofList (s.toUTF8.toList.flatMap (fun b => [hexDigit (b.toNat / 16), hexDigit (b.toNat % 16)]))
def hexVal (c : Char) : Option Nat :=
  if '0' ≤ c ∧ c ≤ '9' then some (c.toNat - 48)
  else if 'a' ≤ c ∧ c ≤ 'f' then some (c.toNat - 87)
  else none
def hexBytes : List Char → Option (List UInt8)
  | [] => some []
  | [_] => none
  | a :: b :: r => do
    let x ← hexVal a; let y ← hexVal b; let t ← hexBytes r
    pure (UInt8.ofNat (x * 16 + y) :: t)
def hexDec (s : String) : Option String := do
  let bs ← hexBytes s.toList
  String.fromUTF8? (ByteArray.mk bs.toArray)

def encOptStr : Option String → String
  | none => "-"
  | some s => "h" ++ hexEnc s
def decOptStr (s : String) : Option (Option String) :=
  if s == "-" then some none
  else match s.toList with
    | 'h' :: r => (hexDec (String.ofList r)).map some
    | _ => none

def encOptNat : Option Nat → String | none => "-" | some n => toString n
def decOptNat (s : String) : Option (Option Nat) := if s == "-" then some none else s.toNat?.map some
def encOptInt : Option Int → String | none => "-" | some n => toString n
def decOptInt (s : String) : Option (Option Int) := if s == "-" then some none else s.toInt?.map some

def words (s : String) : List String := (s.splitOn " ").filter (· ≠ "")
def encNats (l : List Nat) : String := " ".intercalate (l.map toString)
def decNats (s : String) : Option (List Nat) := (words s).mapM String.toNat?

/-! ### AR arena <-> text
    slot := del,parent,depth,pedge,name,comment,children,cedges   (cedges: `c=e` sorted by c) -/
open AR in
def encSlot (n : Node) : String :=
  let ce := n.cedges.toArray.qsort (fun x y => x.1 < y.1) |>.toList
  ",".intercalate [if n.deleted then "1" else "0", encOptNat n.parent, toString n.depth, encOptInt n.pedge,
    encOptStr n.name, encOptStr n.comment, encNats n.children,
    " ".intercalate (ce.map (fun (c, e) => s!"{c}={e}"))]
def encArena (a : AR.Arena) : String :=
  if a.size = 0 then "_" else "|".intercalate (a.toList.map encSlot)

def decCedge (s : String) : Option (Nat × Int) :=
  match s.splitOn "=" with
  | [c, e] => do let c ← c.toNat?; let e ← e.toInt?; pure (c, e)
  | _ => none
def decSlot (s : String) : Option AR.Node :=
  match s.splitOn "," with
  | [del, par, dep, pe, nm, cm, ch, ce] => do
    let parent ← decOptNat par
    let depth ← dep.toNat?
    let pedge ← decOptInt pe
    let name ← decOptStr nm
    let comment ← decOptStr cm
    let children ← decNats ch
    let cedges ← (words ce).mapM decCedge
    pure { parent, children, pedge, cedges, depth, deleted := del == "1", name, comment }
  | _ => none
def decArena (s : String) : Option AR.Arena :=
  if s == "_" then some #[] else ((s.splitOn "|").mapM decSlot).map List.toArray

/-! ### NW arena (lexeme lengths) <-> text, same slot layout; lengths are `h<hex lexeme>` -/
def lab (s : String) : NW.Label := s.toList
def unlab (l : NW.Label) : String := String.ofList l
def encOptLab (o : Option NW.Label) : String := encOptStr (o.map unlab)

def encPSlot (a : Array (NW.PNode NW.Label)) (n : NW.PNode NW.Label) : String :=
  let ce := n.children.filterMap (fun c => ((NW.nd a c).len).map (fun l => (c, l)))
  let ce := ce.toArray.qsort (fun x y => x.1 < y.1) |>.toList
  ",".intercalate ["0", encOptNat n.parent, toString n.depth, encOptLab n.len,
    encOptLab n.name, encOptLab n.comment, encNats n.children,
    " ".intercalate (ce.map (fun (c, e) => s!"{c}=h{hexEnc (unlab e)}"))]
def encPArena (a : Array (NW.PNode NW.Label)) : String :=
  if a.size = 0 then "_" else "|".intercalate (a.toList.map (encPSlot a))

/-- (deleted?, node) -/
def decPSlot (s : String) : Option (Bool × NW.PNode NW.Label) :=
  match s.splitOn "," with
  | [del, par, dep, pe, nm, cm, ch, _] => do
    let parent ← decOptNat par
    let depth ← dep.toNat?
    let len ← decOptStr pe
    let name ← decOptStr nm
    let comment ← decOptStr cm
    let children ← decNats ch
    pure (del == "1", { parent, children, len := len.map lab, depth, name := name.map lab, comment := comment.map lab })
  | _ => none
def decPArena (s : String) : Option (List (Bool × NW.PNode NW.Label)) :=
  if s == "_" then some [] else (s.splitOn "|").mapM decPSlot

/-! ### Rust `f64::from_str` recogniser (the codec's `parseLen` on lexemes): `NW.FloatTwin` of
    `PhyloModel/Newick/FloatLexeme.lean` — the SAME definitions the C02 theorem `reject_unbalanced_float` is about -/
open NW.FloatTwin

/-! ### exact value of a float lexeme (the codec's `numEq`/`isZero` on lexemes) -/
inductive FVal where | nan | inf (neg : Bool) | fin (r : Rat)

def digitsVal (ds : List Char) : Nat := ds.foldl (fun acc c => acc * 10 + (c.toNat - 48)) 0

def lexVal (s : List Char) : Option FVal :=
  if !isRustFloat s then none else
  let (neg, body) := match s with | '-' :: r => (true, r) | '+' :: r => (false, r) | r => (false, r)
  let lw := body.map lower
  if lw == "nan".toList then some .nan
  else if lw == "inf".toList || lw == "infinity".toList then some (.inf neg)
  else
    let (mant, ex) := match body.span (fun c => c != 'e' && c != 'E') with
      | (m, _ :: e) => (m, e)
      | (m, []) => (m, [])
    let (ip, fp) := match mant.span (· != '.') with
      | (i, _ :: f) => (i, f)
      | (i, []) => (i, [])
    let m : Nat := digitsVal (ip ++ fp)
    let (eneg, ed) := match ex with | '-' :: r => (true, r) | '+' :: r => (false, r) | r => (false, r)
    let e : Int := (if eneg then -1 else 1) * (digitsVal ed : Int) - fp.length
    let r : Rat := if e ≥ 0 then (m * 10 ^ e.toNat : Nat) else mkRat m (10 ^ (-e).toNat)
    some (.fin (if neg then -r else r))

def lexEq (a b : List Char) : Bool :=
  match lexVal a, lexVal b with
  | some (.fin x), some (.fin y) => x == y
  | some (.inf p), some (.inf q) => p == q
  | _, _ => false
def lexIsZero (a : List Char) : Bool := match lexVal a with | some (.fin x) => x == 0 | _ => false

def lexCodec : PHY.Codec (List Char) :=
  { showL := id, parseL := fun s => if isRustFloat s then some s else none, numEq := lexEq, isZero := lexIsZero, zero := ['0'] }

def encLexMat (m : MXS.Mat (List Char)) : String :=
  (if m.taxa.isEmpty then "_" else ",".intercalate (m.taxa.map hexEnc)) ++ " | " ++
  " ".intercalate (m.v.toList.map (fun l => "h" ++ hexEnc (String.ofList l)))

def encPRes {β : Type} (f : β → String) : PHY.PRes β → String
  | .ok v => "ok " ++ f v
  | .err k => "err " ++ k
  | .panic => "panic"

def decRat (s : String) : Option Rat :=
  match s.splitOn "/" with
  | [p] => p.toInt?.map (fun (i : Int) => (i : Rat))
  | [p, q] => do let p ← p.toInt?; let q ← q.toNat?; if q = 0 then none else pure (mkRat p q)
  | _ => none
def encRat (r : Rat) : String := if r.den = 1 then toString r.num else s!"{r.num}/{r.den}"

partial def encURose : UPG.URose → String
  | .node n l ks =>
    (if ks.isEmpty then "" else "(" ++ ",".intercalate (ks.map encURose) ++ ")") ++
    (match n with | some s => "h" ++ hexEnc s | none => "-") ++ ":" ++ (match l with | some r => encRat r | none => "-")

def fmtOfNat : Nat → Option FM.Fmt
  | 0 => some .allFields | 1 => some .topology | 2 => some .noComments | 3 => some .onlyNames
  | 4 => some .onlyLengths | 5 => some .leafLengthsAllNames | 6 => some .leafLengthsLeafNames
  | 7 => some .internalLengthsLeafNames | 8 => some .allLengthsLeafNames | _ => none

/-- `Tree::to_formatted_newick`: root = first live parentless slot (`get_root`), then `to_newick_impl` + `;` -/
def nwWriteRaw (f : FM.Fmt) (slots : List (Bool × NW.PNode NW.Label)) : Option (List Char) :=
  let a : Array (NW.PNode NW.Label) := (slots.map (·.2)).toArray
  let root := (List.range slots.length).find? (fun i =>
    match slots[i]? with
    | some (del, n) => !del && n.parent.isNone
    | none => false)
  match root with
  | none => none
  | some r => (NW.toNewickF (fun (l : NW.Label) => l) (a.size + 1) f a r).map (· ++ [';'])
def nwWrite (f : FM.Fmt) (slots : List (Bool × NW.PNode NW.Label)) : String :=
  match nwWriteRaw f slots with
  | some t => "ok " ++ hexEnc (String.ofList t)
  | none => "err"

/-! ### state and dispatch -/
structure DState where
  ar : AR.Arena := #[]
  ar2 : AR.Arena := #[]
  mx : MXS.Mat Int := { taxa := [], v := #[] }

def encOut : AR.Out → String
  | .ok none => "ok"
  | .ok (some i) => s!"ok {i}"
  | .err k => s!"err {k}"
  | .panic => "panic"
  | .diverge => "diverge"

def encQR {α : Type} (f : α → String) : AR.QR α → String
  | .ok v => "ok " ++ f v
  | .err k => "err " ++ k
  | .panic => "panic"

def encBool (b : Bool) : String := if b then "1" else "0"
/-- a rational always as `num/den` (lowest terms, `den > 0`; integers as `n/1`) -/
def encRatFull (r : Rat) : String := s!"{r.num}/{r.den}"

def decPairs : List Nat → Option (List (Nat × Nat))
  | [] => some []
  | [_] => none
  | x :: y :: r => (decPairs r).map ((x, y) :: ·)

def arQuery (a : AR.Arena) : List String → Option String
  | ["root"] => some (encQR toString (AR.root a))
  | ["leaves"] => some ("ok " ++ encNats (AR.leaves a))
  | ["n_leaves"] => some s!"ok {AR.nLeaves a}"
  | ["size"] => some s!"ok {AR.sizeOf a}"
  | ["leaf_names"] => some ("ok " ++ " ".intercalate ((AR.leafNames a).map encOptStr))
  | ["unique_tips"] => some (encQR encBool (AR.hasUniqueTipNames a))
  | ["sackin_yule"] => some (encQR encRatFull (AR.sackinYule a))
  | ["sackin_pda_sq"] => some (encQR encRatFull (AR.sackinPdaSq a))
  | ["colless_pda_sq"] => some (encQR encRatFull (AR.collessPdaSq a))
  | ["node", x] => x.toNat?.map fun x =>
      encQR (fun (r : Bool × Bool × Nat) => s!"{encBool r.1} {encBool r.2.1} {r.2.2}") (AR.nodeInfo a x)
  | ["child_edge", p, c] => do let p ← p.toNat?; let c ← c.toNat?; pure (encQR encOptInt (AR.childEdgeQ a p c))
  | ["subtree", x] => x.toNat?.map fun x => encQR encNats (AR.subtree a x)
  | ["preorder", x] => x.toNat?.map fun x => encQR encNats (AR.subtree a x)
  | ["descendants", x] => x.toNat?.map fun x => encQR encNats (AR.descendants a x)
  | ["subtree_leaves", x] => x.toNat?.map fun x => encQR encNats (AR.subtreeLeaves a x)
  | ["postorder", x] => x.toNat?.map fun x => encQR encNats (AR.postorder a x)
  | ["inorder", x] => x.toNat?.map fun x => encQR encNats (AR.inorder a x)
  | ["levelorder", x] => x.toNat?.map fun x => encQR encNats (AR.levelorderQ a x)
  | ["is_rooted"] => some (encQR encBool (AR.isRooted a))
  | ["is_binary"] => some (encQR encBool (AR.isBinary a))
  | ["path", x] => x.toNat?.map fun x => encQR encNats (AR.pathFromRoot a x)
  | ["lca", x, y] => do let x ← x.toNat?; let y ← y.toNat?; pure (encQR toString (AR.commonAncestorPub a x y))
  | ["dist", x, y] => do
    let x ← x.toNat?; let y ← y.toNat?
    pure (encQR (fun (d : Option Int × Nat) => s!"{encOptInt d.1} {d.2}") (AR.distancePub a x y))
  | ["height", u] => u.toInt?.map fun u => encQR toString (AR.treeHeight a u)
  | ["diameter", u] => u.toInt?.map fun u => encQR toString (AR.diameter a u)
  | ["length"] => some (encQR toString (AR.totalLength a))
  | ["cherries"] => some (encQR toString (AR.cherries a))
  | ["colless"] => some (encQR toString (AR.colless a))
  | ["sackin"] => some (encQR toString (AR.sackin a))
  | ["by_name", n] => (hexDec n).map fun n => "ok " ++ encOptNat (AR.getByName a n)
  | ["search", n] => (decOptStr n).map fun n => "ok " ++ encNats (AR.searchName a n)
  | _ => none

def encSide (all : List String) (s : SPM.Side) : String := ",".intercalate ((SPM.namesOf all s).map hexEnc)
def sortStr (l : List String) : List String := l.mergeSort (fun x y => decide (x ≤ y))

def spQuery (a b : AR.Arena) : List String → Option String
  | ["parts"] => some (encQR (fun (r : List String × List SPM.Part) => ";".intercalate (sortStr ((SPM.sides r.2).map (encSide r.1))))
      (SPM.partitionsArena a))
  | ["partlens"] => some (encQR (fun (r : List String × List SPM.Part) =>
      ";".intercalate (sortStr (r.2.map (fun p => encSide r.1 p.side ++ "=" ++ encOptInt p.len))))
      (SPM.partitionsArena a))
  | ["leafindex"] => some (encQR (fun l => ",".intercalate (l.map hexEnc)) (AR.absRoot a >>= SPM.leafIndex))
  | ["rf"] => some (encQR toString (do let s ← AR.absRoot a; let o ← AR.absRoot b; SPM.rf s o))
  | ["rfn"] => some (encQR (fun (p : Nat × Nat) => s!"{p.1} {p.2}") (do let s ← AR.absRoot a; let o ← AR.absRoot b; SPM.rfNorm s o))
  | ["wrf"] => some (encQR toString (do let s ← AR.absRoot a; let o ← AR.absRoot b; SPM.wrf s o))
  | ["kf2"] => some (encQR toString (do let s ← AR.absRoot a; let o ← AR.absRoot b; SPM.kf2 s o))
  | ["cmp"] => some (encQR (fun (p : Nat × Nat × Int × Int) => s!"{p.1} {p.2.1} {p.2.2.1} {p.2.2.2}")
      (do let s ← AR.absRoot a; let o ← AR.absRoot b; SPM.compareTopologies s o))
  | ["branches", t] =>
    let e1 (l : List (String × Int)) := ";".intercalate (sortStr (l.map (fun (k, v) => s!"{hexEnc k}={v}")))
    let e2 (l : List (String × Int × Int)) := ";".intercalate (sortStr (l.map (fun (k, v, w) => s!"{hexEnc k}={v}:{w}")))
    some (encQR (fun (r : List (String × Int) × List (String × Int) × List (String × Int × Int)) =>
      s!"{e1 r.1} / {e1 r.2.1} / {e2 r.2.2}")
      (do let s ← AR.absRoot a; let o ← AR.absRoot b; SPM.compareBranches s o (t == "1")))
  | _ => none

def encMRes {β : Type} (f : β → String) : MXS.Res β → String
  | .ok v => "ok " ++ f v
  | .err k => "err " ++ k
  | .panic => "panic"

def decTaxa (s : String) : Option (List String) :=
  if s == "_" then some [] else (s.splitOn ",").mapM hexDec
def decInts (s : String) : Option (List Int) :=
  if s == "_" then some [] else (words s).mapM String.toInt?

def mxQuery (m : MXS.Mat Int) : List String → Option String
  | ["get", a, b] => do
    let a ← hexDec a; let b ← hexDec b
    pure (encMRes toString (MXS.get (0 : Int) m a b))
  | ["min"] => some (match MXS.extremum (fun (x y : Int) => decide (x < y)) m with
      | some ((i, j), v) => s!"ok {i} {j} {v}" | none => "ok -")
  | ["max"] => some (match MXS.extremum (fun (x y : Int) => decide (x > y)) m with
      | some ((i, j), v) => s!"ok {i} {j} {v}" | none => "ok -")
  | ["iter"] => some ("ok " ++ " ".intercalate ((MXS.indexedIter m).map (fun ((i, j), v) => s!"{i},{j}={v}")))
  | ["tomap"] => some ("ok " ++ " ".intercalate (sortStr ((MXS.toMap (0 : Int) m).map
      (fun ((a, b), r) => s!"{hexEnc a},{hexEnc b}={encMRes toString r}"))))
  | ["tomapd"] => some ("ok " ++ " ".intercalate ((sortStr ((MXS.toMap (0 : Int) m).map
      (fun ((a, b), r) => s!"{hexEnc a},{hexEnc b}={encMRes toString r}"))).eraseDups))
  | ["idx", i, j] => do let i ← i.toNat?; let j ← j.toNat?; pure s!"ok {MX.cell i j}"
  | ["inv", k] => do let k ← k.toNat?; let p := MXS.invIdx k; pure s!"ok {p.1} {p.2}"
  | ["dump"] => some ("ok " ++ ",".intercalate (m.taxa.map hexEnc) ++ " | " ++ " ".intercalate (m.v.toList.map toString))
  | _ => none

def dispatch (st : DState) (fs : List String) : DState × String :=
  let bad := (st, "bad-op")
  match fs with
  | ["ar.load", s] => match decArena s with | some a => ({ st with ar := a }, "ok") | none => bad
  | ["ar.load2", s] => match decArena s with | some a => ({ st with ar2 := a }, "ok") | none => bad
  | ["ar.swap"] => ({ st with ar := st.ar2, ar2 := st.ar }, "ok")
  | "sp" :: q => match spQuery st.ar st.ar2 q with | some r => (st, r) | none => bad
  | ["nop"] => (st, "ok")
  | ["cli.collapse", thr, ex] => match thr.toInt? with
    | some thr => match AR.cliCollapse st.ar thr (ex == "1") with
      | .ok a => ({ st with ar := a }, "ok")
      | .err k => (st, "err " ++ k)
      | .panic => (st, "panic")
    | none => bad
  | ["cli.remove", names] => match decTaxa names with
    | some ns => match AR.cliRemove st.ar ns with
      | .ok a => ({ st with ar := a }, "ok")
      | .err k => (st, "err " ++ k)
      | .panic => (st, "panic")
    | none => bad
  | ["cli.stats", u] => match u.toInt? with
    | some u =>
      let r := CLIR.statsRow st.ar u
      let o {α : Type} (f : α → String) : Option α → String | none => "-" | some v => f v
      (st, s!"ok {o toString r.height} {o toString r.diameter} {r.nodes} {r.tips} {o encBool r.rooted} {o encBool r.binary} {o toString r.cherries} {o toString r.colless} {o toString r.sackin}")
    | none => bad
  | ["cli.distance", names] => match decTaxa names with
    | some ns =>
      (st, encQR (fun (rows : List (String × String × Int)) =>
        ";".intercalate (rows.map (fun r => s!"{hexEnc r.1}:{hexEnc r.2.1}:{r.2.2}"))) (CLIR.cliDistance st.ar ns))
    | none => bad
  | ["cli.compare"] =>
    (st, encQR (fun (r : CLIR.CompareRow) => s!"{r.1} {r.2.1} {r.2.2.1}") (CLIR.cliCompareRow st.ar st.ar2))
  | ["lay"] =>
    (st, encQR (fun (segs : List LAY.Seg) => " ".intercalate (segs.map (fun s =>
        s!"{s.parent},{s.id},{encRat s.angle},{encRat s.start},{encRat s.width},{encOptInt s.len},{encOptStr s.name}")))
      (AR.absRoot st.ar >>= LAY.radial))
  | "gen" :: q =>
    let encSt (s : GEN.St) (names : List (Nat × Nat)) : String :=
      "ok " ++ " ".intercalate ((List.range s.size).map (fun i => s!"{i}:" ++ ",".intercalate ((s.kids i).map toString))) ++
      " | " ++ " ".intercalate ((names.toArray.qsort (fun a b => a.1 < b.1)).toList.map (fun (i, k) => s!"{i}={k}"))
    match q with
    | ["ete3", bits] =>
      match GEN.runG GEN.init (bits.toList.map (· == '1')) with
      | some s => (st, encSt s (GEN.namesByDeque s))
      | none => (st, "panic")
    | ["yule", ks] =>
      match decNats ks with
      | some ks => match GEN.runY GEN.init ks with
        | some s => (st, encSt s (GEN.namesByArena s))
        | none => (st, "bad-oracle")
      | none => bad
    | ["cat", n] =>
      match n.toNat? with
      | some n => (st, "ok " ++ " ".intercalate ((GEN.caterpillar n).map (fun (p, t) => s!"{p}:{encOptNat t}")))
      | none => bad
    | _ => bad
  | ["up.run", taxa, cells] =>
    match decTaxa taxa, (if cells == "_" then some [] else (words cells).mapM decRat) with
    | some t, some c =>
      match UPG.upgmaC t c.toArray with
      | .ok (r, m, tie, dy) => (st, s!"ok {encURose r} {match m with | some g => encRat g | none => "-"} {encBool tie} {encBool dy}")
      | .err k => (st, "err " ++ k)
      | .panic => (st, "panic")
    | _, _ => bad
  | ["up.shape", taxa, cells] =>
    -- the arena `upgma()` builds through `add` / `add_child` / `merge_children`, every length replaced by 0; `ar.dump` layout
    match decTaxa taxa, (if cells == "_" then some [] else (words cells).mapM decRat) with
    | some t, some c =>
      match UPG.upgmaShape t c.toArray with
      | .ok a => (st, "ok " ++ encArena a)
      | .err k => (st, "err " ++ k)
      | .panic => (st, "panic")
    | _, _ => bad
  | "dm" :: q =>
    let enc (r : List String × List Int) : String :=
      (if r.1.isEmpty then "_" else ",".intercalate (r.1.map hexEnc)) ++ " | " ++ " ".intercalate (r.2.map toString)
    match q with
    | ["fast", u] => match u.toInt? with | some u => (st, encQR enc (DMF.dmFast st.ar u)) | none => bad
    | ["rose", u] => match u.toInt? with | some u => (st, encQR enc (DMF.dmRose st.ar u)) | none => bad
    | ["rec"] => (st, encQR enc (DMF.dmRecWalk st.ar))
    | _ => bad
  | ["ph.parse", entry, hx] => match hexDec hx with
    | some text =>
      let r := match entry with
        | "tril" => some (PHY.fromPhylipTril lexCodec text.toList)
        | "strict-square" => some (PHY.fromPhylipStrict lexCodec text.toList true)
        | "strict-tril" => some (PHY.fromPhylipStrict lexCodec text.toList false)
        | _ => none
      match r with
      | some r => (st, encPRes encLexMat r)
      | none => bad
    | none => bad
  | ["ph.write", sq, taxa, cells] =>
    -- cells: space-separated `h<hex lexeme>`
    match decTaxa taxa, (if cells == "_" then some [] else (words cells).mapM (fun w => (decOptStr w).bind id)) with
    | some t, some c =>
      let m : MXS.Mat (List Char) := { taxa := t, v := (c.map String.toList).toArray }
      (st, "ok " ++ hexEnc (String.ofList (PHY.toPhylip lexCodec m (sq == "1"))))
    | _, _ => bad
  | ["mx.new", taxa, cells] => match decTaxa taxa, decInts cells with
    | some t, some c => ({ st with mx := { taxa := t, v := c.toArray } }, "ok")
    | _, _ => bad
  | ["mx.set", a, b, v] => match hexDec a, hexDec b, v.toInt? with
    | some a, some b, some v =>
      let (m, r) := MXS.set (fun (x : Int) => x == 0) st.mx a b v
      ({ st with mx := m }, encMRes (fun _ => "") r)
    | _, _, _ => bad
  | ["mx.settaxa", taxa] => match decTaxa taxa with
    | some t =>
      let (m, r) := MXS.setTaxa st.mx t
      ({ st with mx := m }, encMRes (fun _ => "") r)
    | none => bad
  | "mx" :: q => match mxQuery st.mx q with | some r => (st, r) | none => bad
  | ["ar.dump"] => (st, encArena st.ar)
  | ["ar.inv"] => (st, s!"{encBool (AR.checkInv st.ar)} {(AR.liveRoots st.ar).length}")
  | ["ar.add", n] => match decOptStr n with
    | some n => let (a, id) := AR.add st.ar n; ({ st with ar := a }, s!"ok {id}")
    | none => bad
  | ["ar.add_child", p, e, n] =>
    match p.toNat?, decOptInt e, decOptStr n with
    | some p, some e, some n => let (a, o) := AR.addChildNamed st.ar p e n; ({ st with ar := a }, encOut o)
    | _, _, _ => bad
  | ["ar.add_copy", src, p, e] =>
    match src.toNat?, p.toNat?, decOptInt e with
    | some src, some p, some e => let (a, o) := AR.addCopy st.ar src p e; ({ st with ar := a }, encOut o)
    | _, _, _ => bad
  | ["ar.setlen", x, l] =>
    match x.toNat?, l.toInt? with
    | some x, some l => let (a, o) := AR.setLenOp st.ar x l; ({ st with ar := a }, encOut o)
    | _, _ => bad
  | ["ar.setname", x, n] => match x.toNat?, decOptStr n with
    | some x, some n =>
      -- in-place edit of the payload through `get_mut` (refused for a removed or unknown id)
      if AR.isLive st.ar x then ({ st with ar := AR.setName st.ar x n }, "ok") else (st, "err NodeNotFound")
    | _, _ => bad
  | ["ar.prune", x] => match x.toNat? with
    | some x => let (a, o) := AR.prune st.ar x; ({ st with ar := a }, encOut o)
    | none => bad
  | ["ar.compress"] => let (a, o) := AR.compress st.ar; ({ st with ar := a }, encOut o)
  | ["ar.rescale", k] => match k.toInt? with
    | some k => ({ st with ar := AR.rescale st.ar k }, "ok")
    | none => bad
  | ["ar.resolve", ps] => match (decNats ps).bind decPairs with
    | some picks => match AR.resolve st.ar picks with
      | some a => ({ st with ar := a }, "ok")
      | none => (st, "bad-oracle")
    | none => bad
  | ["ar.resolve_rounds"] => (st, s!"ok {AR.resolveRounds st.ar}")
  | ["ar.ladderize"] => let (a, o) := AR.ladderize st.ar; ({ st with ar := a }, encOut o)
  | ["ar.reset_depths"] => let (a, o) := AR.resetDepths st.ar; ({ st with ar := a }, encOut o)
  | ["ar.merge", c1, c2, e1, e2, pe, n] =>
    match c1.toNat?, c2.toNat?, decOptInt e1, decOptInt e2, decOptInt pe, decOptStr n with
    | some c1, some c2, some e1, some e2, some pe, some n =>
      let (a, o) := AR.mergeChildren st.ar c1 c2 e1 e2 pe n; ({ st with ar := a }, encOut o)
    | _, _, _, _, _, _ => bad
  | "ar.q" :: q => match arQuery st.ar q with | some r => (st, r) | none => bad
  | ["nw.parse", hx] => match hexDec hx with
    | some s => match NW.parse parseLex s.toList with
      | .done a => (st, "ok " ++ encPArena a)
      | .err e => (st, s!"err {repr e}")
      | .panic => (st, "panic")
      | .cont _ => (st, "cont")
    | none => bad
  | ["nw.write", f, ar] =>
    match f.toNat?.bind fmtOfNat, decPArena ar with
    | some f, some slots => (st, nwWrite f slots)
    | _, _ => bad
  | ["nw.nexus", ar] =>
    match decPArena ar with
    | some slots =>
      match nwWriteRaw .allFields slots with
      | some t => (st, "ok " ++ hexEnc (String.ofList (NW.nexus slots t)))
      | none => (st, "err")
    | none => bad
  | _ => bad

partial def loop (h : IO.FS.Stream) (out : IO.FS.Stream) (st : DState) : IO Unit := do
  let line ← h.getLine
  if line.isEmpty then return ()
  let line := if line.back == '\n' then line.dropRight 1 else line
  let (st', ans) := dispatch st (line.splitOn "\t")
  out.putStrLn ans
  out.flush
  loop h out st'

def main : IO Unit := do
  loop (← IO.getStdin) (← IO.getStdout) {}
