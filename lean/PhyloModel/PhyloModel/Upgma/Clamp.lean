import PhyloModel.Matrix.UpgmaClamp
import PhyloModel.Upgma.LoopInv
/-! # C15 — the clamped UPGMA model (`UPG.upgmaC`, the repaired crate) against the unclamped one

On the domain of the master theorem (two or more taxa, a triangular vector of the right size, non-negative
entries) the monotone-heights invariant makes every clamped difference non-negative, so the clamp is the
identity and `upgmaC = upgma` (`upgmaC_eq_upgma`). -/
namespace UPG
open MX Tri MXS

theorem nonNeg_of_nonneg {x : Rat} (h : 0 ≤ x) : nonNeg x = x := by
  unfold nonNeg
  split
  · next hlt => exact absurd hlt (Rat.not_lt.mpr h)
  · rfl

theorem nonNeg_nonneg (x : Rat) : 0 ≤ nonNeg x := by
  unfold nonNeg
  split
  · exact Rat.le_refl
  · next h => exact Rat.not_lt.mp h

/-- one clamped iteration equals the unclamped one when the chosen minimum's half is at least both heights -/
theorem stepC_eq_step_of (st : St) (a b : Nat) (dab : Rat) (hmin : minCell st.dm = some ((a, b), some dab))
    (h1 : 0 ≤ dab / 2 - st.heights.getD a 0) (h2 : 0 ≤ dab / 2 - st.heights.getD b 0) : stepC st = step st := by
  have e1 := nonNeg_of_nonneg h1
  have e2 := nonNeg_of_nonneg h2
  have e3 : st.heights.getD a 0 + (dab / 2 - st.heights.getD a 0) = dab / 2 := by grind
  unfold stepC step
  rw [hmin]
  simp only [e1, e2, e3]
  rfl

/-- under the loop invariant, with more than two clusters left, a clamped iteration is the unclamped iteration -/
theorem stepC_eq_step {d0 : Nat → Nat → Rat} (hd : ∀ x y, d0 x y = d0 y x) {n : Nat} {st : St} {mem : Nat → List Nat}
    (hI : LInv d0 n st mem) (hgt : 2 < st.nClusters) : stepC st = step st := by
  obtain ⟨st1, hs⟩ := step_total hI.wf (by rw [← hI.wf.ncl]; omega)
  obtain ⟨a, b, dab, s⟩ := step_spec hI.wf hs
  obtain ⟨_, h1, h2⟩ := s.linv hd hI hgt
  exact stepC_eq_step_of st a b dab s.mc h1 h2

/-- under the loop invariant the clamped loop is the unclamped loop -/
theorem loopC_eq_loop {d0 : Nat → Nat → Rat} (hd : ∀ x y, d0 x y = d0 y x) (n : Nat) :
    ∀ (f : Nat) (st : St) (mem : Nat → List Nat), LInv d0 n st mem → loopC f st = loop f st := by
  intro f
  induction f with
  | zero => intro st mem _; rfl
  | succ f ih =>
    intro st mem hI
    by_cases hgt : st.nClusters > 2
    · obtain ⟨st1, hs⟩ := step_total hI.wf (by rw [← hI.wf.ncl]; omega)
      obtain ⟨a, b, dab, s⟩ := step_spec hI.wf hs
      obtain ⟨hI1, h1, h2⟩ := s.linv hd hI hgt
      have hsc : stepC st = .ok st1 := by rw [stepC_eq_step_of st a b dab s.mc h1 h2]; exact hs
      simp only [loopC, loop, hgt, ↓reduceIte, hs, hsc]
      exact ih st1 _ hI1
    · simp only [loopC, loop, hgt, ↓reduceIte]

/-- the two children of the root as the clamped final join leaves them -/
def finalKidC (st : St) (ai bi : Nat) (h : Rat) (i : Nat) : URose :=
  let t := st.clusters.getD i default
  if i == ai then t.setLen (some (nonNeg (h - st.heights.getD ai 0)))
  else if i == bi then t.setLen (some (nonNeg (h - st.heights.getD bi 0))) else t

theorem upgmaC_ok_of (taxa : List String) (v : Array Rat) (st : St) (ai bi : Nat) (rest : List Nat) (dab : Rat)
    (hl : loopC taxa.length (initSt taxa v) = .ok st)
    (hact : (List.range taxa.length).filter (fun i => !(st.merged.getD i true)) = ai :: bi :: rest)
    (hd : st.dm.getD (cell ai bi) none = some dab) :
    upgmaC taxa v = .ok (.node none none (st.rootKids.map (finalKidC st ai bi (dab / 2))), st.margin, st.tie,
      st.dyadic && isDyadic (dab / 2)) := by
  unfold upgmaC
  simp only
  unfold initSt at hl
  rw [hl]
  simp only
  rw [hact]
  simp only
  rw [hd]
  rfl

theorem finalKidC_eq (st : St) (ai bi : Nat) (h : Rat) (h1 : 0 ≤ h - st.heights.getD ai 0)
    (h2 : 0 ≤ h - st.heights.getD bi 0) : finalKidC st ai bi h = finalKid st ai bi h := by
  funext i
  unfold finalKidC finalKid
  rw [nonNeg_of_nonneg h1, nonNeg_of_nonneg h2]

/-- **The clamp is the identity on the domain of the master theorem.**  On two or more taxa, for a triangular
    vector of the right size with non-negative entries, the repaired `upgma` (clamped branch lengths) returns
    exactly what the original one returns. -/
theorem upgmaC_eq_upgma (taxa : List String) (v : Array Rat) (h2 : 2 ≤ taxa.length) (hv : v.size = T taxa.length)
    (hpos : ∀ k, k < v.size → 0 ≤ v.getD k 0) : upgmaC taxa v = upgma taxa v := by
  have hI0 := init_linv taxa v hv h2 hpos
  obtain ⟨st, mem, hl, hI, _, hfin⟩ := loop_inv (d0of_symm v) qmerge_nonneg taxa.length taxa.length (initSt taxa v) _
    hI0 (init_cinv taxa v (by intro i _ x hx; rw [brLens_leaf] at hx; cases hx))
  have hn2 : st.nClusters = 2 := hfin (by simp [initSt])
  have hlc : loopC taxa.length (initSt taxa v) = .ok st := by
    rw [loopC_eq_loop (d0of_symm v) taxa.length taxa.length _ _ hI0]; exact hl
  obtain ⟨k1, k2, dab, hne, hk1, hk2, hall, _, _, hdab, g1, g2, _, _⟩ := final_join taxa v st mem hl hI hn2
  have hmem : ∀ i, i ∈ actOf taxa.length st ↔ i = k1 ∨ i = k2 := by
    intro i
    constructor
    · exact hall i
    · rintro (e | e) <;> subst e <;> assumption
  rcases two_of_nodup (actOf_nodup taxa.length st) hmem hne with hact | hact
  · rw [upgmaC_ok_of taxa v st k1 k2 [] dab hlc hact hdab, upgma_ok_of taxa v st k1 k2 [] dab hl hact hdab,
      finalKidC_eq st k1 k2 (dab / 2) g1 g2]
  · have hdba : st.dm.getD (cell k2 k1) none = some dab := by rw [cell_symm k2 k1 (Ne.symm hne)]; exact hdab
    rw [upgmaC_ok_of taxa v st k2 k1 [] dab hlc hact hdba, upgma_ok_of taxa v st k2 k1 [] dab hl hact hdba,
      finalKidC_eq st k2 k1 (dab / 2) g2 g1]

end UPG
