import PhyloModel.Upgma.RefineDm
/-! # C15 — one iteration of the executable UPGMA loop refines the abstract agglomeration step

`absSt` abstracts an executable state `UPG.St` to the abstract `UP.St` (ghost member lists are carried as a
parameter); `WFSt` is the representation invariant.  Main results: `step_spec` (everything one successful
iteration does, cell by cell), `step_min` (the chosen pair is a pair of distinct live indices of minimal
distance), `step_wf` (the invariant is kept), `step_agree` (the new state abstracts to `UP.merge` of the old
abstraction on all live data), `step_total` (with two or more live clusters the iteration cannot fail). -/
namespace UPG
open MX Tri MXS

/-- live indices, in increasing order -/
def actOf (n : Nat) (st : St) : List Nat := (List.range n).filter (fun i => !(st.merged.getD i true))

/-- distance currently stored for the pair `{i, j}` (`0` stands for an infinite cell; live cells are finite) -/
def Dof (st : St) (i j : Nat) : Rat := (st.dm.getD (cell i j) none).getD 0

/-- abstraction to the mathematical agglomeration state; `mem` is the ghost member list of each index -/
def absSt (n : Nat) (st : St) (mem : Nat → List Nat) : UP.St :=
  { act := actOf n st, D := Dof st, mem := mem, h := fun i => st.heights.getD i 0 }

theorem mem_actOf {n : Nat} {st : St} {i : Nat} : i ∈ actOf n st ↔ i < n ∧ st.merged.getD i true = false := by
  simp [actOf]

theorem actOf_nodup (n : Nat) (st : St) : (actOf n st).Nodup :=
  List.Nodup.sublist List.filter_sublist List.nodup_range

/-- representation invariant of the executable state on `n` taxa -/
structure WFSt (n : Nat) (st : St) (mem : Nat → List Nat) : Prop where
  szM : st.merged.size = n
  szD : st.dm.size = T n
  szC : st.card.size = n
  szH : st.heights.size = n
  szK : st.clusters.size = n
  /-- cells between two live indices are finite -/
  fin : ∀ i j, i < n → j < n → i ≠ j → st.merged.getD i true = false → st.merged.getD j true = false →
    ∃ v, st.dm.getD (cell i j) none = some v
  /-- cells touching a retired index are infinite -/
  dead : ∀ i j, i < n → j < n → i ≠ j → st.merged.getD i true = true → st.dm.getD (cell i j) none = none
  card : ∀ i, i < n → st.merged.getD i true = false → st.card.getD i 0 = (mem i).length
  ncl : st.nClusters = (actOf n st).length
  rkN : st.rootKids.Nodup
  rkM : ∀ i, i ∈ st.rootKids ↔ i ∈ actOf n st

theorem live_lt {n : Nat} {st : St} {mem} (h : WFSt n st mem) {i : Nat} (hi : st.merged.getD i true = false) : i < n := by
  rw [← h.szM]
  exact getD_lt_of_ne st.merged i true (by rw [hi]; simp)

/-- the matrix written by one iteration, cell by cell -/
theorem stepDm_get {n : Nat} {st : St} {mem} (h : WFSt n st mem) (a b : Nat) (hab : a ≠ b) (ha : a < n) (hb : b < n) :
    (stepDm st a b).size = T n ∧ ∀ i j, i < n → j < n → i ≠ j →
      (stepDm st a b).getD (cell i j) none =
        if (i = b ∧ st.merged.getD j true = false) ∨ (j = b ∧ st.merged.getD i true = false) then none
        else if i = a ∧ st.merged.getD j true = false ∧ j ≠ b then
          newCell st.dm (st.card.getD a 0 : Nat) (st.card.getD b 0 : Nat) a b j
        else if j = a ∧ st.merged.getD i true = false ∧ i ≠ b then
          newCell st.dm (st.card.getD a 0 : Nat) (st.card.getD b 0 : Nat) a b i
        else st.dm.getD (cell i j) none := by
  have key := dmFold_get st.dm (st.merged.setIfInBounds b true) (st.card.getD a 0 : Nat) (st.card.getD b 0 : Nat)
    a b n hab h.szD ha hb n (Nat.le_refl n)
  unfold stepDm
  rw [h.szM]
  refine ⟨key.1, ?_⟩
  intro i j hi hj hij
  rw [key.2 i j hi hj hij]
  have hbs : b < st.merged.size := by rw [h.szM]; exact hb
  simp only [getD_set, hbs, and_true]
  obtain ⟨lv, hlv⟩ : ∃ lv : Nat → Bool, ∀ x, st.merged.getD x true = lv x := ⟨fun x => st.merged.getD x true, fun _ => rfl⟩
  simp only [hlv]
  generalize st.dm.getD (cell i j) none = o
  generalize newCell st.dm _ _ a b = nc
  grind

/-- everything a successful iteration does: it picks the pair `(a, b)` with `b < a` at stored distance `dab` -/
structure Stepped (n : Nat) (st st' : St) (a b : Nat) (dab : Rat) : Prop where
  lt : b < a
  an : a < n
  la : st.merged.getD a true = false
  lb : st.merged.getD b true = false
  hd : st.dm.getD (cell a b) none = some dab
  /-- `(a, b)` at distance `dab` is what `DistanceMatrix::min` returned -/
  mc : minCell st.dm = some ((a, b), some dab)
  min : ∀ j k, st.merged.getD j true = false → st.merged.getD k true = false → j ≠ k → dab ≤ Dof st j k
  dm : st'.dm = stepDm st a b
  merged : st'.merged = st.merged.setIfInBounds b true
  heights : st'.heights = st.heights.setIfInBounds a (dab / 2)
  card : st'.card = st.card.setIfInBounds a (st.card.getD a 0 + st.card.getD b 0)
  clusters : st'.clusters = st.clusters.setIfInBounds a (mergeTrees (st.clusters.getD a default)
    (st.clusters.getD b default) (dab / 2 - st.heights.getD a 0) (dab / 2 - st.heights.getD b 0))
  rootKids : st'.rootKids = ((st.rootKids.erase a).erase b) ++ [a]
  nClusters : st'.nClusters = st.nClusters - 1

theorem step_spec {n : Nat} {st st' : St} {mem} (h : WFSt n st mem) (hs : step st = .ok st') :
    ∃ a b dab, Stepped n st st' a b dab := by
  obtain ⟨a, b, dab, hmin, hla, hlb, r1, r2, r3, r4, r5, r6, r7⟩ := step_ok_fields st st' hs
  have hpos : 0 < st.dm.size := by
    apply Classical.byContradiction; intro hc
    rw [minCell_none st.dm (by omega)] at hmin
    cases hmin
  obtain ⟨k, hk, hk2, hkmin⟩ := minCell_spec st.dm hpos
  rw [hmin] at hk2
  injection hk2 with hk2
  injection hk2 with hk3 hk4
  obtain ⟨g1, g2⟩ := invIdx_spec k
  rw [← hk3] at g1 g2
  simp only at g1 g2
  have han : a < n := by
    have := invIdx_lt n k (by rw [← h.szD]; exact hk)
    rw [← hk3] at this; exact this
  have hcell : cell a b = k := by simp only [cell, g1, ↓reduceIte]; exact g2
  refine ⟨a, b, dab, ⟨g1, han, hla, hlb, by rw [hcell, ← hk4], hmin, ?_, r1, r2, r3, r4, r5, r6, r7⟩⟩
  intro j k' hj hk' hjk
  have hjn := live_lt h hj
  have hkn := live_lt h hk'
  obtain ⟨v, hv⟩ := h.fin j k' hjn hkn hjk hj hk'
  have hlt := hkmin (cell j k') (by rw [h.szD]; exact cell_lt hjk hjn hkn)
  rw [← hk4, hv] at hlt
  simp only [cellLt, decide_eq_false_iff_not] at hlt
  simp only [Dof, hv, Option.getD_some]
  exact Rat.not_lt.mp hlt

/-- ghost member lists after merging `b` into `a` -/
def memAfter (mem : Nat → List Nat) (a b : Nat) : Nat → List Nat := fun i => if i = a then mem a ++ mem b else mem i

theorem memAfter_eq (n : Nat) (st : St) (mem : Nat → List Nat) (a b : Nat) :
    memAfter mem a b = (UP.merge (absSt n st mem) a b).mem := rfl

theorem Stepped.live' {n : Nat} {st st' : St} {mem} {a b : Nat} {dab : Rat} (h : WFSt n st mem)
    (s : Stepped n st st' a b dab) (i : Nat) :
    st'.merged.getD i true = false ↔ (st.merged.getD i true = false ∧ i ≠ b) := by
  have hb : b < st.merged.size := by rw [h.szM]; have := s.lt; have := s.an; omega
  rw [s.merged, getD_set]
  simp only [hb, and_true]
  by_cases hib : b = i
  · subst hib; simp
  · simp [hib]; intro _; exact fun e => hib e.symm

theorem Stepped.act' {n : Nat} {st st' : St} {mem} {a b : Nat} {dab : Rat} (h : WFSt n st mem)
    (s : Stepped n st st' a b dab) : actOf n st' = (actOf n st).erase b := by
  rw [List.Nodup.erase_eq_filter (actOf_nodup n st)]
  simp only [actOf, List.filter_filter]
  apply List.filter_congr
  intro i _
  have := s.live' h i
  cases h1 : st'.merged.getD i true <;> cases h2 : st.merged.getD i true <;> simp_all

/-- the representation invariant is kept by a successful iteration -/
theorem Stepped.wf {n : Nat} {st st' : St} {mem} {a b : Nat} {dab : Rat} (h : WFSt n st mem)
    (s : Stepped n st st' a b dab) : WFSt n st' (memAfter mem a b) := by
  have hab : a ≠ b := by have := s.lt; omega
  have hbn : b < n := by have := s.lt; have := s.an; omega
  obtain ⟨hsz, hget⟩ := stepDm_get h a b hab s.an hbn
  have hlive := s.live' h
  have hact := s.act' h
  constructor
  · rw [s.merged, Array.size_setIfInBounds, h.szM]
  · rw [s.dm, hsz]
  · rw [s.card, Array.size_setIfInBounds, h.szC]
  · rw [s.heights, Array.size_setIfInBounds, h.szH]
  · rw [s.clusters, Array.size_setIfInBounds, h.szK]
  · -- live cells finite
    intro i j hi hj hij hli hlj
    obtain ⟨hli1, hib⟩ := (hlive i).1 hli
    obtain ⟨hlj1, hjb⟩ := (hlive j).1 hlj
    rw [s.dm, hget i j hi hj hij]
    have c1 : ¬ ((i = b ∧ st.merged.getD j true = false) ∨ (j = b ∧ st.merged.getD i true = false)) := by
      rintro (⟨e, _⟩ | ⟨e, _⟩)
      · exact hib e
      · exact hjb e
    rw [if_neg c1]
    have hnew : ∀ x, x < n → x ≠ a → x ≠ b → st.merged.getD x true = false →
        ∃ v, newCell st.dm (st.card.getD a 0 : Nat) (st.card.getD b 0 : Nat) a b x = some v := by
      intro x hx hxa hxb hlx
      obtain ⟨v1, hv1⟩ := h.fin x a hx s.an hxa hlx s.la
      obtain ⟨v2, hv2⟩ := h.fin x b hx hbn hxb hlx s.lb
      simp only [newCell, hv1, hv2]
      exact ⟨_, rfl⟩
    by_cases hia : i = a
    · have hja : j ≠ a := fun e => hij (hia.trans e.symm)
      rw [if_pos ⟨hia, hlj1, hjb⟩]
      exact hnew j hj hja hjb hlj1
    · rw [if_neg (fun e => hia e.1)]
      by_cases hja : j = a
      · rw [if_pos ⟨hja, hli1, hib⟩]
        exact hnew i hi hia hib hli1
      · rw [if_neg (fun e => hja e.1)]
        exact h.fin i j hi hj hij hli1 hlj1
  · -- retired cells infinite
    intro i j hi hj hij hdi
    rw [s.dm, hget i j hi hj hij]
    have hdi' : ¬ (st.merged.getD i true = false ∧ i ≠ b) := by
      intro e; have := (hlive i).2 e; rw [this] at hdi; cases hdi
    by_cases hib : i = b
    · by_cases hlj : st.merged.getD j true = false
      · rw [if_pos (Or.inl ⟨hib, hlj⟩)]
      · have hdj : st.merged.getD j true = true := by simpa using hlj
        have hold : st.dm.getD (cell i j) none = none := by
          rw [cell_symm i j hij]; exact h.dead j i hj hi (Ne.symm hij) hdj
        split
        · rfl
        · split
          · next hc => exact absurd hc.2.1 hlj
          · split
            · next hc => rw [hc.1] at hdj; rw [s.la] at hdj; cases hdj
            · exact hold
    · have hdi1 : st.merged.getD i true = true := by
        cases hx : st.merged.getD i true
        · exact absurd ⟨hx, hib⟩ hdi'
        · rfl
      have hold := h.dead i j hi hj hij hdi1
      split
      · rfl
      · split
        · next hc => rw [hc.1] at hdi1; rw [s.la] at hdi1; cases hdi1
        · split
          · next hc => rw [hc.2.1] at hdi1; cases hdi1
          · exact hold
  · -- cardinalities
    intro i hi hli
    obtain ⟨hli1, hib⟩ := (hlive i).1 hli
    rw [s.card, getD_set, h.szC]
    simp only [memAfter]
    by_cases hia : a = i
    · subst hia
      simp only [hi, and_self, ↓reduceIte, List.length_append]
      rw [h.card a s.an s.la, h.card b hbn s.lb]
    · have hia' : i ≠ a := fun e => hia e.symm
      simp only [hia, false_and, ↓reduceIte, hia']
      exact h.card i hi hli1
  · rw [s.nClusters, hact, h.ncl, List.length_erase_of_mem (mem_actOf.2 ⟨hbn, s.lb⟩)]
  · rw [s.rootKids]
    have h1 : ((st.rootKids.erase a).erase b).Nodup := (h.rkN.erase a).erase b
    apply List.nodup_append.2
    refine ⟨h1, by simp, ?_⟩
    intro x hx y hy
    simp only [List.mem_singleton] at hy
    subst hy
    intro e; subst e
    have := (List.Nodup.mem_erase_iff (h.rkN.erase x)).1 hx
    exact (List.Nodup.mem_erase_iff h.rkN).1 this.2 |>.1 rfl
  · intro i
    rw [s.rootKids, hact, List.mem_append, List.Nodup.mem_erase_iff (h.rkN.erase a), List.Nodup.mem_erase_iff h.rkN,
      List.Nodup.mem_erase_iff (actOf_nodup n st), h.rkM, List.mem_singleton]
    have haa : a ∈ actOf n st := mem_actOf.2 ⟨s.an, s.la⟩
    constructor
    · rintro (⟨h1, h2, h3⟩ | h1)
      · exact ⟨h1, h3⟩
      · subst h1; exact ⟨hab, haa⟩
    · rintro ⟨h1, h2⟩
      by_cases hia : i = a
      · exact Or.inr hia
      · exact Or.inl ⟨h1, hia, h2⟩

/-- two abstract states carry the same live data -/
structure Agree (s t : UP.St) : Prop where
  act : s.act = t.act
  D : ∀ i j, i ∈ t.act → j ∈ t.act → i ≠ j → s.D i j = t.D i j
  mem : ∀ i, i ∈ t.act → s.mem i = t.mem i
  h : ∀ i, i ∈ t.act → s.h i = t.h i

theorem Agree.link (d0 : Nat → Nat → Rat) {s t : UP.St} (ag : Agree s t) (hl : UP.Link d0 t) : UP.Link d0 s := by
  constructor
  · rw [ag.act]; exact hl.nodup
  · intro i hi; rw [ag.act] at hi; rw [ag.mem i hi]; exact hl.ne i hi
  · intro i j hi hj
    rw [ag.act] at hi hj
    by_cases hij : i = j
    · subst hij; rfl
    · rw [ag.D i j hi hj hij, ag.D j i hj hi (Ne.symm hij)]; exact hl.symm i j hi hj
  · intro i j hi hj hij
    rw [ag.act] at hi hj
    rw [ag.D i j hi hj hij, ag.mem i hi, ag.mem j hj]; exact hl.avg i j hi hj hij

theorem Agree.mono {s t : UP.St} (ag : Agree s t) (hm : UP.Mono t) : UP.Mono s := by
  intro i j k hi hj hk hjk
  rw [ag.act] at hi hj hk
  rw [ag.h i hi, ag.D j k hj hk hjk]; exact hm i j k hi hj hk hjk

/-- the chosen pair: two distinct live indices whose stored distance no live pair undercuts -/
theorem Stepped.min_act {n : Nat} {st st' : St} {mem} {a b : Nat} {dab : Rat} (_h : WFSt n st mem)
    (s : Stepped n st st' a b dab) :
    a ∈ actOf n st ∧ b ∈ actOf n st ∧ a ≠ b ∧ Dof st a b = dab ∧
      ∀ j k, j ∈ actOf n st → k ∈ actOf n st → j ≠ k → Dof st a b ≤ Dof st j k := by
  have hab : a ≠ b := by have := s.lt; omega
  have hbn : b < n := by have := s.lt; have := s.an; omega
  have hD : Dof st a b = dab := by simp [Dof, s.hd]
  refine ⟨mem_actOf.2 ⟨s.an, s.la⟩, mem_actOf.2 ⟨hbn, s.lb⟩, hab, hD, ?_⟩
  intro j k hj hk hjk
  rw [hD]
  exact s.min j k (mem_actOf.1 hj).2 (mem_actOf.1 hk).2 hjk

/-- the new executable state abstracts to `UP.merge` of the old abstraction, on all live data -/
theorem Stepped.agree {n : Nat} {st st' : St} {mem} {a b : Nat} {dab : Rat} (h : WFSt n st mem)
    (s : Stepped n st st' a b dab) :
    Agree (absSt n st' (memAfter mem a b)) (UP.merge (absSt n st mem) a b) := by
  have hab : a ≠ b := by have := s.lt; omega
  have hbn : b < n := by have := s.lt; have := s.an; omega
  obtain ⟨hsz, hget⟩ := stepDm_get h a b hab s.an hbn
  have hmemact : ∀ i, i ∈ (UP.merge (absSt n st mem) a b).act ↔ (i < n ∧ st.merged.getD i true = false ∧ i ≠ b) := by
    intro i
    show i ∈ (actOf n st).erase b ↔ _
    rw [List.Nodup.mem_erase_iff (actOf_nodup n st), mem_actOf]
    constructor
    · rintro ⟨h1, h2, h3⟩; exact ⟨h2, h3, h1⟩
    · rintro ⟨h1, h2, h3⟩; exact ⟨h3, h1, h2⟩
  constructor
  · exact s.act' h
  · intro i j hi hj hij
    obtain ⟨hin, hli, hib⟩ := (hmemact i).1 hi
    obtain ⟨hjn, hlj, hjb⟩ := (hmemact j).1 hj
    show Dof st' i j = _
    simp only [UP.merge, absSt]
    have c1 : ¬ ((i = b ∧ st.merged.getD j true = false) ∨ (j = b ∧ st.merged.getD i true = false)) := by
      rintro (⟨e, _⟩ | ⟨e, _⟩)
      · exact hib e
      · exact hjb e
    have hnew : ∀ x, x < n → x ≠ a → x ≠ b → st.merged.getD x true = false →
        (newCell st.dm (st.card.getD a 0 : Nat) (st.card.getD b 0 : Nat) a b x).getD 0 =
          (((mem a).length : Rat) * Dof st a x + ((mem b).length : Rat) * Dof st b x) /
            (((mem a).length : Rat) + ((mem b).length : Rat)) := by
      intro x hx hxa hxb hlx
      obtain ⟨v1, hv1⟩ := h.fin x a hx s.an hxa hlx s.la
      obtain ⟨v2, hv2⟩ := h.fin x b hx hbn hxb hlx s.lb
      simp only [newCell, hv1, hv2, Dof, cell_symm a x (Ne.symm hxa), cell_symm b x (Ne.symm hxb), Option.getD_some,
        h.card a s.an s.la, h.card b hbn s.lb]
    simp only [Dof, s.dm, hget i j hin hjn hij, if_neg c1]
    by_cases hia : i = a
    · have hja : j ≠ a := fun e => hij (hia.trans e.symm)
      rw [if_pos ⟨hia, hlj, hjb⟩, if_pos ⟨hia, hja⟩]
      exact hnew j hjn hja hjb hlj
    · have n1 : ¬ (i = a ∧ st.merged.getD j true = false ∧ j ≠ b) := fun e => hia e.1
      have n2 : ¬ (i = a ∧ j ≠ a) := fun e => hia e.1
      rw [if_neg n1, if_neg n2]
      by_cases hja : j = a
      · have p1 : j = a ∧ st.merged.getD i true = false ∧ i ≠ b := ⟨hja, hli, hib⟩
        have p2 : j = a ∧ i ≠ a := ⟨hja, hia⟩
        rw [if_pos p1, if_pos p2]
        exact hnew i hin hia hib hli
      · have n3 : ¬ (j = a ∧ st.merged.getD i true = false ∧ i ≠ b) := fun e => hja e.1
        have n4 : ¬ (j = a ∧ i ≠ a) := fun e => hja e.1
        rw [if_neg n3, if_neg n4]
  · intro i _; rfl
  · intro i _
    show st'.heights.getD i 0 = _
    simp only [UP.merge, absSt]
    rw [s.heights, getD_set, h.szH]
    have hD : Dof st a b = dab := by simp [Dof, s.hd]
    by_cases hia : a = i
    · subst hia; simp [s.an, hD]
    · have : i ≠ a := fun e => hia e.symm
      simp [hia, this]

/-- with two or more live clusters an iteration on a well-formed state cannot fail -/
theorem step_total {n : Nat} {st : St} {mem} (h : WFSt n st mem) (h2 : 2 ≤ (actOf n st).length) :
    ∃ st', step st = .ok st' := by
  -- two distinct live indices
  obtain ⟨i, j, hi, hj, hij⟩ : ∃ i j, i ∈ actOf n st ∧ j ∈ actOf n st ∧ i ≠ j := by
    have hn := actOf_nodup n st
    match hl : actOf n st, h2, hn with
    | i :: j :: _, _, hn =>
      refine ⟨i, j, by simp, by simp, ?_⟩
      intro e; subst e; simp at hn
  obtain ⟨hin, hli⟩ := mem_actOf.1 hi
  obtain ⟨hjn, hlj⟩ := mem_actOf.1 hj
  have hc := cell_lt hij hin hjn
  obtain ⟨v, hv⟩ := h.fin i j hin hjn hij hli hlj
  obtain ⟨k, hk, hk2, hkmin⟩ := minCell_spec st.dm (by rw [h.szD]; omega)
  obtain ⟨g1, g2⟩ := invIdx_spec k
  have hkn : k < T n := by rw [← h.szD]; exact hk
  have han := invIdx_lt n k hkn
  have hcell : cell (invIdx k).1 (invIdx k).2 = k := by simp only [cell, g1, ↓reduceIte]; exact g2
  -- the minimum is finite
  have hlt := hkmin (cell i j) (by rw [h.szD]; exact hc)
  rw [hv] at hlt
  cases hdk : st.dm.getD k none with
  | none => rw [hdk] at hlt; simp [cellLt] at hlt
  | some dab =>
    have hab : (invIdx k).1 ≠ (invIdx k).2 := by omega
    have hbn : (invIdx k).2 < n := by omega
    have hla : st.merged.getD (invIdx k).1 true = false := by
      cases hx : st.merged.getD (invIdx k).1 true
      · rfl
      · have := h.dead _ _ han hbn hab hx
        rw [hcell, hdk] at this; cases this
    have hlb : st.merged.getD (invIdx k).2 true = false := by
      cases hx : st.merged.getD (invIdx k).2 true
      · rfl
      · have := h.dead _ _ hbn han (Ne.symm hab) hx
        rw [cell_symm _ _ (Ne.symm hab), hcell, hdk] at this; cases this
    exact step_ok_of st (invIdx k).1 (invIdx k).2 dab (by rw [hk2, hdk]) hla hlb

/-- **Refinement of one iteration.**  On a well-formed state a successful `step` picks two distinct live
    indices at minimal stored distance, keeps the state well formed, and the new state abstracts to
    `UP.merge` of the old abstraction on all live data. -/
theorem step_refines {n : Nat} {st st' : St} {mem : Nat → List Nat} (h : WFSt n st mem) (hs : step st = .ok st') :
    ∃ a b, a ∈ actOf n st ∧ b ∈ actOf n st ∧ a ≠ b ∧
      (∀ j k, j ∈ actOf n st → k ∈ actOf n st → j ≠ k → Dof st a b ≤ Dof st j k) ∧
      WFSt n st' (memAfter mem a b) ∧
      Agree (absSt n st' (memAfter mem a b)) (UP.merge (absSt n st mem) a b) := by
  obtain ⟨a, b, dab, s⟩ := step_spec h hs
  obtain ⟨h1, h2, h3, _, h5⟩ := s.min_act h
  exact ⟨a, b, h1, h2, h3, h5, s.wf h, s.agree h⟩

end UPG
