import PhyloModel.Upgma.Basic
/-! Scratch prototype: one UPGMA agglomeration step on an abstract state preserves the average-linkage and
    monotonicity invariants -/
namespace UP
variable (d0 : Nat → Nat → Rat)

theorem zero_add' (x : Rat) : 0 + x = x := by grind
theorem add_zero' (x : Rat) : x + 0 = x := by grind

@[simp] theorem S_nil_left (B : List Nat) : S d0 [] B = 0 := by simp [S]
theorem S_cons_left (x : Nat) (A B : List Nat) : S d0 (x :: A) B = sumL (B.map (fun y => d0 x y)) + S d0 A B := by
  simp [S]
@[simp] theorem S_nil_right (A : List Nat) : S d0 A [] = 0 := by
  induction A with
  | nil => simp
  | cons x xs ih => rw [S_cons_left, ih]; simp; grind
theorem S_cons_right (y : Nat) (A B : List Nat) :
    S d0 A (y :: B) = sumL (A.map (fun x => d0 x y)) + S d0 A B := by
  induction A with
  | nil => simp; grind
  | cons x xs ih =>
    rw [S_cons_left, S_cons_left, ih]
    simp only [List.map_cons, sumL_cons]
    grind

theorem S_swap (hd : ∀ x y, d0 x y = d0 y x) (A B : List Nat) : S d0 A B = S d0 B A := by
  induction A with
  | nil => simp
  | cons x xs ih =>
    rw [S_cons_left, S_cons_right, ih]
    congr 2
    apply List.map_congr_left; intro y _; exact hd x y

theorem IsAvg.symm' (hd : ∀ x y, d0 x y = d0 y x) {v : Rat} {A B : List Nat} (h : IsAvg d0 v A B) :
    IsAvg d0 v B A := by
  unfold IsAvg at *
  rw [S_swap d0 hd B A, ← h]; grind

structure St where
  act : List Nat            -- indices not yet merged away
  D : Nat → Nat → Rat       -- current cluster distances (only active pairs matter)
  mem : Nat → List Nat      -- ghost: original taxa in each active cluster
  h : Nat → Rat             -- height of each active cluster's node

/-- merge active clusters `a` and `b` into `a` (the code reuses index `a` and retires `b`) -/
def merge (s : St) (a b : Nat) : St :=
  let ca : Rat := (s.mem a).length
  let cb : Rat := (s.mem b).length
  let upd : Nat → Rat := fun x => (ca * s.D a x + cb * s.D b x) / (ca + cb)
  { act := s.act.erase b,
    D := fun i j => if i = a ∧ j ≠ a then upd j else if j = a ∧ i ≠ a then upd i else s.D i j,
    mem := fun i => if i = a then s.mem a ++ s.mem b else s.mem i,
    h := fun i => if i = a then s.D a b / 2 else s.h i }

structure Link (s : St) : Prop where
  nodup : s.act.Nodup
  ne : ∀ i ∈ s.act, s.mem i ≠ []
  symm : ∀ i j, i ∈ s.act → j ∈ s.act → s.D i j = s.D j i
  avg : ∀ i j, i ∈ s.act → j ∈ s.act → i ≠ j → IsAvg d0 (s.D i j) (s.mem i) (s.mem j)

/-- the update of the code keeps every live cell equal to the average linkage of the clusters it joins -/
theorem merge_link (hd : ∀ x y, d0 x y = d0 y x) (s : St) (a b : Nat) (hl : Link d0 s)
    (ha : a ∈ s.act) (hb : b ∈ s.act) (hab : a ≠ b) : Link d0 (merge s a b) := by
  have hmem : ∀ i, i ∈ (merge s a b).act ↔ (i ∈ s.act ∧ i ≠ b) := by
    intro i; simp only [merge]; rw [List.Nodup.mem_erase_iff hl.nodup]; constructor <;> (intro h; exact ⟨h.2, h.1⟩)
  constructor
  · exact List.Nodup.erase b hl.nodup
  · intro i hi
    obtain ⟨hi1, hi2⟩ := (hmem i).1 hi
    simp only [merge]
    by_cases hia : i = a
    · simp [hia]; intro h; exact absurd h (hl.ne a ha)
    · simp [hia]; exact hl.ne i hi1
  · intro i j hi hj
    obtain ⟨hi1, _⟩ := (hmem i).1 hi
    obtain ⟨hj1, _⟩ := (hmem j).1 hj
    simp only [merge]
    by_cases hia : i = a <;> by_cases hja : j = a <;> simp [hia, hja]
    exact hl.symm i j hi1 hj1
  · intro i j hi hj hij
    obtain ⟨hi1, hib⟩ := (hmem i).1 hi
    obtain ⟨hj1, hjb⟩ := (hmem j).1 hj
    simp only [merge]
    by_cases hia : i = a
    · subst hia
      have hja : j ≠ i := Ne.symm hij
      simp only [hja, ne_eq, not_false_eq_true, and_self, ↓reduceIte]
      -- D' a j = weighted mean, members a ++ b
      have h1 := hl.avg i j hi1 hj1 hij
      have h2 := hl.avg b j hb hj1 (Ne.symm hjb)
      exact avg_update d0 (s.mem i) (s.mem b) (s.mem j) (s.D i j) (s.D b j) (hl.ne i hi1) (hl.ne b hb) (hl.ne j hj1) h1 h2
    · by_cases hja : j = a
      · subst hja
        simp only [hia, ne_eq, not_true_eq_false, and_false, ↓reduceIte, not_false_eq_true, and_self]
        have h1 := hl.avg j i hj1 hi1 (Ne.symm hij)
        have h2 := hl.avg b i hb hi1 (Ne.symm hib)
        have := avg_update d0 (s.mem j) (s.mem b) (s.mem i) (s.D j i) (s.D b i) (hl.ne j hj1) (hl.ne b hb) (hl.ne i hi1) h1 h2
        exact IsAvg.symm' d0 hd this
      · simp only [hia, hja, false_and, ↓reduceIte]
        exact hl.avg i j hi1 hj1 hij

/-- monotonicity invariant: no cluster is higher than half of any remaining distance -/
def Mono (s : St) : Prop := ∀ i j k, i ∈ s.act → j ∈ s.act → k ∈ s.act → j ≠ k → 2 * s.h i ≤ s.D j k

/-- merging a pair at minimal distance keeps `Mono` (so merge heights never decrease and the two new
    branch lengths `D a b / 2 - h a`, `D a b / 2 - h b` are non-negative) -/
theorem merge_mono (s : St) (a b : Nat) (hl : Link d0 s) (hm : Mono s) (ha : a ∈ s.act) (hb : b ∈ s.act)
    (hab : a ≠ b) (hmin : ∀ j k, j ∈ s.act → k ∈ s.act → j ≠ k → s.D a b ≤ s.D j k) :
    Mono (merge s a b) ∧ 0 ≤ s.D a b / 2 - s.h a ∧ 0 ≤ s.D a b / 2 - s.h b := by
  have hmem : ∀ i, i ∈ (merge s a b).act ↔ (i ∈ s.act ∧ i ≠ b) := by
    intro i; simp only [merge]; rw [List.Nodup.mem_erase_iff hl.nodup]; constructor <;> (intro h; exact ⟨h.2, h.1⟩)
  have hla : (0 : Rat) < ((s.mem a).length : Rat) := Rat.natCast_pos.mpr (List.length_pos_iff.mpr (hl.ne a ha))
  have hlb : (0 : Rat) < ((s.mem b).length : Rat) := Rat.natCast_pos.mpr (List.length_pos_iff.mpr (hl.ne b hb))
  refine ⟨?_, ?_, ?_⟩
  · intro i j k hi hj hk hjk
    obtain ⟨hi1, _⟩ := (hmem i).1 hi
    obtain ⟨hj1, hjb⟩ := (hmem j).1 hj
    obtain ⟨hk1, hkb⟩ := (hmem k).1 hk
    -- every new distance is ≥ D a b
    have hnew : s.D a b ≤ (merge s a b).D j k := by
      simp only [merge]
      by_cases hja : j = a
      · subst hja
        have hkj : k ≠ j := Ne.symm hjk
        simp only [hkj, ne_eq, not_false_eq_true, and_self, ↓reduceIte]
        exact wavg_ge _ _ _ _ _ hla hlb (hmin j k hj1 hk1 hjk) (hmin b k hb hk1 (Ne.symm hkb))
      · by_cases hka : k = a
        · subst hka
          simp only [hja, ne_eq, not_true_eq_false, and_false, ↓reduceIte, not_false_eq_true, and_self]
          exact wavg_ge _ _ _ _ _ hla hlb (hmin k j hk1 hj1 (Ne.symm hjk)) (hmin b j hb hj1 (Ne.symm hjb))
        · simp only [hja, hka, false_and, ↓reduceIte]
          exact hmin j k hj1 hk1 hjk
    have hh : 2 * (merge s a b).h i ≤ s.D a b := by
      simp only [merge]
      by_cases hia : i = a
      · simp only [hia, ↓reduceIte]; grind
      · simp only [hia, ↓reduceIte]; exact hm i a b hi1 ha hb hab
    exact Rat.le_trans hh hnew
  · have := hm a a b ha ha hb hab; grind
  · have := hm b a b hb ha hb hab; grind

end UP
