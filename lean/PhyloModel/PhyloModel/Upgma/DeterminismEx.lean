import PhyloModel.Upgma.DeterminismTie
/-! # C15 — determinism of average-linkage clustering: certificates, the input-level hypothesis, examples

* `runB` / `unambB` — a boolean checker for "this list of pairs is a run of average-linkage clustering" / "... with an
  unambiguous minimum at every step", sound for `AvgRun` / `Unamb` (used to discharge the examples by evaluation)
* `UnambInput d0 n` — "each minimum is unambiguous" as a property of the input: SOME complete run from the singletons has
  an unambiguous minimum at every step; then EVERY complete run has (`UnambInput.all`)
* `upgma_taxon_order_input` — `upgma_taxon_order` with this hypothesis on the input
* non-vacuity examples for the main theorems, and a tie on which two runs differ (the hypothesis is needed) -/
namespace UPG
open UP MX Tri MXS

/-! ## a checker for runs given as lists of pairs -/

/-- (`a`, `b`) minimises the average linkage over the active pairs -/
def minB (d0 : Nat → Nat → Rat) (act : List Nat) (cl : Nat → List Nat) (a b : Nat) : Bool :=
  act.all fun j => act.all fun k => (j == k) || decide (avgLink d0 (cl a) (cl b) ≤ avgLink d0 (cl j) (cl k))

/-- every active pair with the average linkage of (`a`, `b`) is (`a`, `b`) or (`b`, `a`) -/
def unambAtB (d0 : Nat → Nat → Rat) (act : List Nat) (cl : Nat → List Nat) (a b : Nat) : Bool :=
  act.all fun j => act.all fun k => (j == k) || !(decide (avgLink d0 (cl j) (cl k) = avgLink d0 (cl a) (cl b))) ||
    ((j == a && k == b) || (j == b && k == a))

/-- the state after merging the pairs `ps` in turn -/
def runSt (act : List Nat) (cl : Nat → List Nat) : List (Nat × Nat) → List Nat × (Nat → List Nat)
  | [] => (act, cl)
  | p :: ps => runSt (act.erase p.2) (memAfter cl p.1 p.2) ps

/-- the events of merging the pairs `ps` in turn -/
def runEvs (d0 : Nat → Nat → Rat) (act : List Nat) (cl : Nat → List Nat) : List (Nat × Nat) → List Ev
  | [] => []
  | p :: ps => ⟨p.1, p.2, avgLink d0 (cl p.1) (cl p.2) / 2, cl p.1, cl p.2⟩ ::
      runEvs d0 (act.erase p.2) (memAfter cl p.1 p.2) ps

/-- merging the pairs `ps` in turn is a run of average-linkage clustering -/
def runB (d0 : Nat → Nat → Rat) (act : List Nat) (cl : Nat → List Nat) : List (Nat × Nat) → Bool
  | [] => true
  | p :: ps => act.contains p.1 && act.contains p.2 && (p.1 != p.2) && minB d0 act cl p.1 p.2 &&
      runB d0 (act.erase p.2) (memAfter cl p.1 p.2) ps

/-- ... with an unambiguous minimum at every step -/
def unambB (d0 : Nat → Nat → Rat) (act : List Nat) (cl : Nat → List Nat) : List (Nat × Nat) → Bool
  | [] => true
  | p :: ps => unambAtB d0 act cl p.1 p.2 && unambB d0 (act.erase p.2) (memAfter cl p.1 p.2) ps

theorem minB_sound {d0 : Nat → Nat → Rat} {act : List Nat} {cl : Nat → List Nat} {a b : Nat}
    (h : minB d0 act cl a b = true) :
    ∀ j k, j ∈ act → k ∈ act → j ≠ k → avgLink d0 (cl a) (cl b) ≤ avgLink d0 (cl j) (cl k) := by
  intro j k hj hk hjk
  simp only [minB, List.all_eq_true, Bool.or_eq_true, beq_iff_eq, decide_eq_true_eq] at h
  rcases h j hj k hk with h | h
  · exact absurd h hjk
  · exact h

theorem unambAtB_sound {d0 : Nat → Nat → Rat} {act : List Nat} {cl : Nat → List Nat} {a b : Nat}
    (h : unambAtB d0 act cl a b = true) : UnambAt d0 act cl a b := by
  intro j k hj hk hjk he
  simp only [unambAtB, List.all_eq_true, Bool.or_eq_true, Bool.and_eq_true, beq_iff_eq, Bool.not_eq_true',
    decide_eq_false_iff_not] at h
  rcases h j hj k hk with (h | h) | h
  · exact absurd h hjk
  · exact absurd he h
  · exact h

theorem runB_sound {d0 : Nat → Nat → Rat} : ∀ (ps : List (Nat × Nat)) (act : List Nat) (cl : Nat → List Nat),
    runB d0 act cl ps = true → AvgRun d0 act cl (runEvs d0 act cl ps) (runSt act cl ps).1 (runSt act cl ps).2
  | [], act, cl, _ => AvgRun.nil act cl
  | p :: ps, act, cl, h => by
    simp only [runB, Bool.and_eq_true, List.contains_iff_mem, bne_iff_ne] at h
    obtain ⟨⟨⟨⟨ha, hb⟩, hab⟩, hmin⟩, hrest⟩ := h
    exact AvgRun.cons act cl p.1 p.2 _ _ _ ha hb hab (minB_sound hmin) (runB_sound ps _ _ hrest)

theorem unambB_sound {d0 : Nat → Nat → Rat} : ∀ (ps : List (Nat × Nat)) (act : List Nat) (cl : Nat → List Nat),
    unambB d0 act cl ps = true → Unamb d0 act cl (runEvs d0 act cl ps)
  | [], _, _, _ => True.intro
  | p :: ps, act, cl, h => by
    simp only [unambB, Bool.and_eq_true] at h
    exact ⟨unambAtB_sound h.1, unambB_sound ps _ _ h.2⟩

/-! ## "each minimum is unambiguous" as a property of the input -/

/-- some complete run of average-linkage clustering on `d0` over the taxa `0 .. n-1` has an unambiguous minimum at
    every step -/
def UnambInput (d0 : Nat → Nat → Rat) (n : Nat) : Prop :=
  ∃ evs k cl, AvgRun d0 (List.range n) (fun i => [i]) evs [k] cl ∧ Unamb d0 (List.range n) (fun i => [i]) evs

/-- ... and then every complete run has -/
theorem UnambInput.all {d0 : Nat → Nat → Rat} {n : Nat} (h : UnambInput d0 n) {evs : List Ev} {k : Nat}
    {cl : Nat → List Nat} (r : AvgRun d0 (List.range n) (fun i => [i]) evs [k] cl) :
    Unamb d0 (List.range n) (fun i => [i]) evs := by
  obtain ⟨evs0, k0, cl0, r0, u0⟩ := h
  have w := WFC.singletons (List.nodup_range (n := n))
  have hlen : evs.length = evs0.length := by
    have h1 := r.length; have h2 := r0.length
    simp only [List.length_cons, List.length_nil] at h1 h2; omega
  exact unamb_of_one r r0 u0 w w (StEqv.refl _ _) hlen

/-- **C15, taxon order, hypothesis on the input.**  The same labelled matrix in two taxon orders, symmetric
    non-negative input on two or more taxa, each minimum of average-linkage clustering on it unambiguous
    (`UnambInput`): `UPG.upgma` succeeds on both presentations and the two trees have the same internal nodes read as
    (set of leaf names below the node, height of the node above its leaves). -/
theorem upgma_taxon_order_input (taxa taxa' : List String) (v v' : Array Rat) (σ : Nat → Nat)
    (h2 : 2 ≤ taxa.length) (hv : v.size = T taxa.length) (hpos : ∀ k, k < v.size → 0 ≤ v.getD k 0)
    (hv' : v'.size = T taxa'.length) (hpos' : ∀ k, k < v'.size → 0 ≤ v'.getD k 0)
    (hr : Reordered taxa v taxa' v' σ) (hu : UnambInput (d0of v) taxa.length) :
    ∃ t m tie dy t' m' tie' dy', upgma taxa v = .ok (t, m, tie, dy) ∧ upgma taxa' v' = .ok (t', m', tie', dy') ∧
      InfoSub (nodeInfo t') (nodeInfo t) ∧ InfoSub (nodeInfo t) (nodeInfo t') := by
  have hu' : ∀ evs, upgmaTr taxa v = .ok evs → Unamb (d0of v) (List.range taxa.length) (fun i => [i]) evs := by
    intro evs htr
    obtain ⟨_, _, _, _, evs1, k, cl, _, htr1, hrun, _⟩ := upgma_average_linkage taxa v h2 hv hpos
    rw [htr] at htr1
    cases htr1
    exact hu.all hrun
  obtain ⟨t, m, tie, dy, t', m', tie', dy', _, _, h1, h2, _, _, _, h3, h4⟩ :=
    upgma_taxon_order taxa taxa' v v' σ h2 hv hpos hv' hpos' hr (Or.inl hu')
  exact ⟨t, m, tie, dy, t', m', tie', dy', h1, h2, h3, h4⟩

/-! ## examples -/

/-- four taxa: `d(0,1) = 2`, `d(2,3) = 4`, every other distance `8` -/
def dEx : Nat → Nat → Rat := fun i j =>
  if i = j then 0 else if i + j = 1 then 2 else if i + j = 5 then 4 else 8

/-- non-vacuity of `Unamb` on a complete run: merge `{0,1}` at height 1, `{2,3}` at height 2, all four at height 4 -/
example : ∃ evs k cl, AvgRun dEx (List.range 4) (fun i => [i]) evs [k] cl ∧ Unamb dEx (List.range 4) (fun i => [i]) evs ∧
    evs.map (fun e => (e.A ++ e.B, e.height)) = [([0, 1], 1), ([2, 3], 2), ([0, 1, 2, 3], 4)] := by
  have h := runB_sound (d0 := dEx) [(0, 1), (2, 3), (0, 2)] (List.range 4) (fun i => [i]) (by decide +kernel)
  have e : (runSt (List.range 4) (fun i => [i]) [(0, 1), (2, 3), (0, 2)]).1 = [0] := by decide
  rw [e] at h
  exact ⟨_, _, _, h, unambB_sound _ _ _ (by decide +kernel), by decide +kernel⟩

theorem dEx_unamb : UnambInput dEx 4 := by
  have h := runB_sound (d0 := dEx) [(0, 1), (2, 3), (0, 2)] (List.range 4) (fun i => [i]) (by decide +kernel)
  have e : (runSt (List.range 4) (fun i => [i]) [(0, 1), (2, 3), (0, 2)]).1 = [0] := by decide
  rw [e] at h
  exact ⟨_, _, _, h, unambB_sound _ _ _ (by decide +kernel)⟩

/-- non-vacuity of `avgRun_deterministic`: two DIFFERENT unambiguous runs on `dEx` (other surviving indices, pairs
    listed in the other order), from states that are equivalent but not equal (index lists in different orders) -/
example : ∃ act1 act2 evs1 evs2 k1 k2 cl1 cl2,
    AvgRun dEx act1 (fun i => [i]) evs1 [k1] cl1 ∧ AvgRun dEx act2 (fun i => [i]) evs2 [k2] cl2 ∧
    Unamb dEx act1 (fun i => [i]) evs1 ∧ Unamb dEx act2 (fun i => [i]) evs2 ∧
    WFC act1 (fun i => [i]) ∧ WFC act2 (fun i => [i]) ∧ StEqv act1 (fun i => [i]) act2 (fun i => [i]) ∧
    evs1.length = evs2.length ∧ evs1.map (fun e => (e.a, e.b)) ≠ evs2.map (fun e => (e.a, e.b)) ∧ k1 ≠ k2 := by
  have h1 := runB_sound (d0 := dEx) [(0, 1), (2, 3), (0, 2)] [0, 1, 2, 3] (fun i => [i]) (by decide +kernel)
  have h2 := runB_sound (d0 := dEx) [(1, 0), (3, 2), (3, 1)] [3, 1, 0, 2] (fun i => [i]) (by decide +kernel)
  have e1 : (runSt [0, 1, 2, 3] (fun i => [i]) [(0, 1), (2, 3), (0, 2)]).1 = [0] := by decide
  have e2 : (runSt [3, 1, 0, 2] (fun i => [i]) [(1, 0), (3, 2), (3, 1)]).1 = [3] := by decide
  rw [e1] at h1; rw [e2] at h2
  refine ⟨_, _, _, _, _, _, _, _, h1, h2, unambB_sound _ _ _ (by decide +kernel), unambB_sound _ _ _ (by decide +kernel),
    WFC.singletons (by decide), WFC.singletons (by decide), StEqv.of_perm _ (by decide), by decide, by decide, by decide⟩

/-- a tie: three taxa, all distances equal -/
def dTie : Nat → Nat → Rat := fun i j => if i = j then 0 else 2

theorem evKey_eq_iff {e1 e2 : Ev} : evKey e1 = evKey e2 ↔ EvSame e1 e2 := by
  constructor
  · intro h
    have h1 : (e1.A ++ e1.B).mergeSort (fun x y => decide (x ≤ y)) = (e2.A ++ e2.B).mergeSort (fun x y => decide (x ≤ y)) :=
      congrArg Prod.fst h
    have h2 : e1.height = e2.height := congrArg Prod.snd h
    refine ⟨?_, h2⟩
    have p1 := List.mergeSort_perm (e1.A ++ e1.B) (fun x y => decide (x ≤ y))
    have p2 := List.mergeSort_perm (e2.A ++ e2.B) (fun x y => decide (x ≤ y))
    rw [h1] at p1
    exact p1.symm.trans p2
  · exact EvSame.key_eq

/-- **the hypothesis is needed**: on a tie two complete runs from the same state and of the same length merge
    different clusters first (`{0,1}` in one, `{1,2}` in the other), so their events do not agree -/
example : ∃ evs1 evs2 k1 k2 cl1 cl2,
    AvgRun dTie (List.range 3) (fun i => [i]) evs1 [k1] cl1 ∧ AvgRun dTie (List.range 3) (fun i => [i]) evs2 [k2] cl2 ∧
    evs1.length = evs2.length ∧ ¬ All2 EvSame evs1 evs2 ∧ evs1.map evKey ≠ evs2.map evKey := by
  have h1 := runB_sound (d0 := dTie) [(0, 1), (0, 2)] (List.range 3) (fun i => [i]) (by decide +kernel)
  have h2 := runB_sound (d0 := dTie) [(1, 2), (0, 1)] (List.range 3) (fun i => [i]) (by decide +kernel)
  have e1 : (runSt (List.range 3) (fun i => [i]) [(0, 1), (0, 2)]).1 = [0] := by decide
  have e2 : (runSt (List.range 3) (fun i => [i]) [(1, 2), (0, 1)]).1 = [0] := by decide
  rw [e1] at h1; rw [e2] at h2
  have hne : ¬ All2 EvSame (runEvs dTie (List.range 3) (fun i => [i]) [(0, 1), (0, 2)])
      (runEvs dTie (List.range 3) (fun i => [i]) [(1, 2), (0, 1)]) := by
    intro h
    cases h with
    | cons hr _ =>
      have : ([0] ++ [1] : List Nat).Perm ([1] ++ [2]) := hr.1
      revert this; decide
  refine ⟨_, _, _, _, _, _, h1, h2, by decide, hne, ?_⟩
  intro h
  apply hne
  simp only [runEvs, List.map_cons, List.map_nil, List.cons.injEq, and_true] at h
  exact All2.cons (evKey_eq_iff.1 h.1) (All2.cons (evKey_eq_iff.1 h.2) All2.nil)

/-- the permutation `0 ↦ 2, 1 ↦ 0, 2 ↦ 1` of the three positions -/
def rot3 : Nat → Nat := fun i => if i = 0 then 2 else if i = 1 then 0 else if i = 2 then 1 else i

/-- non-vacuity of `taxon_order_invariance`: a permutation, an unambiguous complete run on `d0 = d0of #[2,4,4]` and a
    complete run on the reordered matrix -/
example : ∃ evs evs' k k' cl cl', IsPermOf 3 rot3 ∧
    AvgRun (d0of #[2, 4, 4]) (List.range 3) (fun i => [i]) evs [k] cl ∧
    AvgRun (reorder (d0of #[2, 4, 4]) rot3) (List.range 3) (fun i => [i]) evs' [k'] cl' ∧
    Unamb (d0of #[2, 4, 4]) (List.range 3) (fun i => [i]) evs := by
  have h1 := runB_sound (d0 := d0of #[2, 4, 4]) [(0, 1), (0, 2)] (List.range 3) (fun i => [i]) (by decide +kernel)
  have h2 := runB_sound (d0 := reorder (d0of #[2, 4, 4]) rot3) [(1, 2), (0, 1)] (List.range 3) (fun i => [i])
    (by decide +kernel)
  have e1 : (runSt (List.range 3) (fun i => [i]) [(0, 1), (0, 2)]).1 = [0] := by decide
  have e2 : (runSt (List.range 3) (fun i => [i]) [(1, 2), (0, 1)]).1 = [0] := by decide
  rw [e1] at h1; rw [e2] at h2
  have hp : IsPermOf 3 rot3 := by
    show ((List.range 3).map rot3).Perm (List.range 3)
    decide
  exact ⟨_, _, _, _, _, _, hp, h1, h2, unambB_sound _ _ _ (by decide +kernel)⟩

theorem ex_unamb_input : UnambInput (d0of #[2, 4, 4]) 3 := by
  have h1 := runB_sound (d0 := d0of #[2, 4, 4]) [(0, 1), (0, 2)] (List.range 3) (fun i => [i]) (by decide +kernel)
  have e1 : (runSt (List.range 3) (fun i => [i]) [(0, 1), (0, 2)]).1 = [0] := by decide
  rw [e1] at h1
  exact ⟨_, _, _, h1, unambB_sound _ _ _ (by decide +kernel)⟩

theorem ex_reordered : Reordered ["a", "b", "c"] #[2, 4, 4] ["c", "a", "b"] #[4, 4, 2] rot3 := by
  refine ⟨by decide, ?_, ?_, ?_⟩
  · show ((List.range 3).map rot3).Perm (List.range 3)
    decide
  · show ∀ i, i < 3 → nameOf ["c", "a", "b"] i = nameOf ["a", "b", "c"] (rot3 i)
    decide
  · have h : ∀ i, i < 3 → ∀ j, j < 3 → d0of #[4, 4, 2] i j = d0of #[2, 4, 4] (rot3 i) (rot3 j) := by decide +kernel
    exact fun i j hi hj => h i hi j hj

/-- non-vacuity of `upgma_taxon_order_input` / `upgma_taxon_order`: the matrix `a-b 2, a-c 4, b-c 4` presented in the
    orders `a, b, c` and `c, a, b` -/
example : 2 ≤ ["a", "b", "c"].length ∧ (#[2, 4, 4] : Array Rat).size = T ["a", "b", "c"].length ∧
    (∀ k, k < (#[2, 4, 4] : Array Rat).size → 0 ≤ (#[2, 4, 4] : Array Rat).getD k 0) ∧
    (#[4, 4, 2] : Array Rat).size = T ["c", "a", "b"].length ∧
    (∀ k, k < (#[4, 4, 2] : Array Rat).size → 0 ≤ (#[4, 4, 2] : Array Rat).getD k 0) ∧
    Reordered ["a", "b", "c"] #[2, 4, 4] ["c", "a", "b"] #[4, 4, 2] rot3 ∧
    UnambInput (d0of #[2, 4, 4]) ["a", "b", "c"].length := by
  refine ⟨by decide, by decide, hyps_example.2.2, by decide, ?_, ex_reordered, ex_unamb_input⟩
  intro k hk
  have : k = 0 ∨ k = 1 ∨ k = 2 := by simp at hk; omega
  rcases this with h | h | h <;> subst h <;> decide

/-- did `upgma` succeed with the `tie` flag `false`? -/
def tieFree (taxa : List String) (v : Array Rat) : Bool :=
  match upgma taxa v with
  | .ok (_, _, tie, _) => !tie
  | _ => false

theorem tieFree_spec {taxa : List String} {v : Array Rat} (h : tieFree taxa v = true) :
    ∃ t m dy, upgma taxa v = .ok (t, m, false, dy) := by
  unfold tieFree at h
  split at h
  · next t m tie dy he =>
    cases tie
    · exact ⟨t, m, dy, he⟩
    · simp at h
  · cases h

/-- non-vacuity of `upgma_tie_free_unamb` / `upgma_taxon_order_tie_free`: on these inputs the executable model returns
    with `tie = false` (three taxa; four taxa with `d(a,b) = 2`, `d(c,d) = 4`, all other distances `8`) -/
example : (∃ t m dy, upgma ["a", "b", "c"] #[2, 4, 4] = .ok (t, m, false, dy)) ∧
    (∃ t m dy, upgma ["a", "b", "c", "d"] #[2, 8, 8, 8, 8, 4] = .ok (t, m, false, dy)) :=
  ⟨tieFree_spec (by decide +kernel), tieFree_spec (by decide +kernel)⟩

/-- ... and on a tie the flag is raised -/
example : tieFree ["a", "b", "c"] #[2, 2, 2] = false := by decide +kernel

end UPG
