import PhyloModel.Upgma.DeterminismOrder
/-! # C15 — the tree returned by the executable UPGMA does not depend on the taxon order (unambiguous minima)

`upgma_average_linkage` (Upgma/AvgLink.lean; restated as `C15.upgma_tree`) says that the internal nodes of the tree
returned by `UPG.upgma` are the events of a complete run of average-linkage clustering from its definition; `taxon_order_invariance_on` (Upgma/DeterminismOrder.lean) says that such
runs on a matrix and on the same matrix in another taxon order agree when the minima are unambiguous.  Together:
`upgma_taxon_order` — for the same labelled matrix presented in two taxon orders, with unambiguous minima, the two
returned trees have the same set of internal nodes read as (set of leaf names below the node, height of the node). -/
namespace UPG
open UP MX Tri MXS

/-- `(taxa', v')` is the labelled matrix `(taxa, v)` presented in another taxon order: position `i` of the second
    presentation is position `σ i` of the first, for a permutation `σ` of the positions -/
structure Reordered (taxa : List String) (v : Array Rat) (taxa' : List String) (v' : Array Rat) (σ : Nat → Nat) :
    Prop where
  len : taxa'.length = taxa.length
  perm : IsPermOf taxa.length σ
  name : ∀ i, i < taxa.length → nameOf taxa' i = nameOf taxa (σ i)
  dist : ∀ i j, i < taxa.length → j < taxa.length → d0of v' i j = d0of v (σ i) (σ j)

/-- every node of the first list is a node of the second: same set of leaf names (up to permutation), same height -/
def InfoSub (l1 l2 : List (List (Option String) × Rat)) : Prop :=
  ∀ x, x ∈ l1 → ∃ y, y ∈ l2 ∧ x.1.Perm y.1 ∧ x.2 = y.2

theorem evInfo_via {taxa taxa' : List String} {σ : Nat → Nat} {n : Nat}
    (hname : ∀ i, i < n → nameOf taxa' i = nameOf taxa (σ i)) {e' e : Ev} (h : EvSameVia σ e' e)
    (hlt : ∀ x, x ∈ e'.A ++ e'.B → x < n) :
    (evInfo taxa' e').1.Perm (evInfo taxa e).1 ∧ (evInfo taxa' e').2 = (evInfo taxa e).2 := by
  refine ⟨?_, h.2⟩
  simp only [evInfo]
  have e1 : (e'.A ++ e'.B).map (fun i => some (nameOf taxa' i)) =
      ((e'.A ++ e'.B).map σ).map (fun i => some (nameOf taxa i)) := by
    rw [List.map_map]
    apply List.map_congr_left
    intro x hx
    simp only [Function.comp_apply]
    rw [hname x (hlt x hx)]
  rw [e1]
  exact h.1.map _

/-- **C15, taxon order.**  The same labelled matrix in two taxon orders (`Reordered`), symmetric non-negative input on
    two or more taxa, and the run the executable performs on ONE of the two presentations has an unambiguous minimum
    at every step.  Then `UPG.upgma` succeeds on both, the recorded merge events agree position by position (member
    sets through `σ`, heights), and the two trees have the same internal nodes read as (leaf names below the node as a
    set, height of the node above its leaves). -/
theorem upgma_taxon_order (taxa taxa' : List String) (v v' : Array Rat) (σ : Nat → Nat)
    (h2 : 2 ≤ taxa.length) (hv : v.size = T taxa.length) (hpos : ∀ k, k < v.size → 0 ≤ v.getD k 0)
    (hv' : v'.size = T taxa'.length) (hpos' : ∀ k, k < v'.size → 0 ≤ v'.getD k 0)
    (hr : Reordered taxa v taxa' v' σ)
    (hu : (∀ evs, upgmaTr taxa v = .ok evs → Unamb (d0of v) (List.range taxa.length) (fun i => [i]) evs) ∨
      (∀ evs', upgmaTr taxa' v' = .ok evs' → Unamb (d0of v') (List.range taxa'.length) (fun i => [i]) evs')) :
    ∃ t m tie dy t' m' tie' dy' evs evs', upgma taxa v = .ok (t, m, tie, dy) ∧ upgma taxa' v' = .ok (t', m', tie', dy') ∧
      upgmaTr taxa v = .ok evs ∧ upgmaTr taxa' v' = .ok evs' ∧ All2 (EvSameVia σ) evs' evs ∧
      InfoSub (nodeInfo t') (nodeInfo t) ∧ InfoSub (nodeInfo t) (nodeInfo t') := by
  have h2' : 2 ≤ taxa'.length := by rw [hr.len]; exact h2
  obtain ⟨t, m, tie, dy, evs, k, cl, hup, htr, hrun, _, _, hnodes⟩ := upgma_average_linkage taxa v h2 hv hpos
  obtain ⟨t', m', tie', dy', evs', k', cl', hup', htr', hrun', _, _, hnodes'⟩ :=
    upgma_average_linkage taxa' v' h2' hv' hpos'
  have hu' : Unamb (d0of v) (List.range taxa.length) (fun i => [i]) evs ∨
      Unamb (d0of v') (List.range taxa.length) (fun i => [i]) evs' := by
    rcases hu with hu | hu
    · exact Or.inl (hu evs htr)
    · have := hu evs' htr'
      rw [hr.len] at this
      exact Or.inr this
  rw [hr.len] at hrun'
  have hall : All2 (EvSameVia σ) evs' evs := taxon_order_invariance_on hr.perm hr.dist hrun hrun' hu'
  have hP : MemP (fun x => x < taxa.length) (List.range taxa.length) (fun i => [i]) := by
    intro i hi x hx
    simp only [List.mem_singleton] at hx
    subst hx; exact List.mem_range.1 hi
  have hlt := (hrun'.memP hP).1
  refine ⟨t, m, tie, dy, t', m', tie', dy', evs, evs', hup, hup', htr, htr', hall, ?_, ?_⟩
  · intro x hx
    obtain ⟨e', he', hxe⟩ := (hnodes' x).1 hx
    obtain ⟨e, he, hsame⟩ := hall.mem_left e' he'
    refine ⟨evInfo taxa e, (hnodes _).2 ⟨e, he, rfl⟩, ?_⟩
    rw [hxe]
    exact evInfo_via hr.name hsame (hlt e' he')
  · intro y hy
    obtain ⟨e, he, hye⟩ := (hnodes y).1 hy
    obtain ⟨e', he', hsame⟩ := hall.mem_right e he
    refine ⟨evInfo taxa' e', (hnodes' _).2 ⟨e', he', rfl⟩, ?_⟩
    rw [hye]
    obtain ⟨p, q⟩ := evInfo_via hr.name hsame (hlt e' he')
    exact ⟨p.symm, q.symm⟩

end UPG
