import PhyloModel.Upgma.ArenaLinkLoop
import PhyloModel.Arena.AbsRose
import PhyloModel.Upgma.Shape
/-! # C15 / C03 — the arena `upgma()` returns, against the tree of the numeric model

* `upgmaShape_outcome` — building the arena succeeds exactly when `upgmaC` succeeds, and fails with the same error;
* `upgmaShape_good` — the arena is well formed (`AR.Good`), has one root, and it is slot 0;
* `upgmaShape_represents` — its abstraction `absRoot`, ids and lengths erased, is the tree of `upgmaC`, lengths erased
  (names and the ORDER of the children under every node included);
* `upgmaShape_slots`, `upgmaShape_leaves` — the slot layout. -/
namespace UPG
open AR MX Tri MXS

/-- the outcome of a run with the payload forgotten -/
def Res.outcome {β : Type} : Res β → Res Unit
  | .ok _ => .ok ()
  | .err k => .err k
  | .panic => .panic

/-! ## `upgmaC` = loop, then final join -/

/-- the part of `upgmaC` after the loop -/
def finC (n : Nat) (st : St) : Res (URose × Option Rat × Bool × Bool) :=
  match (List.range n).filter (fun i => !(st.merged.getD i true)) with
  | ai :: bi :: _ =>
    match st.dm.getD (cell ai bi) none with
    | some dab =>
      .ok (.node none none (st.rootKids.map (finalKidC st ai bi (dab / 2))), st.margin, st.tie, st.dyadic && isDyadic (dab / 2))
    | none => .err "NonFinite"
  | _ => .err "IndexError"

theorem upgmaC_eq_fin (taxa : List String) (v : Array Rat) :
    upgmaC taxa v = match loopC taxa.length (initSt taxa v) with
      | .ok st => finC taxa.length st
      | .err k => .err k
      | .panic => .panic := by
  unfold upgmaC initSt finC finalKidC
  rfl

theorem finishShape_outcome (n : Nat) (s : ShSt) : (finishShape n s).outcome = (finC n s.st).outcome := by
  unfold finishShape finC
  generalize (List.range n).filter (fun i => !(s.st.merged.getD i true)) = l
  match l with
  | [] => rfl
  | [_] => rfl
  | ai :: bi :: _ =>
    simp only
    cases s.st.dm.getD (cell ai bi) none <;> rfl

/-! ## the run, taken apart -/

theorem upgmaShape_decomp (taxa : List String) (v : Array Rat) :
    (∀ st, loopC taxa.length (initSt taxa v) = .ok st →
      ∃ s, SInv taxa s ∧ s.st = st ∧ upgmaShape taxa v = finishShape taxa.length s) ∧
    (∀ k, loopC taxa.length (initSt taxa v) = .err k → upgmaShape taxa v = .err k) ∧
    (loopC taxa.length (initSt taxa v) = .panic → upgmaShape taxa v = .panic) := by
  obtain ⟨s0, h0, hst0, hI0⟩ := initShape_inv taxa v
  obtain ⟨k1, k2, k3⟩ := loopShape_inv taxa taxa.length s0 hI0
  rw [hst0] at k1 k2 k3
  refine ⟨?_, ?_, ?_⟩
  · intro st hl
    obtain ⟨s, hs, he, hI⟩ := k1 st hl
    refine ⟨s, hI, he, ?_⟩
    unfold upgmaShape; rw [h0]; simp only; rw [hs]
  · intro k hl
    unfold upgmaShape; rw [h0]; simp only; rw [k2 k hl]
  · intro hl
    unfold upgmaShape; rw [h0]; simp only; rw [k3 hl]

/-- **same outcome**: building the arena succeeds exactly when the numeric model succeeds; when it fails, it fails with
    the same error -/
theorem upgmaShape_outcome (taxa : List String) (v : Array Rat) :
    (upgmaShape taxa v).outcome = (upgmaC taxa v).outcome := by
  obtain ⟨k1, k2, k3⟩ := upgmaShape_decomp taxa v
  rw [upgmaC_eq_fin]
  cases hl : loopC taxa.length (initSt taxa v) with
  | ok st =>
    obtain ⟨s, _, he, hu⟩ := k1 st hl
    rw [hu, finishShape_outcome, he]
  | err k => rw [k2 k hl]; rfl
  | panic => rw [k3 hl]; rfl

theorem upgmaShape_ok_iff (taxa : List String) (v : Array Rat) :
    (∃ A, upgmaShape taxa v = .ok A) ↔ (∃ r, upgmaC taxa v = .ok r) := by
  have h := upgmaShape_outcome taxa v
  constructor
  · rintro ⟨A, hA⟩
    rw [hA] at h
    cases hc : upgmaC taxa v with
    | ok r => exact ⟨r, rfl⟩
    | err k => rw [hc] at h; cases h
    | panic => rw [hc] at h; cases h
  · rintro ⟨r, hr⟩
    rw [hr] at h
    cases hc : upgmaShape taxa v with
    | ok A => exact ⟨A, rfl⟩
    | err k => rw [hc] at h; cases h
    | panic => rw [hc] at h; cases h

/-! ## the arena of a successful run -/

/-- same liveness, names, child lists and parents in every slot -/
structure SameSkel (a b : Arena) : Prop where
  size : b.size = a.size
  deleted : ∀ i, (nd b i).deleted = (nd a i).deleted
  name : ∀ i, (nd b i).name = (nd a i).name
  children : ∀ i, (nd b i).children = (nd a i).children
  parent : ∀ i, (nd b i).parent = (nd a i).parent

theorem SameSkel.live_iff {a b : Arena} (h : SameSkel a b) (i : Nat) : live b i ↔ live a i := by
  simp only [live, h.size, h.deleted]

theorem SameSkel.trans {a b c : Arena} (h1 : SameSkel a b) (h2 : SameSkel b c) : SameSkel a c :=
  ⟨by rw [h2.size, h1.size], fun i => by rw [h2.deleted, h1.deleted], fun i => by rw [h2.name, h1.name],
   fun i => by rw [h2.children, h1.children], fun i => by rw [h2.parent, h1.parent]⟩

theorem writeLen_skel {a : Arena} (g : Good a) {x p : Nat} (hlp : live a p) (hm : x ∈ (nd a p).children) (v : Int) :
    Good (writeLen a x p v) ∧ SameSkel a (writeLen a x p v) := by
  obtain ⟨h1, h2, h3⟩ := writeLen_spec g hlp hm v
  exact ⟨h1, h2, fun i => (h3 i).1, fun i => (h3 i).2.1, fun i => (h3 i).2.2.1, fun i => (h3 i).2.2.2⟩

/-- everything known about a successful run: the state after the loop satisfies the invariant, exactly two indices are
    left, and the returned arena is the arena after the loop with two lengths written -/
theorem upgmaShape_ok_inv (taxa : List String) (v : Array Rat) (A : Arena) (h : upgmaShape taxa v = .ok A) :
    ∃ s ai bi dab, SInv taxa s ∧ loopC taxa.length (initSt taxa v) = .ok s.st ∧
      actOf taxa.length s.st = [ai, bi] ∧ s.st.nClusters = 2 ∧ s.st.dm.getD (cell ai bi) none = some dab ∧
      Good A ∧ SameSkel s.ar A := by
  obtain ⟨k1, k2, k3⟩ := upgmaShape_decomp taxa v
  cases hl : loopC taxa.length (initSt taxa v) with
  | err k => rw [k2 k hl] at h; cases h
  | panic => rw [k3 hl] at h; cases h
  | ok st =>
    obtain ⟨s, hI, he, hu⟩ := k1 st hl
    subst he
    rw [hu] at h
    unfold finishShape at h
    split at h
    · next ai bi rest hact =>
      split at h
      · next dab hd =>
        have hact' : actOf taxa.length s.st = ai :: bi :: rest := hact
        obtain ⟨_, hfin⟩ := loopC_lite taxa.length taxa.length (initSt taxa v) s.st (init_lite taxa v) hl
        have hn2 : s.st.nClusters ≤ 2 := hfin (by simp [initSt])
        have hncl := hI.lite.ncl
        rw [hact'] at hncl
        simp only [List.length_cons] at hncl
        have hrest : rest = [] := by
          cases rest with
          | nil => rfl
          | cons _ _ => simp only [List.length_cons] at hncl; omega
        subst hrest
        have hai : ai ∈ actOf taxa.length s.st := by rw [hact']; simp
        have hbi : bi ∈ actOf taxa.length s.st := by rw [hact']; simp
        obtain ⟨g1, s1⟩ := writeLen_skel hI.good hI.live0 (hI.kid_mem hai) 0
        have hl1 : live (writeLen s.ar (s.ids.getD ai 0) 0 0) 0 := (s1.live_iff 0).2 hI.live0
        obtain ⟨g2, s2⟩ := writeLen_skel g1 hl1 (by rw [s1.children]; exact hI.kid_mem hbi) 0
        injection h with h
        subst h
        refine ⟨s, ai, bi, dab, hI, rfl, hact', ?_, hd, g2, s1.trans s2⟩
        simp only [List.length_nil] at hncl
        omega
      · cases h
    · cases h

theorem SameSkel.repU {a b : Arena} (h : SameSkel a b) {P Q : Nat → Prop} (hPQ : ∀ y, P y → Q y) {x : Nat} {u : URose}
    (hr : RepU a P x u) : RepU b Q x u :=
  repU_frame hPQ (fun y _ hl => ⟨(h.live_iff y).2 hl, h.name y, h.children y⟩) u x hr

/-- **well formed, one root, in slot 0** -/
theorem upgmaShape_good (taxa : List String) (v : Array Rat) (A : Arena) (h : upgmaShape taxa v = .ok A) :
    Good A ∧ AtMostOneRoot A ∧ getRoot A = some 0 := by
  obtain ⟨s, ai, bi, dab, hI, _, _, _, _, g, sk⟩ := upgmaShape_ok_inv taxa v A h
  have h1 : AtMostOneRoot A := by
    intro i j hi hj
    exact hI.one i j ⟨(sk.live_iff i).1 hi.1, by rw [← sk.parent]; exact hi.2⟩
      ⟨(sk.live_iff j).1 hj.1, by rw [← sk.parent]; exact hj.2⟩
  have hl0 : live A 0 := (sk.live_iff 0).2 hI.live0
  have hr0 : isRoot A 0 := ⟨hl0, by rw [sk.parent]; exact hI.par0⟩
  obtain ⟨r, hroot, hget, _, _⟩ := one_tree g h1 0 hl0
  rw [h1 0 r hr0 hroot]
  exact ⟨g, h1, hget⟩

/-- **the arena holds the tree of the numeric model**: names and the order of the children under every node agree -/
theorem upgmaShape_represents (taxa : List String) (v : Array Rat) (A : Arena) (h : upgmaShape taxa v = .ok A) :
    ∃ t u m tie dy, absRoot A = .ok t ∧ upgmaC taxa v = .ok (u, m, tie, dy) ∧ eraseLen (erase t) = u.shape := by
  obtain ⟨s, ai, bi, dab, hI, hl, hact, _, hd, g, sk⟩ := upgmaShape_ok_inv taxa v A h
  obtain ⟨_, h1, hget⟩ := upgmaShape_good taxa v A h
  have hl0 : live A 0 := (sk.live_iff 0).2 hI.live0
  obtain ⟨t, ht⟩ := absRoot_total g h1 0 hl0
  obtain ⟨r, t0, c⟩ := absRoot_ctx g h1 ht
  have hr : r = 0 := by
    have := c.root_eq; rw [hget] at this; injection this with this; exact this.symm
  subst hr
  have hup := upgmaC_ok_of taxa v s.st ai bi [] dab hl hact hd
  refine ⟨t, _, _, _, _, ht, hup, ?_⟩
  rw [c.dec]
  apply repU_shape (P := fun _ => True) _ t0 0 _ c.rep
  rw [repU_node]
  refine ⟨trivial, hl0, by rw [sk.name]; exact hI.name0, ?_⟩
  rw [sk.children, hI.kids]
  apply repUL_map
  intro i hi
  have hia := hI.lite.rkM i hi
  have hr := sk.repU (Q := fun _ => True) (fun _ _ => trivial) (hI.rep i hia)
  unfold finalKidC
  simp only
  split
  · exact repU_setLen _ hr
  · split
    · exact repU_setLen _ hr
    · exact hr

/-! ## the slot layout -/

/-- **slots**: `2n − 1` slots, none removed; slot 0 is the unnamed root with exactly two children; slots `1..n` are the
    tips carrying the taxa in order; every later slot is an unnamed node with exactly two children -/
theorem upgmaShape_slots (taxa : List String) (v : Array Rat) (A : Arena) (h : upgmaShape taxa v = .ok A) :
    2 ≤ taxa.length ∧ A.size + 1 = 2 * taxa.length ∧ (∀ i, i < A.size → (nd A i).deleted = false) ∧
    (nd A 0).name = none ∧ (nd A 0).parent = none ∧ (nd A 0).children.length = 2 ∧
    (∀ i, i < taxa.length → (nd A (i + 1)).name = some (nameOf taxa i) ∧ (nd A (i + 1)).children = []) ∧
    (∀ i, taxa.length < i → i < A.size → (nd A i).name = none ∧ (nd A i).children.length = 2) := by
  obtain ⟨s, ai, bi, dab, hI, _, hact, hn2, _, g, sk⟩ := upgmaShape_ok_inv taxa v A h
  have hsz := hI.size
  have h2n : 2 ≤ taxa.length := by
    have := actOf_length_le taxa.length s.st
    rw [hact] at this; exact this
  refine ⟨h2n, by rw [sk.size]; omega, ?_, by rw [sk.name]; exact hI.name0, by rw [sk.parent]; exact hI.par0, ?_, ?_, ?_⟩
  · intro i hi; rw [sk.deleted]; exact hI.nodel i (by rw [← sk.size]; exact hi)
  · rw [sk.children, hI.kids, List.length_map, hI.rkL, hn2]
  · intro i hi; rw [sk.name, sk.children]; exact hI.tips i hi
  · intro i h1 h2
    rw [sk.name, sk.children]
    obtain ⟨k1, k2⟩ := hI.inner i h1 (by rw [← sk.size]; exact h2)
    exact ⟨k2, k1⟩

theorem filter_range_mid (p : Nat → Bool) (n m : Nat) (hm : n < m) (h0 : p 0 = false)
    (h1 : ∀ i, 1 ≤ i → i ≤ n → p i = true) (h2 : ∀ i, n < i → i < m → p i = false) :
    (List.range m).filter p = (List.range n).map (· + 1) := by
  have e : List.range m = List.range' 0 1 ++ (List.range' 1 n ++ List.range' (1 + n) (m - (n + 1))) := by
    rw [List.range'_append_1, List.range'_append_1, List.range_eq_range']
    congr 1; omega
  rw [e, List.filter_append, List.filter_append]
  have f1 : (List.range' 0 1).filter p = [] := by
    apply List.filter_eq_nil_iff.2
    intro i hi
    simp only [List.mem_range'_1] at hi
    have : i = 0 := by omega
    subst this; simp [h0]
  have f2 : (List.range' 1 n).filter p = List.range' 1 n := by
    apply List.filter_eq_self.2
    intro i hi
    simp only [List.mem_range'_1] at hi
    exact h1 i hi.1 (by omega)
  have f3 : (List.range' (1 + n) (m - (n + 1))).filter p = [] := by
    apply List.filter_eq_nil_iff.2
    intro i hi
    simp only [List.mem_range'_1] at hi
    rw [h2 i (by omega) (by omega)]; simp
  rw [f1, f2, f3, List.nil_append, List.append_nil]
  apply List.ext_getElem
  · simp
  · intro i h1 h2
    simp [Nat.add_comm]

/-- **the leaves are exactly the taxa**: `get_leaves` lists the slots `1..n`, and their names are the taxa, in order -/
theorem upgmaShape_leaves (taxa : List String) (v : Array Rat) (A : Arena) (h : upgmaShape taxa v = .ok A) :
    leaves A = (List.range taxa.length).map (· + 1) ∧ (leaves A).map (fun i => (nd A i).name) = taxa.map some := by
  obtain ⟨hn, hsz, hdel, _, _, h0, htips, hinner⟩ := upgmaShape_slots taxa v A h
  have hl : leaves A = (List.range taxa.length).map (· + 1) := by
    unfold leaves
    apply filter_range_mid _ taxa.length A.size (by omega)
    · cases hc : (nd A 0).children with
      | nil => rw [hc] at h0; simp at h0
      | cons _ _ => simp
    · intro i hi1 hi2
      obtain ⟨_, hc⟩ := htips (i - 1) (by omega)
      have e : i - 1 + 1 = i := by omega
      rw [e] at hc
      simp [isLive, hc, hdel i (by omega)]; omega
    · intro i hi1 hi2
      obtain ⟨_, hc⟩ := hinner i hi1 hi2
      cases hk : (nd A i).children with
      | nil => rw [hk] at hc; simp at hc
      | cons _ _ => simp
  refine ⟨hl, ?_⟩
  rw [hl, List.map_map]
  conv => rhs; rw [← map_nameOf_range taxa, List.map_map]
  apply List.map_congr_left
  intro i hi
  exact (htips i (List.mem_range.1 hi)).1

/-! ## on the domain of the master theorem the run succeeds -/

theorem upgmaShape_ok (taxa : List String) (v : Array Rat) (h2 : 2 ≤ taxa.length) (hv : v.size = T taxa.length)
    (hpos : ∀ k, k < v.size → 0 ≤ v.getD k 0) : ∃ A, upgmaShape taxa v = .ok A := by
  rw [upgmaShape_ok_iff, upgmaC_eq_upgma taxa v h2 hv hpos]
  exact (upgma_ok_nonneg taxa v h2 hv hpos).1

end UPG
