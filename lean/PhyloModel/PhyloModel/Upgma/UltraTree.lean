import PhyloModel.Upgma.Ultra
/-! # C15 — ultrametric input: the leaf-to-leaf path lengths of the UPGMA tree reproduce the matrix

`distM t` is the full matrix of path lengths between the leaves of `t` (in leaf order).  For an input that
satisfies the three-point condition (`Ultra`), with non-negative entries, the tree returned by `UPG.upgma`
has `distM t = A.map (fun x => A.map (d0 x))`, where `A` (a permutation of all taxon indices) lists the taxa
in leaf order (`upgma_recovers_ultrametric`). -/
namespace UPG
open MX Tri MXS

/-! ## the loop with the ultrametric invariant -/

/-- how `Q` must behave under the join of two clusters all of whose cross distances are `2 * h` -/
def QMergeX (d0 : Nat → Nat → Rat) (Q : URose → List Nat → Rat → Prop) : Prop :=
  ∀ (ta tb : URose) (A B : List Nat) (ha hb h : Rat), Q ta A ha → Q tb B hb → A ≠ [] → B ≠ [] →
    0 ≤ h - ha → 0 ≤ h - hb → (∀ x, x ∈ A → ∀ y, y ∈ B → d0 x y = 2 * h) →
    Q (mergeTrees ta tb (h - ha) (h - hb)) (A ++ B) h

theorem cross_of_U {d0 : Nat → Nat → Rat} {n : Nat} {st : St} {mem : Nat → List Nat} {a b : Nat} {dab : Rat}
    (hU : U d0 (absSt n st mem)) (ha : a ∈ actOf n st) (hb : b ∈ actOf n st) (hab : a ≠ b) (hD : Dof st a b = dab) :
    ∀ x, x ∈ mem a → ∀ y, y ∈ mem b → d0 x y = 2 * (dab / 2) := by
  intro x hx y hy
  have := hU a b ha hb hab x hx y hy
  have e : (absSt n st mem).D a b = dab := hD
  rw [e] at this
  rw [this]; grind

theorem Stepped.cinvX {d0 : Nat → Nat → Rat} {Q : URose → List Nat → Rat → Prop} (hQ : QMergeX d0 Q) {n : Nat}
    {st st' : St} {mem} {a b : Nat} {dab : Rat} (hI : LInv d0 n st mem) (hU : U d0 (absSt n st mem))
    (s : Stepped n st st' a b dab) (hC : CInv Q n st mem)
    (h1 : 0 ≤ dab / 2 - st.heights.getD a 0) (h2 : 0 ≤ dab / 2 - st.heights.getD b 0) :
    CInv Q n st' (memAfter mem a b) := by
  have hbn : b < n := by have := s.lt; have := s.an; omega
  obtain ⟨ha, hb, hab, hD, _⟩ := s.min_act hI.wf
  intro i hi hli
  obtain ⟨hli1, hib⟩ := (s.live' hI.wf i).1 hli
  rw [s.clusters, s.heights, getD_set, getD_set, hI.wf.szK, hI.wf.szH]
  simp only [memAfter]
  by_cases hia : a = i
  · subst hia
    simp only [s.an, and_self, ↓reduceIte]
    exact hQ _ _ _ _ _ _ _ (hC a s.an s.la) (hC b hbn s.lb) (hI.link.ne a ha) (hI.link.ne b hb) h1 h2
      (cross_of_U hU ha hb hab hD)
  · have hia' : ¬ i = a := fun e => hia e.symm
    simp only [hia, false_and, ↓reduceIte, hia']
    exact hC i hi hli1

theorem Stepped.uinv {d0 : Nat → Nat → Rat} (hd : ∀ x y, d0 x y = d0 y x) {n : Nat} (hu : Ultra d0 n)
    {st st' : St} {mem} {a b : Nat} {dab : Rat} (hI : LInv d0 n st mem) (hU : U d0 (absSt n st mem))
    (s : Stepped n st st' a b dab) : U d0 (absSt n st' (memAfter mem a b)) := by
  obtain ⟨ha, hb, hab, _, hmin⟩ := s.min_act hI.wf
  exact (s.agree hI.wf).U (merge_U hd hu (absSt n st mem) a b hI.link hI.part hU ha hb hab hmin)

theorem loop_invU {d0 : Nat → Nat → Rat} (hd : ∀ x y, d0 x y = d0 y x) {Q : URose → List Nat → Rat → Prop}
    (n : Nat) (hu : Ultra d0 n) (hQ : QMergeX d0 Q) :
    ∀ (f : Nat) (st : St) (mem : Nat → List Nat), LInv d0 n st mem → U d0 (absSt n st mem) → CInv Q n st mem →
      ∃ st' mem', loop f st = .ok st' ∧ LInv d0 n st' mem' ∧ U d0 (absSt n st' mem') ∧ CInv Q n st' mem' ∧
        (st.nClusters ≤ f + 2 → st'.nClusters = 2) := by
  intro f
  induction f with
  | zero =>
    intro st mem hI hU hC
    exact ⟨st, mem, rfl, hI, hU, hC, fun h => by have := hI.two; omega⟩
  | succ f ih =>
    intro st mem hI hU hC
    by_cases hgt : st.nClusters > 2
    · obtain ⟨st1, hs⟩ := step_total hI.wf (by rw [← hI.wf.ncl]; omega)
      obtain ⟨a, b, dab, s⟩ := step_spec hI.wf hs
      obtain ⟨hI1, h1, h2⟩ := s.linv hd hI hgt
      have hC1 := s.cinvX hQ hI hU hC h1 h2
      have hU1 := s.uinv hd hu hI hU
      obtain ⟨st', mem', hl, hI', hU', hC', hfin⟩ := ih st1 _ hI1 hU1 hC1
      refine ⟨st', mem', ?_, hI', hU', hC', ?_⟩
      · simp only [loop, hgt, ↓reduceIte, hs]; exact hl
      · intro hle; apply hfin; rw [s.nClusters]; omega
    · refine ⟨st, mem, ?_, hI, hU, hC, fun _ => by have := hI.two; omega⟩
      simp only [loop, hgt, ↓reduceIte]

theorem init_U (taxa : List String) (v : Array Rat) :
    U (d0of v) (absSt taxa.length (initSt taxa v) (fun i => [i])) := by
  intro i j _ _ hij x hx y hy
  have e1 : x = i := by simpa [absSt] using hx
  have e2 : y = j := by simpa [absSt] using hy
  subst e1 e2
  show d0of v x y = Dof _ x y
  rw [init_Dof]
  simp [d0of, hij]

/-- master theorem for ultrametric input -/
theorem upgma_masterU {Q : URose → List Nat → Rat → Prop} (taxa : List String) (v : Array Rat)
    (hQm : QMergeX (d0of v) Q) (hQi : QInit Q taxa) (h2 : 2 ≤ taxa.length) (hv : v.size = T taxa.length)
    (hpos : ∀ k, k < v.size → 0 ≤ v.getD k 0) (hu : Ultra (d0of v) taxa.length) :
    ∃ t m tie dy A h, upgma taxa v = .ok (t, m, tie, dy) ∧ Q t A h ∧ A.Perm (List.range taxa.length) := by
  obtain ⟨st, mem, hl, hI, hU, hC, hfin⟩ := loop_invU (d0of_symm v) taxa.length hu hQm taxa.length (initSt taxa v) _
    (init_linv taxa v hv h2 hpos) (init_U taxa v) (init_cinv taxa v hQi)
  have hn2 : st.nClusters = 2 := hfin (by simp [initSt])
  obtain ⟨k1, k2, dab, hne, hk1, hk2, _, _, hD, _, h1, h2', hup, hperm⟩ := final_join taxa v st mem hl hI hn2
  obtain ⟨hk1n, hk1l⟩ := mem_actOf.1 hk1
  obtain ⟨hk2n, hk2l⟩ := mem_actOf.1 hk2
  exact ⟨_, _, _, _, mem k1 ++ mem k2, dab / 2, hup,
    hQm _ _ _ _ _ _ _ (hC k1 hk1n hk1l) (hC k2 hk2n hk2l) (hI.link.ne k1 hk1) (hI.link.ne k2 hk2) h1 h2'
      (cross_of_U hU hk1 hk2 hne hD), hperm⟩

/-! ## the matrix of leaf-to-leaf path lengths of a tree -/

mutual
/-- path lengths between all pairs of leaves, in leaf order (row `p`, column `q`: from leaf `p` to leaf `q`) -/
def distM : URose → List (List Rat)
  | .node _ _ ks => if ks.isEmpty then [[0]] else distML ks
/-- the same for the leaves below a list of sibling subtrees; paths between different subtrees go through the
    common parent: down-depth plus branch length on either side -/
def distML : List URose → List (List Rat)
  | [] => []
  | k :: ks =>
    (List.zipWith (fun row d => row ++ (leafDepthsL ks).map (fun e => d + e)) (distM k)
        ((leafDepths k).map (fun d => k.len.getD 0 + d))) ++
    (List.zipWith (fun row e => ((leafDepths k).map (fun d => k.len.getD 0 + d)).map (fun d => d + e) ++ row)
        (distML ks) (leafDepthsL ks))
end

theorem distM_leaf (n : Option String) (l : Option Rat) : distM (.node n l []) = [[0]] := by
  rw [distM]; rfl

theorem distM_setLen (t : URose) (l : Option Rat) : distM (t.setLen l) = distM t := by
  cases t; rw [URose.setLen, distM, distM]

theorem distML_nil : distML [] = [] := by rw [distML]
theorem distML_cons (k : URose) (ks : List URose) : distML (k :: ks) =
    (List.zipWith (fun row d => row ++ (leafDepthsL ks).map (fun e => d + e)) (distM k)
        ((leafDepths k).map (fun d => k.len.getD 0 + d))) ++
    (List.zipWith (fun row e => ((leafDepths k).map (fun d => k.len.getD 0 + d)).map (fun d => d + e) ++ row)
        (distML ks) (leafDepthsL ks)) := by rw [distML]

theorem distM_merge (a b : URose) (la lb : Rat) : distM (mergeTrees a b la lb) =
    List.zipWith (fun row d => row ++ List.map (fun e => d + e) (List.map (fun d => lb + d) (leafDepths b))) (distM a)
        (List.map (fun d => la + d) (leafDepths a)) ++
      List.zipWith (fun row e => List.map (fun d => d + e) (List.map (fun d => la + d) (leafDepths a)) ++ row)
        (List.zipWith (fun row _ => row) (distM b) (List.map (fun d => lb + d) (leafDepths b)))
        (List.map (fun d => lb + d) (leafDepths b)) := by
  rw [mergeTrees, distM]
  simp only [List.isEmpty_cons, Bool.false_eq_true, ↓reduceIte]
  rw [distML_cons, distML_cons, distML_nil, leafDepthsL_cons, leafDepthsL_nil]
  simp only [distM_setLen, leafDepths_setLen, URose.setLen_len, Option.getD_some, List.append_nil, List.map_nil,
    List.zipWith_nil_left]

theorem zipWith_map_map {α β γ δ : Type} (f : β → γ → δ) (g : α → β) (k : α → γ) (A : List α) :
    List.zipWith f (A.map g) (A.map k) = A.map (fun x => f (g x) (k x)) := by
  induction A with
  | nil => rfl
  | cons x xs ih => simp only [List.map_cons, List.zipWith_cons_cons, ih]

/-- the matrix of original distances between the taxa listed in `A` -/
def matOf (d0 : Nat → Nat → Rat) (A : List Nat) : List (List Rat) := A.map (fun x => A.map (fun y => d0 x y))

theorem all_eq_map {l : List Rat} {h : Rat} {A : List Nat} (hall : ∀ d, d ∈ l → d = h) (hlen : l.length = A.length) :
    l = A.map (fun _ => h) := by
  induction l generalizing A with
  | nil =>
    cases A with
    | nil => rfl
    | cons _ _ => simp at hlen
  | cons d ds ih =>
    cases A with
    | nil => simp at hlen
    | cons x xs =>
      simp only [List.map_cons]
      rw [hall d (by simp), ← ih (fun e he => hall e (by simp [he])) (by simpa using hlen)]

/-- per-cluster invariant for ultrametric input: shape, depth, and the path-length matrix is the original one -/
def Q6 (d0 : Nat → Nat → Rat) (taxa : List String) (t : URose) (A : List Nat) (h : Rat) : Prop :=
  Q5 taxa t A h ∧ distM t = matOf d0 A

theorem q5_depths {taxa : List String} {t : URose} {A : List Nat} {h : Rat} (q : Q5 taxa t A h) :
    leafDepths t = A.map (fun _ => h) :=
  all_eq_map q.2 (by rw [leafDepths_length, q.1.2, List.length_map])

theorem qmergeX_q6 (d0 : Nat → Nat → Rat) (hd : ∀ x y, d0 x y = d0 y x) (taxa : List String) : QMergeX d0 (Q6 d0 taxa) := by
  intro ta tb A B ha hb h qa qb hA hB h1 h2 hcross
  refine ⟨qmerge_q5 taxa ta tb A B ha hb h qa.1 qb.1 hA hB h1 h2, ?_⟩
  rw [distM_merge, qa.2, qb.2, q5_depths qa.1, q5_depths qb.1]
  have e1 : List.map (fun d => h - ha + d) (List.map (fun _ => ha) A) = A.map (fun _ => h) := by
    rw [List.map_map]; apply List.map_congr_left; intro _ _; show h - ha + ha = h; grind
  have e2 : List.map (fun d => h - hb + d) (List.map (fun _ => hb) B) = B.map (fun _ => h) := by
    rw [List.map_map]; apply List.map_congr_left; intro _ _; show h - hb + hb = h; grind
  rw [e1, e2]
  unfold matOf
  rw [zipWith_map_map, zipWith_map_map, zipWith_map_map]
  simp only [List.map_map, List.map_append]
  congr 1
  · apply List.map_congr_left
    intro x hx
    congr 1
    apply List.map_congr_left
    intro y hy
    show h + h = d0 x y
    rw [hcross x hx y hy]; grind
  · apply List.map_congr_left
    intro y hy
    congr 1
    apply List.map_congr_left
    intro x hx
    show h + h = d0 y x
    rw [hd y x, hcross x hx y hy]; grind

theorem qinit_q6 (d0 : Nat → Nat → Rat) (h0 : ∀ x, d0 x x = 0) (taxa : List String) : QInit (Q6 d0 taxa) taxa := by
  intro i hi
  refine ⟨qinit_q5 taxa i hi, ?_⟩
  rw [distM_leaf]; simp [matOf, h0]

/-- **Item 6 (ultrametric recovery).**  If the input has non-negative entries and satisfies the three-point
    condition, then the matrix of leaf-to-leaf path lengths of the tree returned by `UPG.upgma` is the input
    matrix: with `A` the taxon indices in leaf order (a permutation of all indices; leaf `p` is named
    `taxa[A[p]]`), the path length between leaves `p` and `q` is `d0 A[p] A[q]`. -/
theorem upgma_recovers_ultrametric (taxa : List String) (v : Array Rat) (h2 : 2 ≤ taxa.length)
    (hv : v.size = T taxa.length) (hpos : ∀ k, k < v.size → 0 ≤ v.getD k 0) (hu : Ultra (d0of v) taxa.length) :
    ∃ t m tie dy A, upgma taxa v = .ok (t, m, tie, dy) ∧ A.Perm (List.range taxa.length) ∧
      leafNames t = A.map (fun i => some (nameOf taxa i)) ∧ distM t = matOf (d0of v) A := by
  obtain ⟨t, m, tie, dy, A, h, hup, hq, hperm⟩ := upgma_masterU taxa v (qmergeX_q6 (d0of v) (d0of_symm v) taxa)
    (qinit_q6 (d0of v) (by intro x; simp [d0of]) taxa) h2 hv hpos hu
  exact ⟨t, m, tie, dy, A, hup, hperm, hq.1.1.2, hq.2⟩

/-- non-vacuity: a concrete ultrametric input satisfying all hypotheses of `upgma_recovers_ultrametric` -/
example : 2 ≤ ["a", "b", "c"].length ∧ (#[2, 4, 4] : Array Rat).size = T ["a", "b", "c"].length ∧
    (∀ k, k < (#[2, 4, 4] : Array Rat).size → 0 ≤ (#[2, 4, 4] : Array Rat).getD k 0) ∧
    Ultra (d0of #[2, 4, 4]) ["a", "b", "c"].length := by
  refine ⟨hyps_example.1, hyps_example.2.1, hyps_example.2.2, ?_⟩
  intro x y z hx hy hz
  have h1 : x = 0 ∨ x = 1 ∨ x = 2 := by simp at hx; omega
  have h2 : y = 0 ∨ y = 1 ∨ y = 2 := by simp at hy; omega
  have h3 : z = 0 ∨ z = 1 ∨ z = 2 := by simp at hz; omega
  rcases h1 with h | h | h <;> rcases h2 with h' | h' | h' <;> rcases h3 with h'' | h'' | h'' <;>
    subst h h' h'' <;> decide

end UPG
