/-! Scratch prototype: mathematical core of UPGMA (average-linkage invariant, monotone heights) -/
namespace UP

def sumL (l : List Rat) : Rat := l.foldr (· + ·) 0

@[simp] theorem sumL_nil : sumL [] = 0 := rfl
@[simp] theorem sumL_cons (x : Rat) (l : List Rat) : sumL (x :: l) = x + sumL l := rfl
theorem sumL_append (a b : List Rat) : sumL (a ++ b) = sumL a + sumL b := by
  induction a with
  | nil => simp; grind
  | cons x xs ih => simp only [List.cons_append, sumL_cons, ih]; grind

variable (d0 : Nat → Nat → Rat)

/-- total original distance between two member lists -/
def S (A B : List Nat) : Rat := sumL (A.map (fun x => sumL (B.map (fun y => d0 x y))))

theorem S_append_left (A A' B : List Nat) : S d0 (A ++ A') B = S d0 A B + S d0 A' B := by
  simp [S, sumL_append]

/-- average-linkage distance stated without division -/
def IsAvg (v : Rat) (A B : List Nat) : Prop := v * ((A.length : Rat) * (B.length : Rat)) = S d0 A B

/-- the size-weighted update of the code computes the average linkage of the merged cluster -/
theorem avg_update (A B X : List Nat) (dax dbx : Rat) (hA : A ≠ []) (hB : B ≠ []) (hX : X ≠ [])
    (ha : IsAvg d0 dax A X) (hb : IsAvg d0 dbx B X) :
    IsAvg d0 (((A.length : Rat) * dax + (B.length : Rat) * dbx) / ((A.length : Rat) + (B.length : Rat)))
      (A ++ B) X := by
  unfold IsAvg at *
  rw [S_append_left, ← ha, ← hb]
  have hla : (0 : Rat) < (A.length : Rat) := Rat.natCast_pos.mpr (List.length_pos_iff.mpr hA)
  have hlb : (0 : Rat) < (B.length : Rat) := Rat.natCast_pos.mpr (List.length_pos_iff.mpr hB)
  have hsum : (A.length : Rat) + (B.length : Rat) ≠ 0 := by grind
  simp only [List.length_append, Rat.natCast_add]
  grind

end UP

namespace UP
/-- a size-weighted mean of two values ≥ m is ≥ m (reducibility of average linkage ⇒ monotone heights) -/
theorem wavg_ge (ca cb p q m : Rat) (ha : 0 < ca) (hb : 0 < cb) (hp : m ≤ p) (hq : m ≤ q) :
    m ≤ (ca * p + cb * q) / (ca + cb) := by
  have h1 : ca * m ≤ ca * p := Rat.mul_le_mul_of_nonneg_left hp (Rat.le_of_lt ha)
  have h2 : cb * m ≤ cb * q := Rat.mul_le_mul_of_nonneg_left hq (Rat.le_of_lt hb)
  have hs : 0 < ca + cb := by grind
  have h3 : m * (ca + cb) ≤ ca * p + cb * q := by grind
  -- by contradiction with the strict version that core provides
  apply Rat.not_lt.mp
  intro hlt
  have := (Rat.div_lt_iff hs).mp hlt
  grind
end UP
