import PhyloModel.Upgma.Clamp
/-! # C15 — what the clamp buys, with NO hypothesis on the matrix

For every taxon list and every vector `v` (any size, any signs), if the repaired `upgma` (`UPG.upgmaC`) returns a
tree, every non-root node of that tree carries a branch length and it is non-negative
(`upgmaC_lengths_nonneg_always`).  Only a light invariant of the flags / root children / cluster trees is
needed; the matrix plays no part. -/
namespace UPG
open MX Tri MXS

/-- what a successful clamped iteration does to the flags, the cluster trees and the root children -/
theorem stepC_ok_fields (st st' : St) (h : stepC st = .ok st') :
    ∃ a b dab, minCell st.dm = some ((a, b), some dab) ∧ st.merged.getD a true = false ∧ st.merged.getD b true = false ∧
      st'.merged = st.merged.setIfInBounds b true ∧
      st'.clusters = st.clusters.setIfInBounds a (mergeTrees (st.clusters.getD a default) (st.clusters.getD b default)
        (nonNeg (dab / 2 - st.heights.getD a 0)) (nonNeg (dab / 2 - st.heights.getD b 0))) ∧
      st'.rootKids = ((st.rootKids.erase a).erase b) ++ [a] ∧ st'.nClusters = st.nClusters - 1 := by
  unfold stepC at h
  split at h
  · cases h
  · split at h <;> cases h
  · next a b dab hmin =>
    split at h
    · cases h
    · next hm =>
      injection h with h
      subst h
      simp only [Bool.or_eq_true, not_or, Bool.not_eq_true] at hm
      exact ⟨a, b, dab, hmin, hm.1, hm.2, rfl, rfl, rfl, rfl⟩

/-- the pair returned by the minimum search is a pair `(a, b)` with `b < a` -/
theorem minCell_pair_lt (dm : Array Cell) (a b : Nat) (c : Cell) (h : minCell dm = some ((a, b), c)) : b < a := by
  have hpos : 0 < dm.size := by
    apply Classical.byContradiction; intro hc
    rw [minCell_none dm (by omega)] at h
    cases h
  obtain ⟨k, _, hk2, _⟩ := minCell_spec dm hpos
  rw [h] at hk2
  injection hk2 with hk2
  injection hk2 with hk3 _
  have := (invIdx_spec k).1
  rw [← hk3] at this
  exact this

/-- light invariant: flags, count, root children, and non-negative lengths inside every live cluster tree -/
structure Lite (n : Nat) (st : St) : Prop where
  szM : st.merged.size = n
  ncl : st.nClusters = (actOf n st).length
  rkN : st.rootKids.Nodup
  rkM : ∀ i, i ∈ st.rootKids → i ∈ actOf n st
  cl : ∀ i, i ∈ actOf n st → NonNegLens (st.clusters.getD i default)

theorem nonNegLens_mergeC (ta tb : URose) (x y : Rat) (qa : NonNegLens ta) (qb : NonNegLens tb) :
    NonNegLens (mergeTrees ta tb (nonNeg x) (nonNeg y)) := by
  intro z hz
  rw [brLens_merge] at hz
  simp only [List.mem_cons, List.mem_append] at hz
  rcases hz with hz | hz | hz | hz
  · exact ⟨_, hz, nonNeg_nonneg x⟩
  · exact qa z hz
  · exact ⟨_, hz, nonNeg_nonneg y⟩
  · exact qb z hz

theorem actOf_erase (n : Nat) (st st' : St) (b : Nat)
    (hlive : ∀ i, st'.merged.getD i true = false ↔ (st.merged.getD i true = false ∧ i ≠ b)) :
    actOf n st' = (actOf n st).erase b := by
  rw [List.Nodup.erase_eq_filter (actOf_nodup n st)]
  simp only [actOf, List.filter_filter]
  apply List.filter_congr
  intro i _
  have := hlive i
  cases h1 : st'.merged.getD i true <;> cases h2 : st.merged.getD i true <;> simp_all

theorem stepC_lite {n : Nat} {st st' : St} (hL : Lite n st) (hs : stepC st = .ok st') :
    Lite n st' ∧ st'.nClusters = st.nClusters - 1 := by
  obtain ⟨a, b, dab, hmin, hla, hlb, rM, rK, rR, rN⟩ := stepC_ok_fields st st' hs
  have hlt : b < a := minCell_pair_lt st.dm a b _ hmin
  have hab : a ≠ b := by omega
  have hbs : b < st.merged.size := getD_lt_of_ne st.merged b true (by rw [hlb]; simp)
  have has : a < st.merged.size := getD_lt_of_ne st.merged a true (by rw [hla]; simp)
  have hbn : b < n := by rw [← hL.szM]; exact hbs
  have han : a < n := by rw [← hL.szM]; exact has
  have haa : a ∈ actOf n st := mem_actOf.2 ⟨han, hla⟩
  have hba : b ∈ actOf n st := mem_actOf.2 ⟨hbn, hlb⟩
  have hlive : ∀ i, st'.merged.getD i true = false ↔ (st.merged.getD i true = false ∧ i ≠ b) := by
    intro i
    rw [rM, getD_set]
    simp only [hbs, and_true]
    by_cases hib : b = i
    · subst hib; simp
    · simp [hib]; intro _; exact fun e => hib e.symm
  have hact : actOf n st' = (actOf n st).erase b := actOf_erase n st st' b hlive
  refine ⟨⟨?_, ?_, ?_, ?_, ?_⟩, rN⟩
  · rw [rM, Array.size_setIfInBounds, hL.szM]
  · rw [rN, hact, hL.ncl, List.length_erase_of_mem hba]
  · rw [rR]
    have h1 : ((st.rootKids.erase a).erase b).Nodup := (hL.rkN.erase a).erase b
    apply List.nodup_append.2
    refine ⟨h1, by simp, ?_⟩
    intro x hx y hy
    simp only [List.mem_singleton] at hy
    subst hy
    intro e; subst e
    have := (List.Nodup.mem_erase_iff (hL.rkN.erase x)).1 hx
    exact (List.Nodup.mem_erase_iff hL.rkN).1 this.2 |>.1 rfl
  · intro i hi
    rw [rR, List.mem_append, List.Nodup.mem_erase_iff (hL.rkN.erase a), List.Nodup.mem_erase_iff hL.rkN,
      List.mem_singleton] at hi
    rw [hact, List.Nodup.mem_erase_iff (actOf_nodup n st)]
    rcases hi with ⟨h1, _, h3⟩ | h1
    · exact ⟨h1, hL.rkM i h3⟩
    · subst h1; exact ⟨hab, haa⟩
  · intro i hi
    rw [hact, List.Nodup.mem_erase_iff (actOf_nodup n st)] at hi
    rw [rK, getD_set]
    split
    · exact nonNegLens_mergeC _ _ _ _ (hL.cl a haa) (hL.cl b hba)
    · exact hL.cl i hi.2

/-- the clamped loop keeps the light invariant and, with enough fuel, stops at two or fewer clusters -/
theorem loopC_lite (n : Nat) : ∀ (f : Nat) (st st' : St), Lite n st → loopC f st = .ok st' →
    Lite n st' ∧ (st.nClusters ≤ f + 2 → st'.nClusters ≤ 2) := by
  intro f
  induction f with
  | zero =>
    intro st st' hL h
    simp only [loopC] at h
    injection h with h
    subst h
    exact ⟨hL, fun h => by omega⟩
  | succ f ih =>
    intro st st' hL h
    by_cases hgt : st.nClusters > 2
    · simp only [loopC, hgt, ↓reduceIte] at h
      cases hs : stepC st with
      | ok st1 =>
        rw [hs] at h
        simp only at h
        obtain ⟨hL1, hn1⟩ := stepC_lite hL hs
        obtain ⟨hL', hfin⟩ := ih st1 st' hL1 h
        exact ⟨hL', fun hle => hfin (by rw [hn1]; omega)⟩
      | err k => rw [hs] at h; cases h
      | panic => rw [hs] at h; cases h
    · simp only [loopC, hgt, ↓reduceIte] at h
      injection h with h
      subst h
      exact ⟨hL, fun _ => by omega⟩

theorem init_lite (taxa : List String) (v : Array Rat) : Lite taxa.length (initSt taxa v) := by
  refine ⟨by simp [initSt], ?_, ?_, ?_, ?_⟩
  · rw [init_act]; simp [initSt]
  · exact List.nodup_range
  · intro i hi; rw [init_act]; exact hi
  · intro i hi
    rw [init_act] at hi
    rw [init_cluster taxa v i (List.mem_range.1 hi)]
    intro x hx; rw [brLens_leaf] at hx; cases hx

/-- a successful clamped run, taken apart -/
theorem upgmaC_ok_inv (taxa : List String) (v : Array Rat) (r : URose × Option Rat × Bool × Bool)
    (h : upgmaC taxa v = .ok r) :
    ∃ st ai bi rest dab, loopC taxa.length (initSt taxa v) = .ok st ∧
      actOf taxa.length st = ai :: bi :: rest ∧ st.dm.getD (cell ai bi) none = some dab ∧
      r = (.node none none (st.rootKids.map (finalKidC st ai bi (dab / 2))), st.margin, st.tie,
        st.dyadic && isDyadic (dab / 2)) := by
  unfold upgmaC at h
  simp only at h
  split at h
  · next st hl =>
    split at h
    · next ai bi rest hact =>
      split at h
      · next dab hd =>
        injection h with h
        exact ⟨st, ai, bi, rest, dab, hl, hact, hd, h.symm⟩
      · cases h
    · cases h
  · cases h
  · cases h

theorem brLensL_nonneg (ks : List URose)
    (h : ∀ k, k ∈ ks → (∃ l, k.len = some l ∧ 0 ≤ l) ∧ NonNegLens k) :
    ∀ x, x ∈ brLensL ks → ∃ l, x = some l ∧ 0 ≤ l := by
  induction ks with
  | nil => intro x hx; rw [brLensL_nil] at hx; cases hx
  | cons k ks ih =>
    intro x hx
    rw [brLensL_cons] at hx
    simp only [List.mem_cons, List.mem_append] at hx
    rcases hx with hx | hx | hx
    · obtain ⟨l, hl, h0⟩ := (h k (by simp)).1
      exact ⟨l, by rw [hx, hl], h0⟩
    · exact (h k (by simp)).2 x hx
    · exact ih (fun k' hk' => h k' (by simp [hk'])) x hx

/-- **What the clamp buys.**  No hypothesis on the taxa or on the matrix (size, signs): whenever the repaired
    `upgma` returns a tree, every non-root node of it has a branch length, and that length is non-negative. -/
theorem upgmaC_lengths_nonneg_always (taxa : List String) (v : Array Rat) (t : URose) (m : Option Rat)
    (ti dy : Bool) (h : upgmaC taxa v = .ok (t, m, ti, dy)) : NonNegLens t := by
  obtain ⟨st, ai, bi, rest, dab, hl, hact, _, hr⟩ := upgmaC_ok_inv taxa v _ h
  obtain ⟨hL, hfin⟩ := loopC_lite taxa.length taxa.length (initSt taxa v) st (init_lite taxa v) hl
  have hn2 : st.nClusters ≤ 2 := hfin (by simp [initSt])
  have hrest : rest = [] := by
    have := hL.ncl
    rw [hact] at this
    simp only [List.length_cons] at this
    cases rest with
    | nil => rfl
    | cons _ _ => simp only [List.length_cons] at this; omega
  subst hrest
  have hai : ai ∈ actOf taxa.length st := by rw [hact]; simp
  have hbi : bi ∈ actOf taxa.length st := by rw [hact]; simp
  injection hr with ht _
  subst ht
  intro x hx
  rw [brLens_eq, URose.kids_node] at hx
  refine brLensL_nonneg _ ?_ x hx
  intro k hk
  obtain ⟨i, hi, rfl⟩ := List.mem_map.1 hk
  have hia := hL.rkM i hi
  have hq := hL.cl i hia
  rw [hact] at hia
  simp only [List.mem_cons, List.not_mem_nil, or_false] at hia
  unfold finalKidC
  simp only
  split
  · refine ⟨⟨_, URose.setLen_len _ _, nonNeg_nonneg _⟩, ?_⟩
    intro y hy; rw [brLens_setLen] at hy; exact hq y hy
  · split
    · refine ⟨⟨_, URose.setLen_len _ _, nonNeg_nonneg _⟩, ?_⟩
      intro y hy; rw [brLens_setLen] at hy; exact hq y hy
    · next h1 h2 =>
      rcases hia with e | e
      · exact absurd (by simp [e]) h1
      · exact absurd (by simp [e]) h2

/-! ## a negative entry: the two models differ -/

/-- the branch lengths of a returned tree, in pre-order (empty on an error) -/
def lensOf (r : Res (URose × Option Rat × Bool × Bool)) : List (Option Rat) :=
  match r with
  | .ok (t, _, _, _) => brLens t
  | _ => []

/-- taxa `a, b, c` with `d(a,b) = -2`, `d(a,c) = d(b,c) = 4`: the original gives `a` and `b` the length `-1` and
    their parent the length `3`; the repaired one gives `0` and `2` -/
theorem neg_example_lens :
    lensOf (upgma ["a", "b", "c"] #[-2, 4, 4]) = [some 2, some 3, some (-1), some (-1)] ∧
    lensOf (upgmaC ["a", "b", "c"] #[-2, 4, 4]) = [some 2, some 2, some 0, some 0] := by
  constructor <;> decide +kernel

theorem neg_example_differs : upgmaC ["a", "b", "c"] #[-2, 4, 4] ≠ upgma ["a", "b", "c"] #[-2, 4, 4] := by
  intro e
  have h := congrArg lensOf e
  rw [neg_example_lens.1, neg_example_lens.2] at h
  revert h
  decide +kernel

end UPG
