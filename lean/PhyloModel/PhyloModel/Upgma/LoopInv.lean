import PhyloModel.Upgma.Refine
import PhyloModel.Upgma.UTree
/-! # C15 — invariants of the executable UPGMA loop, from the initial state to the returned tree

The average-linkage invariant `UP.Link`, the monotone-heights invariant `UP.Mono` and the partition invariant
`Part` are lifted through `UPG.loop`, starting from the initial state that `UPG.upgma` builds.  A generic
per-cluster invariant `Q tree members height` is carried along (`upgma_master`); its first instance gives:
for a matrix with non-negative entries on two or more taxa `UPG.upgma` succeeds and every branch length of
the returned tree is non-negative (`upgma_ok_nonneg`). -/
namespace UPG
open MX Tri MXS

/-! ## `upgma` = initial state, loop, final join -/

def initSt (taxa : List String) (v : Array Rat) : St :=
  { dm := v.map some, card := Array.replicate taxa.length 1, merged := Array.replicate taxa.length false,
    heights := Array.replicate taxa.length 0, clusters := (taxa.map (fun t => URose.node (some t) none [])).toArray,
    rootKids := List.range taxa.length, nClusters := taxa.length, margin := none }

/-- the two children of the root as the final join leaves them -/
def finalKid (st : St) (ai bi : Nat) (h : Rat) (i : Nat) : URose :=
  let t := st.clusters.getD i default
  if i == ai then t.setLen (some (h - st.heights.getD ai 0))
  else if i == bi then t.setLen (some (h - st.heights.getD bi 0)) else t

theorem upgma_ok_of (taxa : List String) (v : Array Rat) (st : St) (ai bi : Nat) (rest : List Nat) (dab : Rat)
    (hl : loop taxa.length (initSt taxa v) = .ok st)
    (hact : (List.range taxa.length).filter (fun i => !(st.merged.getD i true)) = ai :: bi :: rest)
    (hd : st.dm.getD (cell ai bi) none = some dab) :
    upgma taxa v = .ok (.node none none (st.rootKids.map (finalKid st ai bi (dab / 2))), st.margin, st.tie,
      st.dyadic && isDyadic (dab / 2)) := by
  unfold upgma
  simp only
  unfold initSt at hl
  rw [hl]
  simp only
  rw [hact]
  simp only
  rw [hd]
  rfl

/-- the input as a symmetric function of two taxon indices -/
def d0of (v : Array Rat) : Nat → Nat → Rat := fun i j => if i = j then 0 else v.getD (cell i j) 0

theorem d0of_symm (v : Array Rat) (x y : Nat) : d0of v x y = d0of v y x := by
  unfold d0of
  by_cases h : x = y
  · subst h; rfl
  · have h' : ¬ y = x := fun e => h e.symm
    simp only [h, h', ↓reduceIte]; rw [cell_symm x y h]

/-! ## the partition invariant on the abstract state -/

/-- the member lists of the active clusters partition the taxa `0 .. n-1` -/
structure Part (n : Nat) (s : UP.St) : Prop where
  nd : ∀ i, i ∈ s.act → (s.mem i).Nodup
  lt : ∀ i, i ∈ s.act → ∀ x, x ∈ s.mem i → x < n
  disj : ∀ i j, i ∈ s.act → j ∈ s.act → i ≠ j → ∀ x, x ∈ s.mem i → x ∉ s.mem j
  cover : ∀ x, x < n → ∃ i, i ∈ s.act ∧ x ∈ s.mem i

theorem merge_part (n : Nat) (s : UP.St) (a b : Nat) (hn : s.act.Nodup) (hp : Part n s)
    (ha : a ∈ s.act) (hb : b ∈ s.act) (hab : a ≠ b) : Part n (UP.merge s a b) := by
  have hmem : ∀ i, i ∈ (UP.merge s a b).act ↔ (i ∈ s.act ∧ i ≠ b) := by
    intro i; simp only [UP.merge]; rw [List.Nodup.mem_erase_iff hn]; constructor <;> (intro h; exact ⟨h.2, h.1⟩)
  have hm : ∀ i, (UP.merge s a b).mem i = if i = a then s.mem a ++ s.mem b else s.mem i := fun _ => rfl
  constructor
  · intro i hi
    obtain ⟨hi1, hib⟩ := (hmem i).1 hi
    rw [hm]
    by_cases hia : i = a
    · simp only [hia, ↓reduceIte]
      apply List.nodup_append.2
      refine ⟨hp.nd a ha, hp.nd b hb, ?_⟩
      intro x hx y hy e
      subst e
      exact hp.disj a b ha hb hab x hx hy
    · simp only [hia, ↓reduceIte]; exact hp.nd i hi1
  · intro i hi x hx
    obtain ⟨hi1, hib⟩ := (hmem i).1 hi
    rw [hm] at hx
    by_cases hia : i = a
    · simp only [hia, ↓reduceIte, List.mem_append] at hx
      rcases hx with hx | hx
      · exact hp.lt a ha x hx
      · exact hp.lt b hb x hx
    · simp only [hia, ↓reduceIte] at hx; exact hp.lt i hi1 x hx
  · intro i j hi hj hij x hx hx'
    obtain ⟨hi1, hib⟩ := (hmem i).1 hi
    obtain ⟨hj1, hjb⟩ := (hmem j).1 hj
    rw [hm] at hx hx'
    by_cases hia : i = a
    · have hja : j ≠ a := fun e => hij (hia.trans e.symm)
      simp only [hia, ↓reduceIte, List.mem_append] at hx
      simp only [hja, ↓reduceIte] at hx'
      rcases hx with hx | hx
      · exact hp.disj a j ha hj1 (Ne.symm hja) x hx hx'
      · exact hp.disj b j hb hj1 (Ne.symm hjb) x hx hx'
    · simp only [hia, ↓reduceIte] at hx
      by_cases hja : j = a
      · simp only [hja, ↓reduceIte, List.mem_append] at hx'
        rcases hx' with hx' | hx'
        · exact hp.disj i a hi1 ha hia x hx hx'
        · exact hp.disj i b hi1 hb hib x hx hx'
      · simp only [hja, ↓reduceIte] at hx'
        exact hp.disj i j hi1 hj1 hij x hx hx'
  · intro x hx
    obtain ⟨i, hi, hxi⟩ := hp.cover x hx
    by_cases hib : i = b
    · refine ⟨a, (hmem a).2 ⟨ha, hab⟩, ?_⟩
      rw [hm]; simp only [↓reduceIte, List.mem_append]; right; rw [← hib]; exact hxi
    · refine ⟨i, (hmem i).2 ⟨hi, hib⟩, ?_⟩
      rw [hm]
      by_cases hia : i = a
      · simp only [hia, ↓reduceIte, List.mem_append]; left; rw [← hia]; exact hxi
      · simp only [hia, ↓reduceIte]; exact hxi

/-! ## the loop invariant -/

/-- loop invariant: representation invariant, average linkage, monotone heights, partition -/
structure LInv (d0 : Nat → Nat → Rat) (n : Nat) (st : St) (mem : Nat → List Nat) : Prop where
  wf : WFSt n st mem
  link : UP.Link d0 (absSt n st mem)
  mono : UP.Mono (absSt n st mem)
  part : Part n (absSt n st mem)
  two : 2 ≤ st.nClusters

/-- per-cluster invariant: every live index carries a tree, a member list and a height related by `Q` -/
def CInv (Q : URose → List Nat → Rat → Prop) (n : Nat) (st : St) (mem : Nat → List Nat) : Prop :=
  ∀ i, i < n → st.merged.getD i true = false → Q (st.clusters.getD i default) (mem i) (st.heights.getD i 0)

/-- how `Q` must behave under the join of two clusters -/
def QMerge (Q : URose → List Nat → Rat → Prop) : Prop :=
  ∀ (ta tb : URose) (A B : List Nat) (ha hb h : Rat), Q ta A ha → Q tb B hb → A ≠ [] → B ≠ [] →
    0 ≤ h - ha → 0 ≤ h - hb → Q (mergeTrees ta tb (h - ha) (h - hb)) (A ++ B) h

theorem Stepped.linv {d0 : Nat → Nat → Rat} (hd : ∀ x y, d0 x y = d0 y x) {n : Nat} {st st' : St} {mem}
    {a b : Nat} {dab : Rat} (hI : LInv d0 n st mem) (s : Stepped n st st' a b dab) (hgt : 2 < st.nClusters) :
    LInv d0 n st' (memAfter mem a b) ∧ 0 ≤ dab / 2 - st.heights.getD a 0 ∧ 0 ≤ dab / 2 - st.heights.getD b 0 := by
  obtain ⟨ha, hb, hab, hD, hmin⟩ := s.min_act hI.wf
  have ag := s.agree hI.wf
  have hl := UP.merge_link d0 hd (absSt n st mem) a b hI.link ha hb hab
  obtain ⟨hm, h1, h2⟩ := UP.merge_mono d0 (absSt n st mem) a b hI.link hI.mono ha hb hab hmin
  have hp := merge_part n (absSt n st mem) a b hI.link.nodup hI.part ha hb hab
  have hD' : (absSt n st mem).D a b = dab := hD
  rw [hD'] at h1 h2
  refine ⟨⟨s.wf hI.wf, ag.link d0 hl, ag.mono hm, ?_, ?_⟩, h1, h2⟩
  · have e1 : (absSt n st' (memAfter mem a b)).act = (UP.merge (absSt n st mem) a b).act := ag.act
    constructor
    · intro i hi; rw [e1] at hi; exact hp.nd i hi
    · intro i hi; rw [e1] at hi; exact hp.lt i hi
    · intro i j hi hj; rw [e1] at hi hj; exact hp.disj i j hi hj
    · intro x hx; obtain ⟨i, hi, hxi⟩ := hp.cover x hx; exact ⟨i, by rw [e1]; exact hi, hxi⟩
  · rw [s.nClusters]; omega

theorem Stepped.cinv {d0 : Nat → Nat → Rat} {Q : URose → List Nat → Rat → Prop} (hQ : QMerge Q) {n : Nat} {st st' : St} {mem}
    {a b : Nat} {dab : Rat} (hI : LInv d0 n st mem) (s : Stepped n st st' a b dab) (hC : CInv Q n st mem)
    (h1 : 0 ≤ dab / 2 - st.heights.getD a 0) (h2 : 0 ≤ dab / 2 - st.heights.getD b 0) :
    CInv Q n st' (memAfter mem a b) := by
  have hbn : b < n := by have := s.lt; have := s.an; omega
  intro i hi hli
  obtain ⟨hli1, hib⟩ := (s.live' hI.wf i).1 hli
  rw [s.clusters, s.heights, getD_set, getD_set, hI.wf.szK, hI.wf.szH]
  simp only [memAfter]
  by_cases hia : a = i
  · subst hia
    simp only [s.an, and_self, ↓reduceIte]
    exact hQ _ _ _ _ _ _ _ (hC a s.an s.la) (hC b hbn s.lb)
      (hI.link.ne a (mem_actOf.2 ⟨s.an, s.la⟩)) (hI.link.ne b (mem_actOf.2 ⟨hbn, s.lb⟩)) h1 h2
  · have hia' : ¬ i = a := fun e => hia e.symm
    simp only [hia, false_and, ↓reduceIte, hia']
    exact hC i hi hli1

/-- the loop keeps the invariants, cannot fail, and with enough fuel stops at two clusters -/
theorem loop_inv {d0 : Nat → Nat → Rat} (hd : ∀ x y, d0 x y = d0 y x) {Q : URose → List Nat → Rat → Prop}
    (hQ : QMerge Q) (n : Nat) : ∀ (f : Nat) (st : St) (mem : Nat → List Nat), LInv d0 n st mem → CInv Q n st mem →
      ∃ st' mem', loop f st = .ok st' ∧ LInv d0 n st' mem' ∧ CInv Q n st' mem' ∧
        (st.nClusters ≤ f + 2 → st'.nClusters = 2) := by
  intro f
  induction f with
  | zero =>
    intro st mem hI hC
    exact ⟨st, mem, rfl, hI, hC, fun h => by have := hI.two; omega⟩
  | succ f ih =>
    intro st mem hI hC
    by_cases hgt : st.nClusters > 2
    · obtain ⟨st1, hs⟩ := step_total hI.wf (by rw [← hI.wf.ncl]; omega)
      obtain ⟨a, b, dab, s⟩ := step_spec hI.wf hs
      obtain ⟨hI1, h1, h2⟩ := s.linv hd hI hgt
      have hC1 := s.cinv hQ hI hC h1 h2
      obtain ⟨st', mem', hl, hI', hC', hfin⟩ := ih st1 _ hI1 hC1
      refine ⟨st', mem', ?_, hI', hC', ?_⟩
      · simp only [loop, hgt, ↓reduceIte, hs]; exact hl
      · intro hle; apply hfin; rw [s.nClusters]; omega
    · refine ⟨st, mem, ?_, hI, hC, fun _ => by have := hI.two; omega⟩
      simp only [loop, hgt, ↓reduceIte]

/-! ## the initial state -/

theorem getD_replicate {α : Type} (n : Nat) (x d : α) (i : Nat) :
    (Array.replicate n x).getD i d = if i < n then x else d := by
  simp only [Array.getD_eq_getD_getElem?, Array.getElem?_replicate]
  split <;> rfl

theorem getD_map_some (v : Array Rat) (k : Nat) : (v.map some).getD k none = v[k]? := by
  simp only [Array.getD_eq_getD_getElem?, Array.getElem?_map]
  cases v[k]? <;> rfl

theorem init_live (taxa : List String) (v : Array Rat) (i : Nat) :
    (initSt taxa v).merged.getD i true = false ↔ i < taxa.length := by
  simp only [initSt, getD_replicate]
  split <;> simp_all

theorem init_act (taxa : List String) (v : Array Rat) : actOf taxa.length (initSt taxa v) = List.range taxa.length := by
  unfold actOf
  apply List.filter_eq_self.2
  intro i hi
  have := (init_live taxa v i).2 (List.mem_range.1 hi)
  simp [this]

theorem init_Dof (taxa : List String) (v : Array Rat) (i j : Nat) :
    Dof (initSt taxa v) i j = v.getD (cell i j) 0 := by
  simp only [Dof, initSt]
  rw [getD_map_some, Array.getD_eq_getD_getElem?]

/-- name of taxon `i` -/
def nameOf (taxa : List String) (i : Nat) : String := taxa.getD i ""

theorem init_cluster (taxa : List String) (v : Array Rat) (i : Nat) (hi : i < taxa.length) :
    (initSt taxa v).clusters.getD i default = .node (some (nameOf taxa i)) none [] := by
  simp [initSt, nameOf, hi]

theorem init_wf (taxa : List String) (v : Array Rat) (hv : v.size = T taxa.length) :
    WFSt taxa.length (initSt taxa v) (fun i => [i]) := by
  constructor
  · simp [initSt]
  · simp [initSt, hv]
  · simp [initSt]
  · simp [initSt]
  · simp [initSt]
  · intro i j hi hj hij _ _
    have hc : cell i j < v.size := by rw [hv]; exact cell_lt hij hi hj
    refine ⟨v[cell i j], ?_⟩
    simp only [initSt, getD_map_some]
    exact Array.getElem?_eq_getElem hc
  · intro i j hi _ _ hd
    have := (init_live taxa v i).2 hi
    rw [this] at hd; cases hd
  · intro i hi _
    simp [initSt, hi]
  · rw [init_act]; simp [initSt]
  · exact List.nodup_range
  · intro i; rw [init_act]; simp [initSt]

theorem init_linv (taxa : List String) (v : Array Rat) (hv : v.size = T taxa.length) (h2 : 2 ≤ taxa.length)
    (hpos : ∀ k, k < v.size → 0 ≤ v.getD k 0) :
    LInv (d0of v) taxa.length (initSt taxa v) (fun i => [i]) := by
  refine ⟨init_wf taxa v hv, ?_, ?_, ?_, h2⟩
  · constructor
    · exact actOf_nodup _ _
    · intro i _; simp [absSt]
    · intro i j _ _
      show Dof _ i j = Dof _ j i
      by_cases hij : i = j
      · subst hij; rfl
      · rw [init_Dof, init_Dof, cell_symm i j hij]
    · intro i j _ _ hij
      show UP.IsAvg _ (Dof _ i j) [i] [j]
      rw [init_Dof]
      simp only [UP.IsAvg, UP.S, d0of, hij, List.length_cons, List.length_nil, List.map_cons, List.map_nil,
        UP.sumL_cons, UP.sumL_nil, ↓reduceIte]
      grind
  · intro i j k _ _ _ _
    show 2 * (initSt taxa v).heights.getD i 0 ≤ Dof _ j k
    rw [init_Dof]
    have h0 : (initSt taxa v).heights.getD i 0 = 0 := by
      simp only [initSt, getD_replicate]; split <;> rfl
    rw [h0]
    by_cases hc : cell j k < v.size
    · have := hpos _ hc; grind
    · have : v.getD (cell j k) 0 = 0 := by
        simp only [Array.getD_eq_getD_getElem?]
        have : v[cell j k]? = none := by simp; omega
        simp [this]
      rw [this]; grind
  · have hact := init_act taxa v
    constructor
    · intro i _; simp [absSt]
    · intro i hi x hx
      have hi' : i ∈ actOf taxa.length (initSt taxa v) := hi
      rw [hact] at hi'
      have : x = i := by simpa [absSt] using hx
      rw [this]; exact List.mem_range.1 hi'
    · intro i j _ _ hij x hx hx'
      have e1 : x = i := by simpa [absSt] using hx
      have e2 : x = j := by simpa [absSt] using hx'
      exact hij (e1.symm.trans e2)
    · intro x hx
      refine ⟨x, ?_, by simp [absSt]⟩
      show x ∈ actOf taxa.length (initSt taxa v)
      rw [hact]; exact List.mem_range.2 hx

/-- what `Q` must say about the initial singleton clusters -/
def QInit (Q : URose → List Nat → Rat → Prop) (taxa : List String) : Prop :=
  ∀ i, i < taxa.length → Q (.node (some (nameOf taxa i)) none []) [i] 0

theorem init_cinv {Q : URose → List Nat → Rat → Prop} (taxa : List String) (v : Array Rat) (hQ : QInit Q taxa) :
    CInv Q taxa.length (initSt taxa v) (fun i => [i]) := by
  intro i hi _
  rw [init_cluster taxa v i hi]
  have h0 : (initSt taxa v).heights.getD i 0 = 0 := by
    simp only [initSt, getD_replicate]; split <;> rfl
  rw [h0]
  exact hQ i hi

/-! ## the final join and the master theorem -/

theorem two_of_nodup {l : List Nat} {x y : Nat} (hn : l.Nodup) (hm : ∀ i, i ∈ l ↔ i = x ∨ i = y) (hxy : x ≠ y) :
    l = [x, y] ∨ l = [y, x] := by
  match l, hn, hm with
  | [], _, hm => have := (hm x).2 (Or.inl rfl); cases this
  | [p], _, hm =>
    have h1 := (hm x).2 (Or.inl rfl)
    have h2 := (hm y).2 (Or.inr rfl)
    simp only [List.mem_singleton] at h1 h2
    exact absurd (h1.trans h2.symm) hxy
  | [p, q], hn, hm =>
    have h1 := (hm p).1 (by simp)
    have h2 := (hm q).1 (by simp)
    have hpq : p ≠ q := by intro e; subst e; simp at hn
    rcases h1 with h1 | h1 <;> rcases h2 with h2 | h2
    · exact absurd (h1.trans h2.symm) hpq
    · left; rw [h1, h2]
    · right; rw [h1, h2]
    · exact absurd (h1.trans h2.symm) hpq
  | p :: q :: r :: t, hn, hm =>
    have h1 := (hm p).1 (by simp)
    have h2 := (hm q).1 (by simp)
    have h3 := (hm r).1 (by simp)
    simp only [List.nodup_cons, List.mem_cons, not_or] at hn
    grind

theorem part_two_perm {n : Nat} {s : UP.St} {x y : Nat} (hp : Part n s) (hact : s.act = [x, y]) (hxy : x ≠ y) :
    (s.mem x ++ s.mem y).Perm (List.range n) := by
  have hx : x ∈ s.act := by rw [hact]; simp
  have hy : y ∈ s.act := by rw [hact]; simp
  have hnd : (s.mem x ++ s.mem y).Nodup := by
    apply List.nodup_append.2
    refine ⟨hp.nd x hx, hp.nd y hy, ?_⟩
    intro p hp1 q hq e
    subst e
    exact hp.disj x y hx hy hxy p hp1 hq
  apply (List.perm_ext_iff_of_nodup hnd List.nodup_range).2
  intro p
  rw [List.mem_append, List.mem_range]
  constructor
  · rintro (h | h)
    · exact hp.lt x hx p h
    · exact hp.lt y hy p h
  · intro h
    obtain ⟨i, hi, hpi⟩ := hp.cover p h
    rw [hact] at hi
    simp only [List.mem_cons, List.not_mem_nil, or_false] at hi
    rcases hi with hi | hi
    · left; rw [← hi]; exact hpi
    · right; rw [← hi]; exact hpi

/-- the final join: after the loop two clusters `k1`, `k2` (in root-child order) are left and `upgma` returns
    their join at height `D k1 k2 / 2` -/
theorem final_join {d0 : Nat → Nat → Rat} (taxa : List String) (v : Array Rat) (st : St) (mem : Nat → List Nat)
    (hl : loop taxa.length (initSt taxa v) = .ok st) (hI : LInv d0 taxa.length st mem) (hn2 : st.nClusters = 2) :
    ∃ k1 k2 dab, k1 ≠ k2 ∧ k1 ∈ actOf taxa.length st ∧ k2 ∈ actOf taxa.length st ∧
      (∀ i, i ∈ actOf taxa.length st → i = k1 ∨ i = k2) ∧ st.rootKids = [k1, k2] ∧
      Dof st k1 k2 = dab ∧ st.dm.getD (cell k1 k2) none = some dab ∧
      0 ≤ dab / 2 - st.heights.getD k1 0 ∧ 0 ≤ dab / 2 - st.heights.getD k2 0 ∧
      upgma taxa v = .ok (mergeTrees (st.clusters.getD k1 default) (st.clusters.getD k2 default)
        (dab / 2 - st.heights.getD k1 0) (dab / 2 - st.heights.getD k2 0), st.margin, st.tie,
        st.dyadic && isDyadic (dab / 2)) ∧
      (mem k1 ++ mem k2).Perm (List.range taxa.length) := by
  have hlen : (actOf taxa.length st).length = 2 := by rw [← hI.wf.ncl]; exact hn2
  have hnd := actOf_nodup taxa.length st
  match hact : actOf taxa.length st, hlen, hnd with
  | [ai, bi], _, hnd =>
    have hne : ai ≠ bi := by intro e; subst e; simp at hnd
    have hai : ai ∈ actOf taxa.length st := by rw [hact]; simp
    have hbi : bi ∈ actOf taxa.length st := by rw [hact]; simp
    obtain ⟨hain, hail⟩ := mem_actOf.1 hai
    obtain ⟨hbin, hbil⟩ := mem_actOf.1 hbi
    obtain ⟨dab, hdab⟩ := hI.wf.fin ai bi hain hbin hne hail hbil
    have hdba : st.dm.getD (cell bi ai) none = some dab := by rw [cell_symm bi ai (Ne.symm hne)]; exact hdab
    have hup := upgma_ok_of taxa v st ai bi [] dab hl hact hdab
    have hDab : (absSt taxa.length st mem).D ai bi = dab := by simp [absSt, Dof, hdab]
    have ha0 : 0 ≤ dab / 2 - st.heights.getD ai 0 := by
      have := hI.mono ai ai bi hai hai hbi hne
      rw [hDab] at this
      have e : (absSt taxa.length st mem).h ai = st.heights.getD ai 0 := rfl
      rw [e] at this; grind
    have hb0 : 0 ≤ dab / 2 - st.heights.getD bi 0 := by
      have := hI.mono bi ai bi hbi hai hbi hne
      rw [hDab] at this
      have e : (absSt taxa.length st mem).h bi = st.heights.getD bi 0 := rfl
      rw [e] at this; grind
    have hrk : ∀ i, i ∈ st.rootKids ↔ i = ai ∨ i = bi := by
      intro i; rw [hI.wf.rkM, hact]; simp
    have hne' : ¬ bi = ai := fun e => hne e.symm
    have hmem2 : ∀ i, i ∈ [ai, bi] → i = ai ∨ i = bi := by intro i hi; simpa using hi
    rcases two_of_nodup hI.wf.rkN hrk hne with hk | hk
    · refine ⟨ai, bi, dab, hne, by simp, by simp, hmem2, hk, by simp [Dof, hdab], hdab, ha0, hb0, ?_,
        part_two_perm hI.part hact hne⟩
      rw [hup, hk]; simp [finalKid, mergeTrees, hne']
    · have hperm : (mem bi ++ mem ai).Perm (List.range taxa.length) :=
        List.Perm.trans List.perm_append_comm (part_two_perm hI.part hact hne)
      refine ⟨bi, ai, dab, hne', by simp, by simp, fun i hi => (hmem2 i hi).symm, hk, by simp [Dof, hdba], hdba,
        hb0, ha0, ?_, hperm⟩
      rw [hup, hk]; simp [finalKid, mergeTrees, hne']

/-- **Master theorem.**  For a matrix with non-negative entries on two or more taxa `upgma` succeeds; any
    per-cluster property `Q tree members height` that holds for the singleton clusters and is kept by the
    join of two clusters (`QMerge`) holds for the returned tree, whose member list is a permutation of all
    taxon indices. -/
theorem upgma_master {Q : URose → List Nat → Rat → Prop} (hQm : QMerge Q) (taxa : List String) (v : Array Rat)
    (hQi : QInit Q taxa) (h2 : 2 ≤ taxa.length) (hv : v.size = T taxa.length)
    (hpos : ∀ k, k < v.size → 0 ≤ v.getD k 0) :
    ∃ t m tie dy A h, upgma taxa v = .ok (t, m, tie, dy) ∧ Q t A h ∧ A.Perm (List.range taxa.length) := by
  obtain ⟨st, mem, hl, hI, hC, hfin⟩ := loop_inv (d0of_symm v) hQm taxa.length taxa.length (initSt taxa v) _
    (init_linv taxa v hv h2 hpos) (init_cinv taxa v hQi)
  have hn2 : st.nClusters = 2 := hfin (by simp [initSt])
  obtain ⟨k1, k2, dab, hne, hk1, hk2, _, _, _, _, h1, h2', hup, hperm⟩ := final_join taxa v st mem hl hI hn2
  obtain ⟨hk1n, hk1l⟩ := mem_actOf.1 hk1
  obtain ⟨hk2n, hk2l⟩ := mem_actOf.1 hk2
  exact ⟨_, _, _, _, mem k1 ++ mem k2, dab / 2, hup,
    hQm _ _ _ _ _ _ _ (hC k1 hk1n hk1l) (hC k2 hk2n hk2l) (hI.link.ne k1 hk1) (hI.link.ne k2 hk2) h1 h2', hperm⟩

/-- the master theorem in the form "it succeeds, and whatever it returns satisfies `Q`" -/
theorem upgma_prop {Q : URose → List Nat → Rat → Prop} (hQm : QMerge Q) (taxa : List String) (v : Array Rat)
    (hQi : QInit Q taxa) (h2 : 2 ≤ taxa.length) (hv : v.size = T taxa.length)
    (hpos : ∀ k, k < v.size → 0 ≤ v.getD k 0) :
    (∃ r, upgma taxa v = .ok r) ∧
    ∀ t m tie dy, upgma taxa v = .ok (t, m, tie, dy) → ∃ A h, Q t A h ∧ A.Perm (List.range taxa.length) := by
  obtain ⟨t, m, tie, dy, A, h, hup, hq, hperm⟩ := upgma_master hQm taxa v hQi h2 hv hpos
  refine ⟨⟨_, hup⟩, ?_⟩
  intro t' m' tie' dy' hup'
  rw [hup] at hup'
  injection hup' with e
  injection e with e1 e2
  subst e1
  exact ⟨A, h, hq, hperm⟩

/-! ## first instance: branch lengths -/

/-- every proper descendant of `t` has a branch length, and it is non-negative -/
def NonNegLens (t : URose) : Prop := ∀ x, x ∈ brLens t → ∃ l, x = some l ∧ 0 ≤ l

theorem qmerge_nonneg : QMerge (fun t _ _ => NonNegLens t) := by
  intro ta tb A B ha hb h qa qb _ _ h1 h2 x hx
  rw [brLens_merge] at hx
  simp only [List.mem_cons, List.mem_append] at hx
  rcases hx with hx | hx | hx | hx
  · exact ⟨_, hx, h1⟩
  · exact qa x hx
  · exact ⟨_, hx, h2⟩
  · exact qb x hx

/-- **Item 2.**  On two or more taxa, for a triangular vector of the right size with non-negative entries,
    `UPG.upgma` succeeds (no error, no panic) and every branch length in the returned tree is present and
    non-negative. -/
theorem upgma_ok_nonneg (taxa : List String) (v : Array Rat) (h2 : 2 ≤ taxa.length) (hv : v.size = T taxa.length)
    (hpos : ∀ k, k < v.size → 0 ≤ v.getD k 0) :
    (∃ r, upgma taxa v = .ok r) ∧ ∀ t m tie dy, upgma taxa v = .ok (t, m, tie, dy) → NonNegLens t := by
  have hQi : QInit (fun t _ _ => NonNegLens t) taxa := by
    intro i _ x hx; rw [brLens_leaf] at hx; cases hx
  obtain ⟨h1, h3⟩ := upgma_prop qmerge_nonneg taxa v hQi h2 hv hpos
  refine ⟨h1, ?_⟩
  intro t m tie dy hup
  obtain ⟨_, _, hq, _⟩ := h3 t m tie dy hup
  exact hq

/-- the loop from the initial state keeps `Link`, `Mono` and the partition: the statement behind item 2 -/
theorem loop_link_mono (taxa : List String) (v : Array Rat) (h2 : 2 ≤ taxa.length) (hv : v.size = T taxa.length)
    (hpos : ∀ k, k < v.size → 0 ≤ v.getD k 0) :
    ∃ st mem, loop taxa.length (initSt taxa v) = .ok st ∧ WFSt taxa.length st mem ∧
      UP.Link (d0of v) (absSt taxa.length st mem) ∧ UP.Mono (absSt taxa.length st mem) ∧
      Part taxa.length (absSt taxa.length st mem) ∧ st.nClusters = 2 := by
  obtain ⟨st, mem, hl, hI, _, hfin⟩ := loop_inv (d0of_symm v) qmerge_nonneg taxa.length taxa.length (initSt taxa v) _
    (init_linv taxa v hv h2 hpos) (init_cinv taxa v (by intro i _ x hx; rw [brLens_leaf] at hx; cases hx))
  exact ⟨st, mem, hl, hI.wf, hI.link, hI.mono, hI.part, hfin (by simp [initSt])⟩

/-- non-vacuity: a concrete input satisfying the hypotheses, and the model's answer on it -/
theorem hyps_example : 2 ≤ ["a", "b", "c"].length ∧ (#[2, 4, 4] : Array Rat).size = T ["a", "b", "c"].length ∧
    ∀ k, k < (#[2, 4, 4] : Array Rat).size → 0 ≤ (#[2, 4, 4] : Array Rat).getD k 0 := by
  refine ⟨by decide, by decide, ?_⟩
  intro k hk
  have : k = 0 ∨ k = 1 ∨ k = 2 := by simp at hk; omega
  rcases this with h | h | h <;> subst h <;> decide

/-- non-vacuity of `step_refines` / `step_total`: the initial state of any run is well formed, and with two or
    more taxa an iteration succeeds on it -/
example : ∃ st mem, WFSt 3 st mem ∧ 2 ≤ (actOf 3 st).length ∧ ∃ st', step st = .ok st' := by
  have hw := init_wf ["a", "b", "c"] #[2, 4, 4] (by decide)
  have h2 : 2 ≤ (actOf 3 (initSt ["a", "b", "c"] #[2, 4, 4])).length := by
    have := init_act ["a", "b", "c"] #[2, 4, 4]
    simp only [List.length_cons, List.length_nil] at this
    rw [this]; simp
  exact ⟨_, _, hw, h2, step_total hw h2⟩

end UPG
