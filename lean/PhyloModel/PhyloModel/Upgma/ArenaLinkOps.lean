import PhyloModel.Upgma.ArenaLinkBase
/-! # C15 / C03 — the three arena calls of `upgma()`, slot by slot

`add_child` of a named tip under a live parent, `merge_children` of two different children of a live node, and the
final write of a branch length on both records: which slots change, and how (liveness, name, child list, parent). -/
namespace UPG
open AR

theorem setCedge_name' (n : Node) (c : Nat) (e : Option Int) : (setCedge n c e).name = n.name := by
  cases e <;> simp [setCedge]

/-! ## `reset_depth_impl` never touches a name -/

theorem resetF_name : ∀ (f : Nat) (a a' : Arena) (x d : Nat), resetF f a x d = some a' →
    ∀ i, (nd a' i).name = (nd a i).name := by
  intro f
  induction f with
  | zero => intro a a' x d h; simp [resetF] at h
  | succ f ih =>
    intro a a' x d h
    simp only [resetF] at h
    split at h
    next hl =>
      have h0 : ∀ i, (nd (a.setIfInBounds x { nd a x with depth := d }) i).name = (nd a i).name := by
        intro i; rw [nd_set]; split <;> simp_all
      have loop : ∀ (cs : List Nat) (b b' : Arena),
          cs.foldlM (fun acc c => resetF f acc c (d + 1)) b = some b' → ∀ i, (nd b' i).name = (nd b i).name := by
        intro cs
        induction cs with
        | nil => intro b b' hb; simp [List.foldlM] at hb; subst hb; intro i; rfl
        | cons c cs ihc =>
          intro b b' hb
          simp only [List.foldlM_cons] at hb
          cases hc : resetF f b c (d + 1) with
          | none => simp [hc] at hb
          | some b1 =>
            simp only [hc, Option.bind_eq_bind, Option.bind_some] at hb
            intro i
            rw [ihc b1 b' hb i, ih b b1 c (d + 1) hc i]
      intro i
      rw [loop _ _ _ h i, h0 i]
    · cases h

/-! ## `add_child(Node::new_named(t), p, None)` -/

theorem addChildNamed_spec (a : Arena) (p : Nat) (t : Option String) (hl : live a p) :
    ∃ a', addChildNamed a p none t = (a', .ok (some a.size)) ∧ a'.size = a.size + 1 ∧
      ∀ i, nd a' i =
        if i = a.size then { parent := some p, pedge := none, depth := (nd a p).depth + 1, name := t }
        else if i = p then { nd a p with children := (nd a p).children ++ [a.size] }
        else nd a i := by
  have hp : p < a.size ∧ (nd a p).deleted = false := hl
  have e : addChildNamed a p none t =
      (setName ((a.setIfInBounds p (setCedge { nd a p with children := (nd a p).children ++ [a.size] } a.size none)).push
        { parent := some p, pedge := none, depth := (nd a p).depth + 1 }) a.size t, .ok (some a.size)) := by
    unfold addChildNamed addChild
    rw [if_pos hp]
  refine ⟨_, e, ?_, ?_⟩
  · simp [setName]
  · intro i
    simp only [setName, setCedge, nd_set, nd_push, Array.size_push, Array.size_setIfInBounds]
    have := hp.1
    by_cases h1 : i = a.size
    · subst h1; simp
    · by_cases h2 : i = p
      · subst h2; simp [h1]; omega
      · simp [h1, h2]

/-! ## `merge_children` on two different children of a live node -/

theorem mergeChildren_under {a : Arena} (q c1 c2 : Nat) (e1 e2 pe : Option Int) (name : Option String) (g : Good a)
    (hlq : live a q) (hm1 : c1 ∈ (nd a q).children) (hm2 : c2 ∈ (nd a q).children) (h12 : c1 ≠ c2) :
    ∃ a', mergeChildren a c1 c2 e1 e2 pe name = (a', .ok (some a.size)) ∧ Good a' ∧ a'.size = a.size + 1 ∧
      (∀ i, (nd a' i).deleted = if i = a.size then false else (nd a i).deleted) ∧
      (∀ i, (nd a' i).name = if i = a.size then name else (nd a i).name) ∧
      (∀ i, (nd a' i).children = if i = a.size then [c1, c2]
          else if i = q then ((nd a q).children.erase c1).erase c2 ++ [a.size] else (nd a i).children) ∧
      (∀ i, (nd a' i).parent = if i = a.size then some q
          else if i = c1 ∨ i = c2 then some a.size else (nd a i).parent) := by
  obtain ⟨hl1, hp1, hd1, _⟩ := g.1.child_ok q c1 hlq hm1
  obtain ⟨hl2, hp2, hd2, _⟩ := g.1.child_ok q c2 hlq hm2
  have i1 : isLive a c1 = true := (isLive_iff _ _).2 hl1
  have i2 : isLive a c2 = true := (isLive_iff _ _).2 hl2
  have iq : isLive a q = true := (isLive_iff _ _).2 hlq
  have hq1 : q ≠ c1 := by intro h; subst h; omega
  have hq2 : q ≠ c2 := by intro h; subst h; omega
  obtain ⟨b1, b2, r1, r2, g2⟩ := group_core q c1 c2 pe e1 e2 g hlq hm1 hm2 h12
  have hsame := (resetF_same _ _ _ _ _ r1).trans (resetF_same _ _ _ _ _ r2)
  have hname : ∀ i, (nd b2 i).name = (nd (group a q c1 c2 pe e1 e2) i).name := by
    intro i; rw [resetF_name _ _ _ _ _ r2 i, resetF_name _ _ _ _ _ r1 i]
  have hg := nd_group a q c1 c2 pe e1 e2 hlq.1 hl1.1 hl2.1 hq1 hq2 h12
  have hgsz : (group a q c1 c2 pe e1 e2).size = a.size + 1 := by simp [group]
  have hqs := hlq.1; have h1s := hl1.1; have h2s := hl2.1
  refine ⟨setName b2 a.size name, ?_, setName_good _ _ g2, ?_, ?_, ?_, ?_, ?_⟩
  · unfold mergeChildren
    simp only [i1, i2, iq, Bool.not_true, Bool.false_eq_true, ↓reduceIte, hp1, hp2, h12, ne_eq, not_true_eq_false,
      or_self, r1, r2]
  · rw [(setName_same b2 a.size name).1, hsame.1, hgsz]
  · intro i
    rw [((setName_same b2 a.size name).2 i).2.2.2.2.1, (hsame.2 i).2.2.2.2, hg i]
    by_cases h0 : i = a.size
    · simp [h0, wNode]
    · by_cases hq : i = q
      · subst hq; simp [h0, qNode, removeChild]
      · by_cases hc1 : i = c1
        · subst hc1; simp [h0, hq]
        · by_cases hc2 : i = c2
          · subst hc2; simp [h0, hq, hc1]
          · simp [h0, hq, hc1, hc2]
  · intro i
    have hb : b2.size = a.size + 1 := by rw [hsame.1, hgsz]
    rw [setName, nd_set, hb]
    by_cases h0 : i = a.size
    · simp [h0]
    · simp only [h0, false_and, ↓reduceIte]
      rw [hname i, hg i]
      by_cases hq : i = q
      · subst hq; simp [h0, qNode, removeChild]
      · by_cases hc1 : i = c1
        · subst hc1; simp [h0, hq]
        · by_cases hc2 : i = c2
          · subst hc2; simp [h0, hq, hc1]
          · simp [h0, hq, hc1, hc2]
  · intro i
    rw [((setName_same b2 a.size name).2 i).2.1, (hsame.2 i).2.1, hg i]
    by_cases h0 : i = a.size
    · simp [h0, wNode]
    · by_cases hq : i = q
      · subst hq; simp [h0, qNode, removeChild]
      · by_cases hc1 : i = c1
        · subst hc1; simp [h0, hq]
        · by_cases hc2 : i = c2
          · subst hc2; simp [h0, hq, hc1]
          · simp [h0, hq, hc1, hc2]
  · intro i
    rw [((setName_same b2 a.size name).2 i).1, (hsame.2 i).1, hg i]
    by_cases h0 : i = a.size
    · simp [h0, wNode]
    · by_cases hq : i = q
      · subst hq
        have e1' : ¬ i = c1 := hq1
        have e2' : ¬ i = c2 := hq2
        simp [h0, qNode, removeChild, e1', e2']
      · by_cases hc1 : i = c1
        · subst hc1; simp [h0, hq]
        · by_cases hc2 : i = c2
          · subst hc2; simp [h0, hq, hc1]
          · simp [h0, hq, hc1, hc2]

/-! ## the final write of one branch length -/

theorem writeLen_eq (a : Arena) (x p : Nat) (v : Int) : writeLen a x p v = setLen a x p v := rfl

/-- writing the length of a child `x` of the live node `p` keeps the invariant and touches neither liveness, names,
    child lists nor parents -/
theorem writeLen_spec {a : Arena} (g : Good a) {x p : Nat} (hlp : live a p) (hm : x ∈ (nd a p).children) (v : Int) :
    Good (writeLen a x p v) ∧ (writeLen a x p v).size = a.size ∧
      ∀ i, (nd (writeLen a x p v) i).deleted = (nd a i).deleted ∧ (nd (writeLen a x p v) i).name = (nd a i).name ∧
        (nd (writeLen a x p v) i).children = (nd a i).children ∧ (nd (writeLen a x p v) i).parent = (nd a i).parent := by
  obtain ⟨hlx, hpx, hdx, _⟩ := g.1.child_ok p x hlp hm
  have hne : p ≠ x := by intro h; subst h; omega
  refine ⟨by rw [writeLen_eq]; exact setLen_good g hlx hpx v, by rw [writeLen_eq, setLen_size], ?_⟩
  intro i
  rw [writeLen_eq, nd_setLen a x p v hlx.1 hlp.1 hne i]
  by_cases h1 : i = p
  · subst h1; simp
  · by_cases h2 : i = x
    · subst h2; simp [h1]
    · simp [h1, h2]

end UPG
