import PhyloModel.Upgma.Determinism
/-! # C15 — determinism of average-linkage clustering: independence of the taxon order

Consequences of `avgRun_deterministic_one` (Upgma/Determinism.lean).

* `AvgRun.relabel`, `Unamb.relabel` — a run on a matrix `d0'` that is `d0` read through a relabelling `σ` of the taxa
  (`d0' x y = d0 (σ x) (σ y)` on the taxa that occur) is, member lists mapped through `σ`, a run on `d0`
* `avgRun_singletons_perm` — complete runs from singletons over index lists that are permutations of each other agree
* `taxon_order_invariance` — **taxon order**: a complete run on the reordered matrix and a complete run on the original
  matrix, one of them unambiguous, perform the same merges (member sets mapped through `σ`) at the same heights
* `unamb_of_one` — unambiguity is a property of the matrix, not of the run: if one run is unambiguous, so is every other
  run of the same length from an equivalent state -/
namespace UPG
open UP

/-! ## relabelling the taxa -/

/-- every member of every active cluster satisfies `P` -/
def MemP (P : Nat → Prop) (act : List Nat) (cl : Nat → List Nat) : Prop := ∀ i, i ∈ act → ∀ x, x ∈ cl i → P x

theorem MemP.merge {P : Nat → Prop} {act : List Nat} {cl : Nat → List Nat} (h : MemP P act cl) {a b : Nat}
    (ha : a ∈ act) (hb : b ∈ act) : MemP P (act.erase b) (memAfter cl a b) := by
  intro i hi x hx
  have hi1 : i ∈ act := List.mem_of_mem_erase hi
  by_cases hia : i = a
  · subst hia
    rw [memAfter_self, List.mem_append] at hx
    rcases hx with hx | hx
    · exact h i ha x hx
    · exact h b hb x hx
  · rw [memAfter_ne cl b hia] at hx; exact h i hi1 x hx

/-- the members recorded in the events of a run satisfy `P` when the members of the start state do -/
theorem AvgRun.memP {P : Nat → Prop} {d0 : Nat → Nat → Rat} {act act' : List Nat} {cl cl' : Nat → List Nat}
    {evs : List Ev} (r : AvgRun d0 act cl evs act' cl') (h : MemP P act cl) :
    (∀ e, e ∈ evs → ∀ x, x ∈ e.A ++ e.B → P x) ∧ MemP P act' cl' := by
  induction r with
  | nil => exact ⟨fun e he => (by cases he), h⟩
  | cons act cl a b evs act' cl' ha hb hab _ _ ih =>
    obtain ⟨h1, h2⟩ := ih (h.merge ha hb)
    refine ⟨?_, h2⟩
    intro e he x hx
    rcases List.mem_cons.1 he with e1 | he
    · subst e1
      rcases List.mem_append.1 hx with hx | hx
      · exact h a ha x hx
      · exact h b hb x hx
    · exact h1 e he x hx

/-- the matrix read in another taxon order -/
def reorder (d0 : Nat → Nat → Rat) (σ : Nat → Nat) : Nat → Nat → Rat := fun i j => d0 (σ i) (σ j)

/-- the member lists mapped through `σ` -/
def mapCl (σ : Nat → Nat) (cl : Nat → List Nat) : Nat → List Nat := fun i => (cl i).map σ

/-- an event with its member lists mapped through `σ` (indices and height unchanged) -/
def Ev.relabel (σ : Nat → Nat) (e : Ev) : Ev := ⟨e.a, e.b, e.height, e.A.map σ, e.B.map σ⟩

theorem S_relabel {P : Nat → Prop} {d0 d0' : Nat → Nat → Rat} {σ : Nat → Nat}
    (hd : ∀ x y, P x → P y → d0' x y = d0 (σ x) (σ y)) {A B : List Nat} (hA : ∀ x, x ∈ A → P x)
    (hB : ∀ y, y ∈ B → P y) : S d0' A B = S d0 (A.map σ) (B.map σ) := by
  unfold S
  rw [List.map_map]
  congr 1
  apply List.map_congr_left
  intro x hx
  simp only [Function.comp_apply]
  rw [List.map_map]
  congr 1
  apply List.map_congr_left
  intro y hy
  simp only [Function.comp_apply]
  exact hd x y (hA x hx) (hB y hy)

theorem avgLink_relabel {P : Nat → Prop} {d0 d0' : Nat → Nat → Rat} {σ : Nat → Nat}
    (hd : ∀ x y, P x → P y → d0' x y = d0 (σ x) (σ y)) {A B : List Nat} (hA : ∀ x, x ∈ A → P x)
    (hB : ∀ y, y ∈ B → P y) : avgLink d0' A B = avgLink d0 (A.map σ) (B.map σ) := by
  unfold avgLink; rw [S_relabel hd hA hB, List.length_map, List.length_map]

theorem memAfter_mapCl (σ : Nat → Nat) (cl : Nat → List Nat) (a b : Nat) :
    memAfter (mapCl σ cl) a b = mapCl σ (memAfter cl a b) := by
  funext i
  by_cases hia : i = a
  · subst hia; simp [memAfter, mapCl]
  · simp [memAfter, mapCl, hia]

/-- a run on `d0'` (= `d0` read through `σ` on the taxa satisfying `P`, which all members do) is, with the member
    lists mapped through `σ`, a run on `d0`: same indices, same heights -/
theorem AvgRun.relabel {P : Nat → Prop} {d0 d0' : Nat → Nat → Rat} {σ : Nat → Nat}
    (hd : ∀ x y, P x → P y → d0' x y = d0 (σ x) (σ y)) {act act' : List Nat} {cl cl' : Nat → List Nat}
    {evs : List Ev} (r : AvgRun d0' act cl evs act' cl') (h : MemP P act cl) :
    AvgRun d0 act (mapCl σ cl) (evs.map (Ev.relabel σ)) act' (mapCl σ cl') := by
  induction r with
  | nil => exact AvgRun.nil _ _
  | cons act cl a b evs act' cl' ha hb hab hmin _ ih =>
    have ih' := ih (h.merge ha hb)
    rw [← memAfter_mapCl] at ih'
    have hmin' : ∀ j k, j ∈ act → k ∈ act → j ≠ k →
        avgLink d0 (mapCl σ cl a) (mapCl σ cl b) ≤ avgLink d0 (mapCl σ cl j) (mapCl σ cl k) := by
      intro j k hj hk hjk
      have := hmin j k hj hk hjk
      rw [avgLink_relabel hd (h a ha) (h b hb), avgLink_relabel hd (h j hj) (h k hk)] at this
      exact this
    have := AvgRun.cons act (mapCl σ cl) a b _ act' (mapCl σ cl') ha hb hab hmin' ih'
    simp only [List.map_cons, Ev.relabel]
    rw [avgLink_relabel hd (h a ha) (h b hb)]
    exact this

theorem Unamb.relabel {P : Nat → Prop} {d0 d0' : Nat → Nat → Rat} {σ : Nat → Nat}
    (hd : ∀ x y, P x → P y → d0' x y = d0 (σ x) (σ y)) {act act' : List Nat} {cl cl' : Nat → List Nat}
    {evs : List Ev} (r : AvgRun d0' act cl evs act' cl') (h : MemP P act cl) (u : Unamb d0' act cl evs) :
    Unamb d0 act (mapCl σ cl) (evs.map (Ev.relabel σ)) := by
  induction r with
  | nil => exact True.intro
  | cons act cl a b evs act' cl' ha hb hab hmin _ ih =>
    obtain ⟨ua, u'⟩ := u
    have ih' := ih (h.merge ha hb) u'
    rw [← memAfter_mapCl] at ih'
    refine ⟨?_, ih'⟩
    intro j k hj hk hjk he
    apply ua j k hj hk hjk
    show avgLink d0' (cl j) (cl k) = avgLink d0' (cl a) (cl b)
    rw [avgLink_relabel hd (h a ha) (h b hb), avgLink_relabel hd (h j hj) (h k hk)]
    exact he

/-! ## taxon order -/

theorem EvSame.symm {e1 e2 : Ev} (h : EvSame e1 e2) : EvSame e2 e1 := ⟨h.1.symm, h.2.symm⟩

theorem All2.flip {α β : Type} {R : α → β → Prop} {l1 : List α} {l2 : List β} (h : All2 R l1 l2) :
    All2 (fun b a => R a b) l2 l1 := by
  induction h with
  | nil => exact All2.nil
  | cons hr _ ih => exact All2.cons hr ih

theorem All2.of_map_left {α β γ : Type} {R : γ → β → Prop} (f : α → γ) : ∀ {l1 : List α} {l2 : List β},
    All2 R (l1.map f) l2 → All2 (fun a b => R (f a) b) l1 l2
  | [], _, h => by cases h; exact All2.nil
  | _ :: _, _, h => by
    cases h with
    | cons hr ht => exact All2.cons hr (All2.of_map_left f ht)

/-- **Any two complete runs from the singleton clusters over index lists that are permutations of each other agree**
    when one of them is unambiguous: same member sets, same heights, in the same order. -/
theorem avgRun_singletons_perm {d0 : Nat → Nat → Rat} {act1 act2 : List Nat} (hp : act1.Perm act2) (hn : act1.Nodup)
    {evs1 evs2 : List Ev} {k1 k2 : Nat} {cl1 cl2 : Nat → List Nat}
    (r1 : AvgRun d0 act1 (fun i => [i]) evs1 [k1] cl1) (r2 : AvgRun d0 act2 (fun i => [i]) evs2 [k2] cl2)
    (u2 : Unamb d0 act2 (fun i => [i]) evs2) :
    All2 EvSame evs1 evs2 ∧ evs1.map evKey = evs2.map evKey ∧ (cl1 k1).Perm (cl2 k2) := by
  have hlen : evs1.length = evs2.length := by
    have h1 := r1.length; have h2 := r2.length; have := hp.length_eq
    simp only [List.length_cons, List.length_nil] at h1 h2; omega
  obtain ⟨h1, h2⟩ := avgRun_deterministic_one r1 r2 u2 (WFC.singletons hn) (WFC.singletons (hp.nodup hn))
    (StEqv.of_perm _ hp) hlen
  refine ⟨h1, forall2_evSame_keys h1, ?_⟩
  obtain ⟨j, hj, p⟩ := h2.1 k1 (by simp)
  simp only [List.mem_singleton] at hj
  subst hj; exact p

theorem inj_on_of_nodup_map {f : Nat → Nat} : ∀ {l : List Nat}, (l.map f).Nodup →
    ∀ x y, x ∈ l → y ∈ l → f x = f y → x = y
  | [], _, _, _, hx, _, _ => by cases hx
  | a :: l, h, x, y, hx, hy, e => by
    simp only [List.map_cons, List.nodup_cons, List.mem_map, not_exists, not_and] at h
    rcases List.mem_cons.1 hx with hx1 | hx1
    · rcases List.mem_cons.1 hy with hy1 | hy1
      · rw [hx1, hy1]
      · rw [hx1] at e; exact absurd e.symm (h.1 y hy1)
    · rcases List.mem_cons.1 hy with hy1 | hy1
      · rw [hy1] at e; exact absurd e (h.1 x hx1)
      · exact inj_on_of_nodup_map h.2 x y hx1 hy1 e

/-- `σ` permutes the indices `0 .. n-1` -/
def IsPermOf (n : Nat) (σ : Nat → Nat) : Prop := ((List.range n).map σ).Perm (List.range n)

theorem IsPermOf.lt {n : Nat} {σ : Nat → Nat} (h : IsPermOf n σ) {i : Nat} (hi : i < n) : σ i < n := by
  have : σ i ∈ (List.range n).map σ := List.mem_map.2 ⟨i, List.mem_range.2 hi, rfl⟩
  exact List.mem_range.1 (h.mem_iff.1 this)

theorem IsPermOf.surj {n : Nat} {σ : Nat → Nat} (h : IsPermOf n σ) {j : Nat} (hj : j < n) : ∃ i, i < n ∧ σ i = j := by
  obtain ⟨i, hi, e⟩ := List.mem_map.1 (h.mem_iff.2 (List.mem_range.2 hj))
  exact ⟨i, List.mem_range.1 hi, e⟩

theorem IsPermOf.inj {n : Nat} {σ : Nat → Nat} (h : IsPermOf n σ) {i j : Nat} (hi : i < n) (hj : j < n)
    (e : σ i = σ j) : i = j :=
  inj_on_of_nodup_map (h.symm.nodup List.nodup_range) i j (List.mem_range.2 hi) (List.mem_range.2 hj) e

/-- the singletons read through a permutation of the indices: a well-formed state equivalent to the singletons -/
theorem singletons_relabel {n : Nat} {σ : Nat → Nat} (h : IsPermOf n σ) :
    WFC (List.range n) (mapCl σ (fun i => [i])) ∧
    StEqv (List.range n) (mapCl σ (fun i => [i])) (List.range n) (fun i => [i]) := by
  refine ⟨⟨List.nodup_range, fun i _ => by simp [mapCl], ?_⟩, ?_, ?_⟩
  · intro i j hi hj hij x hx hx'
    simp only [mapCl, List.map_cons, List.map_nil, List.mem_singleton] at hx hx'
    exact hij (h.inj (List.mem_range.1 hi) (List.mem_range.1 hj) (hx.symm.trans hx'))
  · intro i hi
    exact ⟨σ i, List.mem_range.2 (h.lt (List.mem_range.1 hi)), by simp [mapCl]⟩
  · intro j hj
    obtain ⟨i, hi, e⟩ := h.surj (List.mem_range.1 hj)
    exact ⟨i, List.mem_range.2 hi, by simp [mapCl, e]⟩

/-- the index-free content of an event of a run on the reordered matrix, read back in the original taxon order -/
def EvSameVia (σ : Nat → Nat) (e' e : Ev) : Prop :=
  ((e'.A ++ e'.B).map σ).Perm (e.A ++ e.B) ∧ e'.height = e.height

/-- **Corollary (taxon order), general form.**  `d0'` is `d0` in another taxon order on the taxa `0 .. n-1`
    (`d0' x y = d0 (σ x) (σ y)` for `x, y < n`, `σ` a permutation of `0 .. n-1`).  A complete run on `d0'` and a complete
    run on `d0`, both from the singletons, one of the two unambiguous: the events agree position by position — the
    member set of the `i`-th merge on `d0'`, mapped through `σ`, is the member set of the `i`-th merge on `d0`, and the
    heights are equal. -/
theorem taxon_order_invariance_on {d0 d0' : Nat → Nat → Rat} {n : Nat} {σ : Nat → Nat} (hσ : IsPermOf n σ)
    (hd : ∀ x y, x < n → y < n → d0' x y = d0 (σ x) (σ y))
    {evs evs' : List Ev} {k k' : Nat} {cl cl' : Nat → List Nat}
    (r : AvgRun d0 (List.range n) (fun i => [i]) evs [k] cl)
    (r' : AvgRun d0' (List.range n) (fun i => [i]) evs' [k'] cl')
    (u : Unamb d0 (List.range n) (fun i => [i]) evs ∨ Unamb d0' (List.range n) (fun i => [i]) evs') :
    All2 (EvSameVia σ) evs' evs := by
  have hP : MemP (fun x => x < n) (List.range n) (fun i => [i]) := by
    intro i hi x hx
    simp only [List.mem_singleton] at hx
    subst hx; exact List.mem_range.1 hi
  have rr := r'.relabel hd hP
  obtain ⟨w', e'⟩ := singletons_relabel hσ
  have w : WFC (List.range n) (fun i => [i]) := WFC.singletons List.nodup_range
  have hlen : (evs'.map (Ev.relabel σ)).length = evs.length := by
    have h1 := r.length; have h2 := r'.length
    simp only [List.length_cons, List.length_nil] at h1 h2
    rw [List.length_map]; omega
  have key : All2 EvSame (evs'.map (Ev.relabel σ)) evs := by
    rcases u with u | u
    · exact (avgRun_deterministic_one rr r u w' w e' hlen).1
    · have ur := Unamb.relabel hd r' hP u
      exact ((avgRun_deterministic_one r rr ur w w' e'.symm hlen.symm).1.flip).imp (fun _ _ h => h.symm)
  have := All2.of_map_left (Ev.relabel σ) key
  refine this.imp ?_
  intro a b hab
  refine ⟨?_, hab.2⟩
  have h1 := hab.1
  simp only [Ev.relabel] at h1
  rw [List.map_append]; exact h1

/-- **Corollary (taxon order).**  For a permutation `σ` of `0 .. n-1`, a complete run on the reordered matrix
    `reorder d0 σ = fun i j => d0 (σ i) (σ j)` and a complete run on `d0`, both from the singletons, one of the two
    unambiguous, perform the same merges in the same order: member sets (mapped through `σ`) and heights agree. -/
theorem taxon_order_invariance (d0 : Nat → Nat → Rat) {n : Nat} {σ : Nat → Nat} (hσ : IsPermOf n σ)
    {evs evs' : List Ev} {k k' : Nat} {cl cl' : Nat → List Nat}
    (r : AvgRun d0 (List.range n) (fun i => [i]) evs [k] cl)
    (r' : AvgRun (reorder d0 σ) (List.range n) (fun i => [i]) evs' [k'] cl')
    (u : Unamb d0 (List.range n) (fun i => [i]) evs ∨ Unamb (reorder d0 σ) (List.range n) (fun i => [i]) evs') :
    All2 (EvSameVia σ) evs' evs :=
  taxon_order_invariance_on hσ (fun _ _ _ _ => rfl) r r' u

/-! ## unambiguity does not depend on the run -/

/-- in equivalent well-formed states, if the minimal pair of the second state is unambiguous then so is any
    minimal pair of the first -/
theorem step_unamb {d0 : Nat → Nat → Rat} {act1 act2 : List Nat} {cl1 cl2 : Nat → List Nat}
    (w1 : WFC act1 cl1) (e : StEqv act1 cl1 act2 cl2) {a b a' b' : Nat}
    (ha : a ∈ act1) (hb : b ∈ act1)
    (heq : avgLink d0 (cl1 a) (cl1 b) = avgLink d0 (cl2 a') (cl2 b'))
    (hm : ((cl1 a).Perm (cl2 a') ∧ (cl1 b).Perm (cl2 b')) ∨ ((cl1 a).Perm (cl2 b') ∧ (cl1 b).Perm (cl2 a')))
    (u : UnambAt d0 act2 cl2 a' b') : UnambAt d0 act1 cl1 a b := by
  intro j k hj hk hjk hav
  obtain ⟨j', hj', pj⟩ := e.1 j hj
  obtain ⟨k', hk', pk⟩ := e.1 k hk
  have hjk' : j' ≠ k' := by
    intro h; rw [h] at pj
    exact hjk (w1.inj hj hk (pj.trans pk.symm))
  have e1 : avgLink d0 (cl2 j') (cl2 k') = avgLink d0 (cl2 a') (cl2 b') := by
    rw [← avgLink_perm d0 pj pk, hav, heq]
  rcases u j' k' hj' hk' hjk' e1 with ⟨h1, h2⟩ | ⟨h1, h2⟩ <;> subst h1 <;> subst h2 <;>
    rcases hm with ⟨m1, m2⟩ | ⟨m1, m2⟩
  · exact Or.inl ⟨w1.inj hj ha (pj.trans m1.symm), w1.inj hk hb (pk.trans m2.symm)⟩
  · exact Or.inr ⟨w1.inj hj hb (pj.trans m2.symm), w1.inj hk ha (pk.trans m1.symm)⟩
  · exact Or.inr ⟨w1.inj hj hb (pj.trans m2.symm), w1.inj hk ha (pk.trans m1.symm)⟩
  · exact Or.inl ⟨w1.inj hj ha (pj.trans m1.symm), w1.inj hk hb (pk.trans m2.symm)⟩

/-- **Unambiguity is a property of the input, not of the run**: if one run has an unambiguous minimum at every step,
    so has every run of the same length from an equivalent state. -/
theorem unamb_of_one {d0 : Nat → Nat → Rat} {act1 act1' : List Nat} {cl1 cl1' : Nat → List Nat}
    {evs1 : List Ev} (r1 : AvgRun d0 act1 cl1 evs1 act1' cl1') :
    ∀ {act2 act2' : List Nat} {cl2 cl2' : Nat → List Nat} {evs2 : List Ev},
      AvgRun d0 act2 cl2 evs2 act2' cl2' → Unamb d0 act2 cl2 evs2 → WFC act1 cl1 → WFC act2 cl2 →
      StEqv act1 cl1 act2 cl2 → evs1.length = evs2.length → Unamb d0 act1 cl1 evs1 := by
  induction r1 with
  | nil act1 cl1 => intros; exact True.intro
  | cons act1 cl1 a b evs1 act1' cl1' ha hb hab hmin _ ih =>
    intro act2 act2' cl2 cl2' evs2 r2 u2 w1 w2 e hlen
    cases r2 with
    | nil => simp at hlen
    | cons _ _ a' b' evs2 _ _ ha' hb' hab' hmin' r2' =>
      obtain ⟨ua, u2'⟩ := u2
      obtain ⟨heq, hm⟩ := step_match w1 w2 e ha hb hab hmin ha' hb' hab' hmin' ua
      have e' := StEqv.merge w1 w2 e ha hb hab ha' hb' hab' hm
      have hlen' : evs1.length = evs2.length := by simpa using hlen
      exact ⟨step_unamb w1 e ha hb heq hm ua, ih r2' u2' (w1.merge ha hb hab) (w2.merge ha' hb' hab') e' hlen'⟩

end UPG
