import PhyloModel.Upgma.Shape
import PhyloModel.Upgma.Equidist
/-! # C15 — the merges performed by the executable UPGMA model are average-linkage clustering from its definition

`loopTr` is `UPG.loop` instrumented with the ghost member lists and the list of merge events
`(a, b, height, members of a, members of b)`; its state component is `loop`'s.  `AvgRun` is average-linkage
clustering stated from its definition (merge a pair of clusters minimising the average of the ORIGINAL
distances between their members; the merge height is half that average).  Main theorem
`upgma_average_linkage`: the events of a run of `upgma` form a complete `AvgRun` from the singletons, and
the internal nodes of the returned tree — as pairs (leaf names below the node, height of the node above its
leaves) — are exactly the events. -/
namespace UPG
open MX Tri MXS

/-- average of the original distances between two member lists: the definition of average linkage -/
def avgLink (d0 : Nat → Nat → Rat) (A B : List Nat) : Rat :=
  UP.S d0 A B / ((A.length : Rat) * (B.length : Rat))

theorem isAvg_eq {d0 : Nat → Nat → Rat} {x : Rat} {A B : List Nat} (h : UP.IsAvg d0 x A B) (hA : A ≠ []) (hB : B ≠ []) :
    x = avgLink d0 A B := by
  unfold UP.IsAvg at h
  unfold avgLink
  have hla : (0 : Rat) < (A.length : Rat) := Rat.natCast_pos.mpr (List.length_pos_iff.mpr hA)
  have hlb : (0 : Rat) < (B.length : Rat) := Rat.natCast_pos.mpr (List.length_pos_iff.mpr hB)
  have hp : (0 : Rat) < (A.length : Rat) * (B.length : Rat) := Rat.mul_pos hla hlb
  grind

theorem avgLink_symm {d0 : Nat → Nat → Rat} (hd : ∀ x y, d0 x y = d0 y x) (A B : List Nat) :
    avgLink d0 A B = avgLink d0 B A := by
  unfold avgLink
  rw [UP.S_swap d0 hd A B, Rat.mul_comm]

/-- under `Link`, the stored distance of a live pair IS the average linkage of the two member lists -/
theorem link_D_eq {d0 : Nat → Nat → Rat} {s : UP.St} (hl : UP.Link d0 s) {i j : Nat} (hi : i ∈ s.act) (hj : j ∈ s.act)
    (hij : i ≠ j) : s.D i j = avgLink d0 (s.mem i) (s.mem j) :=
  isAvg_eq (hl.avg i j hi hj hij) (hl.ne i hi) (hl.ne j hj)

/-- a merge event: cluster `b` (members `B`) is merged into cluster `a` (members `A`) at height `height` -/
structure Ev where
  a : Nat
  b : Nat
  height : Rat
  A : List Nat
  B : List Nat

/-- average-linkage clustering from its definition, as a run from (`act`, `cl`) to (`act'`, `cl'`): each event
    merges two distinct active clusters whose average linkage is minimal among all active pairs, at height
    half that average -/
inductive AvgRun (d0 : Nat → Nat → Rat) : List Nat → (Nat → List Nat) → List Ev → List Nat → (Nat → List Nat) → Prop
  | nil (act : List Nat) (cl : Nat → List Nat) : AvgRun d0 act cl [] act cl
  | cons (act : List Nat) (cl : Nat → List Nat) (a b : Nat) (evs : List Ev) (act' : List Nat) (cl' : Nat → List Nat) :
      a ∈ act → b ∈ act → a ≠ b →
      (∀ j k, j ∈ act → k ∈ act → j ≠ k → avgLink d0 (cl a) (cl b) ≤ avgLink d0 (cl j) (cl k)) →
      AvgRun d0 (act.erase b) (memAfter cl a b) evs act' cl' →
      AvgRun d0 act cl (⟨a, b, avgLink d0 (cl a) (cl b) / 2, cl a, cl b⟩ :: evs) act' cl'

theorem AvgRun.append {d0 : Nat → Nat → Rat} {act1 act2 act3 : List Nat} {cl1 cl2 cl3 : Nat → List Nat} {e1 e2 : List Ev}
    (h1 : AvgRun d0 act1 cl1 e1 act2 cl2) (h2 : AvgRun d0 act2 cl2 e2 act3 cl3) :
    AvgRun d0 act1 cl1 (e1 ++ e2) act3 cl3 := by
  induction h1 with
  | nil => exact h2
  | cons act cl a b evs act' cl' ha hb hab hmin _ ih =>
    exact AvgRun.cons act cl a b (evs ++ e2) act3 cl3 ha hb hab hmin (ih h2)

/-- when the minimum is unambiguous the step of average-linkage clustering is determined: any other pair that
    also minimises the average linkage is the same unordered pair (so the merged member set and the height
    are the same; only the choice of which index survives is free) -/
theorem avg_step_unique (d0 : Nat → Nat → Rat) (act : List Nat) (cl : Nat → List Nat) (a b a' b' : Nat)
    (ha : a ∈ act) (hb : b ∈ act) (hab : a ≠ b) (ha' : a' ∈ act) (hb' : b' ∈ act) (hab' : a' ≠ b')
    (hmin : ∀ j k, j ∈ act → k ∈ act → j ≠ k → avgLink d0 (cl a) (cl b) ≤ avgLink d0 (cl j) (cl k))
    (hmin' : ∀ j k, j ∈ act → k ∈ act → j ≠ k → avgLink d0 (cl a') (cl b') ≤ avgLink d0 (cl j) (cl k))
    (huniq : ∀ j k, j ∈ act → k ∈ act → j ≠ k → avgLink d0 (cl j) (cl k) = avgLink d0 (cl a) (cl b) →
      (j = a ∧ k = b) ∨ (j = b ∧ k = a)) :
    ((a' = a ∧ b' = b) ∨ (a' = b ∧ b' = a)) ∧ avgLink d0 (cl a') (cl b') = avgLink d0 (cl a) (cl b) := by
  have e : avgLink d0 (cl a') (cl b') = avgLink d0 (cl a) (cl b) :=
    Rat.le_antisymm (hmin' a b ha hb hab) (hmin a' b' ha' hb' hab')
  exact ⟨huniq a' b' ha' hb' hab' e, e⟩

/-! ## the internal nodes of a tree as (leaf names, height above the leaves) -/

mutual
def nodeInfo : URose → List (List (Option String) × Rat)
  | .node _ _ ks => if ks.isEmpty then [] else (leafNamesL ks, (leafDepthsL ks).headD 0) :: nodeInfoL ks
def nodeInfoL : List URose → List (List (Option String) × Rat)
  | [] => []
  | k :: ks => nodeInfo k ++ nodeInfoL ks
end

theorem nodeInfo_leaf (n : Option String) (l : Option Rat) : nodeInfo (.node n l []) = [] := by
  rw [nodeInfo]; rfl

theorem nodeInfo_setLen (t : URose) (l : Option Rat) : nodeInfo (t.setLen l) = nodeInfo t := by
  cases t; rw [URose.setLen, nodeInfo, nodeInfo]

theorem nodeInfo_merge (a b : URose) (la lb : Rat) :
    nodeInfo (mergeTrees a b la lb) =
      (leafNames a ++ leafNames b, ((leafDepths a).map (fun d => la + d) ++ (leafDepths b).map (fun d => lb + d)).headD 0) ::
        (nodeInfo a ++ nodeInfo b) := by
  rw [mergeTrees, nodeInfo]
  simp only [List.isEmpty_cons, Bool.false_eq_true, ↓reduceIte]
  rw [nodeInfoL, nodeInfoL, nodeInfoL, leafNamesL_cons, leafNamesL_cons, leafNamesL_nil, leafDepthsL_cons, leafDepthsL_cons,
    leafDepthsL_nil, nodeInfo_setLen, nodeInfo_setLen]
  simp

/-- the per-cluster invariant used here: shape and depth together -/
def Q5 (taxa : List String) (t : URose) (A : List Nat) (h : Rat) : Prop := ShapeQ taxa t A h ∧ DepthQ t A h

theorem qmerge_q5 (taxa : List String) : QMerge (Q5 taxa) := by
  intro ta tb A B ha hb h qa qb hA hB h1 h2
  exact ⟨qmerge_shape taxa ta tb A B ha hb h qa.1 qb.1 hA hB h1 h2, qmerge_depth ta tb A B ha hb h qa.2 qb.2 hA hB h1 h2⟩

theorem qinit_q5 (taxa : List String) : QInit (Q5 taxa) taxa :=
  fun i hi => ⟨qinit_shape taxa i hi, qinit_depth taxa i hi⟩

/-- what an event says about the tree: the names of the merged members, and the height -/
def evInfo (taxa : List String) (e : Ev) : List (Option String) × Rat :=
  ((e.A ++ e.B).map (fun i => some (nameOf taxa i)), e.height)

theorem nodeInfo_merge_Q (taxa : List String) (ta tb : URose) (A B : List Nat) (ha hb h : Rat)
    (qa : Q5 taxa ta A ha) (qb : Q5 taxa tb B hb) (hA : A ≠ []) :
    nodeInfo (mergeTrees ta tb (h - ha) (h - hb)) =
      ((A ++ B).map (fun i => some (nameOf taxa i)), h) :: (nodeInfo ta ++ nodeInfo tb) := by
  rw [nodeInfo_merge, qa.1.2, qb.1.2, List.map_append]
  have hlen : (leafDepths ta).length = A.length := by rw [leafDepths_length, qa.1.2, List.length_map]
  match hd : leafDepths ta, hlen with
  | [], hlen => exact absurd (List.length_eq_zero_iff.1 hlen.symm) hA
  | d :: ds, _ =>
    have : d = ha := qa.2 d (by rw [hd]; simp)
    subst this
    simp only [List.map_cons, List.cons_append, List.headD_cons]
    have e : h - d + d = h := by grind
    rw [e]

/-! ## the instrumented loop -/

/-- the pair and the distance `step` is about to pick -/
def pick (st : St) : Option (Nat × Nat × Rat) :=
  match minCell st.dm with
  | some ((a, b), some dab) => some (a, b, dab)
  | _ => none

/-- `UPG.loop` carrying the ghost member lists and recording the merge events -/
def loopTr : Nat → St → (Nat → List Nat) → List Ev → Res (St × (Nat → List Nat) × List Ev)
  | 0, st, mem, hist => .ok (st, mem, hist)
  | f + 1, st, mem, hist =>
    if st.nClusters > 2 then
      match step st with
      | .ok st' =>
        match pick st with
        | some (a, b, dab) => loopTr f st' (memAfter mem a b) (hist ++ [⟨a, b, dab / 2, mem a, mem b⟩])
        | none => .err "unreachable"
      | .err k => .err k
      | .panic => .panic
    else .ok (st, mem, hist)

def Res.fst {β γ : Type} : Res (β × γ) → Res β
  | .ok (x, _) => .ok x
  | .err k => .err k
  | .panic => .panic

theorem pick_of_step {st st' : St} (hs : step st = .ok st') :
    ∃ a b dab, pick st = some (a, b, dab) ∧ minCell st.dm = some ((a, b), some dab) := by
  obtain ⟨a, b, dab, hmin, _⟩ := step_ok_fields st st' hs
  exact ⟨a, b, dab, by simp [pick, hmin], hmin⟩

/-- the instrumentation does not change what the loop computes -/
theorem loopTr_fst : ∀ (f : Nat) (st : St) (mem : Nat → List Nat) (hist : List Ev),
    (loopTr f st mem hist).fst = loop f st := by
  intro f
  induction f with
  | zero => intro st mem hist; rfl
  | succ f ih =>
    intro st mem hist
    simp only [loopTr, loop]
    by_cases hgt : st.nClusters > 2
    · simp only [hgt, ↓reduceIte]
      cases hs : step st with
      | ok st' =>
        obtain ⟨a, b, dab, hp, _⟩ := pick_of_step hs
        simp only [hp]
        exact ih _ _ _
      | err k => rfl
      | panic => rfl
    · simp only [hgt, ↓reduceIte]; rfl

/-- the event `step` performs is the one `Stepped` describes -/
theorem Stepped.pick_eq {n : Nat} {st st' : St} {a b : Nat} {dab : Rat} (s : Stepped n st st' a b dab) :
    pick st = some (a, b, dab) := by
  simp [pick, s.mc]

/-- history invariant: the internal nodes of the live cluster trees are exactly the events so far -/
def HInv (taxa : List String) (n : Nat) (st : St) (hist : List Ev) : Prop :=
  ∀ x, (∃ i, i < n ∧ st.merged.getD i true = false ∧ x ∈ nodeInfo (st.clusters.getD i default)) ↔
    ∃ e, e ∈ hist ∧ x = evInfo taxa e

theorem Stepped.hinv {d0 : Nat → Nat → Rat} {taxa : List String} {n : Nat} {st st' : St} {mem} {a b : Nat} {dab : Rat}
    {hist : List Ev} (hI : LInv d0 n st mem) (s : Stepped n st st' a b dab) (hC : CInv (Q5 taxa) n st mem)
    (hH : HInv taxa n st hist) : HInv taxa n st' (hist ++ [⟨a, b, dab / 2, mem a, mem b⟩]) := by
  have hbn : b < n := by have := s.lt; have := s.an; omega
  have hab : a ≠ b := by have := s.lt; omega
  have hnea : mem a ≠ [] := hI.link.ne a (mem_actOf.2 ⟨s.an, s.la⟩)
  have hnew : nodeInfo (st'.clusters.getD a default) =
      evInfo taxa ⟨a, b, dab / 2, mem a, mem b⟩ :: (nodeInfo (st.clusters.getD a default) ++ nodeInfo (st.clusters.getD b default)) := by
    rw [s.clusters, getD_set, hI.wf.szK]
    simp only [s.an, and_self, ↓reduceIte]
    exact nodeInfo_merge_Q taxa _ _ _ _ _ _ _ (hC a s.an s.la) (hC b hbn s.lb) hnea
  have hold : ∀ i, i ≠ a → st'.clusters.getD i default = st.clusters.getD i default := by
    intro i hia
    rw [s.clusters, getD_set]
    have : ¬ (a = i ∧ a < st.clusters.size) := fun e => hia e.1.symm
    rw [if_neg this]
  have hla' : st'.merged.getD a true = false := (s.live' hI.wf a).2 ⟨s.la, hab⟩
  intro x
  constructor
  · rintro ⟨i, hi, hli, hx⟩
    obtain ⟨hli1, hib⟩ := (s.live' hI.wf i).1 hli
    by_cases hia : i = a
    · subst hia
      rw [hnew] at hx
      simp only [List.mem_cons, List.mem_append] at hx
      rcases hx with hx | hx | hx
      · exact ⟨_, by simp, hx⟩
      · obtain ⟨e', he', hxe⟩ := (hH x).1 ⟨i, s.an, s.la, hx⟩
        exact ⟨e', List.mem_append_left _ he', hxe⟩
      · obtain ⟨e', he', hxe⟩ := (hH x).1 ⟨b, hbn, s.lb, hx⟩
        exact ⟨e', List.mem_append_left _ he', hxe⟩
    · rw [hold i hia] at hx
      obtain ⟨e', he', hxe⟩ := (hH x).1 ⟨i, hi, hli1, hx⟩
      exact ⟨e', List.mem_append_left _ he', hxe⟩
  · rintro ⟨e', he', hxe⟩
    rw [List.mem_append] at he'
    rcases he' with he' | he'
    · obtain ⟨i, hi, hli, hx⟩ := (hH x).2 ⟨e', he', hxe⟩
      by_cases hia : i = a
      · subst hia
        exact ⟨i, hi, hla', by rw [hnew]; simp only [List.mem_cons, List.mem_append]; exact Or.inr (Or.inl hx)⟩
      · by_cases hib : i = b
        · subst hib
          exact ⟨a, s.an, hla', by rw [hnew]; simp only [List.mem_cons, List.mem_append]; exact Or.inr (Or.inr hx)⟩
        · exact ⟨i, hi, (s.live' hI.wf i).2 ⟨hli, hib⟩, by rw [hold i hia]; exact hx⟩
    · simp only [List.mem_singleton] at he'
      subst he'
      exact ⟨a, s.an, hla', by rw [hnew, hxe]; simp⟩

/-- one event of the loop is one step of average-linkage clustering from its definition -/
theorem Stepped.avg_event {d0 : Nat → Nat → Rat} {n : Nat} {st st' : St} {mem} {a b : Nat} {dab : Rat}
    (hI : LInv d0 n st mem) (s : Stepped n st st' a b dab) :
    dab = avgLink d0 (mem a) (mem b) ∧ a ∈ actOf n st ∧ b ∈ actOf n st ∧ a ≠ b ∧
    ∀ j k, j ∈ actOf n st → k ∈ actOf n st → j ≠ k → avgLink d0 (mem a) (mem b) ≤ avgLink d0 (mem j) (mem k) := by
  obtain ⟨ha, hb, hab, hD, hmin⟩ := s.min_act hI.wf
  have e1 : dab = avgLink d0 (mem a) (mem b) := by
    rw [← hD]; exact link_D_eq hI.link ha hb hab
  refine ⟨e1, ha, hb, hab, ?_⟩
  intro j k hj hk hjk
  have := hmin j k hj hk hjk
  rw [hD, e1] at this
  have e2 : Dof st j k = avgLink d0 (mem j) (mem k) := link_D_eq hI.link hj hk hjk
  rw [e2] at this
  exact this

/-- the instrumented loop keeps all invariants and its events are an average-linkage run -/
theorem loopTr_inv {d0 : Nat → Nat → Rat} (hd : ∀ x y, d0 x y = d0 y x) (taxa : List String) (n : Nat) :
    ∀ (f : Nat) (st : St) (mem : Nat → List Nat) (hist : List Ev),
      LInv d0 n st mem → CInv (Q5 taxa) n st mem → HInv taxa n st hist →
      ∃ st' mem' evs, loopTr f st mem hist = .ok (st', mem', hist ++ evs) ∧ LInv d0 n st' mem' ∧
        CInv (Q5 taxa) n st' mem' ∧ HInv taxa n st' (hist ++ evs) ∧
        AvgRun d0 (actOf n st) mem evs (actOf n st') mem' ∧ evs.length + st'.nClusters = st.nClusters ∧
        (st.nClusters ≤ f + 2 → st'.nClusters = 2) := by
  intro f
  induction f with
  | zero =>
    intro st mem hist hI hC hH
    refine ⟨st, mem, [], by simp [loopTr], hI, hC, by simpa using hH, AvgRun.nil _ _, by simp, ?_⟩
    intro h; have := hI.two; omega
  | succ f ih =>
    intro st mem hist hI hC hH
    by_cases hgt : st.nClusters > 2
    · obtain ⟨st1, hs⟩ := step_total hI.wf (by rw [← hI.wf.ncl]; omega)
      obtain ⟨a, b, dab, s⟩ := step_spec hI.wf hs
      obtain ⟨hI1, h1, h2⟩ := s.linv hd hI hgt
      have hC1 := s.cinv (qmerge_q5 taxa) hI hC h1 h2
      have hH1 := s.hinv hI hC hH
      obtain ⟨st', mem', evs, hl, hI', hC', hH', hrun, hlen, hfin⟩ := ih st1 _ _ hI1 hC1 hH1
      obtain ⟨e1, ha, hb, hab, hmin⟩ := s.avg_event hI
      refine ⟨st', mem', ⟨a, b, dab / 2, mem a, mem b⟩ :: evs, ?_, hI', hC', ?_, ?_, ?_, ?_⟩
      · simp only [loopTr, hgt, ↓reduceIte, hs, s.pick_eq]
        rw [hl]; simp
      · simpa using hH'
      · rw [e1]
        rw [s.act' hI.wf] at hrun
        exact AvgRun.cons _ _ a b evs _ _ ha hb hab hmin hrun
      · rw [s.nClusters] at hlen; simp only [List.length_cons]; omega
      · intro hle; apply hfin; rw [s.nClusters]; omega
    · refine ⟨st, mem, [], by simp [loopTr, hgt], hI, hC, by simpa using hH, AvgRun.nil _ _, by simp, ?_⟩
      intro _; have := hI.two; omega

/-- `upgma` instrumented: the complete list of merge events, the final join (in root-child order) included -/
def upgmaTr (taxa : List String) (v : Array Rat) : Res (List Ev) :=
  match loopTr taxa.length (initSt taxa v) (fun i => [i]) [] with
  | .ok (st, mem, hist) =>
    match st.rootKids with
    | [k1, k2] =>
      match st.dm.getD (cell k1 k2) none with
      | some dab => .ok (hist ++ [⟨k1, k2, dab / 2, mem k1, mem k2⟩])
      | none => .err "NonFinite"
    | _ => .err "IndexError"
  | .err k => .err k
  | .panic => .panic

theorem init_hinv (taxa : List String) (v : Array Rat) : HInv taxa taxa.length (initSt taxa v) [] := by
  intro x
  constructor
  · rintro ⟨i, hi, _, hx⟩
    rw [init_cluster taxa v i hi, nodeInfo_leaf] at hx
    cases hx
  · rintro ⟨e, he, _⟩; cases he

/-- **Item 5.**  On two or more taxa with non-negative entries: the merge events of a run of `upgma`
    (`upgmaTr`, the final join included) are a complete run of average-linkage clustering from its definition,
    from the singletons down to one cluster holding all taxa — at every event the merged pair minimises the
    average of the original distances between member lists over all active pairs, and the recorded height is
    half that average — and the internal nodes of the returned tree, as (leaf names below, height above the
    leaves), are exactly these events. -/
theorem upgma_average_linkage (taxa : List String) (v : Array Rat) (h2 : 2 ≤ taxa.length) (hv : v.size = T taxa.length)
    (hpos : ∀ k, k < v.size → 0 ≤ v.getD k 0) :
    ∃ t m tie dy evs k cl, upgma taxa v = .ok (t, m, tie, dy) ∧ upgmaTr taxa v = .ok evs ∧
      AvgRun (d0of v) (List.range taxa.length) (fun i => [i]) evs [k] cl ∧
      (cl k).Perm (List.range taxa.length) ∧ evs.length = taxa.length - 1 ∧
      ∀ x, x ∈ nodeInfo t ↔ ∃ e, e ∈ evs ∧ x = evInfo taxa e := by
  obtain ⟨st, mem, evs, hl, hI, hC, hH, hrun, hlen, hfin⟩ := loopTr_inv (d0of_symm v) taxa taxa.length taxa.length
    (initSt taxa v) (fun i => [i]) [] (init_linv taxa v hv h2 hpos) (init_cinv taxa v (qinit_q5 taxa)) (init_hinv taxa v)
  simp only [List.nil_append] at hl hH
  have hn2 : st.nClusters = 2 := hfin (by simp [initSt])
  have hloop : loop taxa.length (initSt taxa v) = .ok st := by
    rw [← loopTr_fst taxa.length (initSt taxa v) (fun i => [i]) [], hl]; rfl
  obtain ⟨k1, k2, dab, hne, hk1, hk2, hall, hrk, hD, hdm, h1, h2', hup, hperm⟩ := final_join taxa v st mem hloop hI hn2
  obtain ⟨hk1n, hk1l⟩ := mem_actOf.1 hk1
  obtain ⟨hk2n, hk2l⟩ := mem_actOf.1 hk2
  have hdab : dab = avgLink (d0of v) (mem k1) (mem k2) := by
    rw [← hD]; exact link_D_eq hI.link hk1 hk2 hne
  have htr : upgmaTr taxa v = .ok (evs ++ [⟨k1, k2, dab / 2, mem k1, mem k2⟩]) := by
    unfold upgmaTr
    rw [hl]; simp only
    rw [hrk]; simp only
    rw [hdm]
  have hact2 : (actOf taxa.length st).erase k2 = [k1] := by
    have hm : ∀ i, i ∈ actOf taxa.length st ↔ i = k1 ∨ i = k2 := by
      intro i; constructor
      · exact hall i
      · rintro (e | e) <;> subst e <;> assumption
    have hne' : ¬ k2 = k1 := fun e => hne e.symm
    rcases two_of_nodup (actOf_nodup _ _) hm hne with e | e <;> rw [e] <;> simp [hne]
  have hlast : AvgRun (d0of v) (actOf taxa.length st) mem [⟨k1, k2, dab / 2, mem k1, mem k2⟩] [k1] (memAfter mem k1 k2) := by
    rw [hdab, ← hact2]
    apply AvgRun.cons _ _ k1 k2 [] _ _ hk1 hk2 hne ?_ (AvgRun.nil _ _)
    intro j k hj hk hjk
    rcases hall j hj with ej | ej <;> rcases hall k hk with ek | ek
    · exact absurd (ej.trans ek.symm) hjk
    · rw [ej, ek]; exact Rat.le_refl
    · rw [ej, ek, avgLink_symm (d0of_symm v) (mem k2) (mem k1)]; exact Rat.le_refl
    · exact absurd (ej.trans ek.symm) hjk
  have hrun' := hrun.append hlast
  rw [init_act] at hrun'
  refine ⟨_, _, _, _, _, k1, memAfter mem k1 k2, hup, htr, hrun', ?_, ?_, ?_⟩
  · simp only [memAfter, ↓reduceIte]; exact hperm
  · have : (initSt taxa v).nClusters = taxa.length := rfl
    rw [this, hn2] at hlen
    simp only [List.length_append, List.length_cons, List.length_nil]; omega
  · intro x
    rw [nodeInfo_merge_Q taxa _ _ _ _ _ _ _ (hC k1 hk1n hk1l) (hC k2 hk2n hk2l) (hI.link.ne k1 hk1)]
    simp only [List.mem_cons, List.mem_append]
    constructor
    · rintro (hx | hx | hx)
      · exact ⟨⟨k1, k2, dab / 2, mem k1, mem k2⟩, Or.inr (by simp), hx⟩
      · obtain ⟨e, he, hxe⟩ := (hH x).1 ⟨k1, hk1n, hk1l, hx⟩
        exact ⟨e, Or.inl he, hxe⟩
      · obtain ⟨e, he, hxe⟩ := (hH x).1 ⟨k2, hk2n, hk2l, hx⟩
        exact ⟨e, Or.inl he, hxe⟩
    · rintro ⟨e, he | he, hxe⟩
      · obtain ⟨i, hi, hli, hx⟩ := (hH x).2 ⟨e, he, hxe⟩
        rcases hall i (mem_actOf.2 ⟨hi, hli⟩) with ei | ei
        · subst ei; exact Or.inr (Or.inl hx)
        · subst ei; exact Or.inr (Or.inr hx)
      · have he' : e = ⟨k1, k2, dab / 2, mem k1, mem k2⟩ := by simpa using he
        subst he'
        exact Or.inl hxe

/-- non-vacuity of the hypotheses (the model's events on this input: `(1,0)` at height 1, then `(2,1)` at height 2) -/
example : 2 ≤ ["a", "b", "c"].length ∧ (#[2, 4, 4] : Array Rat).size = T ["a", "b", "c"].length ∧
    ∀ k, k < (#[2, 4, 4] : Array Rat).size → 0 ≤ (#[2, 4, 4] : Array Rat).getD k 0 := hyps_example

end UPG
