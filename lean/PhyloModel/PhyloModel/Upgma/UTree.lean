import PhyloModel.Matrix.Upgma
/-! # C15 — observations on the rose trees built by the executable UPGMA model

Branch lengths, leaf names, leaf depths and binary shape of a `UPG.URose`, with the equations for the two
constructors the model uses (`URose.setLen`, `mergeTrees`). -/
namespace UPG

def URose.name : URose → Option String | .node n _ _ => n
def URose.len : URose → Option Rat | .node _ l _ => l
def URose.kids : URose → List URose | .node _ _ ks => ks

@[simp] theorem URose.name_node (n : Option String) (l : Option Rat) (ks : List URose) : (URose.node n l ks).name = n := rfl
@[simp] theorem URose.len_node (n : Option String) (l : Option Rat) (ks : List URose) : (URose.node n l ks).len = l := rfl
@[simp] theorem URose.kids_node (n : Option String) (l : Option Rat) (ks : List URose) : (URose.node n l ks).kids = ks := rfl
@[simp] theorem URose.setLen_name (t : URose) (l : Option Rat) : (t.setLen l).name = t.name := by cases t; rfl
@[simp] theorem URose.setLen_len (t : URose) (l : Option Rat) : (t.setLen l).len = l := by cases t; rfl
@[simp] theorem URose.setLen_kids (t : URose) (l : Option Rat) : (t.setLen l).kids = t.kids := by cases t; rfl

mutual
/-- branch lengths of all proper descendants (the node's own length is not included) -/
def brLens : URose → List (Option Rat)
  | .node _ _ ks => brLensL ks
def brLensL : List URose → List (Option Rat)
  | [] => []
  | k :: ks => k.len :: (brLens k ++ brLensL ks)
end

mutual
/-- names at the leaves, left to right -/
def leafNames : URose → List (Option String)
  | .node n _ ks => if ks.isEmpty then [n] else leafNamesL ks
def leafNamesL : List URose → List (Option String)
  | [] => []
  | k :: ks => leafNames k ++ leafNamesL ks
end

mutual
/-- distance from the node down to each leaf, left to right (a missing length counts as `0`) -/
def leafDepths : URose → List Rat
  | .node _ _ ks => if ks.isEmpty then [0] else leafDepthsL ks
def leafDepthsL : List URose → List Rat
  | [] => []
  | k :: ks => (leafDepths k).map (fun d => k.len.getD 0 + d) ++ leafDepthsL ks
end

mutual
/-- every node has no child and a name, or exactly two children -/
def isBin : URose → Bool
  | .node n _ ks => (ks.isEmpty && n.isSome) || (ks.length == 2 && isBinL ks)
def isBinL : List URose → Bool
  | [] => true
  | k :: ks => isBin k && isBinL ks
end

theorem brLens_eq (t : URose) : brLens t = brLensL t.kids := by cases t; rw [brLens]; rfl
theorem brLensL_nil : brLensL [] = [] := by rw [brLensL]
theorem brLensL_cons (k : URose) (ks : List URose) : brLensL (k :: ks) = k.len :: (brLens k ++ brLensL ks) := by
  rw [brLensL]

theorem leafNames_eq (t : URose) : leafNames t = if t.kids.isEmpty then [t.name] else leafNamesL t.kids := by
  cases t; rw [leafNames]; rfl
theorem leafNamesL_nil : leafNamesL [] = [] := by rw [leafNamesL]
theorem leafNamesL_cons (k : URose) (ks : List URose) : leafNamesL (k :: ks) = leafNames k ++ leafNamesL ks := by
  rw [leafNamesL]

theorem leafDepths_eq (t : URose) : leafDepths t = if t.kids.isEmpty then [0] else leafDepthsL t.kids := by
  cases t; rw [leafDepths]; rfl
theorem leafDepthsL_nil : leafDepthsL [] = [] := by rw [leafDepthsL]
theorem leafDepthsL_cons (k : URose) (ks : List URose) :
    leafDepthsL (k :: ks) = (leafDepths k).map (fun d => k.len.getD 0 + d) ++ leafDepthsL ks := by
  rw [leafDepthsL]

theorem isBin_eq (t : URose) : isBin t = ((t.kids.isEmpty && t.name.isSome) || (t.kids.length == 2 && isBinL t.kids)) := by
  cases t; rw [isBin]; rfl
theorem isBinL_nil : isBinL [] = true := by rw [isBinL]
theorem isBinL_cons (k : URose) (ks : List URose) : isBinL (k :: ks) = (isBin k && isBinL ks) := by rw [isBinL]

/-! ### `setLen` changes nothing below the node -/
@[simp] theorem brLens_setLen (t : URose) (l : Option Rat) : brLens (t.setLen l) = brLens t := by
  rw [brLens_eq, brLens_eq, URose.setLen_kids]
@[simp] theorem leafNames_setLen (t : URose) (l : Option Rat) : leafNames (t.setLen l) = leafNames t := by
  rw [leafNames_eq, leafNames_eq, URose.setLen_kids, URose.setLen_name]
@[simp] theorem leafDepths_setLen (t : URose) (l : Option Rat) : leafDepths (t.setLen l) = leafDepths t := by
  rw [leafDepths_eq, leafDepths_eq, URose.setLen_kids]
@[simp] theorem isBin_setLen (t : URose) (l : Option Rat) : isBin (t.setLen l) = isBin t := by
  rw [isBin_eq, isBin_eq, URose.setLen_kids, URose.setLen_name]

/-! ### the join of two cluster trees -/
theorem brLens_merge (a b : URose) (la lb : Rat) :
    brLens (mergeTrees a b la lb) = some la :: (brLens a ++ (some lb :: brLens b)) := by
  simp [mergeTrees, brLens_eq, brLensL_cons, brLensL_nil]

theorem leafNames_merge (a b : URose) (la lb : Rat) :
    leafNames (mergeTrees a b la lb) = leafNames a ++ leafNames b := by
  simp [mergeTrees, leafNames_eq (.node _ _ _), leafNamesL_cons, leafNamesL_nil]

theorem leafDepths_merge (a b : URose) (la lb : Rat) :
    leafDepths (mergeTrees a b la lb) =
      (leafDepths a).map (fun d => la + d) ++ (leafDepths b).map (fun d => lb + d) := by
  simp [mergeTrees, leafDepths_eq (.node _ _ _), leafDepthsL_cons, leafDepthsL_nil]

theorem isBin_merge (a b : URose) (la lb : Rat) : isBin (mergeTrees a b la lb) = (isBin a && isBin b) := by
  simp [mergeTrees, isBin_eq (.node _ _ _), isBinL_cons, isBinL_nil]

/-! ### a leaf -/
theorem brLens_leaf (n : Option String) (l : Option Rat) : brLens (.node n l []) = [] := by
  simp [brLens_eq, brLensL_nil]
theorem leafNames_leaf (n : Option String) (l : Option Rat) : leafNames (.node n l []) = [n] := by
  simp [leafNames_eq]
theorem leafDepths_leaf (n : Option String) (l : Option Rat) : leafDepths (.node n l []) = [0] := by
  simp [leafDepths_eq]
theorem isBin_leaf (n : String) (l : Option Rat) : isBin (.node (some n) l []) = true := by
  simp [isBin_eq]

end UPG
