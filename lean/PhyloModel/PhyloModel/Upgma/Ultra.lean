import PhyloModel.Upgma.AvgLink
/-! # C15 — ultrametric input: UPGMA reproduces the matrix (abstract part)

Under the three-point condition on the original distances, every cross distance between two active clusters
equals the stored cluster distance (`U`); the invariant is kept by merging a pair at minimal distance. -/
namespace UPG
open MX Tri MXS

/-- three-point (ultrametric) condition on taxa below `n`, stated without `max` -/
def Ultra (d0 : Nat → Nat → Rat) (n : Nat) : Prop :=
  ∀ x y z, x < n → y < n → z < n → d0 x z ≤ d0 x y ∨ d0 x z ≤ d0 y z

/-- every original distance between members of two different active clusters equals the stored distance -/
def U (d0 : Nat → Nat → Rat) (s : UP.St) : Prop :=
  ∀ i j, i ∈ s.act → j ∈ s.act → i ≠ j → ∀ x, x ∈ s.mem i → ∀ y, y ∈ s.mem j → d0 x y = s.D i j

theorem Agree.U {d0 : Nat → Nat → Rat} {s t : UP.St} (ag : Agree s t) (hU : U d0 t) : U d0 s := by
  intro i j hi hj hij x hx y hy
  rw [ag.act] at hi hj
  rw [ag.mem i hi] at hx
  rw [ag.mem j hj] at hy
  rw [ag.D i j hi hj hij]
  exact hU i j hi hj hij x hx y hy

theorem wavg_same (ca cb w : Rat) (ha : 0 < ca) (hb : 0 < cb) : (ca * w + cb * w) / (ca + cb) = w := by
  have : ca + cb ≠ 0 := by grind
  grind

/-- under the three-point condition, the two clusters of a minimal pair are equally far from any third one -/
theorem U_third {d0 : Nat → Nat → Rat} {n : Nat} (hd : ∀ x y, d0 x y = d0 y x) (hu : Ultra d0 n) (s : UP.St)
    (a b j : Nat) (hl : UP.Link d0 s) (hp : Part n s) (hU : U d0 s) (ha : a ∈ s.act) (hb : b ∈ s.act) (hj : j ∈ s.act)
    (hab : a ≠ b) (hja : j ≠ a) (hjb : j ≠ b)
    (hmin : ∀ j k, j ∈ s.act → k ∈ s.act → j ≠ k → s.D a b ≤ s.D j k) : s.D a j = s.D b j := by
  obtain ⟨p, hp1⟩ := List.exists_mem_of_ne_nil _ (hl.ne a ha)
  obtain ⟨q, hq1⟩ := List.exists_mem_of_ne_nil _ (hl.ne b hb)
  obtain ⟨r, hr1⟩ := List.exists_mem_of_ne_nil _ (hl.ne j hj)
  have hpn := hp.lt a ha p hp1
  have hqn := hp.lt b hb q hq1
  have hrn := hp.lt j hj r hr1
  have e1 : d0 p q = s.D a b := hU a b ha hb hab p hp1 q hq1
  have e2 : d0 p r = s.D a j := hU a j ha hj (Ne.symm hja) p hp1 r hr1
  have e3 : d0 q r = s.D b j := hU b j hb hj (Ne.symm hjb) q hq1 r hr1
  have m1 := hmin a j ha hj (Ne.symm hja)
  have m2 := hmin b j hb hj (Ne.symm hjb)
  have u1 := hu p q r hpn hqn hrn
  have u2 := hu q p r hqn hpn hrn
  rw [e2, e1, e3] at u1
  rw [e3, hd q p, e1, e2] at u2
  apply Rat.le_antisymm
  · rcases u1 with u | u
    · exact Rat.le_trans u m2
    · exact u
  · rcases u2 with u | u
    · exact Rat.le_trans u m1
    · exact u

/-- merging a pair at minimal distance keeps `U` -/
theorem merge_U {d0 : Nat → Nat → Rat} {n : Nat} (hd : ∀ x y, d0 x y = d0 y x) (hu : Ultra d0 n) (s : UP.St) (a b : Nat)
    (hl : UP.Link d0 s) (hp : Part n s) (hU : U d0 s) (ha : a ∈ s.act) (hb : b ∈ s.act) (hab : a ≠ b)
    (hmin : ∀ j k, j ∈ s.act → k ∈ s.act → j ≠ k → s.D a b ≤ s.D j k) : U d0 (UP.merge s a b) := by
  have hmem : ∀ i, i ∈ (UP.merge s a b).act ↔ (i ∈ s.act ∧ i ≠ b) := by
    intro i; simp only [UP.merge]; rw [List.Nodup.mem_erase_iff hl.nodup]; constructor <;> (intro h; exact ⟨h.2, h.1⟩)
  have hla : (0 : Rat) < ((s.mem a).length : Rat) := Rat.natCast_pos.mpr (List.length_pos_iff.mpr (hl.ne a ha))
  have hlb : (0 : Rat) < ((s.mem b).length : Rat) := Rat.natCast_pos.mpr (List.length_pos_iff.mpr (hl.ne b hb))
  -- the updated distance from the new cluster to a third one is the common value
  have hupd : ∀ j, j ∈ s.act → j ≠ a → j ≠ b →
      (((s.mem a).length : Rat) * s.D a j + ((s.mem b).length : Rat) * s.D b j) /
        (((s.mem a).length : Rat) + ((s.mem b).length : Rat)) = s.D a j := by
    intro j hj hja hjb
    rw [← U_third hd hu s a b j hl hp hU ha hb hj hab hja hjb hmin]
    exact wavg_same _ _ _ hla hlb
  intro i j hi hj hij x hx y hy
  obtain ⟨hi1, hib⟩ := (hmem i).1 hi
  obtain ⟨hj1, hjb⟩ := (hmem j).1 hj
  simp only [UP.merge] at hx hy ⊢
  by_cases hia : i = a
  · have hja : j ≠ a := fun e => hij (hia.trans e.symm)
    have c1 : i = a ∧ j ≠ a := ⟨hia, hja⟩
    rw [if_pos c1, hupd j hj1 hja hjb]
    simp only [hia, ↓reduceIte, List.mem_append] at hx
    simp only [hja, ↓reduceIte] at hy
    rcases hx with hx | hx
    · exact hU a j ha hj1 (Ne.symm hja) x hx y hy
    · rw [U_third hd hu s a b j hl hp hU ha hb hj1 hab hja hjb hmin]
      exact hU b j hb hj1 (Ne.symm hjb) x hx y hy
  · have c1 : ¬ (i = a ∧ j ≠ a) := fun e => hia e.1
    rw [if_neg c1]
    simp only [hia, ↓reduceIte] at hx
    by_cases hja : j = a
    · have c2 : j = a ∧ i ≠ a := ⟨hja, hia⟩
      rw [if_pos c2, hupd i hi1 hia hib]
      simp only [hja, ↓reduceIte, List.mem_append] at hy
      rcases hy with hy | hy
      · rw [hd x y]; exact hU a i ha hi1 (Ne.symm hia) y hy x hx
      · rw [hd x y, U_third hd hu s a b i hl hp hU ha hb hi1 hab hia hib hmin]
        exact hU b i hb hi1 (Ne.symm hib) y hy x hx
    · have c2 : ¬ (j = a ∧ i ≠ a) := fun e => hja e.1
      rw [if_neg c2]
      simp only [hja, ↓reduceIte] at hy
      exact hU i j hi1 hj1 hij x hx y hy

end UPG
