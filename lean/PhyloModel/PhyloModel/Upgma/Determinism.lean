import PhyloModel.Upgma.AvgLink
/-! # C15 — global determinism of average-linkage clustering under unambiguous minima

`AvgRun` (Upgma/AvgLink.lean) is a run of average-linkage clustering from its definition; `avg_step_unique` says that ONE
step is determined when its minimum is unambiguous.  This file proves the global statement: two runs on the same `d0`
from equivalent states and of the same length, ONE of which has an unambiguous minimum at every step, perform the same
sequence of merges when a merge is read as (members of the merged cluster as a set, height) — whichever index survives,
in whichever order the two members of a pair are listed — and end in equivalent states.

* `avgLink_perm` — `avgLink` only depends on the member lists up to permutation
* `WFC act cl` — well-formed clustering state: `act` duplicate-free, active clusters non-empty and pairwise disjoint
* `StEqv act1 cl1 act2 cl2` — the two states have the same set of active clusters, each read up to permutation
  (indices forgotten); under `WFC` this matching is a bijection (`WFC.inj`)
* `Unamb d0 act cl evs` — at every step of the run `evs` from (`act`, `cl`) every active pair whose average linkage
  equals that of the chosen pair is the chosen pair, in one of the two orders
* `avgRun_deterministic_one` — the main theorem (only the second run is required to be unambiguous)
* `avgRun_deterministic` — the symmetric reading with both runs unambiguous
* `avgRun_keys_eq` — the same with the member sets as sorted lists: the lists of keys are EQUAL, in order -/
namespace UPG
open UP

/-! ## `avgLink` is invariant under permutation of the member lists -/

theorem sumL_perm {l1 l2 : List Rat} (h : l1.Perm l2) : sumL l1 = sumL l2 := by
  induction h with
  | nil => rfl
  | cons x _ ih => simp only [sumL_cons, ih]
  | swap x y l => simp only [sumL_cons]; grind
  | trans _ _ ih1 ih2 => exact ih1.trans ih2

theorem S_perm (d0 : Nat → Nat → Rat) {A A' B B' : List Nat} (hA : A.Perm A') (hB : B.Perm B') :
    S d0 A B = S d0 A' B' := by
  unfold S
  have e : (fun x => sumL (B.map (fun y => d0 x y))) = (fun x => sumL (B'.map (fun y => d0 x y))) := by
    funext x; exact sumL_perm (hB.map _)
  rw [e]; exact sumL_perm (hA.map _)

/-- the average linkage of two clusters depends on the member lists only up to permutation -/
theorem avgLink_perm (d0 : Nat → Nat → Rat) {A A' B B' : List Nat} (hA : A.Perm A') (hB : B.Perm B') :
    avgLink d0 A B = avgLink d0 A' B' := by
  unfold avgLink; rw [S_perm d0 hA hB, hA.length_eq, hB.length_eq]

/-! ## well-formed clustering states and their index-free reading -/

/-- a well-formed clustering state: no repeated active index, active clusters non-empty and pairwise disjoint
    (the part of `UP.Link` / `UPG.Part` that does not mention distances or the number of taxa) -/
structure WFC (act : List Nat) (cl : Nat → List Nat) : Prop where
  nodup : act.Nodup
  ne : ∀ i, i ∈ act → cl i ≠ []
  disj : ∀ i j, i ∈ act → j ∈ act → i ≠ j → ∀ x, x ∈ cl i → x ∉ cl j

/-- the singleton clusters over a duplicate-free index list are well formed -/
theorem WFC.singletons {act : List Nat} (h : act.Nodup) : WFC act (fun i => [i]) := by
  refine ⟨h, fun i _ => by simp, ?_⟩
  intro i j _ _ hij x hx hx'
  simp only [List.mem_singleton] at hx hx'
  exact hij (hx.symm.trans hx')

/-- the loop invariant of the executable model gives a well-formed state -/
theorem WFC.of_link_part {d0 : Nat → Nat → Rat} {n : Nat} {s : UP.St} (hl : UP.Link d0 s) (hp : Part n s) :
    WFC s.act s.mem :=
  ⟨hl.nodup, hl.ne, hp.disj⟩

/-- in a well-formed state an active cluster is determined by its member set -/
theorem WFC.inj {act : List Nat} {cl : Nat → List Nat} (w : WFC act cl) {i j : Nat} (hi : i ∈ act) (hj : j ∈ act)
    (h : (cl i).Perm (cl j)) : i = j := by
  apply Classical.byContradiction; intro hij
  obtain ⟨x, hx⟩ := List.exists_mem_of_ne_nil _ (w.ne i hi)
  exact w.disj i j hi hj hij x hx (h.mem_iff.1 hx)

theorem mem_erase_nodup {act : List Nat} (h : act.Nodup) {i b : Nat} : i ∈ act.erase b ↔ i ∈ act ∧ i ≠ b := by
  rw [List.Nodup.mem_erase_iff h]; exact ⟨fun h => ⟨h.2, h.1⟩, fun h => ⟨h.2, h.1⟩⟩

theorem memAfter_self (cl : Nat → List Nat) (a b : Nat) : memAfter cl a b a = cl a ++ cl b := by
  simp [memAfter]

theorem memAfter_ne (cl : Nat → List Nat) {a i : Nat} (b : Nat) (h : i ≠ a) : memAfter cl a b i = cl i := by
  simp [memAfter, h]

/-- a merge keeps the state well formed -/
theorem WFC.merge {act : List Nat} {cl : Nat → List Nat} (w : WFC act cl) {a b : Nat} (ha : a ∈ act) (hb : b ∈ act)
    (hab : a ≠ b) : WFC (act.erase b) (memAfter cl a b) := by
  refine ⟨w.nodup.erase b, ?_, ?_⟩
  · intro i hi
    obtain ⟨hi1, _⟩ := (mem_erase_nodup w.nodup).1 hi
    by_cases hia : i = a
    · subst hia; rw [memAfter_self]; intro h
      exact w.ne i ha (List.append_eq_nil_iff.1 h).1
    · rw [memAfter_ne cl b hia]; exact w.ne i hi1
  · intro i j hi hj hij x hx hx'
    obtain ⟨hi1, hib⟩ := (mem_erase_nodup w.nodup).1 hi
    obtain ⟨hj1, hjb⟩ := (mem_erase_nodup w.nodup).1 hj
    by_cases hia : i = a
    · subst hia
      have hji : j ≠ i := fun e => hij e.symm
      rw [memAfter_self, List.mem_append] at hx
      rw [memAfter_ne cl b hji] at hx'
      rcases hx with hx | hx
      · exact w.disj i j ha hj1 hij x hx hx'
      · exact w.disj b j hb hj1 (fun e => hjb e.symm) x hx hx'
    · rw [memAfter_ne cl b hia] at hx
      by_cases hja : j = a
      · subst hja
        rw [memAfter_self, List.mem_append] at hx'
        rcases hx' with hx' | hx'
        · exact w.disj i j hi1 ha hij x hx hx'
        · exact w.disj i b hi1 hb hib x hx hx'
      · rw [memAfter_ne cl b hja] at hx'
        exact w.disj i j hi1 hj1 hij x hx hx'

/-- every active cluster of the first state is, as a set, an active cluster of the second -/
def Sub (act1 : List Nat) (cl1 : Nat → List Nat) (act2 : List Nat) (cl2 : Nat → List Nat) : Prop :=
  ∀ i, i ∈ act1 → ∃ j, j ∈ act2 ∧ (cl1 i).Perm (cl2 j)

/-- the index-free reading of a clustering state: the two states have the same set of active clusters, each
    cluster compared up to permutation of its member list -/
def StEqv (act1 : List Nat) (cl1 : Nat → List Nat) (act2 : List Nat) (cl2 : Nat → List Nat) : Prop :=
  Sub act1 cl1 act2 cl2 ∧ Sub act2 cl2 act1 cl1

theorem StEqv.refl (act : List Nat) (cl : Nat → List Nat) : StEqv act cl act cl :=
  ⟨fun i hi => ⟨i, hi, List.Perm.refl _⟩, fun i hi => ⟨i, hi, List.Perm.refl _⟩⟩

theorem StEqv.symm {act1 act2 : List Nat} {cl1 cl2 : Nat → List Nat} (h : StEqv act1 cl1 act2 cl2) :
    StEqv act2 cl2 act1 cl1 := ⟨h.2, h.1⟩

theorem Sub.trans {act1 act2 act3 : List Nat} {cl1 cl2 cl3 : Nat → List Nat} (h1 : Sub act1 cl1 act2 cl2)
    (h2 : Sub act2 cl2 act3 cl3) : Sub act1 cl1 act3 cl3 := by
  intro i hi
  obtain ⟨j, hj, p1⟩ := h1 i hi
  obtain ⟨k, hk, p2⟩ := h2 j hj
  exact ⟨k, hk, p1.trans p2⟩

theorem StEqv.trans {act1 act2 act3 : List Nat} {cl1 cl2 cl3 : Nat → List Nat} (h1 : StEqv act1 cl1 act2 cl2)
    (h2 : StEqv act2 cl2 act3 cl3) : StEqv act1 cl1 act3 cl3 :=
  ⟨h1.1.trans h2.1, h2.2.trans h1.2⟩

/-- states over permuted index lists with the same cluster function are equivalent -/
theorem StEqv.of_perm {act1 act2 : List Nat} (cl : Nat → List Nat) (h : act1.Perm act2) : StEqv act1 cl act2 cl :=
  ⟨fun i hi => ⟨i, h.mem_iff.1 hi, List.Perm.refl _⟩, fun i hi => ⟨i, h.mem_iff.2 hi, List.Perm.refl _⟩⟩

/-- merging matched pairs (in either order, whichever index survives) keeps `Sub` -/
theorem Sub.merge {act1 act2 : List Nat} {cl1 cl2 : Nat → List Nat} (w1 : WFC act1 cl1) (w2 : WFC act2 cl2)
    (s : Sub act1 cl1 act2 cl2) {a b a' b' : Nat} (ha : a ∈ act1) (hb : b ∈ act1)
    (ha' : a' ∈ act2) (hb' : b' ∈ act2) (hab' : a' ≠ b')
    (hm : ((cl1 a).Perm (cl2 a') ∧ (cl1 b).Perm (cl2 b')) ∨ ((cl1 a).Perm (cl2 b') ∧ (cl1 b).Perm (cl2 a'))) :
    Sub (act1.erase b) (memAfter cl1 a b) (act2.erase b') (memAfter cl2 a' b') := by
  intro i hi
  obtain ⟨hi1, hib⟩ := (mem_erase_nodup w1.nodup).1 hi
  by_cases hia : i = a
  · subst hia
    refine ⟨a', (mem_erase_nodup w2.nodup).2 ⟨ha', hab'⟩, ?_⟩
    rw [memAfter_self, memAfter_self]
    rcases hm with ⟨h1, h2⟩ | ⟨h1, h2⟩
    · exact h1.append h2
    · exact (h1.append h2).trans List.perm_append_comm
  · obtain ⟨j, hj, hp⟩ := s i hi1
    have hja : j ≠ a' := by
      intro e; subst e
      rcases hm with ⟨h1, _⟩ | ⟨_, h2⟩
      · exact hia (w1.inj hi1 ha (hp.trans h1.symm))
      · exact hib (w1.inj hi1 hb (hp.trans h2.symm))
    have hjb : j ≠ b' := by
      intro e; subst e
      rcases hm with ⟨_, h2⟩ | ⟨h1, _⟩
      · exact hib (w1.inj hi1 hb (hp.trans h2.symm))
      · exact hia (w1.inj hi1 ha (hp.trans h1.symm))
    refine ⟨j, (mem_erase_nodup w2.nodup).2 ⟨hj, hjb⟩, ?_⟩
    rw [memAfter_ne cl1 b hia, memAfter_ne cl2 b' hja]; exact hp

/-- merging matched pairs keeps the states equivalent -/
theorem StEqv.merge {act1 act2 : List Nat} {cl1 cl2 : Nat → List Nat} (w1 : WFC act1 cl1) (w2 : WFC act2 cl2)
    (e : StEqv act1 cl1 act2 cl2) {a b a' b' : Nat} (ha : a ∈ act1) (hb : b ∈ act1) (hab : a ≠ b)
    (ha' : a' ∈ act2) (hb' : b' ∈ act2) (hab' : a' ≠ b')
    (hm : ((cl1 a).Perm (cl2 a') ∧ (cl1 b).Perm (cl2 b')) ∨ ((cl1 a).Perm (cl2 b') ∧ (cl1 b).Perm (cl2 a'))) :
    StEqv (act1.erase b) (memAfter cl1 a b) (act2.erase b') (memAfter cl2 a' b') := by
  refine ⟨Sub.merge w1 w2 e.1 ha hb ha' hb' hab' hm, Sub.merge w2 w1 e.2 ha' hb' ha hb hab ?_⟩
  rcases hm with ⟨h1, h2⟩ | ⟨h1, h2⟩
  · exact Or.inl ⟨h1.symm, h2.symm⟩
  · exact Or.inr ⟨h2.symm, h1.symm⟩

/-! ## unambiguous minima -/

/-- the minimum realised by the pair (`a`, `b`) is unambiguous in the state (`act`, `cl`): every active pair with
    the same average linkage is this pair, in one of the two orders -/
def UnambAt (d0 : Nat → Nat → Rat) (act : List Nat) (cl : Nat → List Nat) (a b : Nat) : Prop :=
  ∀ j k, j ∈ act → k ∈ act → j ≠ k → avgLink d0 (cl j) (cl k) = avgLink d0 (cl a) (cl b) →
    (j = a ∧ k = b) ∨ (j = b ∧ k = a)

/-- every step of the run `evs` from (`act`, `cl`) — each step read in the run's own state after the earlier
    merges — has an unambiguous minimum -/
def Unamb (d0 : Nat → Nat → Rat) : List Nat → (Nat → List Nat) → List Ev → Prop
  | _, _, [] => True
  | act, cl, e :: evs => UnambAt d0 act cl e.a e.b ∧ Unamb d0 (act.erase e.b) (memAfter cl e.a e.b) evs

/-- two lists related position by position (and of the same length) -/
inductive All2 {α β : Type} (R : α → β → Prop) : List α → List β → Prop
  | nil : All2 R [] []
  | cons {a : α} {b : β} {l1 : List α} {l2 : List β} : R a b → All2 R l1 l2 → All2 R (a :: l1) (b :: l2)

theorem All2.length_eq {α β : Type} {R : α → β → Prop} {l1 : List α} {l2 : List β} (h : All2 R l1 l2) :
    l1.length = l2.length := by
  induction h with
  | nil => rfl
  | cons _ _ ih => simp [ih]

theorem All2.mem_left {α β : Type} {R : α → β → Prop} {l1 : List α} {l2 : List β} (h : All2 R l1 l2) :
    ∀ a, a ∈ l1 → ∃ b, b ∈ l2 ∧ R a b := by
  induction h with
  | nil => intro a ha; cases ha
  | cons hr _ ih =>
    intro a ha
    rcases List.mem_cons.1 ha with e | ha
    · subst e; exact ⟨_, List.mem_cons_self, hr⟩
    · obtain ⟨b, hb, hab⟩ := ih a ha
      exact ⟨b, List.mem_cons_of_mem _ hb, hab⟩

theorem All2.mem_right {α β : Type} {R : α → β → Prop} {l1 : List α} {l2 : List β} (h : All2 R l1 l2) :
    ∀ b, b ∈ l2 → ∃ a, a ∈ l1 ∧ R a b := by
  induction h with
  | nil => intro b hb; cases hb
  | cons hr _ ih =>
    intro b hb
    rcases List.mem_cons.1 hb with e | hb
    · subst e; exact ⟨_, List.mem_cons_self, hr⟩
    · obtain ⟨a, ha, hab⟩ := ih b hb
      exact ⟨a, List.mem_cons_of_mem _ ha, hab⟩

theorem All2.imp {α β : Type} {R R' : α → β → Prop} (hi : ∀ a b, R a b → R' a b) {l1 : List α} {l2 : List β}
    (h : All2 R l1 l2) : All2 R' l1 l2 := by
  induction h with
  | nil => exact All2.nil
  | cons hr _ ih => exact All2.cons (hi _ _ hr) ih

/-- what an event says once indices are forgotten: same member set of the merged cluster, same height -/
def EvSame (e1 e2 : Ev) : Prop := (e1.A ++ e1.B).Perm (e2.A ++ e2.B) ∧ e1.height = e2.height

/-- one step: in equivalent well-formed states, a minimal pair of the first state and an unambiguous minimal pair
    of the second have the same average linkage and are matched, in one of the two orders -/
theorem step_match {d0 : Nat → Nat → Rat} {act1 act2 : List Nat} {cl1 cl2 : Nat → List Nat}
    (w1 : WFC act1 cl1) (w2 : WFC act2 cl2) (e : StEqv act1 cl1 act2 cl2) {a b a' b' : Nat}
    (ha : a ∈ act1) (hb : b ∈ act1) (hab : a ≠ b)
    (hmin : ∀ j k, j ∈ act1 → k ∈ act1 → j ≠ k → avgLink d0 (cl1 a) (cl1 b) ≤ avgLink d0 (cl1 j) (cl1 k))
    (ha' : a' ∈ act2) (hb' : b' ∈ act2) (hab' : a' ≠ b')
    (hmin' : ∀ j k, j ∈ act2 → k ∈ act2 → j ≠ k → avgLink d0 (cl2 a') (cl2 b') ≤ avgLink d0 (cl2 j) (cl2 k))
    (u : UnambAt d0 act2 cl2 a' b') :
    avgLink d0 (cl1 a) (cl1 b) = avgLink d0 (cl2 a') (cl2 b') ∧
    (((cl1 a).Perm (cl2 a') ∧ (cl1 b).Perm (cl2 b')) ∨ ((cl1 a).Perm (cl2 b') ∧ (cl1 b).Perm (cl2 a'))) := by
  obtain ⟨ja, hja, pa⟩ := e.1 a ha
  obtain ⟨jb, hjb, pb⟩ := e.1 b hb
  obtain ⟨ia, hia, qa⟩ := e.2 a' ha'
  obtain ⟨ib, hib, qb⟩ := e.2 b' hb'
  have hj : ja ≠ jb := by
    intro h; rw [h] at pa
    exact hab (w1.inj ha hb (pa.trans pb.symm))
  have hi : ia ≠ ib := by
    intro h; rw [h] at qa
    exact hab' (w2.inj ha' hb' (qa.trans qb.symm))
  have e1 : avgLink d0 (cl1 a) (cl1 b) = avgLink d0 (cl2 ja) (cl2 jb) := avgLink_perm d0 pa pb
  have e2 : avgLink d0 (cl2 a') (cl2 b') = avgLink d0 (cl1 ia) (cl1 ib) := avgLink_perm d0 qa qb
  have l1 : avgLink d0 (cl2 a') (cl2 b') ≤ avgLink d0 (cl1 a) (cl1 b) := by
    rw [e1]; exact hmin' ja jb hja hjb hj
  have l2 : avgLink d0 (cl1 a) (cl1 b) ≤ avgLink d0 (cl2 a') (cl2 b') := by
    rw [e2]; exact hmin ia ib hia hib hi
  have heq : avgLink d0 (cl1 a) (cl1 b) = avgLink d0 (cl2 a') (cl2 b') := Rat.le_antisymm l2 l1
  refine ⟨heq, ?_⟩
  rcases u ja jb hja hjb hj (e1.symm.trans heq) with ⟨h1, h2⟩ | ⟨h1, h2⟩
  · subst h1; subst h2; exact Or.inl ⟨pa, pb⟩
  · subst h1; subst h2; exact Or.inr ⟨pa, pb⟩

/-- a run keeps the state well formed -/
theorem AvgRun.wfc {d0 : Nat → Nat → Rat} {act act' : List Nat} {cl cl' : Nat → List Nat} {evs : List Ev}
    (r : AvgRun d0 act cl evs act' cl') (w : WFC act cl) : WFC act' cl' := by
  induction r with
  | nil => exact w
  | cons act cl a b evs act' cl' ha hb hab _ _ ih => exact ih (w.merge ha hb hab)

/-- each event of a run removes one active cluster -/
theorem AvgRun.length {d0 : Nat → Nat → Rat} {act act' : List Nat} {cl cl' : Nat → List Nat} {evs : List Ev}
    (r : AvgRun d0 act cl evs act' cl') : evs.length + act'.length = act.length := by
  induction r with
  | nil => simp
  | cons act cl a b evs act' cl' ha hb hab _ _ ih =>
    have h1 := List.length_erase_of_mem hb
    have h2 : 0 < act.length := List.length_pos_of_mem hb
    simp only [List.length_cons]; omega

/-- **Main theorem (determinism).**  Two runs of average-linkage clustering on the same `d0`, from well-formed
    equivalent states, with the same number of events; the SECOND has an unambiguous minimum at every step (the
    first is any run).  Then the two event lists agree position by position on (members of the merged cluster up to
    permutation, height), and the end states are equivalent. -/
theorem avgRun_deterministic_one {d0 : Nat → Nat → Rat} {act1 act1' : List Nat} {cl1 cl1' : Nat → List Nat}
    {evs1 : List Ev} (r1 : AvgRun d0 act1 cl1 evs1 act1' cl1') :
    ∀ {act2 act2' : List Nat} {cl2 cl2' : Nat → List Nat} {evs2 : List Ev},
      AvgRun d0 act2 cl2 evs2 act2' cl2' → Unamb d0 act2 cl2 evs2 → WFC act1 cl1 → WFC act2 cl2 →
      StEqv act1 cl1 act2 cl2 → evs1.length = evs2.length →
      All2 EvSame evs1 evs2 ∧ StEqv act1' cl1' act2' cl2' := by
  induction r1 with
  | nil act1 cl1 =>
    intro act2 act2' cl2 cl2' evs2 r2 _ _ _ e hlen
    cases r2 with
    | nil => exact ⟨All2.nil, e⟩
    | cons => simp at hlen
  | cons act1 cl1 a b evs1 act1' cl1' ha hb hab hmin _ ih =>
    intro act2 act2' cl2 cl2' evs2 r2 u2 w1 w2 e hlen
    cases r2 with
    | nil => simp at hlen
    | cons _ _ a' b' evs2 _ _ ha' hb' hab' hmin' r2' =>
      obtain ⟨ua, u2'⟩ := u2
      obtain ⟨heq, hm⟩ := step_match w1 w2 e ha hb hab hmin ha' hb' hab' hmin' ua
      have e' := StEqv.merge w1 w2 e ha hb hab ha' hb' hab' hm
      have hlen' : evs1.length = evs2.length := by simpa using hlen
      obtain ⟨hf, hend⟩ := ih r2' u2' (w1.merge ha hb hab) (w2.merge ha' hb' hab') e' hlen'
      refine ⟨All2.cons ⟨?_, ?_⟩ hf, hend⟩
      · show (cl1 a ++ cl1 b).Perm (cl2 a' ++ cl2 b')
        rcases hm with ⟨h1, h2⟩ | ⟨h1, h2⟩
        · exact h1.append h2
        · exact (h1.append h2).trans List.perm_append_comm
      · show avgLink d0 (cl1 a) (cl1 b) / 2 = avgLink d0 (cl2 a') (cl2 b') / 2
        rw [heq]

/-- **Determinism, symmetric form** (the statement of the work package): both runs unambiguous.  The conclusion
    also records that the end states are well formed. -/
theorem avgRun_deterministic {d0 : Nat → Nat → Rat} {act1 act1' act2 act2' : List Nat}
    {cl1 cl1' cl2 cl2' : Nat → List Nat} {evs1 evs2 : List Ev}
    (r1 : AvgRun d0 act1 cl1 evs1 act1' cl1') (r2 : AvgRun d0 act2 cl2 evs2 act2' cl2')
    (_u1 : Unamb d0 act1 cl1 evs1) (u2 : Unamb d0 act2 cl2 evs2) (w1 : WFC act1 cl1) (w2 : WFC act2 cl2)
    (e : StEqv act1 cl1 act2 cl2) (hlen : evs1.length = evs2.length) :
    All2 EvSame evs1 evs2 ∧ StEqv act1' cl1' act2' cl2' ∧ WFC act1' cl1' ∧ WFC act2' cl2' := by
  obtain ⟨h1, h2⟩ := avgRun_deterministic_one r1 r2 u2 w1 w2 e hlen
  exact ⟨h1, h2, r1.wfc w1, r2.wfc w2⟩

/-! ## the same with member sets as sorted lists: the key lists are equal -/

/-- the index-free content of an event: the members of the merged cluster in increasing order, and the height -/
def evKey (e : Ev) : List Nat × Rat := ((e.A ++ e.B).mergeSort (fun x y => decide (x ≤ y)), e.height)

theorem mergeSort_eq_of_perm {l1 l2 : List Nat} (h : l1.Perm l2) :
    l1.mergeSort (fun x y => decide (x ≤ y)) = l2.mergeSort (fun x y => decide (x ≤ y)) := by
  have tr : ∀ a b c : Nat, decide (a ≤ b) = true → decide (b ≤ c) = true → decide (a ≤ c) = true := by
    intro a b c h1 h2; simp only [decide_eq_true_eq] at *; omega
  have tot : ∀ a b : Nat, (decide (a ≤ b) || decide (b ≤ a)) = true := by
    intro a b; simp only [Bool.or_eq_true, decide_eq_true_eq]; omega
  apply List.Perm.eq_of_pairwise (le := fun x y => decide (x ≤ y) = true)
  · intro a b _ _ h1 h2; simp only [decide_eq_true_eq] at *; omega
  · exact List.pairwise_mergeSort tr tot l1
  · exact List.pairwise_mergeSort tr tot l2
  · exact (List.mergeSort_perm l1 _).trans (h.trans (List.mergeSort_perm l2 _).symm)

theorem EvSame.key_eq {e1 e2 : Ev} (h : EvSame e1 e2) : evKey e1 = evKey e2 := by
  unfold evKey; rw [mergeSort_eq_of_perm h.1, h.2]

theorem forall2_evSame_keys {evs1 evs2 : List Ev} (h : All2 EvSame evs1 evs2) :
    evs1.map evKey = evs2.map evKey := by
  induction h with
  | nil => rfl
  | cons h _ ih => simp only [List.map_cons, h.key_eq, ih]

/-- **Determinism, key form.**  Under the hypotheses of the main theorem the lists of (sorted members of the merged
    cluster, height) of the two runs are EQUAL — the sequence of merges is determined, not only their set. -/
theorem avgRun_keys_eq {d0 : Nat → Nat → Rat} {act1 act1' act2 act2' : List Nat}
    {cl1 cl1' cl2 cl2' : Nat → List Nat} {evs1 evs2 : List Ev}
    (r1 : AvgRun d0 act1 cl1 evs1 act1' cl1') (r2 : AvgRun d0 act2 cl2 evs2 act2' cl2')
    (u2 : Unamb d0 act2 cl2 evs2) (w1 : WFC act1 cl1) (w2 : WFC act2 cl2)
    (e : StEqv act1 cl1 act2 cl2) (hlen : evs1.length = evs2.length) :
    evs1.map evKey = evs2.map evKey :=
  forall2_evSame_keys (avgRun_deterministic_one r1 r2 u2 w1 w2 e hlen).1

end UPG
