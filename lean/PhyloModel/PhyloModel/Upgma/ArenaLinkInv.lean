import PhyloModel.Upgma.ArenaLinkOps
import PhyloModel.Upgma.ClampAlways
/-! # C15 / C03 — the invariant that ties the arena of `upgma()` to the numeric loop

`SInv taxa s`: the arena is well formed with the single root 0; `node_ids[i]`, for the unmerged indices `i`, are exactly the
children of slot 0, in the order of `rootKids`; slot `node_ids[i]` represents the cluster tree `clusters[i]` (lengths
aside); no slot is removed; slots `1..n` are the tips in taxon order; every later slot is an unnamed node with two
children.  One iteration of the loop keeps it and the `merge_children` call cannot refuse. -/
namespace UPG
open AR MX Tri MXS

/-- "is not slot 0" -/
def NZ : Nat → Prop := fun x => x ≠ 0

structure SInv (taxa : List String) (s : ShSt) : Prop where
  lite : Lite taxa.length s.st
  rkA : ∀ i, i ∈ actOf taxa.length s.st → i ∈ s.st.rootKids
  rkL : s.st.rootKids.length = s.st.nClusters
  good : Good s.ar
  one : AtMostOneRoot s.ar
  szI : s.ids.size = taxa.length
  szK : s.st.clusters.size = taxa.length
  live0 : live s.ar 0
  par0 : (nd s.ar 0).parent = none
  name0 : (nd s.ar 0).name = none
  kids : (nd s.ar 0).children = s.st.rootKids.map (fun i => s.ids.getD i 0)
  rep : ∀ i, i ∈ actOf taxa.length s.st → RepU s.ar NZ (s.ids.getD i 0) (s.st.clusters.getD i default)
  size : s.ar.size + s.st.nClusters = 2 * taxa.length + 1
  nodel : ∀ i, i < s.ar.size → (nd s.ar i).deleted = false
  tips : ∀ i, i < taxa.length → (nd s.ar (i + 1)).name = some (nameOf taxa i) ∧ (nd s.ar (i + 1)).children = []
  inner : ∀ i, taxa.length < i → i < s.ar.size → (nd s.ar i).children.length = 2 ∧ (nd s.ar i).name = none

theorem actOf_length_le (n : Nat) (st : St) : (actOf n st).length ≤ n := by
  unfold actOf
  have := List.length_filter_le (fun i => !(st.merged.getD i true)) (List.range n)
  simpa using this

/-- the children of slot 0 are pairwise different slots, none of them slot 0 -/
theorem SInv.ids_inj {taxa : List String} {s : ShSt} (hI : SInv taxa s) :
    ∀ x y, x ∈ s.st.rootKids → y ∈ s.st.rootKids → s.ids.getD x 0 = s.ids.getD y 0 → x = y := by
  have hn := hI.good.1.nodup 0
  rw [hI.kids] at hn
  exact inj_of_map_nodup _ _ hn

theorem SInv.kid_mem {taxa : List String} {s : ShSt} (hI : SInv taxa s) {i : Nat} (hi : i ∈ actOf taxa.length s.st) :
    s.ids.getD i 0 ∈ (nd s.ar 0).children := by
  rw [hI.kids]; exact List.mem_map.2 ⟨i, hI.rkA i hi, rfl⟩

theorem SInv.kid_ne0 {taxa : List String} {s : ShSt} (hI : SInv taxa s) {c : Nat} (hc : c ∈ (nd s.ar 0).children) : c ≠ 0 := by
  intro e
  have := (hI.good.1.child_ok 0 c hI.live0 hc).2.1
  rw [e, hI.par0] at this
  cases this

/-- **one iteration**: when the numeric iteration succeeds, so does the arena call, and the invariant is kept -/
theorem stepShape_inv {taxa : List String} {s : ShSt} (hI : SInv taxa s) {st' : St} (hs : stepC s.st = .ok st') :
    ∃ s', stepShape s = .ok s' ∧ s'.st = st' ∧ SInv taxa s' := by
  obtain ⟨a, b, dab, hmin, hla, hlb, rM, rK, rR, rN⟩ := stepC_ok_fields s.st st' hs
  have hL := hI.lite
  have hlt : b < a := minCell_pair_lt s.st.dm a b _ hmin
  have hab : a ≠ b := by omega
  have hbs : b < s.st.merged.size := getD_lt_of_ne s.st.merged b true (by rw [hlb]; simp)
  have has : a < s.st.merged.size := getD_lt_of_ne s.st.merged a true (by rw [hla]; simp)
  have hbn : b < taxa.length := by rw [← hL.szM]; exact hbs
  have han : a < taxa.length := by rw [← hL.szM]; exact has
  have haa : a ∈ actOf taxa.length s.st := mem_actOf.2 ⟨han, hla⟩
  have hba : b ∈ actOf taxa.length s.st := mem_actOf.2 ⟨hbn, hlb⟩
  have hact : ∀ i, i ∈ actOf taxa.length st' ↔ (i ∈ actOf taxa.length s.st ∧ i ≠ b) := by
    intro i
    rw [mem_actOf, mem_actOf, rM, getD_set]
    simp only [hbs, and_true]
    by_cases hib : b = i
    · subst hib; simp
    · have : i ≠ b := fun e => hib e.symm
      simp [hib, this]
  have hark : a ∈ s.st.rootKids := hI.rkA a haa
  have hbrk : b ∈ s.st.rootKids := hI.rkA b hba
  -- the two arena ids
  have hm1 := hI.kid_mem haa
  have hm2 := hI.kid_mem hba
  have h12 : s.ids.getD a 0 ≠ s.ids.getD b 0 := fun e => hab (hI.ids_inj a b hark hbrk e)
  obtain ⟨ar', hmc, g', hsz, hdel, hname, hch, hpar⟩ :=
    mergeChildren_under 0 (s.ids.getD a 0) (s.ids.getD b 0) (some 0) (some 0) none none hI.good hI.live0 hm1 hm2 h12
  have h0s : 0 < s.ar.size := hI.live0.1
  have h0ne : ¬ (0 = s.ar.size) := by omega
  have hc1 : ¬ (0 = s.ids.getD a 0) := fun e => hI.kid_ne0 hm1 e.symm
  have hc2 : ¬ (0 = s.ids.getD b 0) := fun e => hI.kid_ne0 hm2 e.symm
  have hone : AtMostOneRoot ar' := by
    have := mergeChildren_roots (s.ids.getD a 0) (s.ids.getD b 0) (some 0) (some 0) none none hI.good hI.one
    rw [hmc] at this
    exact this.atMostOne hI.one
  have haI : a < s.ids.size := by rw [hI.szI]; exact han
  have hncl : s.st.nClusters ≤ taxa.length := by rw [hL.ncl]; exact actOf_length_le _ _
  have hncl1 : 1 ≤ s.st.nClusters := by
    rw [← hI.rkL]; exact List.length_pos_of_mem hark
  have hsize := hI.size
  -- frame for the slots other than 0
  have hframe : ∀ y, NZ y → live s.ar y →
      live ar' y ∧ (nd ar' y).name = (nd s.ar y).name ∧ (nd ar' y).children = (nd s.ar y).children := by
    intro y hy hl
    have h1 : ¬ (y = s.ar.size) := by have := hl.1; omega
    have h2 : ¬ (y = 0) := hy
    refine ⟨⟨by rw [hsz]; have := hl.1; omega, ?_⟩, ?_, ?_⟩
    · rw [hdel y, if_neg h1]; exact hl.2
    · rw [hname y, if_neg h1]
    · rw [hch y, if_neg h1, if_neg h2]
  have hidsne : ∀ i, i ≠ a → (s.ids.setIfInBounds a s.ar.size).getD i 0 = s.ids.getD i 0 := by
    intro i hi
    rw [getD_set]
    have : ¬ (a = i) := fun e => hi e.symm
    simp [this]
  have hidsa : (s.ids.setIfInBounds a s.ar.size).getD a 0 = s.ar.size := by
    rw [getD_set]; simp [haI]
  refine ⟨{ st := st', ar := ar', ids := s.ids.setIfInBounds a s.ar.size }, ?_, rfl, ?_⟩
  · unfold stepShape
    rw [hs]
    simp only
    rw [hmin]
    simp only
    rw [hmc]
  · obtain ⟨hL', _⟩ := stepC_lite hL hs
    have hnotin : a ∉ (s.st.rootKids.erase a).erase b := by
      intro h
      have := (List.Nodup.mem_erase_iff (hL.rkN.erase a)).1 h
      exact ((List.Nodup.mem_erase_iff hL.rkN).1 this.2).1 rfl
    have hbin : b ∈ s.st.rootKids.erase a := (List.Nodup.mem_erase_iff hL.rkN).2 ⟨fun e => hab e.symm, hbrk⟩
    constructor
    · exact hL'
    · intro i hi
      obtain ⟨hi1, hib⟩ := (hact i).1 hi
      show i ∈ st'.rootKids
      rw [rR, List.mem_append, List.Nodup.mem_erase_iff (hL.rkN.erase a), List.Nodup.mem_erase_iff hL.rkN,
        List.mem_singleton]
      by_cases hia : i = a
      · right; exact hia
      · left; exact ⟨hib, hia, hI.rkA i hi1⟩
    · show st'.rootKids.length = st'.nClusters
      rw [rR, rN, List.length_append, List.length_erase_of_mem hbin, List.length_erase_of_mem hark, hI.rkL]
      simp only [List.length_cons, List.length_nil]
      have : 2 ≤ s.st.nClusters := by
        rw [← hI.rkL]
        have := List.length_erase_of_mem hark
        have h2 := List.length_pos_of_mem hbin
        omega
      omega
    · exact g'
    · exact hone
    · show (s.ids.setIfInBounds a s.ar.size).size = taxa.length
      rw [Array.size_setIfInBounds]; exact hI.szI
    · show st'.clusters.size = taxa.length
      rw [rK, Array.size_setIfInBounds]; exact hI.szK
    · exact ⟨by rw [hsz]; omega, by rw [hdel 0, if_neg h0ne]; exact hI.live0.2⟩
    · show (nd ar' 0).parent = none
      rw [hpar 0, if_neg h0ne, if_neg (by intro h; rcases h with h | h; exact hc1 h; exact hc2 h)]; exact hI.par0
    · show (nd ar' 0).name = none
      rw [hname 0, if_neg h0ne]; exact hI.name0
    · show (nd ar' 0).children = st'.rootKids.map (fun i => (s.ids.setIfInBounds a s.ar.size).getD i 0)
      rw [hch 0, if_neg h0ne, if_pos rfl, hI.kids, rR, List.map_append, List.map_cons, List.map_nil, hidsa]
      congr 1
      rw [map_erase_of_inj (fun i => s.ids.getD i 0) a s.st.rootKids (fun y hy e => hI.ids_inj y a hy hark e),
        map_erase_of_inj (fun i => s.ids.getD i 0) b (s.st.rootKids.erase a)
          (fun y hy e => hI.ids_inj y b (List.mem_of_mem_erase hy) hbrk e)]
      apply List.map_congr_left
      intro i hi
      exact (hidsne i (fun e => hnotin (e ▸ hi))).symm
    · intro i hi
      obtain ⟨hi1, hib⟩ := (hact i).1 hi
      show RepU ar' NZ ((s.ids.setIfInBounds a s.ar.size).getD i 0) (st'.clusters.getD i default)
      have hK : a < s.st.clusters.size := by rw [hI.szK]; exact han
      by_cases hia : i = a
      · subst hia
        have hcl : st'.clusters.getD i default = URose.node none none
            [(s.st.clusters.getD i default).setLen (some (nonNeg (dab / 2 - s.st.heights.getD i 0))),
             (s.st.clusters.getD b default).setLen (some (nonNeg (dab / 2 - s.st.heights.getD b 0)))] := by
          rw [rK, getD_set]; simp [hK, mergeTrees]
        rw [hcl, hidsa, repU_node]
        refine ⟨fun e => h0ne e.symm, ⟨by rw [hsz]; omega, by rw [hdel, if_pos rfl]⟩, by rw [hname, if_pos rfl], ?_⟩
        rw [hch, if_pos rfl, repUL_cons, repUL_cons]
        exact ⟨repU_setLen _ (repU_frame (fun _ h => h) hframe _ _ (hI.rep i haa)),
          repU_setLen _ (repU_frame (fun _ h => h) hframe _ _ (hI.rep b hba)), repUL_nil⟩
      · have hcl : st'.clusters.getD i default = s.st.clusters.getD i default := by
          rw [rK, getD_set]
          have : ¬ (a = i) := fun e => hia e.symm
          simp [this]
        rw [hcl, hidsne i hia]
        exact repU_frame (fun _ h => h) hframe _ _ (hI.rep i hi1)
    · show ar'.size + st'.nClusters = 2 * taxa.length + 1
      rw [hsz, rN]; omega
    · intro i hi
      rw [hdel i]
      split
      · rfl
      · exact hI.nodel i (by rw [hsz] at hi; omega)
    · intro i hi
      have h1 : ¬ (i + 1 = s.ar.size) := by omega
      have h2 : ¬ (i + 1 = 0) := by omega
      rw [hname, hch, if_neg h1, if_neg h1, if_neg h2]
      exact hI.tips i hi
    · intro i hi1 hi2
      rw [hname, hch]
      by_cases h1 : i = s.ar.size
      · simp [h1]
      · have h2 : ¬ (i = 0) := by omega
        rw [if_neg h1, if_neg h1, if_neg h2]
        exact hI.inner i hi1 (by rw [hsz] at hi2; omega)

end UPG
