import PhyloModel.Upgma.LoopInv
/-! # C15 — shape of the tree returned by the executable UPGMA model

The returned tree is binary at every internal node (the root included), every leaf carries a name, and the
leaf names, left to right, are a permutation of the taxa. -/
namespace UPG
open MX Tri MXS

theorem map_nameOf_range (taxa : List String) : (List.range taxa.length).map (nameOf taxa) = taxa := by
  apply List.ext_getElem
  · simp
  · intro i h1 h2
    simp [nameOf, List.getElem?_eq_getElem h2]

/-- per-cluster shape invariant: binary, and the leaf names are the names of the members, in order -/
def ShapeQ (taxa : List String) (t : URose) (A : List Nat) (_h : Rat) : Prop :=
  isBin t = true ∧ leafNames t = A.map (fun i => some (nameOf taxa i))

theorem qmerge_shape (taxa : List String) : QMerge (ShapeQ taxa) := by
  intro ta tb A B ha hb h qa qb _ _ _ _
  refine ⟨?_, ?_⟩
  · rw [isBin_merge, qa.1, qb.1]; rfl
  · rw [leafNames_merge, qa.2, qb.2, List.map_append]

theorem qinit_shape (taxa : List String) : QInit (ShapeQ taxa) taxa := by
  intro i _
  exact ⟨isBin_leaf _ _, by rw [leafNames_leaf]; rfl⟩

/-- **Item 3.**  The tree returned by `UPG.upgma` is binary at every internal node, its root has exactly two
    children, every leaf carries a name, and the leaf names are a permutation of the taxa. -/
theorem upgma_shape (taxa : List String) (v : Array Rat) (h2 : 2 ≤ taxa.length) (hv : v.size = T taxa.length)
    (hpos : ∀ k, k < v.size → 0 ≤ v.getD k 0) :
    ∀ t m tie dy, upgma taxa v = .ok (t, m, tie, dy) →
      isBin t = true ∧ t.kids.length = 2 ∧ (leafNames t).Perm (taxa.map some) := by
  intro t m tie dy hup
  obtain ⟨A, _, ⟨hb, hn⟩, hperm⟩ := (upgma_prop (qmerge_shape taxa) taxa v (qinit_shape taxa) h2 hv hpos).2 t m tie dy hup
  have hnames : (leafNames t).Perm (taxa.map some) := by
    rw [hn]
    have := List.Perm.map (fun i => some (nameOf taxa i)) hperm
    have e : (List.range taxa.length).map (fun i => some (nameOf taxa i)) = taxa.map some := by
      conv => rhs; rw [← map_nameOf_range taxa]
      rw [List.map_map]; rfl
    rw [e] at this; exact this
  refine ⟨hb, ?_, hnames⟩
  have hlen : (leafNames t).length = taxa.length := by rw [hnames.length_eq]; simp
  rw [isBin_eq] at hb
  rw [leafNames_eq] at hlen
  by_cases hk : t.kids.isEmpty = true
  · rw [if_pos hk] at hlen; simp at hlen; omega
  · simp only [hk, Bool.false_and, Bool.false_or, Bool.and_eq_true, beq_iff_eq] at hb
    exact hb.1

/-- non-vacuity: the hypotheses hold for a concrete input (`#eval` of the model on it: binary, leaves `c b a`) -/
example : 2 ≤ ["a", "b", "c"].length ∧ (#[2, 4, 4] : Array Rat).size = T ["a", "b", "c"].length ∧
    ∀ k, k < (#[2, 4, 4] : Array Rat).size → 0 ≤ (#[2, 4, 4] : Array Rat).getD k 0 := hyps_example

end UPG
