import PhyloModel.Matrix.Upgma
import PhyloModel.Matrix.StoreLemmas
import PhyloModel.Upgma.Step
/-! # C15 — one iteration of the executable UPGMA loop refines the abstract agglomeration step

`UPG.step` (Matrix/Upgma.lean, the transcription of the `while n_clusters > 2` body of
`DistanceMatrix::upgma`) is related to `UP.merge` (Upgma/Step.lean).  The abstraction `absSt` reads the
active indices off the `merged` flags, the distances off the triangular vector through `MX.cell`, the heights
off `heights`; the member lists are ghost data carried next to the state.  The bookkeeping fields
`margin`, `tie`, `dyadic` occur in no statement. -/
namespace UPG
open MX Tri MXS

/-! ## array helpers -/

theorem getD_set {α : Type} (arr : Array α) (p q : Nat) (v d : α) :
    (arr.setIfInBounds p v).getD q d = if p = q ∧ p < arr.size then v else arr.getD q d := by
  simp only [Array.getD_eq_getD_getElem?, Array.getElem?_setIfInBounds]
  grind

theorem getD_lt_of_ne {α : Type} [DecidableEq α] (arr : Array α) (q : Nat) (d : α) (h : arr.getD q d ≠ d) : q < arr.size := by
  apply Classical.byContradiction; intro hq
  apply h
  simp only [Array.getD_eq_getD_getElem?]
  have : arr[q]? = none := by simp; omega
  simp [this]

theorem cell_eq_iff {i j i' j' : Nat} (h : i ≠ j) (h' : i' ≠ j') :
    cell i j = cell i' j' ↔ (i = i' ∧ j = j') ∨ (i = j' ∧ j = i') := by
  constructor
  · exact cell_inj h h'
  · rintro (⟨rfl, rfl⟩ | ⟨rfl, rfl⟩)
    · rfl
    · exact cell_symm _ _ h

/-! ## the minimum search -/

def minStep (dm : Array Cell) (acc : Option ((Nat × Nat) × Cell)) (k : Nat) : Option ((Nat × Nat) × Cell) :=
  let v := dm.getD k none
  match acc with
  | none => some (invIdx k, v)
  | some a => if cellLt v a.2 then some (invIdx k, v) else some a

theorem minCell_eq (dm : Array Cell) : minCell dm = (List.range dm.size).foldl (minStep dm) none := by
  unfold minCell
  congr 1

theorem cellLt_irrefl (x : Cell) : cellLt x x = false := by
  cases x with
  | none => rfl
  | some a => simp [cellLt, Rat.lt_irrefl]

/-- `a ≤ x` and `v < a` give `v ≤ x` -/
theorem cellLt_trans' (v a x : Cell) (h1 : cellLt v a = true) (h2 : cellLt x a = false) : cellLt x v = false := by
  cases v <;> cases a <;> cases x <;> simp_all [cellLt] <;> grind

theorem cellLt_asymm (v a : Cell) (h1 : cellLt v a = true) : cellLt a v = false := by
  cases v <;> cases a <;> simp_all [cellLt] <;> grind

theorem minFold_spec (dm : Array Cell) : ∀ m, 0 < m →
    ∃ k, k < m ∧ (List.range m).foldl (minStep dm) none = some (invIdx k, dm.getD k none) ∧
      ∀ k', k' < m → cellLt (dm.getD k' none) (dm.getD k none) = false := by
  intro m
  induction m with
  | zero => intro h; omega
  | succ m ih =>
    intro _
    rw [List.range_succ, List.foldl_append]
    simp only [List.foldl_cons, List.foldl_nil]
    by_cases hm : m = 0
    · subst hm
      refine ⟨0, by omega, by simp [minStep], ?_⟩
      intro k' hk'
      have : k' = 0 := by omega
      subst this
      exact cellLt_irrefl _
    · obtain ⟨k, hk, hfold, hmin⟩ := ih (by omega)
      rw [hfold]
      simp only [minStep]
      by_cases hlt : cellLt (dm.getD m none) (dm.getD k none) = true
      · simp only [hlt, ↓reduceIte]
        refine ⟨m, by omega, rfl, ?_⟩
        intro k' hk'
        by_cases hk'm : k' = m
        · subst hk'm; exact cellLt_irrefl _
        · exact cellLt_trans' _ _ _ hlt (hmin k' (by omega))
      · simp only [hlt]
        refine ⟨k, by omega, rfl, ?_⟩
        intro k' hk'
        by_cases hk'm : k' = m
        · subst hk'm; simpa using hlt
        · exact hmin k' (by omega)

/-- `v < a` and `a ≤ x` give `v < x` -/
theorem cellLt_of_lt_of_le (v a x : Cell) (h1 : cellLt v a = true) (h2 : cellLt x a = false) : cellLt v x = true := by
  cases v <;> cases a <;> cases x <;> simp_all [cellLt] <;> grind

/-- the cell found is the FIRST one attaining the minimum: it is strictly smaller than every earlier cell -/
theorem minFold_first (dm : Array Cell) : ∀ m, 0 < m →
    ∃ k, k < m ∧ (List.range m).foldl (minStep dm) none = some (invIdx k, dm.getD k none) ∧
      (∀ k', k' < m → cellLt (dm.getD k' none) (dm.getD k none) = false) ∧
      (∀ k', k' < k → cellLt (dm.getD k none) (dm.getD k' none) = true) := by
  intro m
  induction m with
  | zero => intro h; omega
  | succ m ih =>
    intro _
    rw [List.range_succ, List.foldl_append]
    simp only [List.foldl_cons, List.foldl_nil]
    by_cases hm : m = 0
    · subst hm
      refine ⟨0, by omega, by simp [minStep], ?_, ?_⟩
      · intro k' hk'
        have : k' = 0 := by omega
        subst this
        exact cellLt_irrefl _
      · intro k' hk'; omega
    · obtain ⟨k, hk, hfold, hmin, hfirst⟩ := ih (by omega)
      rw [hfold]
      simp only [minStep]
      by_cases hlt : cellLt (dm.getD m none) (dm.getD k none) = true
      · simp only [hlt, ↓reduceIte]
        refine ⟨m, by omega, rfl, ?_, ?_⟩
        · intro k' hk'
          by_cases hk'm : k' = m
          · subst hk'm; exact cellLt_irrefl _
          · exact cellLt_trans' _ _ _ hlt (hmin k' (by omega))
        · intro k' hk'
          exact cellLt_of_lt_of_le _ _ _ hlt (hmin k' hk')
      · simp only [hlt]
        refine ⟨k, by omega, rfl, ?_, hfirst⟩
        intro k' hk'
        by_cases hk'm : k' = m
        · subst hk'm; simpa using hlt
        · exact hmin k' (by omega)

/-- `DistanceMatrix::min` returns the first cell (in cell order) attaining the minimum -/
theorem minCell_first (dm : Array Cell) (h : 0 < dm.size) :
    ∃ k, k < dm.size ∧ minCell dm = some (invIdx k, dm.getD k none) ∧
      (∀ k', k' < dm.size → cellLt (dm.getD k' none) (dm.getD k none) = false) ∧
      (∀ k', k' < k → cellLt (dm.getD k none) (dm.getD k' none) = true) := by
  rw [minCell_eq]; exact minFold_first dm dm.size h

/-- `DistanceMatrix::min` on a non-empty vector returns a cell `k` (as its index pair) that no cell beats -/
theorem minCell_spec (dm : Array Cell) (h : 0 < dm.size) :
    ∃ k, k < dm.size ∧ minCell dm = some (invIdx k, dm.getD k none) ∧
      ∀ k', k' < dm.size → cellLt (dm.getD k' none) (dm.getD k none) = false := by
  rw [minCell_eq]; exact minFold_spec dm dm.size h

theorem minCell_none (dm : Array Cell) (h : dm.size = 0) : minCell dm = none := by
  rw [minCell_eq, h]; rfl

/-! ## the matrix update of one iteration, with named pieces -/

def newCell (dm : Array Cell) (ca cb : Rat) (a b x : Nat) : Cell :=
  match dm.getD (cell x a) none, dm.getD (cell x b) none with
  | some dax, some dbx => some ((ca * dax + cb * dbx) / (ca + cb))
  | _, _ => none

def dmBody (old : Array Cell) (merged : Array Bool) (ca cb : Rat) (a b : Nat) (dm : Array Cell) (x : Nat) : Array Cell :=
  if merged.getD x true then dm else
  let dm1 := if x != a && x != b then dm.setIfInBounds (cell a x) (newCell old ca cb a b x) else dm
  if x != b then dm1.setIfInBounds (cell b x) none else dm1

def stepDm (st : St) (a b : Nat) : Array Cell :=
  (List.range st.merged.size).foldl
    (dmBody st.dm (st.merged.setIfInBounds b true) (st.card.getD a 0 : Nat) (st.card.getD b 0 : Nat) a b) st.dm

/-- what `step` returns, field by field (the bookkeeping fields are left out) -/
theorem step_ok_fields (st st' : St) (h : step st = .ok st') :
    ∃ a b dab, minCell st.dm = some ((a, b), some dab) ∧ st.merged.getD a true = false ∧ st.merged.getD b true = false ∧
      st'.dm = stepDm st a b ∧ st'.merged = st.merged.setIfInBounds b true ∧
      st'.heights = st.heights.setIfInBounds a (dab / 2) ∧
      st'.card = st.card.setIfInBounds a (st.card.getD a 0 + st.card.getD b 0) ∧
      st'.clusters = st.clusters.setIfInBounds a (mergeTrees (st.clusters.getD a default) (st.clusters.getD b default)
        (dab / 2 - st.heights.getD a 0) (dab / 2 - st.heights.getD b 0)) ∧
      st'.rootKids = ((st.rootKids.erase a).erase b) ++ [a] ∧ st'.nClusters = st.nClusters - 1 := by
  unfold step at h
  split at h
  · cases h
  · split at h <;> cases h
  · next a b dab hmin =>
    split at h
    · cases h
    · next hm =>
      injection h with h
      subst h
      simp only [Bool.or_eq_true, not_or, Bool.not_eq_true] at hm
      refine ⟨a, b, dab, hmin, hm.1, hm.2, ?_, rfl, rfl, rfl, rfl, rfl, rfl⟩
      simp only [stepDm]
      congr 1
      funext dm x
      simp only [dmBody, newCell]
      cases st.dm.getD (cell x a) none <;> cases st.dm.getD (cell x b) none <;> rfl

/-- conversely: a finite minimum at two unmerged indices makes `step` succeed -/
theorem step_ok_of (st : St) (a b : Nat) (dab : Rat) (hmin : minCell st.dm = some ((a, b), some dab))
    (ha : st.merged.getD a true = false) (hb : st.merged.getD b true = false) : ∃ st', step st = .ok st' := by
  unfold step
  rw [hmin]
  simp only [ha, hb, Bool.or_self, Bool.false_eq_true, ↓reduceIte]
  exact ⟨_, rfl⟩

end UPG
