import PhyloModel.Upgma.LoopInv
/-! # C15 — the tree returned by the executable UPGMA model is ultrametric (equidistant leaves)

Invariant: every leaf of the cluster tree standing for a live index `i` lies exactly `heights[i]` below the
cluster node.  Consequence: all leaves of the returned tree are at one and the same distance from the root. -/
namespace UPG
open MX Tri MXS

/-- per-cluster depth invariant: all leaves at depth `h` -/
def DepthQ (t : URose) (_A : List Nat) (h : Rat) : Prop := ∀ d, d ∈ leafDepths t → d = h

theorem qmerge_depth : QMerge DepthQ := by
  intro ta tb A B ha hb h qa qb _ _ _ _ d hd
  rw [leafDepths_merge] at hd
  simp only [List.mem_append, List.mem_map] at hd
  rcases hd with ⟨x, hx, e⟩ | ⟨x, hx, e⟩
  · have := qa x hx; grind
  · have := qb x hx; grind

theorem qinit_depth (taxa : List String) : QInit DepthQ taxa := by
  intro i _ d hd
  rw [leafDepths_leaf] at hd
  simpa using hd

mutual
/-- `leafDepths` lists one depth per leaf -/
theorem leafDepths_length : ∀ t : URose, (leafDepths t).length = (leafNames t).length
  | .node n l ks => by
    rw [leafDepths, leafNames]
    by_cases h : ks.isEmpty = true
    · rw [if_pos h, if_pos h]; rfl
    · rw [if_neg h, if_neg h]; exact leafDepthsL_length ks
theorem leafDepthsL_length : ∀ ks : List URose, (leafDepthsL ks).length = (leafNamesL ks).length
  | [] => by rw [leafDepthsL_nil, leafNamesL_nil]; rfl
  | k :: ks => by
    rw [leafDepthsL_cons, leafNamesL_cons, List.length_append, List.length_append, List.length_map,
      leafDepths_length k, leafDepthsL_length ks]
end

/-- **Item 4.**  All leaves of the tree returned by `UPG.upgma` are at the same distance from the root. -/
theorem upgma_equidistant (taxa : List String) (v : Array Rat) (h2 : 2 ≤ taxa.length) (hv : v.size = T taxa.length)
    (hpos : ∀ k, k < v.size → 0 ≤ v.getD k 0) :
    ∀ t m tie dy, upgma taxa v = .ok (t, m, tie, dy) → ∃ h, ∀ d, d ∈ leafDepths t → d = h := by
  intro t m tie dy hup
  obtain ⟨_, h, hq, _⟩ := (upgma_prop qmerge_depth taxa v (qinit_depth taxa) h2 hv hpos).2 t m tie dy hup
  exact ⟨h, hq⟩

/-- the loop invariant behind item 4, stated on the state the loop returns: every leaf of the cluster tree
    of a live index `i` is exactly `heights[i]` below the cluster node -/
theorem loop_depths (taxa : List String) (v : Array Rat) (h2 : 2 ≤ taxa.length) (hv : v.size = T taxa.length)
    (hpos : ∀ k, k < v.size → 0 ≤ v.getD k 0) :
    ∃ st, loop taxa.length (initSt taxa v) = .ok st ∧
      ∀ i, i < taxa.length → st.merged.getD i true = false →
        ∀ d, d ∈ leafDepths (st.clusters.getD i default) → d = st.heights.getD i 0 := by
  obtain ⟨st, mem, hl, _, hC, _⟩ := loop_inv (d0of_symm v) qmerge_depth taxa.length taxa.length (initSt taxa v) _
    (init_linv taxa v hv h2 hpos) (init_cinv taxa v (qinit_depth taxa))
  exact ⟨st, hl, hC⟩

/-- non-vacuity: the hypotheses hold for a concrete input (`#eval` of the model on it: depths `2 2 2`) -/
example : 2 ≤ ["a", "b", "c"].length ∧ (#[2, 4, 4] : Array Rat).size = T ["a", "b", "c"].length ∧
    ∀ k, k < (#[2, 4, 4] : Array Rat).size → 0 ≤ (#[2, 4, 4] : Array Rat).getD k 0 := hyps_example

end UPG
