import PhyloModel.Upgma.DeterminismTree
/-! # C15 — the `tie` flag of the executable UPGMA certifies unambiguous minima

`UPG.step` records in the bookkeeping field `tie` whether some chosen minimum was held by more than one cell of the
triangular store.  Retired cells hold infinity and every live cell holds the average linkage of the pair of clusters it
joins, so "`tie` stayed `false`" says that every minimum of the run was unambiguous.  Main results:

* `upgma_tie_free_unamb` — if `UPG.upgma taxa v` returns with `tie = false`, the run of average-linkage clustering it
  performed (`upgmaTr`) satisfies `Unamb`
* `upgma_taxon_order_tie_free` — hence, for the same labelled matrix in any other taxon order, `UPG.upgma` returns a
  tree with the same internal nodes (leaf names below the node as a set, height) -/
namespace UPG
open UP MX Tri MXS

/-- the cell holds the value `dab` -/
def holds (dab : Rat) : Cell → Bool := fun v => v == some dab

/-- the number of cells of the store holding the value `dab` -/
def tiesOf (st : St) (dab : Rat) : Nat := (st.dm.toList.filter (holds dab)).length

/-- what `step` does to the `tie` flag -/
theorem step_tie (st st' : St) (h : step st = .ok st') :
    ∃ a b dab, minCell st.dm = some ((a, b), some dab) ∧ st'.tie = (st.tie || decide (tiesOf st dab > 1)) := by
  unfold step at h
  split at h
  · cases h
  · split at h <;> cases h
  · next a b dab hmin =>
    split at h
    · cases h
    · injection h with h
      subst h
      exact ⟨a, b, dab, hmin, rfl⟩

/-- two positions of a list satisfying `p` give two elements of the filtered list -/
theorem two_hits {α : Type} (p : α → Bool) : ∀ (l : List α) (i j : Nat) (x y : α), i < j →
    l[i]? = some x → l[j]? = some y → p x = true → p y = true → 2 ≤ (l.filter p).length := by
  intro l
  induction l with
  | nil => intro i j x y _ hi; simp at hi
  | cons z l ih =>
    intro i j x y hij hi hj px py
    cases j with
    | zero => omega
    | succ j =>
      have hj' : l[j]? = some y := by simpa using hj
      cases i with
      | zero =>
        have hz : z = x := by simpa using hi
        subst hz
        have hm : y ∈ l.filter p := List.mem_filter.2 ⟨List.mem_of_getElem? hj', py⟩
        have := List.length_pos_of_mem hm
        simp only [List.filter_cons, px, ↓reduceIte, List.length_cons]; omega
      | succ i =>
        have hi' : l[i]? = some x := by simpa using hi
        have := ih i j x y (by omega) hi' hj' px py
        by_cases pz : p z = true
        · simp only [List.filter_cons, pz, ↓reduceIte, List.length_cons]; omega
        · simp only [List.filter_cons, pz]; exact this

theorem toList_get_of_getD {arr : Array Cell} {c : Nat} {v : Rat} (h : arr.getD c none = some v) :
    arr.toList[c]? = some (some v) := by
  simp only [Array.getD_eq_getD_getElem?] at h
  rw [Array.getElem?_toList]
  cases hc : arr[c]? with
  | none => rw [hc] at h; cases h
  | some w => rw [hc] at h; simp only [Option.getD_some] at h; rw [h]

/-- two different cells cannot both hold `dab` when at most one cell does -/
theorem cells_eq_of_ties {st : St} {dab : Rat} (ht : tiesOf st dab ≤ 1) {c1 c2 : Nat}
    (h1 : st.dm.getD c1 none = some dab) (h2 : st.dm.getD c2 none = some dab) : c1 = c2 := by
  apply Classical.byContradiction; intro hne
  have g1 := toList_get_of_getD h1
  have g2 := toList_get_of_getD h2
  have hp : holds dab (some dab) = true := by simp [holds]
  unfold tiesOf at ht
  rcases Nat.lt_or_gt_of_ne hne with hlt | hgt
  · have := two_hits (holds dab) st.dm.toList c1 c2 _ _ hlt g1 g2 hp hp
    omega
  · have := two_hits (holds dab) st.dm.toList c2 c1 _ _ hgt g2 g1 hp hp
    omega

/-- when the chosen minimum is held by one cell only, the step of average-linkage clustering is unambiguous -/
theorem Stepped.unambAt {d0 : Nat → Nat → Rat} {n : Nat} {st st' : St} {mem} {a b : Nat} {dab : Rat}
    (hI : LInv d0 n st mem) (s : Stepped n st st' a b dab) (ht : tiesOf st dab ≤ 1) :
    UnambAt d0 (actOf n st) mem a b := by
  obtain ⟨e1, _, _, hab, _⟩ := s.avg_event hI
  intro j k hj hk hjk he
  obtain ⟨hjn, hjl⟩ := mem_actOf.1 hj
  obtain ⟨hkn, hkl⟩ := mem_actOf.1 hk
  obtain ⟨v, hv⟩ := hI.wf.fin j k hjn hkn hjk hjl hkl
  have hD : Dof st j k = avgLink d0 (mem j) (mem k) := link_D_eq hI.link hj hk hjk
  have hDv : Dof st j k = v := by simp [Dof, hv]
  have hvd : v = dab := by rw [← hDv, hD, he, ← e1]
  subst hvd
  exact (cell_eq_iff hjk hab).1 (cells_eq_of_ties ht hv s.hd)

theorem Unamb.append {d0 : Nat → Nat → Rat} {act1 act2 : List Nat} {cl1 cl2 : Nat → List Nat} {e1 e2 : List Ev}
    (r : AvgRun d0 act1 cl1 e1 act2 cl2) (u1 : Unamb d0 act1 cl1 e1) (u2 : Unamb d0 act2 cl2 e2) :
    Unamb d0 act1 cl1 (e1 ++ e2) := by
  induction r with
  | nil => exact u2
  | cons act cl a b evs act' cl' _ _ _ _ _ ih => exact ⟨u1.1, ih u1.2 u2⟩

/-- the instrumented loop: if the `tie` flag is `false` at the end, it was `false` at the start and every step of the
    recorded run had an unambiguous minimum -/
theorem loopTr_unamb {d0 : Nat → Nat → Rat} (hd : ∀ x y, d0 x y = d0 y x) (n : Nat) :
    ∀ (f : Nat) (st : St) (mem : Nat → List Nat) (hist : List Ev) (st' : St) (mem' : Nat → List Nat) (h' : List Ev),
      LInv d0 n st mem → loopTr f st mem hist = .ok (st', mem', h') →
      ∃ evs, h' = hist ++ evs ∧ (st'.tie = false → st.tie = false ∧ Unamb d0 (actOf n st) mem evs) := by
  intro f
  induction f with
  | zero =>
    intro st mem hist st' mem' h' _ hl
    simp only [loopTr] at hl
    injection hl with hl
    injection hl with e1 e2
    injection e2 with e2 e3
    subst e1; subst e3
    exact ⟨[], by simp, fun ht => ⟨ht, True.intro⟩⟩
  | succ f ih =>
    intro st mem hist st' mem' h' hI hl
    by_cases hgt : st.nClusters > 2
    · obtain ⟨st1, hs⟩ := step_total hI.wf (by rw [← hI.wf.ncl]; omega)
      obtain ⟨a, b, dab, s⟩ := step_spec hI.wf hs
      obtain ⟨hI1, _, _⟩ := s.linv hd hI hgt
      simp only [loopTr, hgt, ↓reduceIte, hs, s.pick_eq] at hl
      obtain ⟨evs, he, hu⟩ := ih st1 _ _ st' mem' h' hI1 hl
      refine ⟨⟨a, b, dab / 2, mem a, mem b⟩ :: evs, by rw [he]; simp, ?_⟩
      intro ht
      obtain ⟨ht1, hu1⟩ := hu ht
      obtain ⟨a', b', dab', hmc, htie⟩ := step_tie st st1 hs
      rw [s.mc] at hmc
      injection hmc with hmc
      injection hmc with _ hmc
      injection hmc with hmc
      subst hmc
      rw [ht1] at htie
      have h0 : st.tie = false ∧ decide (tiesOf st dab > 1) = false := by
        cases hst : st.tie <;> cases hdc : decide (tiesOf st dab > 1) <;> simp [hst, hdc] at htie ⊢
      have hties : tiesOf st dab ≤ 1 := by
        have := h0.2
        simp only [decide_eq_false_iff_not] at this; omega
      rw [s.act' hI.wf] at hu1
      exact ⟨h0.1, s.unambAt hI hties, hu1⟩
    · simp only [loopTr, hgt, ↓reduceIte] at hl
      injection hl with hl
      injection hl with e1 e2
      injection e2 with e2 e3
      subst e1; subst e3
      exact ⟨[], by simp, fun ht => ⟨ht, True.intro⟩⟩

/-- **the `tie` flag certifies the hypothesis.**  If `UPG.upgma` returns with `tie = false`, the run of average-linkage
    clustering it performed (the events `upgmaTr` records, the final join included) has an unambiguous minimum at every
    step. -/
theorem upgma_tie_free_unamb (taxa : List String) (v : Array Rat) (h2 : 2 ≤ taxa.length) (hv : v.size = T taxa.length)
    (hpos : ∀ k, k < v.size → 0 ≤ v.getD k 0) {t : URose} {m : Option Rat} {dy : Bool}
    (hup : upgma taxa v = .ok (t, m, false, dy)) {evs : List Ev} (htr : upgmaTr taxa v = .ok evs) :
    Unamb (d0of v) (List.range taxa.length) (fun i => [i]) evs := by
  obtain ⟨st, mem, evs0, hl, hI, _, _, hrun, _, hfin⟩ := loopTr_inv (d0of_symm v) taxa taxa.length taxa.length
    (initSt taxa v) (fun i => [i]) [] (init_linv taxa v hv h2 hpos) (init_cinv taxa v (qinit_q5 taxa)) (init_hinv taxa v)
  have hn2 : st.nClusters = 2 := hfin (by simp [initSt])
  have hloop : loop taxa.length (initSt taxa v) = .ok st := by
    rw [← loopTr_fst taxa.length (initSt taxa v) (fun i => [i]) [], hl]; rfl
  obtain ⟨k1, k2, dab, hne, hk1, hk2, hall, hrk, _, hdm, _, _, hup0, _⟩ := final_join taxa v st mem hloop hI hn2
  have htie : st.tie = false := by
    rw [hup] at hup0
    injection hup0 with e
    injection e with _ e
    injection e with _ e
    injection e with e _
    exact e.symm
  have htr0 : upgmaTr taxa v = .ok (evs0 ++ [⟨k1, k2, dab / 2, mem k1, mem k2⟩]) := by
    unfold upgmaTr
    rw [hl]; simp only [List.nil_append]
    rw [hrk]; simp only
    rw [hdm]
  rw [htr] at htr0
  injection htr0 with htr0
  subst htr0
  obtain ⟨evs1, he, hu⟩ := loopTr_unamb (d0of_symm v) taxa.length taxa.length (initSt taxa v) (fun i => [i]) [] st mem _
    (init_linv taxa v hv h2 hpos) hl
  simp only [List.nil_append] at he
  subst he
  have hu0 := (hu htie).2
  rw [init_act] at hu0 hrun
  apply Unamb.append hrun hu0
  refine ⟨?_, True.intro⟩
  intro j k hj hk hjk _
  show (j = k1 ∧ k = k2) ∨ (j = k2 ∧ k = k1)
  rcases hall j hj with ej | ej <;> rcases hall k hk with ek | ek
  · exact absurd (ej.trans ek.symm) hjk
  · exact Or.inl ⟨ej, ek⟩
  · exact Or.inr ⟨ej, ek⟩
  · exact absurd (ej.trans ek.symm) hjk

/-- **C15, taxon order, checked by the `tie` flag.**  If `UPG.upgma` on `(taxa, v)` returns with `tie = false`, then on
    the same labelled matrix presented in any other taxon order (`Reordered`) it returns a tree with the same internal
    nodes read as (set of leaf names below the node, height of the node above its leaves), and the merge events agree
    position by position. -/
theorem upgma_taxon_order_tie_free (taxa taxa' : List String) (v v' : Array Rat) (σ : Nat → Nat)
    (h2 : 2 ≤ taxa.length) (hv : v.size = T taxa.length) (hpos : ∀ k, k < v.size → 0 ≤ v.getD k 0)
    (hv' : v'.size = T taxa'.length) (hpos' : ∀ k, k < v'.size → 0 ≤ v'.getD k 0)
    (hr : Reordered taxa v taxa' v' σ) {t : URose} {m : Option Rat} {dy : Bool}
    (hup : upgma taxa v = .ok (t, m, false, dy)) :
    ∃ t' m' tie' dy' evs evs', upgma taxa' v' = .ok (t', m', tie', dy') ∧
      upgmaTr taxa v = .ok evs ∧ upgmaTr taxa' v' = .ok evs' ∧ All2 (EvSameVia σ) evs' evs ∧
      InfoSub (nodeInfo t') (nodeInfo t) ∧ InfoSub (nodeInfo t) (nodeInfo t') := by
  obtain ⟨t0, m0, tie0, dy0, t', m', tie', dy', evs, evs', h1, h2', h3, h4, h5, h6, h7⟩ :=
    upgma_taxon_order taxa taxa' v v' σ h2 hv hpos hv' hpos' hr
      (Or.inl (fun evs htr => upgma_tie_free_unamb taxa v h2 hv hpos hup htr))
  rw [hup] at h1
  injection h1 with h1
  injection h1 with e _
  subst e
  exact ⟨t', m', tie', dy', evs, evs', h2', h3, h4, h5, h6, h7⟩

end UPG
