import PhyloModel.Upgma.ArenaLinkInv
/-! # C15 / C03 — the arena of `upgma()`: the initial star tree satisfies the invariant, the loop keeps it, and the
    loop over (numeric state, arena) succeeds exactly when the numeric loop does, with the same numeric result -/
namespace UPG
open AR MX Tri MXS

/-! ## the loop -/

theorem stepShape_err {s : ShSt} {k : String} (h : stepC s.st = .err k) : stepShape s = .err k := by
  unfold stepShape; rw [h]
theorem stepShape_panic {s : ShSt} (h : stepC s.st = .panic) : stepShape s = .panic := by
  unfold stepShape; rw [h]

/-- the loop on (numeric state, arena) follows the numeric loop: same numeric result, same failure -/
theorem loopShape_inv (taxa : List String) : ∀ (f : Nat) (s : ShSt), SInv taxa s →
    (∀ st', loopC f s.st = .ok st' → ∃ s', loopShape f s = .ok s' ∧ s'.st = st' ∧ SInv taxa s') ∧
    (∀ k, loopC f s.st = .err k → loopShape f s = .err k) ∧
    (loopC f s.st = .panic → loopShape f s = .panic) := by
  intro f
  induction f with
  | zero =>
    intro s hI
    refine ⟨?_, ?_, ?_⟩
    · intro st' h
      simp only [loopC] at h
      injection h with h
      exact ⟨s, rfl, h, hI⟩
    · intro k h; simp [loopC] at h
    · intro h; simp [loopC] at h
  | succ f ih =>
    intro s hI
    by_cases hgt : s.st.nClusters > 2
    · cases hs : stepC s.st with
      | ok st1 =>
        obtain ⟨s1, h1, h2, h3⟩ := stepShape_inv hI hs
        have e1 : loopC (f + 1) s.st = loopC f s1.st := by simp only [loopC, hgt, ↓reduceIte, hs, h2]
        have e2 : loopShape (f + 1) s = loopShape f s1 := by simp only [loopShape, hgt, ↓reduceIte, h1]
        rw [e1, e2]
        exact ih s1 h3
      | err k =>
        have e1 : loopC (f + 1) s.st = .err k := by simp only [loopC, hgt, ↓reduceIte, hs]
        have e2 : loopShape (f + 1) s = .err k := by simp only [loopShape, hgt, ↓reduceIte, stepShape_err hs]
        rw [e1, e2]
        refine ⟨?_, ?_, ?_⟩
        · intro _ h; cases h
        · intro k' h; injection h with h; rw [h]
        · intro h; cases h
      | panic =>
        have e1 : loopC (f + 1) s.st = .panic := by simp only [loopC, hgt, ↓reduceIte, hs]
        have e2 : loopShape (f + 1) s = .panic := by simp only [loopShape, hgt, ↓reduceIte, stepShape_panic hs]
        rw [e1, e2]
        refine ⟨?_, ?_, ?_⟩
        · intro _ h; cases h
        · intro k' h; cases h
        · intro _; rfl
    · have e1 : loopC (f + 1) s.st = .ok s.st := by simp only [loopC, hgt, ↓reduceIte]
      have e2 : loopShape (f + 1) s = .ok s := by simp only [loopShape, hgt, ↓reduceIte]
      rw [e1, e2]
      refine ⟨?_, ?_, ?_⟩
      · intro st' h
        injection h with h
        exact ⟨s, rfl, h, hI⟩
      · intro k h; cases h
      · intro h; cases h

/-! ## the initial star tree -/

/-- the arena after the taxa `done` have been hung under the virtual root -/
structure AInv (done : List String) (a : Arena) (ids : Array Nat) : Prop where
  good : Good a
  one : AtMostOneRoot a
  size : a.size = done.length + 1
  szI : ids.size = done.length
  ids : ∀ i, i < done.length → ids.getD i 0 = i + 1
  live0 : live a 0
  par0 : (nd a 0).parent = none
  name0 : (nd a 0).name = none
  kids : (nd a 0).children = (List.range done.length).map (· + 1)
  nodel : ∀ i, i < a.size → (nd a i).deleted = false
  tips : ∀ i, i < done.length → (nd a (i + 1)).name = some (nameOf done i) ∧ (nd a (i + 1)).children = []

theorem nameOf_append_lt (done : List String) (t : String) (i : Nat) (h : i < done.length) :
    nameOf (done ++ [t]) i = nameOf done i := by
  simp [nameOf, List.getD_eq_getElem?_getD, List.getElem?_append_left h]

theorem nameOf_append_eq (done : List String) (t : String) : nameOf (done ++ [t]) done.length = t := by
  simp [nameOf, List.getD_eq_getElem?_getD]

theorem getD_push {α : Type} (arr : Array α) (x d : α) (i : Nat) :
    (arr.push x).getD i d = if i = arr.size then x else arr.getD i d := by
  simp only [Array.getD_eq_getD_getElem?, Array.getElem?_push]
  split <;> simp_all

theorem addTaxon_inv {done : List String} {a : Arena} {ids : Array Nat} (t : String) (h : AInv done a ids) :
    ∃ a', addChildNamed a 0 none (some t) = (a', .ok (some a.size)) ∧ AInv (done ++ [t]) a' (ids.push a.size) := by
  obtain ⟨a', he, hsz, hnd⟩ := addChildNamed_spec a 0 (some t) h.live0
  have hg : Good a' := by
    have := addChildNamed_good 0 none (some t) h.good
    rw [he] at this; exact this
  have h1 : AtMostOneRoot a' := by
    have := addChildNamed_roots (a := a) 0 none (some t)
    rw [he] at this; exact this.atMostOne h.one
  have h0s : 0 < a.size := h.live0.1
  have h0ne : ¬ (0 = a.size) := by omega
  have hn0 : nd a' 0 = { nd a 0 with children := (nd a 0).children ++ [a.size] } := by
    rw [hnd 0, if_neg h0ne, if_pos rfl]
  refine ⟨a', he, ⟨hg, h1, ?_, ?_, ?_, ?_, ?_, ?_, ?_, ?_, ?_⟩⟩
  · rw [hsz, h.size]; simp
  · simp [h.szI]
  · intro i hi
    rw [getD_push, h.szI]
    simp only [List.length_append, List.length_cons, List.length_nil] at hi
    by_cases hid : i = done.length
    · rw [if_pos hid, h.size, hid]
    · rw [if_neg hid]; exact h.ids i (by omega)
  · exact ⟨by rw [hsz]; omega, by rw [hn0]; exact h.live0.2⟩
  · rw [hn0]; exact h.par0
  · rw [hn0]; exact h.name0
  · rw [hn0]
    simp only [List.length_append, List.length_cons, List.length_nil, List.range_succ, List.map_append, List.map_cons,
      List.map_nil]
    rw [h.kids, h.size]
  · intro i hi
    rw [hnd i]
    by_cases h1 : i = a.size
    · simp [h1]
    · by_cases h2 : i = 0
      · subst h2; simp only [h1, ↓reduceIte]; exact h.live0.2
      · simp only [h1, h2, ↓reduceIte]; exact h.nodel i (by rw [hsz] at hi; omega)
  · intro i hi
    simp only [List.length_append, List.length_cons, List.length_nil] at hi
    rw [hnd (i + 1)]
    have h2 : ¬ (i + 1 = 0) := by omega
    by_cases hid : i = done.length
    · have : i + 1 = a.size := by rw [h.size, hid]
      rw [if_pos this, hid, nameOf_append_eq]
      exact ⟨rfl, rfl⟩
    · have : ¬ (i + 1 = a.size) := by rw [h.size]; omega
      rw [if_neg this, if_neg h2, nameOf_append_lt done t i (by omega)]
      exact h.tips i (by omega)

theorem addTaxa_inv : ∀ (ts done : List String) (a : Arena) (ids : Array Nat), AInv done a ids →
    ∃ a' ids', addTaxa ts a ids = .ok (a', ids') ∧ AInv (done ++ ts) a' ids'
  | [], done, a, ids, h => ⟨a, ids, rfl, by rw [List.append_nil]; exact h⟩
  | t :: ts, done, a, ids, h => by
    obtain ⟨a1, he, h1⟩ := addTaxon_inv t h
    obtain ⟨a', ids', he', h'⟩ := addTaxa_inv ts (done ++ [t]) a1 (ids.push a.size) h1
    refine ⟨a', ids', ?_, by rw [List.append_assoc] at h'; exact h'⟩
    rw [addTaxa, he]
    exact he'

theorem virtRoot_inv : AInv [] (AR.add #[] none).1 #[] := by
  have hnd : ∀ i, nd (AR.add #[] none).1 i = if i = 0 then { name := none } else dead := by
    intro i
    simp only [AR.add, nd_push, nd_empty]
    rfl
  refine ⟨add_good none empty_good, add_oneRoot none (fun i hi => absurd hi.1.1 (by simp)), rfl, rfl, ?_, ?_, ?_, ?_,
    ?_, ?_, ?_⟩
  · intro i hi; simp at hi
  · exact ⟨by simp [AR.add], by rw [hnd]; rfl⟩
  · rw [hnd]; rfl
  · rw [hnd]; rfl
  · rw [hnd]; rfl
  · intro i hi
    have : i = 0 := by simp [AR.add] at hi; omega
    subst this; rw [hnd]; rfl
  · intro i hi; simp at hi

theorem initStC_eq (taxa : List String) (v : Array Rat) : initStC taxa v = initSt taxa v := rfl

/-- **the initial star tree**: the set-up phase cannot fail, and the invariant holds before the loop -/
theorem initShape_inv (taxa : List String) (v : Array Rat) :
    ∃ s0, initShape taxa v = .ok s0 ∧ s0.st = initSt taxa v ∧ SInv taxa s0 := by
  obtain ⟨a, ids, he, h⟩ := addTaxa_inv taxa [] _ _ virtRoot_inv
  rw [List.nil_append] at h
  refine ⟨{ st := initSt taxa v, ar := a, ids := ids }, ?_, rfl, ?_⟩
  · unfold initShape; rw [he]; rfl
  · have hact := init_act taxa v
    have hrk : (initSt taxa v).rootKids = List.range taxa.length := rfl
    constructor
    · exact init_lite taxa v
    · intro i hi; rw [hact] at hi; exact hi
    · show (List.range taxa.length).length = taxa.length
      simp
    · exact h.good
    · exact h.one
    · exact h.szI
    · show ((taxa.map (fun t => URose.node (some t) none [])).toArray).size = taxa.length
      simp
    · exact h.live0
    · exact h.par0
    · exact h.name0
    · show (nd a 0).children = (List.range taxa.length).map (fun i => ids.getD i 0)
      rw [h.kids]
      apply List.map_congr_left
      intro i hi
      exact (h.ids i (List.mem_range.1 hi)).symm
    · intro i hi
      show RepU a NZ (ids.getD i 0) ((initSt taxa v).clusters.getD i default)
      rw [hact] at hi
      have hi' := List.mem_range.1 hi
      rw [init_cluster taxa v i hi', h.ids i hi', repU_node]
      have hl : live a (i + 1) := ⟨by rw [h.size]; omega, h.nodel _ (by rw [h.size]; omega)⟩
      refine ⟨Nat.succ_ne_zero i, hl, (h.tips i hi').1, ?_⟩
      rw [(h.tips i hi').2]; exact repUL_nil
    · show a.size + taxa.length = 2 * taxa.length + 1
      rw [h.size]; omega
    · exact h.nodel
    · exact h.tips
    · intro i h1 h2
      rw [h.size] at h2
      show (nd a i).children.length = 2 ∧ (nd a i).name = none
      omega

end UPG
