import PhyloModel.Matrix.UpgmaArena
import PhyloModel.Arena.OpsInv
import PhyloModel.Arena.OneRoot
import PhyloModel.Arena.RoseStats
import PhyloModel.Arena.CliCollapse
import PhyloModel.Upgma.UTree
/-! # C15 / C03 — the arena that `upgma()` builds: shapes, the relation "slot represents cluster tree", and what the
    three arena calls (`add_child`, `merge_children` under a parent, writing a length) do slot by slot -/
namespace UPG
open AR

/-! ## trees without ids and without lengths -/

/-- an ordered rose tree carrying only node names -/
inductive Shape where
  | node (name : Option String) (kids : List Shape)
deriving Repr, Inhabited

mutual
/-- forget the branch lengths of a UPGMA cluster tree -/
def URose.shape : URose → Shape
  | .node n _ ks => .node n (URose.shapeL ks)
def URose.shapeL : List URose → List Shape
  | [] => []
  | k :: ks => k.shape :: URose.shapeL ks
end

mutual
/-- forget the branch lengths of an id-free arena tree (`AR.erase` has already forgotten ids and cached depths) -/
def eraseLen : RoseNL → Shape
  | .node n _ ks => .node n (eraseLenL ks)
def eraseLenL : List RoseNL → List Shape
  | [] => []
  | k :: ks => eraseLen k :: eraseLenL ks
end

theorem URose.shapeL_eq_map : ∀ ks : List URose, URose.shapeL ks = ks.map URose.shape
  | [] => by rw [URose.shapeL]; rfl
  | k :: ks => by rw [URose.shapeL, URose.shapeL_eq_map ks]; rfl

theorem eraseLenL_eq_map : ∀ ks : List RoseNL, eraseLenL ks = ks.map eraseLen
  | [] => by rw [eraseLenL]; rfl
  | k :: ks => by rw [eraseLenL, eraseLenL_eq_map ks]; rfl

theorem URose.shape_node (n : Option String) (l : Option Rat) (ks : List URose) :
    (URose.node n l ks).shape = .node n (ks.map URose.shape) := by
  rw [URose.shape, URose.shapeL_eq_map]

@[simp] theorem URose.shape_setLen (t : URose) (l : Option Rat) : (t.setLen l).shape = t.shape := by
  cases t; simp only [URose.setLen, URose.shape]

/-! ### a Boolean equality test on shapes (for the concrete examples) -/

mutual
def Shape.beq : Shape → Shape → Bool
  | .node n ks, .node n' ks' => n == n' && Shape.beqL ks ks'
def Shape.beqL : List Shape → List Shape → Bool
  | [], [] => true
  | k :: ks, k' :: ks' => Shape.beq k k' && Shape.beqL ks ks'
  | _, _ => false
end

mutual
theorem Shape.beq_eq : ∀ t t' : Shape, Shape.beq t t' = true → t = t'
  | .node n ks, .node n' ks', h => by
    simp only [Shape.beq, Bool.and_eq_true, beq_iff_eq] at h
    obtain ⟨rfl, hk⟩ := h
    rw [Shape.beqL_eq ks ks' hk]
theorem Shape.beqL_eq : ∀ ts ts' : List Shape, Shape.beqL ts ts' = true → ts = ts'
  | [], [], _ => rfl
  | [], _ :: _, h => by simp [Shape.beqL] at h
  | _ :: _, [], h => by simp [Shape.beqL] at h
  | k :: ks, k' :: ks', h => by
    simp only [Shape.beqL, Bool.and_eq_true] at h
    rw [Shape.beq_eq k k' h.1, Shape.beqL_eq ks ks' h.2]
end

/-! ## "slot `x` of the arena represents the cluster tree `u`, lengths aside"

`P` is a side condition on every slot met (in the loop: "is not slot 0", which makes the relation insensitive to the
edits `merge_children` makes to the root slot). -/

mutual
def RepU (a : Arena) (P : Nat → Prop) : Nat → URose → Prop
  | x, .node name _ kids => P x ∧ live a x ∧ (nd a x).name = name ∧ RepUL a P (nd a x).children kids
def RepUL (a : Arena) (P : Nat → Prop) : List Nat → List URose → Prop
  | [], [] => True
  | c :: cs, k :: ks => RepU a P c k ∧ RepUL a P cs ks
  | [], _ :: _ => False
  | _ :: _, [] => False
end

theorem repU_node {a : Arena} {P : Nat → Prop} {x : Nat} {name : Option String} {l : Option Rat} {kids : List URose} :
    RepU a P x (.node name l kids) ↔ P x ∧ live a x ∧ (nd a x).name = name ∧ RepUL a P (nd a x).children kids := by
  rw [RepU]

theorem repUL_nil {a : Arena} {P : Nat → Prop} : RepUL a P [] [] := by rw [RepUL]; trivial
theorem repUL_cons {a : Arena} {P : Nat → Prop} {c : Nat} {cs : List Nat} {k : URose} {ks : List URose} :
    RepUL a P (c :: cs) (k :: ks) ↔ RepU a P c k ∧ RepUL a P cs ks := by rw [RepUL]

theorem repU_setLen {a : Arena} {P : Nat → Prop} {x : Nat} {u : URose} (l : Option Rat) (h : RepU a P x u) :
    RepU a P x (u.setLen l) := by
  cases u with
  | node n l0 ks => rw [URose.setLen]; rw [repU_node] at h ⊢; exact h

/-- list form: positionwise -/
theorem repUL_map {a : Arena} {P : Nat → Prop} {α : Type} (f : α → Nat) (g : α → URose) :
    ∀ l : List α, (∀ i, i ∈ l → RepU a P (f i) (g i)) → RepUL a P (l.map f) (l.map g)
  | [], _ => by simp only [List.map_nil]; exact repUL_nil
  | i :: l, h => by
    simp only [List.map_cons]
    rw [repUL_cons]
    exact ⟨h i (by simp), repUL_map f g l (fun j hj => h j (by simp [hj]))⟩

mutual
/-- frame: slots satisfying `P` keep liveness, name and child list, and `P` may be weakened -/
theorem repU_frame {a b : Arena} {P Q : Nat → Prop} (hPQ : ∀ y, P y → Q y)
    (hs : ∀ y, P y → live a y → live b y ∧ (nd b y).name = (nd a y).name ∧ (nd b y).children = (nd a y).children) :
    ∀ (u : URose) (x : Nat), RepU a P x u → RepU b Q x u
  | .node name l kids, x, h => by
    rw [repU_node] at h ⊢
    obtain ⟨hp, hl, hn, hk⟩ := h
    obtain ⟨h1, h2, h3⟩ := hs x hp hl
    exact ⟨hPQ x hp, h1, by rw [h2]; exact hn, by rw [h3]; exact repUL_frame hPQ hs kids _ hk⟩
theorem repUL_frame {a b : Arena} {P Q : Nat → Prop} (hPQ : ∀ y, P y → Q y)
    (hs : ∀ y, P y → live a y → live b y ∧ (nd b y).name = (nd a y).name ∧ (nd b y).children = (nd a y).children) :
    ∀ (us : List URose) (cs : List Nat), RepUL a P cs us → RepUL b Q cs us
  | [], cs, h => by
    cases cs with
    | nil => exact repUL_nil
    | cons c cs => rw [RepUL] at h; exact h.elim
  | u :: us, cs, h => by
    cases cs with
    | nil => rw [RepUL] at h; exact h.elim
    | cons c cs =>
      rw [repUL_cons] at h ⊢
      exact ⟨repU_frame hPQ hs u c h.1, repUL_frame hPQ hs us cs h.2⟩
end

/-! ## from `RepU` to the abstraction `absRoot` -/

mutual
theorem repU_shape {a : Arena} {P : Nat → Prop} : ∀ (u : URose) (t : RTI) (x : Nat), RepU a P x u → Rep a x t →
    eraseLen (erase (decorate a t)) = u.shape
  | .node name l kids, .node j ts, x, hu, ht => by
    rw [repU_node] at hu
    simp only [Rep] at ht
    obtain ⟨_, _, hn, hk⟩ := hu
    obtain ⟨rfl, _, hts⟩ := ht
    rw [decorate, erase, eraseLen, URose.shape, hn, repUL_shape kids ts _ hk hts]
theorem repUL_shape {a : Arena} {P : Nat → Prop} : ∀ (us : List URose) (ts : List RTI) (cs : List Nat),
    RepUL a P cs us → RepL a cs ts → eraseLenL (eraseL (decorateL a ts)) = URose.shapeL us
  | [], ts, cs, hu, ht => by
    cases cs with
    | nil =>
      cases ts with
      | nil => rw [decorateL, eraseL, eraseLenL, URose.shapeL]
      | cons t ts => simp [RepL] at ht
    | cons c cs => rw [RepUL] at hu; exact hu.elim
  | u :: us, ts, cs, hu, ht => by
    cases cs with
    | nil => rw [RepUL] at hu; exact hu.elim
    | cons c cs =>
      cases ts with
      | nil => simp [RepL] at ht
      | cons t ts =>
        rw [repUL_cons] at hu
        simp only [RepL] at ht
        rw [decorateL, eraseL, eraseLenL, URose.shapeL, repU_shape u t c hu.1 ht.1, repUL_shape us ts cs hu.2 ht.2]
end

/-! ## list helper: erasing through a map that is injective on the list -/

theorem map_erase_of_inj {α β : Type} [DecidableEq α] [DecidableEq β] (f : α → β) (x : α) :
    ∀ l : List α, (∀ y, y ∈ l → f y = f x → y = x) → (l.map f).erase (f x) = (l.erase x).map f
  | [], _ => rfl
  | y :: l, h => by
    by_cases hy : y = x
    · subst hy; simp
    · have hf : f y ≠ f x := fun e => hy (h y (by simp) e)
      rw [List.map_cons, List.erase_cons_tail (by simpa using hf), List.erase_cons_tail (by simpa using hy), List.map_cons,
        map_erase_of_inj f x l (fun z hz => h z (by simp [hz]))]

theorem inj_of_map_nodup {α β : Type} (f : α → β) : ∀ l : List α, (l.map f).Nodup →
    ∀ x y, x ∈ l → y ∈ l → f x = f y → x = y
  | [], _, _, _, hx, _, _ => by cases hx
  | z :: l, hn, x, y, hx, hy, e => by
    simp only [List.map_cons, List.nodup_cons, List.mem_map, not_exists, not_and] at hn
    simp only [List.mem_cons] at hx hy
    rcases hx with rfl | hx <;> rcases hy with rfl | hy
    · rfl
    · exact absurd e.symm (hn.1 y hy)
    · exact absurd e (hn.1 x hx)
    · exact inj_of_map_nodup f l hn.2 x y hx hy e

end UPG
