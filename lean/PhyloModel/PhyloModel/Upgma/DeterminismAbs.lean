import PhyloModel.Upgma.Determinism
/-! # C15 — determinism of average-linkage clustering: the index-free state as a list of sorted member lists

`StEqv` (Upgma/Determinism.lean) compares two clustering states as SETS of clusters.  Here the same abstraction as a
concrete value: `absState act cl` is the list of the member lists of the active clusters, each in increasing order.
For well-formed states, `StEqv` is exactly "`absState` of the two states are permutations of each other"
(`stEqv_iff_perm`); so equivalent well-formed states have the same number of clusters (`StEqv.length_eq`), and the
length hypothesis of the determinism theorem can be traded for "the two runs stop with the same number of clusters"
(`avgRun_deterministic_stop`), in particular for complete runs (`avgRun_deterministic_complete`). -/
namespace UPG
open UP

/-- a member list in increasing order: the canonical representative of the member set -/
def canon (A : List Nat) : List Nat := A.mergeSort (fun x y => decide (x ≤ y))

theorem canon_perm (A : List Nat) : (canon A).Perm A := List.mergeSort_perm A _

theorem canon_eq_iff {A B : List Nat} : canon A = canon B ↔ A.Perm B := by
  constructor
  · intro h
    have p1 := canon_perm A
    rw [h] at p1
    exact p1.symm.trans (canon_perm B)
  · exact mergeSort_eq_of_perm

theorem evKey_eq (e : Ev) : evKey e = (canon (e.A ++ e.B), e.height) := rfl

/-- the index-free reading of a clustering state as a value: the sorted member lists of the active clusters -/
def absState (act : List Nat) (cl : Nat → List Nat) : List (List Nat) := act.map (fun i => canon (cl i))

theorem nodup_map_on {β : Type} {f : Nat → β} {l : List Nat} (h : l.Nodup)
    (inj : ∀ x y, x ∈ l → y ∈ l → f x = f y → x = y) : (l.map f).Nodup := by
  unfold List.Nodup
  rw [List.pairwise_map]
  exact List.Pairwise.imp_of_mem (fun hx hy hne e => hne (inj _ _ hx hy e)) h

/-- in a well-formed state no two active clusters have the same member set -/
theorem absState_nodup {act : List Nat} {cl : Nat → List Nat} (w : WFC act cl) : (absState act cl).Nodup :=
  nodup_map_on w.nodup (fun _ _ hx hy e => w.inj hx hy (canon_eq_iff.1 e))

theorem mem_absState {act : List Nat} {cl : Nat → List Nat} {X : List Nat} :
    X ∈ absState act cl ↔ ∃ i, i ∈ act ∧ canon (cl i) = X := by
  simp [absState]

theorem sub_of_absState_subset {act1 act2 : List Nat} {cl1 cl2 : Nat → List Nat}
    (h : ∀ X, X ∈ absState act1 cl1 → X ∈ absState act2 cl2) : Sub act1 cl1 act2 cl2 := by
  intro i hi
  obtain ⟨j, hj, e⟩ := mem_absState.1 (h _ (mem_absState.2 ⟨i, hi, rfl⟩))
  exact ⟨j, hj, canon_eq_iff.1 e.symm⟩

theorem absState_subset_of_sub {act1 act2 : List Nat} {cl1 cl2 : Nat → List Nat} (h : Sub act1 cl1 act2 cl2) :
    ∀ X, X ∈ absState act1 cl1 → X ∈ absState act2 cl2 := by
  intro X hX
  obtain ⟨i, hi, e⟩ := mem_absState.1 hX
  obtain ⟨j, hj, p⟩ := h i hi
  exact mem_absState.2 ⟨j, hj, by rw [← e]; exact (canon_eq_iff.2 p).symm⟩

/-- states whose lists of sorted member lists are permutations of each other are equivalent (no well-formedness
    needed in this direction) -/
theorem stEqv_of_perm {act1 act2 : List Nat} {cl1 cl2 : Nat → List Nat}
    (h : (absState act1 cl1).Perm (absState act2 cl2)) : StEqv act1 cl1 act2 cl2 :=
  ⟨sub_of_absState_subset (fun _ hX => h.mem_iff.1 hX), sub_of_absState_subset (fun _ hX => h.mem_iff.2 hX)⟩

/-- **the abstraction of a state.**  For well-formed states, "same set of clusters" (`StEqv`) is "the lists of sorted
    member lists of the active clusters are permutations of each other". -/
theorem stEqv_iff_perm {act1 act2 : List Nat} {cl1 cl2 : Nat → List Nat} (w1 : WFC act1 cl1) (w2 : WFC act2 cl2) :
    StEqv act1 cl1 act2 cl2 ↔ (absState act1 cl1).Perm (absState act2 cl2) := by
  constructor
  · intro e
    apply (List.perm_ext_iff_of_nodup (absState_nodup w1) (absState_nodup w2)).2
    intro X
    exact ⟨absState_subset_of_sub e.1 X, absState_subset_of_sub e.2 X⟩
  · exact stEqv_of_perm

/-- equivalent well-formed states have the same number of active clusters -/
theorem StEqv.length_eq {act1 act2 : List Nat} {cl1 cl2 : Nat → List Nat} (w1 : WFC act1 cl1) (w2 : WFC act2 cl2)
    (e : StEqv act1 cl1 act2 cl2) : act1.length = act2.length := by
  have := ((stEqv_iff_perm w1 w2).1 e).length_eq
  simpa [absState] using this

/-- **Determinism, runs that stop with the same number of clusters**: the length hypothesis of
    `avgRun_deterministic_one` follows. -/
theorem avgRun_deterministic_stop {d0 : Nat → Nat → Rat} {act1 act1' act2 act2' : List Nat}
    {cl1 cl1' cl2 cl2' : Nat → List Nat} {evs1 evs2 : List Ev}
    (r1 : AvgRun d0 act1 cl1 evs1 act1' cl1') (r2 : AvgRun d0 act2 cl2 evs2 act2' cl2')
    (u2 : Unamb d0 act2 cl2 evs2) (w1 : WFC act1 cl1) (w2 : WFC act2 cl2)
    (e : StEqv act1 cl1 act2 cl2) (hstop : act1'.length = act2'.length) :
    All2 EvSame evs1 evs2 ∧ evs1.map evKey = evs2.map evKey ∧ StEqv act1' cl1' act2' cl2' := by
  have hlen : evs1.length = evs2.length := by
    have h1 := r1.length; have h2 := r2.length; have h3 := e.length_eq w1 w2; omega
  obtain ⟨h1, h2⟩ := avgRun_deterministic_one r1 r2 u2 w1 w2 e hlen
  exact ⟨h1, forall2_evSame_keys h1, h2⟩

/-- **Determinism, complete runs**: two runs down to a single cluster from equivalent well-formed states, one of them
    unambiguous, perform the same merges (member sets, heights) in the same order, and the final clusters have the same
    members. -/
theorem avgRun_deterministic_complete {d0 : Nat → Nat → Rat} {act1 act2 : List Nat}
    {cl1 cl1' cl2 cl2' : Nat → List Nat} {evs1 evs2 : List Ev} {k1 k2 : Nat}
    (r1 : AvgRun d0 act1 cl1 evs1 [k1] cl1') (r2 : AvgRun d0 act2 cl2 evs2 [k2] cl2')
    (u2 : Unamb d0 act2 cl2 evs2) (w1 : WFC act1 cl1) (w2 : WFC act2 cl2) (e : StEqv act1 cl1 act2 cl2) :
    All2 EvSame evs1 evs2 ∧ evs1.map evKey = evs2.map evKey ∧ (cl1' k1).Perm (cl2' k2) := by
  obtain ⟨h1, h2, h3⟩ := avgRun_deterministic_stop r1 r2 u2 w1 w2 e rfl
  refine ⟨h1, h2, ?_⟩
  obtain ⟨j, hj, p⟩ := h3.1 k1 (by simp)
  simp only [List.mem_singleton] at hj
  subst hj; exact p

end UPG
