import PhyloModel.Upgma.RefineBase
/-! # C15 — pointwise description of the matrix after the update loop of one UPGMA iteration -/
namespace UPG
open MX Tri MXS

theorem dmBody_eq (old : Array Cell) (mg : Array Bool) (ca cb : Rat) (a b : Nat) (acc : Array Cell) (x : Nat) :
    dmBody old mg ca cb a b acc x =
      if mg.getD x true = true then acc else if x = b then acc
      else if x = a then acc.setIfInBounds (cell b x) none
      else (acc.setIfInBounds (cell a x) (newCell old ca cb a b x)).setIfInBounds (cell b x) none := by
  unfold dmBody
  by_cases hm : mg.getD x true = true
  · simp [hm]
  · by_cases hxb : x = b
    · simp [hxb]
    · by_cases hxa : x = a
      · simp [hxa]
      · simp [hm, hxb, hxa]

/-- one pass of the inner `for x` loop, read at the cell of the pair `{i, j}` -/
theorem dmBody_get (old : Array Cell) (mg : Array Bool) (ca cb : Rat) (a b n : Nat) (acc : Array Cell)
    (hab : a ≠ b) (hsz : acc.size = T n) (ha : a < n) (hb : b < n) (x : Nat) (hx : x < n)
    (i j : Nat) (_hi : i < n) (_hj : j < n) (hij : i ≠ j) :
    (dmBody old mg ca cb a b acc x).size = T n ∧
    (dmBody old mg ca cb a b acc x).getD (cell i j) none =
      if mg.getD x true = false ∧ x ≠ b ∧ ((i = b ∧ j = x) ∨ (j = b ∧ i = x)) then none
      else if mg.getD x true = false ∧ x ≠ a ∧ x ≠ b ∧ ((i = a ∧ j = x) ∨ (j = a ∧ i = x)) then newCell old ca cb a b x
      else acc.getD (cell i j) none := by
  rw [dmBody_eq]
  by_cases hm : mg.getD x true = true
  · simp [hm, hsz]
  · have hm' : mg.getD x true = false := by simpa using hm
    rw [if_neg hm]
    by_cases hxb : x = b
    · subst hxb
      simp [hsz]
    · rw [if_neg hxb]
      by_cases hxa : x = a
      · subst hxa
        have hc : cell b x < T n := cell_lt (Ne.symm hab) hb ha
        have he := cell_eq_iff (i := b) (j := x) (i' := i) (j' := j) (Ne.symm hab) hij
        simp only [↓reduceIte, Array.size_setIfInBounds, hsz, getD_set, he, hc, and_true, true_and]
        grind
      · have hc : cell b x < T n := cell_lt (Ne.symm hxb) hb hx
        have hc2 : cell a x < T n := cell_lt (Ne.symm hxa) ha hx
        have he := cell_eq_iff (i := b) (j := x) (i' := i) (j' := j) (Ne.symm hxb) hij
        have he2 := cell_eq_iff (i := a) (j := x) (i' := i) (j' := j) (Ne.symm hxa) hij
        rw [if_neg hxa]
        simp only [Array.size_setIfInBounds, hsz, getD_set, he, he2, hc, hc2, and_true, true_and]
        grind

/-- the matrix after the first `m` passes of the inner loop -/
theorem dmFold_get (old : Array Cell) (mg : Array Bool) (ca cb : Rat) (a b n : Nat)
    (hab : a ≠ b) (hsz : old.size = T n) (ha : a < n) (hb : b < n) :
    ∀ m, m ≤ n → ((List.range m).foldl (dmBody old mg ca cb a b) old).size = T n ∧
      ∀ i j, i < n → j < n → i ≠ j →
        ((List.range m).foldl (dmBody old mg ca cb a b) old).getD (cell i j) none =
          if (i = b ∧ j < m ∧ mg.getD j true = false) ∨ (j = b ∧ i < m ∧ mg.getD i true = false) then none
          else if i = a ∧ j < m ∧ mg.getD j true = false ∧ j ≠ b then newCell old ca cb a b j
          else if j = a ∧ i < m ∧ mg.getD i true = false ∧ i ≠ b then newCell old ca cb a b i
          else old.getD (cell i j) none := by
  intro m
  induction m with
  | zero => intro _; exact ⟨hsz, by intro i j _ _ _; simp⟩
  | succ m ih =>
    intro hm
    obtain ⟨ihs, ihg⟩ := ih (by omega)
    rw [List.range_succ, List.foldl_append]
    simp only [List.foldl_cons, List.foldl_nil]
    have h01 := (dmBody_get old mg ca cb a b n _ hab ihs ha hb m (by omega) 0 1)
    refine ⟨?_, ?_⟩
    · by_cases hn : n = 0
      · omega
      · by_cases hn1 : n = 1
        · omega
        · exact (h01 (by omega) (by omega) (by omega)).1
    · intro i j hi hj hij
      rw [(dmBody_get old mg ca cb a b n _ hab ihs ha hb m (by omega) i j hi hj hij).2, ihg i j hi hj hij]
      clear h01 ihg ihs ih
      obtain ⟨lv, hlv⟩ : ∃ lv : Nat → Bool, ∀ x, mg.getD x true = lv x := ⟨fun x => mg.getD x true, fun _ => rfl⟩
      simp only [hlv]
      generalize old.getD (cell i j) none = o
      generalize newCell old ca cb a b = nc
      by_cases him : i = m
      · grind
      · by_cases hjm : j = m
        · grind
        · have e1 : j < m + 1 ↔ j < m := by omega
          have e2 : i < m + 1 ↔ i < m := by omega
          have c1 : ¬ (lv m = false ∧ m ≠ b ∧ ((i = b ∧ j = m) ∨ (j = b ∧ i = m))) := by
            rintro ⟨_, _, ⟨_, h⟩ | ⟨_, h⟩⟩
            · exact hjm h
            · exact him h
          have c2 : ¬ (lv m = false ∧ m ≠ a ∧ m ≠ b ∧ ((i = a ∧ j = m) ∨ (j = a ∧ i = m))) := by
            rintro ⟨_, _, _, ⟨_, h⟩ | ⟨_, h⟩⟩
            · exact hjm h
            · exact him h
          rw [if_neg c1, if_neg c2]
          simp only [e1, e2]

end UPG
