import PhyloModel.Matrix.Store
/-! Executable model of `DistanceMatrix::upgma` (src/distance.rs), over exact rationals.
    The triangular vector holds `Option Rat` (`none` = the `T::infinity()` written into retired rows);
    the minimum is the first strict minimum in cell order, as `min()` computes it; the tree is kept as a
    list of cluster trees under the root in the order `merge_children` leaves them. -/
namespace UPG
open MXS MX Tri

inductive URose where
  | node (name : Option String) (len : Option Rat) (kids : List URose)
deriving Repr, Inhabited

def URose.setLen : URose → Option Rat → URose
  | .node n _ ks, l => .node n l ks

abbrev Cell := Option Rat   -- none = +infinity

def cellLt (x y : Cell) : Bool :=
  match x, y with
  | some a, some b => decide (a < b)
  | some _, none => true
  | none, _ => false

structure St where
  dm : Array Cell
  card : Array Nat
  merged : Array Bool
  heights : Array Rat
  clusters : Array URose      -- cluster tree currently standing for index i
  rootKids : List Nat         -- indices under the root, in child order
  nClusters : Nat
  margin : Option Rat         -- smallest positive gap between a chosen minimum and the next distinct value
  tie : Bool := false         -- some chosen minimum was attained by more than one live cell
  dyadic : Bool := true       -- every value written into the matrix so far is a dyadic rational (f64-exact)
deriving Inhabited

inductive Res (β : Type) where
  | ok (v : β) | err (k : String) | panic
deriving Repr

/-- first strict minimum in cell order: `DistanceMatrix::min` -/
def minCell (dm : Array Cell) : Option ((Nat × Nat) × Cell) :=
  (List.range dm.size).foldl (fun acc k =>
    let v := dm.getD k none
    match acc with
    | none => some (invIdx k, v)
    | some a => if cellLt v a.2 then some (invIdx k, v) else some a) none

/-- smallest strictly larger finite value than `m` (to measure how decisive a minimum is) -/
def nextAbove (dm : Array Cell) (m : Rat) : Option Rat :=
  dm.foldl (fun acc v => match v with
    | some x => if x > m then (match acc with | some a => some (if x < a then x else a) | none => some x) else acc
    | none => acc) none

def isDyadic (r : Rat) : Bool := r.den.land (r.den - 1) == 0 && r.den ≤ 2 ^ 30 && r.num.natAbs < 2 ^ 50

def mergeTrees (a b : URose) (la lb : Rat) : URose :=
  .node none none [a.setLen (some la), b.setLen (some lb)]

/-- one iteration of the `while n_clusters > 2` loop -/
def step (st : St) : Res St :=
  match minCell st.dm with
  | none => .err "IndexError"
  | some ((a, b), none) =>
    -- the minimum is a retired (infinite) cell: `merge_children` refuses (repaired: an error, not a panic)
    if st.merged.getD a true || st.merged.getD b true then .err "IndexError" else .err "IndexError"
  | some ((a, b), some dab) =>
    if st.merged.getD a true || st.merged.getD b true then .err "IndexError" else
    let h := dab / 2
    let dau := h - st.heights.getD a 0
    let dbu := h - st.heights.getD b 0
    let merged := st.merged.setIfInBounds b true
    let heights := st.heights.setIfInBounds a h
    let ca : Rat := (st.card.getD a 0 : Nat)
    let cb : Rat := (st.card.getD b 0 : Nat)
    let n := st.merged.size
    let dm := (List.range n).foldl (fun (dm : Array Cell) x =>
      if merged.getD x true then dm else
      let dm1 :=
        if x != a && x != b then
          match st.dm.getD (cell x a) none, st.dm.getD (cell x b) none with
          | some dax, some dbx => dm.setIfInBounds (cell a x) (some ((ca * dax + cb * dbx) / (ca + cb)))
          | _, _ => dm.setIfInBounds (cell a x) none
        else dm
      if x != b then dm1.setIfInBounds (cell b x) none else dm1) st.dm
    let gap := match nextAbove st.dm dab with | some nx => some (nx - dab) | none => none
    let margin := match st.margin, gap with
      | some m, some g => some (if g < m then g else m)
      | none, g => g
      | m, none => m
    let ties := (st.dm.toList.filter (fun v => v == some dab)).length
    let newVals := (List.range n).filterMap (fun x =>
      if merged.getD x true || x == a || x == b then none else dm.getD (cell a x) none)
    .ok { st with dm := dm, merged := merged, heights := heights,
                  tie := st.tie || ties > 1, dyadic := st.dyadic && newVals.all isDyadic && isDyadic (dab / 2),
                  clusters := st.clusters.setIfInBounds a (mergeTrees (st.clusters.getD a default) (st.clusters.getD b default) dau dbu),
                  rootKids := ((st.rootKids.erase a).erase b) ++ [a],
                  card := st.card.setIfInBounds a (st.card.getD a 0 + st.card.getD b 0),
                  nClusters := st.nClusters - 1, margin := margin }

def loop : Nat → St → Res St
  | 0, st => .ok st
  | f + 1, st => if st.nClusters > 2 then (match step st with | .ok st' => loop f st' | r => r) else .ok st

/-- `upgma()`: the tree and the smallest positive decision margin met -/
def upgma (taxa : List String) (v : Array Rat) : Res (URose × Option Rat × Bool × Bool) :=
  let n := taxa.length
  let st0 : St := { dm := v.map some, card := Array.replicate n 1, merged := Array.replicate n false,
                    heights := Array.replicate n 0, clusters := (taxa.map (fun t => URose.node (some t) none [])).toArray,
                    rootKids := List.range n, nClusters := n, margin := none }
  match loop n st0 with
  | .ok st =>
    match (List.range n).filter (fun i => !(st.merged.getD i true)) with
    | ai :: bi :: _ =>
      match st.dm.getD (cell ai bi) none with
      | some dab =>
        let h := dab / 2
        let kids := st.rootKids.map (fun i =>
          let t := st.clusters.getD i default
          if i == ai then t.setLen (some (h - st.heights.getD ai 0))
          else if i == bi then t.setLen (some (h - st.heights.getD bi 0)) else t)
        .ok (.node none none kids, st.margin, st.tie, st.dyadic && isDyadic h)
      | none => .err "NonFinite"
    | _ => .err "IndexError"
  | .err k => .err k
  | .panic => .panic

end UPG
