import PhyloModel.Matrix.PhylipStrictSym
/-! Exactly which texts the strict parser (positional fill) accepts — no condition on the names:
    the converse of `strict_square_symmetric` / `strict_tril_stored`. -/
set_option linter.unusedSectionVars false
namespace PHY
open MXS MX Tri

variable {L : Type} [Inhabited L] (cd : Codec L)

theorem parseLine_of_ok {size : Nat} {l nm : Text} {ds : List L} (h : readRow cd l (size + 1) = .ok (nm, ds)) :
    parseLine cd size l = (nm, ds) := by simp only [parseLine, h]

/-- the row loop accepts lines that all parse into rows of the required length with a zero diagonal -/
theorem strictGo_accepts (size : Nat) (square : Bool) :
    ∀ (ls : List Text) (i : Nat) (accN : List String) (accR : List (List L)),
      i + ls.length ≤ size →
      (∀ k (hk : k < ls.length), ∃ nm ds, readRow cd ls[k] (size + 1) = .ok (nm, ds) ∧
          ds.length = (if square then size else i + k) ∧
          (square = true → cd.isZero (ds.getD (i + k) default) = true)) →
      strictGo cd size square ls i accN accR
        = .ok (accN ++ parsedNames cd size ls, accR ++ parsedRows cd size ls) := by
  intro ls
  induction ls with
  | nil => intro i accN accR _ _; simp [strictGo, parsedNames, parsedRows]
  | cons l ls ih =>
    intro i accN accR hle hrows
    simp only [List.length_cons] at hle
    obtain ⟨nm, ds, hr, hlen, hdiag⟩ := hrows 0 (by simp)
    simp only [List.getElem_cons_zero, Nat.add_zero] at hr hlen hdiag
    have hi : ¬ (i ≥ size) := by omega
    have ih' := ih (i + 1) (accN ++ [String.ofList nm]) (accR ++ [ds]) (by omega)
      (by
        intro k hk
        obtain ⟨nm', ds', h1, h2, h3⟩ := hrows (k + 1) (by simp only [List.length_cons]; omega)
        simp only [List.getElem_cons_succ] at h1
        have he : i + (k + 1) = i + 1 + k := by omega
        rw [he] at h2 h3
        exact ⟨nm', ds', h1, h2, h3⟩)
    have hp := parseLine_of_ok cd hr
    simp only [strictGo]
    rw [if_neg hi, hr]
    simp only
    cases square with
    | false =>
      simp only [Bool.false_eq_true, ↓reduceIte] at hlen
      simp only [hlen, Bool.false_and, Bool.not_false, ne_eq, not_true_eq_false, decide_false, Bool.and_false,
        Bool.or_self, Bool.false_eq_true, ↓reduceIte]
      rw [ih']
      simp [parsedNames, parsedRows, hp, List.append_assoc]
    | true =>
      simp only [↓reduceIte] at hlen
      simp only [hlen, hdiag rfl, ne_eq, not_true_eq_false, decide_false, Bool.not_true,
        Bool.and_false, Bool.false_eq_true, ↓reduceIte]
      rw [ih']
      simp [parsedNames, parsedRows, hp, List.append_assoc]

/-- **acceptance criterion of the strict parser**: a text with a header declaring `size` is accepted exactly
    when it has `size` further lines, every line parses (a name and at most `size+1` distances), row `k` has
    `size` (square) resp. `k` (triangular) distances, and in the square layout the diagonal is zero and every
    distance above the diagonal equals its mirror image -/
theorem strict_accepts_iff (text first : Text) (rest : List Text) (size : Nat) (square : Bool)
    (hlines : PH.lines text = first :: rest) (hsize : parseUsize first = some size) :
    (∃ m, fromPhylipStrict cd text square = .ok m) ↔
      rest.length = size ∧
      (∀ l ∈ rest, ∃ p, readRow cd l (size + 1) = .ok p) ∧
      (∀ k, k < size → ((parsedRows cd size rest).getD k []).length = if square then size else k) ∧
      (square = true →
        (∀ k, k < size → cd.isZero (entry (parsedRows cd size rest) k k) = true) ∧
        (∀ i j, i < j → j < size →
          cd.numEq (entry (parsedRows cd size rest) i j) (entry (parsedRows cd size rest) j i) = true)) := by
  constructor
  · rintro ⟨m, hm⟩
    obtain ⟨first', rest', size', hlines', hsize', hrl, hread, hshape, hdiag, hfill⟩ :=
      strict_ok_parsed cd text square m hm
    rw [hlines] at hlines'
    cases hlines'
    rw [hsize] at hsize'
    cases hsize'
    refine ⟨hrl, fun l hl => ⟨_, hread l hl⟩, hshape, ?_⟩
    intro hsq
    subst hsq
    obtain ⟨first', rest', size', hlines', hsize', _, _, _, _, _, _, hsym, _⟩ :=
      strict_square_symmetric cd text m hm
    rw [hlines] at hlines'
    cases hlines'
    rw [hsize] at hsize'
    cases hsize'
    exact ⟨hdiag rfl, hsym⟩
  · rintro ⟨hrl, hread, hshape, hsq⟩
    have hrow : ∀ k (hk : k < rest.length), (parsedRows cd size rest).getD k [] = (parseLine cd size rest[k]).2 := by
      intro k hk
      simp [parsedRows, List.getD_eq_getElem?_getD, hk]
    have hgo : strictGo cd size square rest 0 [] [] = .ok (parsedNames cd size rest, parsedRows cd size rest) := by
      have := strictGo_accepts cd size square rest 0 [] [] (by omega)
        (by
          intro k hk
          obtain ⟨⟨nm, ds⟩, hp⟩ := hread rest[k] (List.getElem_mem hk)
          have hpl := parseLine_of_ok cd hp
          have hds : (parsedRows cd size rest).getD k [] = ds := by rw [hrow k hk, hpl]
          refine ⟨nm, ds, hp, ?_, ?_⟩
          · have := hshape k (by omega)
            rw [hds] at this
            simpa using this
          · intro hs
            have := (hsq hs).1 k (by omega)
            simpa only [entry, hds, Nat.zero_add] using this)
      simpa using this
    have hnl : (parsedNames cd size rest).length = size := by simp [parsedNames, hrl]
    have hrowsl : (parsedRows cd size rest).length = size := by simp [parsedRows, hrl]
    unfold fromPhylipStrict
    rw [hlines]
    simp only [hsize, hgo, hnl, ne_eq, not_true_eq_false, ↓reduceIte]
    rw [T2_eq_T]
    rcases fillStrict_spec cd square (parsedRows cd size rest)
        { taxa := parsedNames cd size rest, v := Array.replicate (T size) cd.zero }
        (by simp only [hnl, hrowsl]) (by simp only [hnl]; exact hshape) (by simp [hnl]) with
      ⟨m', hres, _⟩ | ⟨_, hs, a, b, hba, ha, hq⟩
    · exact ⟨m', hres⟩
    · exfalso
      simp only [hnl] at ha
      have := (hsq hs).2 b a hba ha
      rw [hq] at this
      cases this

end PHY
