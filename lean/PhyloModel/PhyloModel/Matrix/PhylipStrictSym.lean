import PhyloModel.Matrix.PhylipFillSpec
import PhyloModel.Matrix.PhylipTotal
/-! What a text ACCEPTED by the strict parser (positional fill) looks like, with no condition on the names:
    the parsed rows are symmetric with respect to the symmetry test, the diagonal is zero, and the returned
    matrix stores exactly the parsed distances.  Contrapositive: asymmetric input is rejected. -/
set_option linter.unusedSectionVars false
namespace PHY
open MXS MX Tri

variable {L : Type} [Inhabited L] (cd : Codec L)

/-- what `read_phylip_row` makes of a line inside the strict parser (name, distances) -/
def parseLine (size : Nat) (l : Text) : Text × List L :=
  match readRow cd l (size + 1) with
  | .ok p => p
  | _ => ([], [])

def parsedNames (size : Nat) (ls : List Text) : List String :=
  ls.map (fun l => String.ofList (parseLine cd size l).1)
def parsedRows (size : Nat) (ls : List Text) : List (List L) :=
  ls.map (fun l => (parseLine cd size l).2)

/-- the row loop returns the parsed name and the parsed distances of every line, in order -/
theorem strictGo_reads (size : Nat) (square : Bool) :
    ∀ (ls : List Text) (i : Nat) (accN : List String) (accR : List (List L)) (names : List String)
      (rows : List (List L)),
      strictGo cd size square ls i accN accR = .ok (names, rows) →
      names = accN ++ parsedNames cd size ls ∧ rows = accR ++ parsedRows cd size ls ∧
      ∀ l ∈ ls, readRow cd l (size + 1) = .ok (parseLine cd size l) := by
  intro ls
  induction ls with
  | nil =>
    intro i accN accR names rows h
    simp only [strictGo, PRes.ok.injEq, Prod.mk.injEq] at h
    obtain ⟨rfl, rfl⟩ := h
    simp [parsedNames, parsedRows]
  | cons l ls ih =>
    intro i accN accR names rows h
    simp only [strictGo] at h
    split at h
    · cases h
    · split at h
      · next name ds hrow =>
        split at h
        · cases h
        · split at h
          · cases h
          · obtain ⟨h1, h2, h3⟩ := ih _ _ _ _ _ h
            have hp : parseLine cd size l = (name, ds) := by simp only [parseLine, hrow]
            refine ⟨?_, ?_, ?_⟩
            · rw [h1]; simp [parsedNames, hp]
            · rw [h2]; simp [parsedRows, hp]
            · intro l' hl'
              simp only [List.mem_cons] at hl'
              rcases hl' with rfl | hl'
              · rw [hrow, hp]
              · exact h3 l' hl'
      · cases h
      · cases h

/-- an accepted text: header, exactly `size` rows, every row parsed, rows of the required lengths, and the
    double loop succeeded on the parsed rows -/
theorem strict_ok_parsed (text : Text) (square : Bool) (m : Mat L)
    (h : fromPhylipStrict cd text square = .ok m) :
    ∃ (first : Text) (rest : List Text) (size : Nat),
      PH.lines text = first :: rest ∧ parseUsize first = some size ∧ rest.length = size ∧
      (∀ l ∈ rest, readRow cd l (size + 1) = .ok (parseLine cd size l)) ∧
      (∀ k, k < size → ((parsedRows cd size rest).getD k []).length = limS square size k) ∧
      (square = true → ∀ k, k < size → cd.isZero (entry (parsedRows cd size rest) k k) = true) ∧
      fillStrict cd square (parsedRows cd size rest)
        { taxa := parsedNames cd size rest, v := Array.replicate (T2 size) cd.zero } = .ok m := by
  unfold fromPhylipStrict at h
  split at h
  · cases h
  · next first rest hlines =>
    split at h
    · cases h
    · next size hsize =>
      split at h
      · next names rows hgo =>
        split at h
        · cases h
        · next hlen =>
          have hlen' : names.length = size := by simpa using hlen
          obtain ⟨g1, g2, _, g4⟩ := PHY.strict_go cd size square rest 0 [] [] names rows rfl rfl
            (by intro k r hk; simp at hk) hgo
          obtain ⟨r1, r2, r3⟩ := strictGo_reads cd size square rest 0 [] [] names rows hgo
          simp only [List.nil_append] at r1 r2
          have hrl : rest.length = size := by omega
          have hrows_len : rows.length = size := by omega
          refine ⟨first, rest, size, hlines, hsize, hrl, r3, ?_, ?_, ?_⟩
          · intro k hk
            rw [← r2]
            have hk' : k < rows.length := by omega
            have := (g4 k rows[k] (List.getElem?_eq_getElem hk')).1
            rw [List.getD_eq_getElem?_getD, List.getElem?_eq_getElem hk', Option.getD_some]
            unfold limS
            split <;> simp_all
          · intro hsq k hk
            rw [← r2]
            have hk' : k < rows.length := by omega
            have := (g4 k rows[k] (List.getElem?_eq_getElem hk')).2 hsq
            simpa only [entry, List.getD_eq_getElem?_getD, List.getElem?_eq_getElem hk', Option.getD_some] using this
          · rw [← r1, ← r2]; exact h
      · cases h
      · cases h

/-- **strictness, symmetry clause (square layout)**: if the strict parser accepts a square text, then the text
    has exactly `size` rows which all parse into `size` distances, the diagonal distances are zero, every
    distance above the diagonal equals (symmetry test `numEq`, stored upper entry first) its mirror image below
    the diagonal, and the returned matrix holds the parsed names and exactly the parsed upper-triangle
    distances -/
theorem strict_square_symmetric (text : Text) (m : Mat L) (h : fromPhylipStrict cd text true = .ok m) :
    ∃ (first : Text) (rest : List Text) (size : Nat),
      PH.lines text = first :: rest ∧ parseUsize first = some size ∧ rest.length = size ∧
      (∀ l ∈ rest, readRow cd l (size + 1) = .ok (parseLine cd size l)) ∧
      m.taxa = parsedNames cd size rest ∧ m.v.size = T2 size ∧
      (∀ i, i < size → ((parsedRows cd size rest).getD i []).length = size) ∧
      (∀ i, i < size → cd.isZero (entry (parsedRows cd size rest) i i) = true) ∧
      (∀ i j, i < j → j < size →
        cd.numEq (entry (parsedRows cd size rest) i j) (entry (parsedRows cd size rest) j i) = true) ∧
      (∀ i j, i < j → j < size → m.v.getD (cell i j) default = entry (parsedRows cd size rest) i j) := by
  obtain ⟨first, rest, size, hlines, hsize, hrl, hread, hshape, hdiag, hfill⟩ := strict_ok_parsed cd text true m h
  have hnl : (parsedNames cd size rest).length = size := by simp [parsedNames, hrl]
  have hrowsl : (parsedRows cd size rest).length = size := by simp [parsedRows, hrl]
  rw [T2_eq_T] at hfill
  rcases fillStrict_spec cd true (parsedRows cd size rest)
      { taxa := parsedNames cd size rest, v := Array.replicate (T size) cd.zero }
      (by simp only [hnl, hrowsl]) (by simp only [hnl]; exact hshape) (by simp [hnl]) with
    ⟨m', hres, htaxa, hvs, hcells, hsym⟩ | ⟨hres, _⟩
  · rw [hres] at hfill
    cases hfill
    simp only [hnl] at htaxa hvs hcells hsym
    refine ⟨first, rest, size, hlines, hsize, hrl, hread, htaxa, by rw [T2_eq_T]; exact hvs,
      fun i hi => by simpa [limS] using hshape i hi, hdiag rfl, ?_, ?_⟩
    · intro i j hij hj
      exact hsym trivial j i hij hj
    · intro i j hij hj
      exact hcells i j (by omega) (by simp only [limS, ↓reduceIte]; exact hj) (by omega)
        (by rintro ⟨_, h1⟩; omega)
  · rw [hres] at hfill; cases hfill

/-- the same for the triangular layout: the returned matrix holds exactly the parsed distances
    (there is nothing to compare: every pair occurs once) -/
theorem strict_tril_stored (text : Text) (m : Mat L) (h : fromPhylipStrict cd text false = .ok m) :
    ∃ (first : Text) (rest : List Text) (size : Nat),
      PH.lines text = first :: rest ∧ parseUsize first = some size ∧ rest.length = size ∧
      (∀ l ∈ rest, readRow cd l (size + 1) = .ok (parseLine cd size l)) ∧
      m.taxa = parsedNames cd size rest ∧ m.v.size = T2 size ∧
      (∀ i, i < size → ((parsedRows cd size rest).getD i []).length = i) ∧
      (∀ i j, j < i → i < size → m.v.getD (cell i j) default = entry (parsedRows cd size rest) i j) := by
  obtain ⟨first, rest, size, hlines, hsize, hrl, hread, hshape, _, hfill⟩ := strict_ok_parsed cd text false m h
  have hnl : (parsedNames cd size rest).length = size := by simp [parsedNames, hrl]
  have hrowsl : (parsedRows cd size rest).length = size := by simp [parsedRows, hrl]
  rw [T2_eq_T] at hfill
  rcases fillStrict_spec cd false (parsedRows cd size rest)
      { taxa := parsedNames cd size rest, v := Array.replicate (T size) cd.zero }
      (by simp only [hnl, hrowsl]) (by simp only [hnl]; exact hshape) (by simp [hnl]) with
    ⟨m', hres, htaxa, hvs, hcells, _⟩ | ⟨_, hsq, _⟩
  · rw [hres] at hfill
    cases hfill
    simp only [hnl] at htaxa hvs hcells
    refine ⟨first, rest, size, hlines, hsize, hrl, hread, htaxa, by rw [T2_eq_T]; exact hvs,
      fun i hi => by simpa [limS] using hshape i hi, ?_⟩
    intro i j hji hi
    exact hcells i j hi (by simp only [limS, Bool.false_eq_true, ↓reduceIte]; exact hji) (by omega)
      (by rintro ⟨h1, _⟩; cases h1)
  · cases hsq

/-- **asymmetric input is rejected**: a square text in which some parsed distance above the diagonal differs
    (symmetry test) from its mirror image is answered with an error, whatever the names are -/
theorem strict_rejects_asymmetric (text first : Text) (rest : List Text) (size : Nat)
    (hlines : PH.lines text = first :: rest) (hsize : parseUsize first = some size)
    (i j : Nat) (hij : i < j) (hj : j < size)
    (hasym : cd.numEq (entry (parsedRows cd size rest) i j) (entry (parsedRows cd size rest) j i) = false) :
    ∃ k, fromPhylipStrict cd text true = .err k := by
  cases hres : fromPhylipStrict cd text true with
  | err k => exact ⟨k, rfl⟩
  | panic => exact absurd hres (strict_total cd text true)
  | ok m =>
    exfalso
    obtain ⟨first', rest', size', hlines', hsize', _, _, _, _, _, _, hsym, _⟩ :=
      strict_square_symmetric cd text m hres
    rw [hlines] at hlines'
    cases hlines'
    rw [hsize] at hsize'
    cases hsize'
    have := hsym i j hij hj
    rw [hasym] at this
    cases this

end PHY
