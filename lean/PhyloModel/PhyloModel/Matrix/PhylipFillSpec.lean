import PhyloModel.Matrix.PhylipFill
/-! Functional specification of the positional double loop of `from_phylip_strict`.
    The loop runs over the index pairs `(i, j)`, `i < n`, `j < limS square n i` in row-major order with the datum
    `R i j`.  A diagonal pair is skipped; in the square layout a pair below the diagonal is compared with the
    stored mirror entry; any other pair is stored. No hypothesis on the names. -/
set_option linter.unusedSectionVars false
namespace PHY
open MXS MX Tri

variable {L : Type} [Inhabited L] (cd : Codec L)
variable (square : Bool) (n : Nat) (R : Nat → Nat → L)

/-- `(a, b)` is processed before `(i, j)` -/
def Before (i j a b : Nat) : Prop := (a < i ∧ b < limS square n a) ∨ (a = i ∧ b < j)
/-- the entry `(a, b)` is stored (neither skipped nor compared) -/
def Stored (a b : Nat) : Prop := a ≠ b ∧ ¬ (square = true ∧ b < a)

/-- state of the fold just before the pair `(i, j)` -/
structure FInv (i j : Nat) (mm : Mat L) : Prop where
  len : mm.taxa.length = n
  vsize : mm.v.size = T n
  cells : ∀ a b, Before square n i j a b → Stored square a b → a < n →
    mm.v.getD (cell a b) default = R a b

/-- what the loop demands of the pair `(a, b)`: below the diagonal of a square matrix the entry equals
    (symmetry test, stored value first) its mirror image -/
def Cond (a b : Nat) : Prop := square = true → b < a → cd.numEq (R b a) (R a b) = true

variable {square n R}

theorem limS_le {a : Nat} (ha : a < n) : limS square n a ≤ n := by
  unfold limS; split <;> omega

/-- one step on an off-diagonal in-range pair: no `IndexError`, no out-of-range indexing -/
theorem fillCell_eval {mm : Mat L} (hlen : mm.taxa.length = n) (hvs : mm.v.size = T n) {i j : Nat}
    (hi : i < n) (hj : j < n) (hne : i ≠ j) (d : L) :
    fillCell cd square (.ok mm) (i, j, d) =
      if square && decide (j < i) then
        (if cd.numEq (mm.v.getD (cell i j) default) d then .ok mm else .err "NonSymmetric")
      else .ok { mm with v := mm.v.setIfInBounds (cell i j) d } := by
  have hc : cellOf mm i j = some (cell i j) := by
    unfold cellOf size
    rw [if_neg (by omega)]
  have hlt : cell i j < mm.v.size := by rw [hvs]; exact cell_lt hne hi hj
  simp only [fillCell, hne, ↓reduceIte, hc, hlt]

theorem fillCell_diag (mm : Mat L) (i : Nat) (d : L) : fillCell cd square (.ok mm) (i, i, d) = .ok mm := by
  simp only [fillCell, ↓reduceIte]

/-! ### the invariant moves along -/

theorem before_succ (i j a b : Nat) :
    Before square n i (j + 1) a b ↔ Before square n i j a b ∨ (a = i ∧ b = j) := by
  simp only [Before]; omega

theorem before_row (i a b : Nat) :
    Before square n i (limS square n i) a b ↔ Before square n (i + 1) 0 a b := by
  simp only [Before]
  by_cases h : a = i
  · subst h; omega
  · omega

theorem FInv.congr {i j i' j' : Nat} {mm : Mat L}
    (h : ∀ a b, Before square n i j a b ↔ Before square n i' j' a b) (hinv : FInv square n R i j mm) :
    FInv square n R i' j' mm :=
  ⟨hinv.len, hinv.vsize, fun a b hb => hinv.cells a b ((h a b).2 hb)⟩

/-- a skipped or compared pair leaves the invariant as it is -/
theorem inv_keep {i j : Nat} {mm : Mat L} (hinv : FInv square n R i j mm) (hns : ¬ Stored square i j) :
    FInv square n R i (j + 1) mm := by
  refine ⟨hinv.len, hinv.vsize, ?_⟩
  intro a b hb hst
  rw [before_succ] at hb
  rcases hb with hb | ⟨rfl, rfl⟩
  · exact hinv.cells a b hb hst
  · exact absurd hst hns

theorem inv_set {i j : Nat} {mm : Mat L} (hinv : FInv square n R i j mm) (hi : i < n)
    (hj : j < limS square n i) (hst : Stored square i j) :
    FInv square n R i (j + 1) { mm with v := mm.v.setIfInBounds (cell i j) (R i j) } := by
  have hjn : j < n := Nat.lt_of_lt_of_le hj (limS_le hi)
  have hne : i ≠ j := hst.1
  have hlt : cell i j < mm.v.size := by rw [hinv.vsize]; exact cell_lt hne hi hjn
  refine ⟨hinv.len, by simp [hinv.vsize], ?_⟩
  intro a b hb hsab ha
  rw [before_succ] at hb
  simp only [Array.getD_eq_getD_getElem?, Array.getElem?_setIfInBounds]
  by_cases hcell : cell i j = cell a b
  · rcases cell_inj hne hsab.1 hcell with ⟨rfl, rfl⟩ | ⟨rfl, rfl⟩
    · simp [hlt]
    · -- the mirror pair cannot have been stored before
      exfalso
      have h2 := hst.2
      rcases hb with hb | ⟨h1, _⟩
      · simp only [Before] at hb
        rcases hb with ⟨h3, h4⟩ | ⟨h3, _⟩
        · unfold limS at h4
          cases square with
          | true => exact h2 ⟨rfl, h3⟩
          | false => simp only [Bool.false_eq_true, ↓reduceIte] at h4; omega
        · exact hne h3.symm
      · exact hne h1.symm
  · simp only [hcell, ↓reduceIte]
    rcases hb with hb | ⟨rfl, rfl⟩
    · have := hinv.cells a b hb hsab ha
      simpa only [Array.getD_eq_getD_getElem?] using this
    · exact absurd rfl hcell

theorem inv_init (m0 : Mat L) (hlen : m0.taxa.length = n) (hvs : m0.v.size = T n) :
    FInv square n R 0 0 m0 := by
  refine ⟨hlen, hvs, ?_⟩
  intro a b hb
  simp only [Before] at hb
  omega

/-! ### the two loops -/

variable (square n R)

/-- outcome after the first `j` pairs of row `i` -/
def OutRow (i j : Nat) (res : PRes (Mat L)) : Prop :=
  (∃ mm, res = .ok mm ∧ FInv square n R i j mm ∧ ∀ b, b < j → Cond cd square R i b) ∨
  (res = .err "NonSymmetric" ∧ ∃ b, b < j ∧ ¬ Cond cd square R i b)

/-- outcome after the first `i` rows -/
def OutAll (i : Nat) (res : PRes (Mat L)) : Prop :=
  (∃ mm, res = .ok mm ∧ FInv square n R i 0 mm ∧
      ∀ a b, a < i → b < limS square n a → Cond cd square R a b) ∨
  (res = .err "NonSymmetric" ∧ ∃ a b, a < i ∧ b < limS square n a ∧ ¬ Cond cd square R a b)

variable {square n R}

theorem row_loop {i : Nat} (hi : i < n) {mm : Mat L} (hinv : FInv square n R i 0 mm) :
    ∀ j, j ≤ limS square n i →
    OutRow cd square n R i j
      (((List.range j).map (fun j => (i, j, R i j))).foldl (fillCell cd square) (.ok mm))
  | 0, _ => Or.inl ⟨mm, rfl, hinv, by intro b hb; omega⟩
  | j + 1, hj => by
    have ih := row_loop hi hinv j (by omega)
    rw [List.range_succ, List.map_append, List.foldl_append]
    simp only [List.map_cons, List.map_nil, List.foldl_cons, List.foldl_nil]
    rcases ih with ⟨mm', hres, hinv', hcond⟩ | ⟨hres, b, hb, hnc⟩
    · rw [hres]
      have hjl : j < limS square n i := by omega
      have hjn : j < n := Nat.lt_of_lt_of_le hjl (limS_le hi)
      by_cases hij : i = j
      · subst hij
        rw [fillCell_diag]
        refine Or.inl ⟨mm', rfl, inv_keep hinv' (fun h => h.1 rfl), ?_⟩
        intro b hb
        by_cases hbj : b = i
        · subst hbj; intro _ h; omega
        · exact hcond b (by omega)
      · rw [fillCell_eval cd hinv'.len hinv'.vsize hi hjn hij]
        by_cases hcmp : square = true ∧ j < i
        · obtain ⟨hsq, hji⟩ := hcmp
          have hstored : mm'.v.getD (cell i j) default = R j i := by
            rw [cell_symm i j hij]
            refine hinv'.cells j i (Or.inl ⟨hji, ?_⟩) ⟨by omega, by intro h; omega⟩ hjn
            simp only [limS, hsq, ↓reduceIte]; exact hi
          have hbt : (square && decide (j < i)) = true := by simp [hsq, hji]
          simp only [hbt, ↓reduceIte, hstored]
          by_cases hq : cd.numEq (R j i) (R i j) = true
          · simp only [hq, ↓reduceIte]
            refine Or.inl ⟨mm', rfl, inv_keep hinv' (fun h => h.2 ⟨hsq, hji⟩), ?_⟩
            intro b hb
            by_cases hbj : b = j
            · subst hbj; intro _ _; exact hq
            · exact hcond b (by omega)
          · simp only [hq, Bool.false_eq_true, ↓reduceIte]
            exact Or.inr ⟨rfl, j, by omega, fun hc => hq (hc hsq hji)⟩
        · have hb : (square && decide (j < i)) = false := by
            cases square with
            | false => rfl
            | true =>
              have : ¬ j < i := fun h => hcmp ⟨rfl, h⟩
              simp [this]
          simp only [hb, Bool.false_eq_true, ↓reduceIte]
          refine Or.inl ⟨_, rfl, inv_set hinv' hi hjl ⟨hij, hcmp⟩, ?_⟩
          intro b hb'
          by_cases hbj : b = j
          · subst hbj; intro h1 h2; exact absurd ⟨h1, h2⟩ hcmp
          · exact hcond b (by omega)
    · rw [hres, fillCell_err]
      exact Or.inr ⟨rfl, b, by omega, hnc⟩

theorem all_loop (m0 : Mat L) (hlen : m0.taxa.length = n) (hvs : m0.v.size = T n) :
    ∀ i, i ≤ n →
    OutAll cd square n R i ((cellsIdx (limS square n) R i).foldl (fillCell cd square) (.ok m0))
  | 0, _ => Or.inl ⟨_, rfl, inv_init m0 hlen hvs, by intro a b ha; omega⟩
  | i + 1, hi => by
    have ih := all_loop m0 hlen hvs i (by omega)
    unfold cellsIdx at ih ⊢
    rw [List.range_succ, List.flatMap_append, List.foldl_append, List.flatMap_singleton]
    rcases ih with ⟨mm, hres, hinv, hcond⟩ | ⟨hres, a, b, ha, hb, hnc⟩
    · rw [hres]
      rcases row_loop cd (by omega : i < n) hinv (limS square n i) (Nat.le_refl _) with
        ⟨mm', hres', hinv', hcond'⟩ | ⟨hres', b, hb, hnc⟩
      · rw [hres']
        refine Or.inl ⟨mm', rfl, hinv'.congr (before_row i), ?_⟩
        intro a b ha hb
        by_cases hai : a = i
        · subst hai; exact hcond' b hb
        · exact hcond a b (by omega) hb
      · rw [hres']
        exact Or.inr ⟨rfl, i, b, by omega, hb, hnc⟩
    · rw [hres, foldl_fillCell_err]
      exact Or.inr ⟨rfl, a, b, by omega, hb, hnc⟩

/-- **functional specification of the positional double loop** for rows of the shape the row loop guarantees:
    either every below-diagonal entry of a square matrix equals (symmetry test) its mirror image and the result
    holds every stored distance, or some entry does not and the result is `NonSymmetric`.
    `IndexError` and a panic are impossible. -/
theorem fillStrict_spec (square : Bool) (rows : List (List L)) (m0 : Mat L)
    (hlen : rows.length = m0.taxa.length)
    (hshape : ∀ i, i < m0.taxa.length → (rows.getD i []).length = limS square m0.taxa.length i)
    (hvs : m0.v.size = T m0.taxa.length) :
    (∃ m', fillStrict cd square rows m0 = .ok m' ∧ m'.taxa = m0.taxa ∧ m'.v.size = T m0.taxa.length ∧
        (∀ a b, a < m0.taxa.length → b < limS square m0.taxa.length a → a ≠ b → ¬ (square = true ∧ b < a) →
            m'.v.getD (cell a b) default = entry rows a b) ∧
        (square = true → ∀ a b, b < a → a < m0.taxa.length →
            cd.numEq (entry rows b a) (entry rows a b) = true)) ∨
    (fillStrict cd square rows m0 = .err "NonSymmetric" ∧ square = true ∧
        ∃ a b, b < a ∧ a < m0.taxa.length ∧ cd.numEq (entry rows b a) (entry rows a b) = false) := by
  unfold fillStrict
  rw [cellsOf_eq square m0.taxa.length rows hlen hshape]
  rcases all_loop cd (R := entry rows) (square := square) m0 rfl hvs m0.taxa.length (Nat.le_refl _) with
    ⟨mm, hres, hinv, hcond⟩ | ⟨hres, a, b, ha, hb, hnc⟩
  · have hsh := foldl_fillCell_shape cd square _ m0 mm hres
    rw [hres]
    refine Or.inl ⟨mm, rfl, hsh.1, hinv.vsize, ?_, ?_⟩
    · intro a b ha hb hab hnc
      exact hinv.cells a b (Or.inl ⟨ha, hb⟩) ⟨hab, hnc⟩ ha
    · intro hsq a b hba ha
      exact hcond a b ha (by simp only [limS, hsq, ↓reduceIte]; omega) hsq hba
  · rw [hres]
    have hsq : square = true := by
      cases square with
      | true => rfl
      | false => exact absurd (fun h => by cases h) hnc
    have hba : b < a := by
      apply Classical.byContradiction
      intro h
      exact hnc (fun _ h' => absurd h' h)
    refine Or.inr ⟨rfl, hsq, a, b, hba, ha, ?_⟩
    cases hq : cd.numEq (entry rows b a) (entry rows a b) with
    | false => rfl
    | true => exact absurd (fun _ _ => hq) hnc

end PHY
