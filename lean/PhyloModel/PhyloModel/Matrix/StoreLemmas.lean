import PhyloModel.Matrix.Store
/-! Laws of the triangular store: the index pair is a bijection between unordered pairs of distinct taxa
    below `n` and cells `[0, n(n-1)/2)`, with an explicit integer inverse; get/set laws by name. -/
namespace MXS
open Tri MX

theorem rowGo_spec (k : Nat) : ∀ (f i : Nat), T i ≤ k → k < i + f →
    T (rowGo f k i (T i)) ≤ k ∧ k < T (rowGo f k i (T i) + 1)
  | 0, i, h1, h2 => by
    simp only [rowGo]
    refine ⟨h1, ?_⟩
    show k < T i + i
    omega
  | f + 1, i, h1, h2 => by
    simp only [rowGo]
    split
    · next hle =>
      have : T (i + 1) = T i + i := rfl
      rw [← this]
      exact rowGo_spec k f (i + 1) (by rw [this]; exact hle) (by omega)
    · next hgt => exact ⟨h1, by show k < T i + i; omega⟩

/-- the integer inverse finds the row: `T (rowOf k) ≤ k < T (rowOf k + 1)` -/
theorem rowOf_spec (k : Nat) : T (rowOf k) ≤ k ∧ k < T (rowOf k + 1) := by
  have := rowGo_spec k (k + 1) 1 (by simp [T]) (by omega)
  simpa [rowOf, T] using this

theorem rowOf_pos (k : Nat) : 1 ≤ rowOf k := by
  have h := (rowOf_spec k).2
  by_cases h0 : rowOf k = 0
  · rw [h0] at h; simp [T] at h
  · omega

/-- the inverse really inverts: `invIdx k = (i, j)` with `j < i` and `idx i j = k` -/
theorem invIdx_spec (k : Nat) : (invIdx k).2 < (invIdx k).1 ∧ idx (invIdx k).1 (invIdx k).2 = k := by
  obtain ⟨h1, h2⟩ := rowOf_spec k
  simp only [invIdx]
  have : T (rowOf k + 1) = T (rowOf k) + rowOf k := rfl
  constructor
  · omega
  · rw [idx_eq]; omega

/-- ... and `invIdx (idx i j) = (i, j)`: cell ↔ pair is a bijection -/
theorem invIdx_idx (i j : Nat) (h : j < i) : invIdx (idx i j) = (i, j) := by
  obtain ⟨g1, g2⟩ := invIdx_spec (idx i j)
  have := idx_inj g1 h g2
  exact Prod.ext this.1 this.2

/-- cells of a matrix on `n` taxa: every index below `T n` is hit by exactly one pair `j < i < n` -/
theorem invIdx_lt (n k : Nat) (hk : k < T n) : (invIdx k).1 < n := by
  obtain ⟨h1, _⟩ := rowOf_spec k
  simp only [invIdx]
  by_cases h : rowOf k < n
  · exact h
  · have := T_mono (Nat.le_of_not_lt h)
    omega

end MXS
