import PhyloModel.Matrix.PhylipFill
import PhyloModel.Matrix.PhylipRT
import PhyloModel.Matrix.PhylipRows
/-! Totality of `from_phylip_strict` (positional fill): for EVERY text the strict parser returns a matrix or
    an error; the out-of-range branch of `fillCell` (Rust `matrix.matrix[idx]`) is unreachable because
    `tril_to_vec_index` only returns `cell i j` with `i ≠ j`, `i, j < size`, the matrix is created with
    `size·(size−1)/2` cells, and storing keeps that length. -/
set_option linter.unusedSectionVars false
namespace PHY
open MXS MX Tri

variable {L : Type} [Inhabited L] (cd : Codec L)

/-- fold-state invariant for totality: no panic, and the cell vector keeps its length -/
def GoodSt : PRes (Mat L) → Prop
  | .ok m => m.v.size = T m.taxa.length
  | .err _ => True
  | .panic => False

theorem fillCell_good (square : Bool) (st : PRes (Mat L)) (p : Nat × Nat × L) (h : GoodSt st) :
    GoodSt (fillCell cd square st p) := by
  cases st with
  | err k => exact h
  | panic => exact h
  | ok m =>
    simp only [GoodSt] at h
    simp only [fillCell]
    split
    · exact h
    · split
      · trivial
      · next k hk =>
        have hlt := cellOf_lt h hk
        simp only [hlt, ↓reduceIte]
        split
        · split
          · exact h
          · trivial
        · simp only [GoodSt, Array.size_setIfInBounds]; exact h

theorem foldl_good (square : Bool) : ∀ (ps : List (Nat × Nat × L)) (st : PRes (Mat L)), GoodSt st →
    GoodSt (ps.foldl (fillCell cd square) st)
  | [], _, h => h
  | p :: ps, st, h => foldl_good square ps _ (fillCell_good cd square st p h)

/-- the double loop never panics on a matrix with `n(n-1)/2` cells, whatever the rows are -/
theorem fillStrict_no_panic (square : Bool) (rows : List (List L)) (m : Mat L)
    (hsz : m.v.size = T m.taxa.length) : fillStrict cd square rows m ≠ .panic := by
  intro h
  have := foldl_good cd square (cellsOf rows) (.ok m) hsz
  unfold fillStrict at h
  rw [h] at this
  exact this

/-- **totality of the strict parser**: for every text and both layouts `from_phylip_strict` returns a matrix
    or an error, never a panic -/
theorem strict_total (text : Text) (square : Bool) : fromPhylipStrict cd text square ≠ .panic := by
  unfold fromPhylipStrict
  split
  · simp
  · split
    · simp
    · next size _ =>
      split
      · next names rows hgo =>
        split
        · simp
        · next hlen =>
          have hlen' : names.length = size := by simpa using hlen
          apply fillStrict_no_panic
          simp [T2_eq_T, hlen']
      · simp
      · next h => exact absurd h (PHY.strictGo_no_panic cd _ _ _ _ _ _)

end PHY
