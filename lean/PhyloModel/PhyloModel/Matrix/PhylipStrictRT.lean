import PhyloModel.Matrix.PhylipFillSpec
import PhyloModel.Matrix.PhylipRT
/-! Round trip through the STRICT parser (positional fill), both layouts:
    `from_phylip_strict (to_phylip m square) square = m` for whitespace-free non-empty names
    (repeated names allowed). -/
set_option linter.unusedSectionVars false
namespace PHY
open MXS MX Tri

variable {L : Type} [Inhabited L] (cd : Codec L)

/-- codec laws for the strict round trip: the `Display`/`FromStr` laws and `zero() == zero()` -/
structure Laws2 (cd : Codec L) : Prop where
  base : Laws cd
  isZero_zero : cd.isZero cd.zero = true

/-- the value the writer prints at position `(i, j)` -/
def cellVal (v : Array L) (i j : Nat) : L := if i = j then cd.zero else v.getD (cell i j) default

/-- the values of written row `i`: `n` of them in the square layout, `i` in the triangular one -/
def rowValsS (square : Bool) (n : Nat) (v : Array L) (i : Nat) : List L :=
  (List.range (if square then n else i)).map (cellVal cd v i)

/-- the text of a row: the name, and after four blanks the values separated by two blanks -/
def rowText (name : String) (vals : List L) : Text :=
  if (joinWith [' ', ' '] (vals.map cd.showL)).isEmpty then name.toList
  else name.toList ++ [' ', ' ', ' ', ' '] ++ joinWith [' ', ' '] (vals.map cd.showL)

theorem rowValsS_length (square : Bool) (n : Nat) (v : Array L) (i : Nat) :
    (rowValsS cd square n v i).length = if square then n else i := by simp [rowValsS]

theorem rowValsS_getD (square : Bool) (n : Nat) (v : Array L) (i j : Nat) (hj : j < if square then n else i) :
    (rowValsS cd square n v i).getD j default = cellVal cd v i j := by
  simp [rowValsS, List.getD_eq_getElem?_getD, hj]

theorem toPhylip_rows (m : Mat L) (square : Bool) :
    toPhylip cd m square =
      joinWith ['\n'] ((toString m.taxa.length).toList ::
        (m.taxa.zipIdx 0).map (fun p => rowText cd p.1 (rowValsS cd square m.taxa.length m.v p.2))) ++ ['\n'] := by
  unfold toPhylip
  simp only [rowText, rowValsS, List.map_map]
  rfl

theorem rowText_line (hl : Laws cd) (name : String) (hn : PH.Word name.toList) (vals : List L) :
    PH.Line (rowText cd name vals) := by
  have key : ∀ c ∈ rowText cd name vals, c ≠ '\n' ∧ c ≠ '\r' := by
    intro c hc
    unfold rowText at hc
    split at hc
    · exact word_char hn hc
    · simp only [List.mem_append] at hc
      rcases hc with (hc | hc) | hc
      · exact word_char hn hc
      · simp at hc; subst hc; exact ⟨by decide, by decide⟩
      · rw [joinWith_eq] at hc
        rcases joinSep_chars _ _ c hc with h | ⟨w, hw, hcw⟩
        · simp at h; subst h; exact ⟨by decide, by decide⟩
        · simp only [List.mem_map] at hw
          obtain ⟨x, _, rfl⟩ := hw
          exact word_char (hl.show_word x) hcw
  refine ⟨fun c hc => (key c hc).1, ?_⟩
  intro h
  exact (key _ (List.mem_of_getLast? h)).2 rfl

/-- the row loop of the strict parser on the written rows -/
theorem strictGo_rows (hl : Laws cd) (square : Bool) (hz : square = true → cd.isZero cd.zero = true) (n : Nat)
    (v : Array L) :
    ∀ (names : List String) (i : Nat) (accN : List String) (accR : List (List L)),
    (∀ nm ∈ names, PH.Word nm.toList) → i + names.length ≤ n →
    strictGo cd n square ((names.zipIdx i).map (fun p => rowText cd p.1 (rowValsS cd square n v p.2))) i accN accR
      = .ok (accN ++ names, accR ++ (names.zipIdx i).map (fun p => rowValsS cd square n v p.2))
  | [], i, accN, accR, _, _ => by simp [strictGo]
  | nm :: names, i, accN, accR, hw, hle => by
    have hle' : i + 1 + names.length ≤ n := by simp only [List.length_cons] at hle; omega
    have ih := strictGo_rows hl square hz n v names (i + 1) (accN ++ [nm]) (accR ++ [rowValsS cd square n v i])
      (fun x hx => hw x (by simp [hx])) hle'
    simp only [List.zipIdx_cons, List.map_cons, strictGo]
    have hi : ¬ (i ≥ n) := by omega
    have hlen := rowValsS_length cd square n v i
    have hr : readRow cd (rowText cd nm (rowValsS cd square n v i)) (n + 1) = .ok (nm.toList, rowValsS cd square n v i) :=
      readRow_written cd hl nm.toList (hw nm (by simp)) (rowValsS cd square n v i) (n + 1)
        (by rw [hlen]; split <;> omega)
    rw [if_neg hi, hr]
    simp only [String.ofList_toList]
    cases square with
    | false =>
      simp only [Bool.false_eq_true, ↓reduceIte] at hlen
      simp only [hlen, Bool.false_and, Bool.not_false, ne_eq, not_true_eq_false, decide_false, Bool.and_false,
        Bool.or_self, Bool.false_eq_true, ↓reduceIte]
      rw [ih]
      simp [List.append_assoc]
    | true =>
      simp only [↓reduceIte] at hlen
      have hd := rowValsS_getD cd true n v i i (by simp only [↓reduceIte]; omega)
      simp only [cellVal, ↓reduceIte] at hd
      simp only [hlen, hd, hz rfl, ne_eq, not_true_eq_false, decide_false, Bool.not_true,
        Bool.and_false, Bool.false_eq_true, ↓reduceIte]
      rw [ih]
      simp [List.append_assoc]

theorem zipIdx_map_snd {α β : Type} (f : Nat → β) : ∀ (l : List α) (k : Nat),
    (l.zipIdx k).map (fun p => f p.2) = (List.range' k l.length).map f
  | [], _ => by simp
  | x :: xs, k => by
    simp only [List.zipIdx_cons, List.map_cons, List.length_cons, List.range'_succ,
      zipIdx_map_snd f xs (k + 1)]

/-- all rows the strict parser reads back from the written text -/
def rowsOf (square : Bool) (n : Nat) (v : Array L) : List (List L) := (List.range n).map (rowValsS cd square n v)

theorem rowsOf_length (square : Bool) (n : Nat) (v : Array L) : (rowsOf cd square n v).length = n := by
  simp [rowsOf]

theorem rowsOf_getD (square : Bool) (n : Nat) (v : Array L) (i : Nat) (hi : i < n) :
    (rowsOf cd square n v).getD i [] = rowValsS cd square n v i := by
  simp [rowsOf, List.getD_eq_getElem?_getD, hi]

theorem rowsOf_shape (square : Bool) (n : Nat) (v : Array L) (i : Nat) (hi : i < n) :
    ((rowsOf cd square n v).getD i []).length = limS square n i := by
  rw [rowsOf_getD cd square n v i hi, rowValsS_length]; rfl

theorem entry_rowsOf (square : Bool) (n : Nat) (v : Array L) (i j : Nat) (hi : i < n)
    (hj : j < limS square n i) : entry (rowsOf cd square n v) i j = cellVal cd v i j := by
  rw [entry, rowsOf_getD cd square n v i hi, rowValsS_getD cd square n v i j hj]

/-- the strict parser applied to the written text reduces to the double loop on the written values -/
theorem strict_of_written (hl : Laws cd) (m : Mat L) (square : Bool) (hz : square = true → cd.isZero cd.zero = true)
    (hnames : ∀ nm ∈ m.taxa, PH.Word nm.toList) (hn : m.taxa.length < 2 ^ 64) :
    fromPhylipStrict cd (toPhylip cd m square) square
      = fillStrict cd square (rowsOf cd square m.taxa.length m.v)
          { taxa := m.taxa, v := Array.replicate (T2 m.taxa.length) cd.zero } := by
  let rows := (m.taxa.zipIdx 0).map (fun p => rowText cd p.1 (rowValsS cd square m.taxa.length m.v p.2))
  have hrows_line : ∀ l ∈ (toString m.taxa.length).toList :: rows, PH.Line l := by
    intro l hlm
    simp only [List.mem_cons] at hlm
    rcases hlm with rfl | hlm
    · exact header_line _
    · simp only [rows, List.mem_map] at hlm
      obtain ⟨⟨name, i⟩, hp, rfl⟩ := hlm
      have hmem : name ∈ m.taxa := by
        obtain ⟨_, _, he⟩ := List.mem_zipIdx hp
        rw [he]; exact List.getElem_mem _
      exact rowText_line cd hl name (hnames name hmem) _
  have hlines : PH.lines (toPhylip cd m square) = (toString m.taxa.length).toList :: rows := by
    rw [toPhylip_rows, join_lines _ (by simp)]
    exact PH.lines_terminated _ hrows_line
  unfold fromPhylipStrict
  rw [hlines]
  simp only [header_roundtrip _ hn]
  have hgo := strictGo_rows cd hl square hz m.taxa.length m.v m.taxa 0 [] [] hnames (by omega)
  simp only [List.nil_append] at hgo
  rw [show rows = (m.taxa.zipIdx 0).map (fun p => rowText cd p.1 (rowValsS cd square m.taxa.length m.v p.2)) from rfl,
    hgo]
  simp only [ne_eq, not_true_eq_false, ↓reduceIte]
  rw [zipIdx_map_snd (rowValsS cd square m.taxa.length m.v) m.taxa 0, ← List.range_eq_range']
  rfl

/-- general form: `zero() == zero()` and "every stored value equals itself" are needed for the square layout only;
    nothing is assumed about repeated names -/
theorem strict_roundtrip_gen (hl : Laws cd) (m : Mat L) (square : Bool)
    (hz : square = true → cd.isZero cd.zero = true) (hnames : ∀ nm ∈ m.taxa, PH.Word nm.toList)
    (hsz : m.v.size = T2 m.taxa.length) (hn : m.taxa.length < 2 ^ 64)
    (hrefl : square = true → ∀ x ∈ m.v.toList, cd.numEq x x = true) :
    fromPhylipStrict cd (toPhylip cd m square) square = .ok m := by
  rw [strict_of_written cd hl m square hz hnames hn, T2_eq_T]
  rw [T2_eq_T] at hsz
  rcases fillStrict_spec cd square (rowsOf cd square m.taxa.length m.v)
      { taxa := m.taxa, v := Array.replicate (T m.taxa.length) cd.zero }
      (rowsOf_length cd square m.taxa.length m.v) (rowsOf_shape cd square m.taxa.length m.v) (by simp) with
    ⟨m', hres, htaxa, hvs, hcells, _⟩ | ⟨_, hsq, a, b, hba, ha, hq⟩
  · rw [hres]
    congr 1
    obtain ⟨taxa', v'⟩ := m'
    obtain ⟨taxa, v⟩ := m
    simp only at htaxa hvs hcells hsz ⊢
    subst htaxa
    congr 1
    apply Array.ext
    · rw [hvs, hsz]
    · intro k hk1 hk2
      obtain ⟨i, j, hji, hin, hidx⟩ := idx_surj taxa'.length k (by rw [← hvs]; exact hk1)
      have hjn : j < taxa'.length := by omega
      have key : v'.getD k default = v.getD k default := by
        cases square with
        | true =>
          have h1 := hcells j i hjn (by simp only [limS, ↓reduceIte]; exact hin) (by omega)
            (by rintro ⟨_, h⟩; omega)
          rw [entry_rowsOf cd true _ v j i hjn (by simp only [limS, ↓reduceIte]; exact hin)] at h1
          have hc : cell j i = k := by
            simp only [cell, gt_iff_lt, show ¬ (i < j) by omega, ↓reduceIte, hidx]
          simpa only [cellVal, show j ≠ i by omega, ↓reduceIte, hc] using h1
        | false =>
          have h1 := hcells i j hin (by simp only [limS, Bool.false_eq_true, ↓reduceIte]; exact hji) (by omega)
            (by rintro ⟨h, _⟩; cases h)
          rw [entry_rowsOf cd false _ v i j hin
            (by simp only [limS, Bool.false_eq_true, ↓reduceIte]; exact hji)] at h1
          have hc : cell i j = k := by
            simp only [cell, gt_iff_lt, hji, ↓reduceIte, hidx]
          simpa only [cellVal, show i ≠ j by omega, ↓reduceIte, hc] using h1
      simpa only [Array.getD_eq_getD_getElem?, Array.getElem?_eq_getElem hk1, Array.getElem?_eq_getElem hk2,
        Option.getD_some] using key
  · exfalso
    subst hsq
    simp only at ha
    have hbn : b < m.taxa.length := by omega
    rw [entry_rowsOf cd true _ m.v b a hbn (by simp only [limS, ↓reduceIte]; exact ha),
      entry_rowsOf cd true _ m.v a b ha (by simp only [limS, ↓reduceIte]; exact hbn)] at hq
    have hne : a ≠ b := by omega
    have hlt : cell a b < m.v.size := by rw [hsz]; exact cell_lt hne ha hbn
    simp only [cellVal, hne, Ne.symm hne, ↓reduceIte, cell_symm b a (Ne.symm hne)] at hq
    have hmem : m.v.getD (cell a b) default ∈ m.v.toList := by
      simp only [Array.getD_eq_getD_getElem?, Array.getElem?_eq_getElem hlt, Option.getD_some]
      exact Array.getElem_mem_toList hlt
    rw [hrefl rfl _ hmem] at hq
    cases hq

/-- **strict round trip, both layouts**: for an entry codec satisfying the laws, a matrix whose taxon names are
    non-empty and whitespace-free (they may repeat), whose cell vector has `n(n-1)/2` entries each equal to
    itself under the symmetry test (no NaN), written in square or triangular form and read back by
    `from_phylip_strict` in the same form, comes back unchanged: same taxa, same value in every cell -/
theorem strict_roundtrip (hl : Laws2 cd) (m : Mat L) (square : Bool) (hnames : ∀ nm ∈ m.taxa, PH.Word nm.toList)
    (hsz : m.v.size = T2 m.taxa.length) (hn : m.taxa.length < 2 ^ 64)
    (hrefl : square = true → ∀ x ∈ m.v.toList, cd.numEq x x = true) :
    fromPhylipStrict cd (toPhylip cd m square) square = .ok m :=
  strict_roundtrip_gen cd hl.base m square (fun _ => hl.isZero_zero) hnames hsz hn hrefl

/-- the triangular layout through the strict parser needs neither `zero() == zero()` nor reflexivity of the
    symmetry test (nothing is compared): NaN distances survive it -/
theorem strict_roundtrip_tril (hl : Laws cd) (m : Mat L) (hnames : ∀ nm ∈ m.taxa, PH.Word nm.toList)
    (hsz : m.v.size = T2 m.taxa.length) (hn : m.taxa.length < 2 ^ 64) :
    fromPhylipStrict cd (toPhylip cd m false) false = .ok m :=
  strict_roundtrip_gen cd hl m false (fun h => by cases h) hnames hsz hn (fun h => by cases h)

/-- the statement in the form "same taxa, same value in every cell" -/
theorem strict_roundtrip_cells (hl : Laws2 cd) (m : Mat L) (square : Bool)
    (hnames : ∀ nm ∈ m.taxa, PH.Word nm.toList) (hsz : m.v.size = T2 m.taxa.length)
    (hn : m.taxa.length < 2 ^ 64) (hrefl : square = true → ∀ x ∈ m.v.toList, cd.numEq x x = true) :
    ∃ m', fromPhylipStrict cd (toPhylip cd m square) square = .ok m' ∧ m'.taxa = m.taxa ∧
      m'.v.size = m.v.size ∧ ∀ k, k < T2 m.taxa.length → m'.v[k]? = m.v[k]? :=
  ⟨m, strict_roundtrip cd hl m square hnames hsz hn hrefl, rfl, rfl, fun _ _ => rfl⟩

end PHY
