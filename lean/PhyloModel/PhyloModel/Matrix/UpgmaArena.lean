import PhyloModel.Matrix.UpgmaClamp
import PhyloModel.Arena.Ops
/-! Executable model of the ARENA that `DistanceMatrix::upgma` (src/distance.rs) builds, next to the numeric loop.

    The real code does not assemble a tree value: it drives the arena API —
    `Tree::new`, `tree.add(Node::new())` (the virtual root, id 0), one `tree.add_child(Node::new_named(t), virt_root, None)`
    per taxon (ids `1..n`, kept in `node_ids`), and per iteration of the loop
    `tree.merge_children(&node_ids[a], &node_ids[b], Some(d_au), Some(d_bu), None, None)` followed by
    `node_ids[a] = u_node`; after the loop the two remaining branch lengths are written on both records of the two
    root branches.  `upgmaShape` performs exactly these calls on the arena model `AR` (Arena/Ops.lean) while the numeric
    state is advanced by the existing `UPG.stepC` (nothing of the minimum search or of the matrix update is repeated
    here).  Arena lengths are `Option Int` and UPGMA lengths are rationals, so every length the real code writes is
    replaced by the placeholder `some 0`; a length the real code leaves absent stays `none`.  No structural step of
    `merge_children` reads a length (its refusals are: unknown id, `child1 == child2`, different parents).

    No proofs here: the driver imports this file. -/
namespace UPG
open MXS MX Tri

/-- the numeric state, the arena, and `node_ids` -/
structure ShSt where
  st : St
  ar : AR.Arena
  ids : Array Nat
deriving Inhabited

/-- the initial numeric state of `upgmaC` -/
def initStC (taxa : List String) (v : Array Rat) : St :=
  { dm := v.map some, card := Array.replicate taxa.length 1, merged := Array.replicate taxa.length false,
    heights := Array.replicate taxa.length 0, clusters := (taxa.map (fun t => URose.node (some t) none [])).toArray,
    rootKids := List.range taxa.length, nClusters := taxa.length, margin := none }

/-- `taxa.iter().map(|n| tree.add_child(Node::new_named(n), virt_root, None).unwrap()).collect_vec()` -/
def addTaxa : List String → AR.Arena → Array Nat → Res (AR.Arena × Array Nat)
  | [], a, ids => .ok (a, ids)
  | t :: ts, a, ids =>
    match AR.addChildNamed a 0 none (some t) with
    | (a', .ok (some id)) => addTaxa ts a' (ids.push id)
    | _ => .panic      -- `.unwrap()`

/-- one iteration of the loop: the numeric state by `stepC`, the arena by `merge_children` on `node_ids[a]`, `node_ids[b]`
    for the pair `(a, b)` that `min()` returned; `.map_err(|_| MatrixError::IndexError)` -/
def stepShape (s : ShSt) : Res ShSt :=
  match stepC s.st with
  | .ok st' =>
    match minCell s.st.dm with
    | some ((a, b), _) =>
      match AR.mergeChildren s.ar (s.ids.getD a 0) (s.ids.getD b 0) (some 0) (some 0) none none with
      | (ar', .ok (some u)) => .ok { st := st', ar := ar', ids := s.ids.setIfInBounds a u }
      | (_, .err _) => .err "IndexError"
      | _ => .panic
    | none => .err "IndexError"
  | .err k => .err k
  | .panic => .panic

def loopShape : Nat → ShSt → Res ShSt
  | 0, s => .ok s
  | f + 1, s => if s.st.nClusters > 2 then (match stepShape s with | .ok s' => loopShape f s' | r => r) else .ok s

/-- `node.parent_edge = Some(v); parent.set_child_edge(x, Some(v))`: one branch length written on both records -/
def writeLen (a : AR.Arena) (x p : Nat) (v : Int) : AR.Arena :=
  let a1 := a.setIfInBounds x { AR.nd a x with pedge := some v }
  a1.setIfInBounds p (AR.setCedge (AR.nd a1 p) x (some v))

/-- the arena before the loop: the virtual root in slot 0, the taxa under it in slots `1..n`, `node_ids = [1, .., n]` -/
def initShape (taxa : List String) (v : Array Rat) : Res ShSt :=
  match addTaxa taxa (AR.add #[] none).1 #[] with
  | .ok (ar0, ids0) => .ok { st := initStC taxa v, ar := ar0, ids := ids0 }
  | .err k => .err k
  | .panic => .panic

/-- the final join on the arena: the two remaining lengths on both records of the two root branches -/
def finishShape (n : Nat) (s : ShSt) : Res AR.Arena :=
  match (List.range n).filter (fun i => !(s.st.merged.getD i true)) with
  | ai :: bi :: _ =>
    match s.st.dm.getD (cell ai bi) none with
    | some _ => .ok (writeLen (writeLen s.ar (s.ids.getD ai 0) 0 0) (s.ids.getD bi 0) 0 0)
    | none => .err "NonFinite"
  | _ => .err "IndexError"

/-- the arena `upgma()` returns, every length replaced by `0` -/
def upgmaShape (taxa : List String) (v : Array Rat) : Res AR.Arena :=
  match initShape taxa v with
  | .ok s0 =>
    match loopShape taxa.length s0 with
    | .ok s => finishShape taxa.length s
    | .err k => .err k
    | .panic => .panic
  | .err k => .err k
  | .panic => .panic

end UPG
