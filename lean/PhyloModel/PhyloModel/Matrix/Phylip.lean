import PhyloModel.Matrix.Store
import PhyloModel.Misc.PhylipStrings
/-! Executable model of the Phylip writer and of the three parsing entry points of `DistanceMatrix`
    (repaired semantics: no panic on a declared size of 0, an extra row or an over-long row).
    Text is `List Char`; `str::lines`, `str::split_whitespace` are `PH.lines`, `PH.splitWs`.
    Entries are values of a type `L` with a codec: `showL` (Rust `Display`), `parseL` (Rust `FromStr`),
    `numEq` (the `!=` of the symmetry test) and `isZero` (comparison with `zero()`). -/
namespace PHY
open MXS MX Tri

abbrev Text := List Char

inductive PRes (β : Type) where
  | ok (v : β) | err (k : String) | panic
deriving Repr

def isDigit (c : Char) : Bool := '0' ≤ c && c ≤ '9'

/-- Rust `usize::from_str`: optional `+`, at least one ASCII digit, value below 2^64 -/
def stripPlus : Text → Text
  | '+' :: r => r
  | r => r

def parseUsize (s : Text) : Option Nat :=
  let body := stripPlus s
  if body.isEmpty || !body.all isDigit then none else
  let v := body.foldl (fun acc c => acc * 10 + (c.toNat - 48)) 0
  if v < 2 ^ 64 then some v else none

structure Codec (L : Type) where
  showL : L → Text
  parseL : Text → Option L
  numEq : L → L → Bool
  isZero : L → Bool
  zero : L

variable {L : Type} [Inhabited L] (cd : Codec L)

def joinWith (sep : Text) : List Text → Text
  | [] => []
  | [x] => x
  | x :: y :: r => x ++ sep ++ joinWith sep (y :: r)

/-- `to_phylip(square)` (repaired: one line for the size, one per taxon, each terminated by a newline — an
    empty matrix has no row line) -/
def toPhylip (m : Mat L) (square : Bool) : Text :=
  let n := m.taxa.length
  let rows := (m.taxa.zipIdx).map (fun (name, i) =>
    let lim := if square then n else i
    let cells := (List.range lim).map (fun j =>
      cd.showL (if i = j then cd.zero else m.v.getD (cell i j) default))
    let rowS := joinWith [' ', ' '] cells
    if rowS.isEmpty then name.toList else name.toList ++ [' ', ' ', ' ', ' '] ++ rowS)
  joinWith ['\n'] ((toString n).toList :: rows) ++ ['\n']

/-- `read_phylip_row`: name, then at most `limit` parsed distances (fields beyond the limit are not parsed) -/
def readRow (row : Text) (limit : Nat) : PRes (Text × List L) :=
  match PH.splitWs row with
  | [] => .err "EmptyRow"
  | name :: fields =>
    match (fields.take limit).mapM cd.parseL with
    | some ds => .ok (name, ds)
    | none => .err "DistParseError"

def T2 (n : Nat) : Nat := n * (n - 1) / 2

/-- row loop of `from_phylip_tril` -/
def trilGo : List Text → Nat → List String → List L → PRes (List String × List L)
  | [], _, taxa, vals => .ok (taxa, vals)
  | l :: ls, i, taxa, vals =>
    match readRow cd l i with
    | .ok (name, ds) =>
      if ds.length ≠ i then .err "MissingDistance" else trilGo ls (i + 1) (taxa ++ [String.ofList name]) (vals ++ ds)
    | .err k => .err k
    | .panic => .panic

/-- `from_phylip_tril` -/
def fromPhylipTril (text : Text) : PRes (Mat L) :=
  match PH.lines text with
  | [] => .err "EmptyMatrixFile"
  | first :: rest =>
    match parseUsize first with
    | none => .err "SizeParseError"
    | some size =>
      match trilGo cd rest 0 [] [] with
      | .ok (taxa, vals) =>
        if taxa.length ≠ size then .err "SizeAndRowsMismatch"
        else if vals.length ≠ T2 taxa.length then .err "SizeError"
        else .ok { taxa := taxa, v := vals.toArray }
      | .err k => .err k
      | .panic => .panic

/-- one cell of the double loop of `from_phylip_strict` (repaired: cells are addressed by POSITION, so repeated
    row labels are harmless): the diagonal is skipped (it was checked by the row loop), an entry above the
    diagonal — or any entry of the triangular layout — is stored, an entry below the diagonal of a square
    matrix is compared with the stored mirror entry -/
def fillCell (square : Bool) (st : PRes (Mat L)) (p : Nat × Nat × L) : PRes (Mat L) :=
  match st with
  | .ok m =>
    if p.1 = p.2.1 then .ok m else
    match MXS.cellOf m p.1 p.2.1 with
    | none => .err "IndexError"
    | some k =>
      if k < m.v.size then
        if square && decide (p.2.1 < p.1) then
          if cd.numEq (m.v.getD k default) p.2.2 then .ok m else .err "NonSymmetric"
        else .ok { m with v := m.v.setIfInBounds k p.2.2 }
      else .panic
  | r => r

/-- the cells of the parsed rows in row-major order, each with its position -/
def cellsOf (rows : List (List L)) : List (Nat × Nat × L) :=
  rows.zipIdx.flatMap (fun ri => ri.1.zipIdx.map (fun dj => (ri.2, dj.2, dj.1)))

/-- the double loop of `from_phylip_strict` -/
def fillStrict (square : Bool) (rows : List (List L)) (m : Mat L) : PRes (Mat L) :=
  (cellsOf rows).foldl (fillCell cd square) (.ok m)

/-- row loop of `from_phylip_strict` -/
def strictGo (size : Nat) (square : Bool) : List Text → Nat → List String → List (List L) → PRes (List String × List (List L))
  | [], _, names, rows => .ok (names, rows)
  | l :: ls, i, names, rows =>
    if i ≥ size then .err "SizeAndRowsMismatch" else
    match readRow cd l (size + 1) with
    | .ok (name, ds) =>
      if (square && ds.length ≠ size) || (!square && ds.length ≠ i) then .err "MissingDistance"
      else if square && !(cd.isZero (ds.getD i default)) then .err "NonZeroDiagonalValue"
      else strictGo size square ls (i + 1) (names ++ [String.ofList name]) (rows ++ [ds])
    | .err k => .err k
    | .panic => .panic

/-- `from_phylip_strict(text, square)` -/
def fromPhylipStrict (text : Text) (square : Bool) : PRes (Mat L) :=
  match PH.lines text with
  | [] => .err "EmptyMatrixFile"
  | first :: rest =>
    match parseUsize first with
    | none => .err "SizeParseError"
    | some size =>
      match strictGo cd size square rest 0 [] [] with
      | .ok (names, rows) =>
        if names.length ≠ size then .err "SizeAndRowsMismatch"
        else fillStrict cd square rows { taxa := names, v := Array.replicate (T2 size) cd.zero }
      | .err k => .err k
      | .panic => .panic

end PHY
