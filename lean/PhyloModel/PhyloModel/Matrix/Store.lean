import PhyloModel.Misc.MatrixStore
/-! Executable model of `DistanceMatrix<T>` storage (src/distance.rs): taxa, the row-wise lower-triangular
    vector, by-name `get`/`set`, `to_map` (repaired: reads through `get`), `min`/`max` (first extremum in cell
    order, strict comparison), `indexed_iter` with the integer inverse of the triangular index.
    Generic in the entry type (a zero and a strict order are all that is used). -/
namespace MXS
open Tri MX

structure Mat (α : Type) where
  taxa : List String
  v : Array α
deriving Repr

variable {α : Type} [Inhabited α]

def size (m : Mat α) : Nat := m.taxa.length

/-- `get_taxa_index` -/
def taxonIdx (m : Mat α) (name : String) : Option Nat :=
  let i := m.taxa.findIdx (· == name)
  if i < m.taxa.length then some i else none

inductive Res (β : Type) where
  | ok (v : β) | err (k : String) | panic
deriving Repr

/-- `tril_to_vec_index` -/
def cellOf (m : Mat α) (i j : Nat) : Option Nat :=
  if i = j ∨ i ≥ size m ∨ j ≥ size m then none else some (cell i j)

/-- `get(id_1, id_2)` -/
def get (zero : α) (m : Mat α) (a b : String) : Res α :=
  if a == b then .ok zero else
  match taxonIdx m a, taxonIdx m b with
  | some i, some j =>
    match cellOf m i j with
    | some k => if k < m.v.size then .ok (m.v.getD k default) else .panic
    | none => .err "IndexError"
  | _, _ => .err "MissingTaxon"

/-- `set(id_1, id_2, dist)` -/
def set (isZero : α → Bool) (m : Mat α) (a b : String) (x : α) : Mat α × Res Unit :=
  if a == b then (m, if isZero x then .ok () else .err "NonZeroIdenticalDistance") else
  match taxonIdx m a, taxonIdx m b with
  | some i, some j =>
    match cellOf m i j with
    | some k => if k < m.v.size then ({ m with v := m.v.setIfInBounds k x }, .ok ()) else (m, .panic)
    | none => (m, .err "IndexError")
  | _, _ => (m, .err "MissingTaxon")

/-- `set_taxa`: replaces the labels, refused when their number differs from the matrix size; no cell changes
    and every later by-name access resolves through the NEW labels -/
def setTaxa (m : Mat α) (taxa : List String) : Mat α × Res Unit :=
  if taxa.length ≠ size m then (m, .err "SizeError") else ({ m with taxa := taxa }, .ok ())

/-- integer inverse of the triangular index: row of linear index `k` (`rowvec_to_tril_index` computes the
    same with `f64::sqrt`; compared through the hook) -/
def rowGo : Nat → Nat → Nat → Nat → Nat   -- fuel, k, candidate row i, T i
  | 0, _, i, _ => i
  | f + 1, k, i, ti => if ti + i ≤ k then rowGo f k (i + 1) (ti + i) else i
def rowOf (k : Nat) : Nat := rowGo (k + 1) k 1 0
def invIdx (k : Nat) : Nat × Nat := (rowOf k, k - T (rowOf k))

/-- `indexed_iter` -/
def indexedIter (m : Mat α) : List ((Nat × Nat) × α) :=
  (List.range m.v.size).map (fun k => (invIdx k, m.v.getD k default))

/-- `min` / `max`: fold keeping the first strict extremum -/
def extremum (lt : α → α → Bool) (m : Mat α) : Option ((Nat × Nat) × α) :=
  (indexedIter m).foldl (fun acc x => match acc with
    | none => some x
    | some a => if lt x.2 a.2 then some x else some a) none

/-- `to_map` (repaired): every ordered pair of taxa, identical taxa included, read through `get` -/
def toMap (zero : α) (m : Mat α) : List ((String × String) × Res α) :=
  m.taxa.flatMap (fun a => m.taxa.map (fun b => ((a, b), get zero m a b)))

/-- `new_with_size` (repaired: size 0 allocates nothing) -/
def newWithSize (zero : α) (n : Nat) : Mat α := { taxa := [], v := Array.replicate (T n) zero }

end MXS
