import PhyloModel.Matrix.Phylip
import PhyloModel.Matrix.StoreLemmas
/-! Row loops of the Phylip parsers: the shape the strict row loop guarantees, and no panic outcome. -/
namespace PHY
open MXS MX Tri

variable {L : Type} [Inhabited L] (cd : Codec L)

/-- strictness of the row loop, in the form used below -/
theorem strict_go (size : Nat) (square : Bool) :
    ∀ (ls : List Text) (i : Nat) (names : List String) (rows : List (List L)) (names' : List String)
      (rows' : List (List L)),
      names.length = i → rows.length = i →
      (∀ k (r : List L), rows[k]? = some r → (if square then r.length = size else r.length = k) ∧
          (square = true → cd.isZero (r.getD k default) = true)) →
      strictGo cd size square ls i names rows = .ok (names', rows') →
      names'.length = i + ls.length ∧ rows'.length = i + ls.length ∧ (ls ≠ [] → i + ls.length ≤ size) ∧
      (∀ k (r : List L), rows'[k]? = some r → (if square then r.length = size else r.length = k) ∧
          (square = true → cd.isZero (r.getD k default) = true)) := by
  intro ls
  induction ls with
  | nil =>
    intro i names rows names' rows' hn hr hrows h
    simp only [strictGo, PRes.ok.injEq, Prod.mk.injEq] at h
    obtain ⟨rfl, rfl⟩ := h
    exact ⟨by simpa using hn, by simpa using hr, by simp, hrows⟩
  | cons l ls ih =>
    intro i names rows names' rows' hn hr hrows h
    simp only [strictGo] at h
    split at h
    · cases h
    · next hlt =>
      split at h
      · next name ds hrow =>
        split at h
        · cases h
        · next hlen =>
          split at h
          · cases h
          · next hdiag =>
            have hlen' : (if square then ds.length = size else ds.length = i) := by
              cases square <;> simp_all
            have := ih (i + 1) (names ++ [String.ofList name]) (rows ++ [ds]) names' rows'
              (by simp [hn]) (by simp [hr])
              (by
                intro k r hk
                by_cases hki : k < rows.length
                · rw [List.getElem?_append_left hki] at hk; exact hrows k r hk
                · have hk' : k = rows.length := by
                    have := List.getElem?_eq_some_iff.mp hk
                    obtain ⟨hb, _⟩ := this
                    simp at hb; omega
                  subst hk'
                  simp at hk; subst hk
                  rw [hr]
                  refine ⟨hlen', ?_⟩
                  intro hsq; subst hsq
                  simpa using hdiag)
              h
            obtain ⟨h1, h2, h3, h4⟩ := this
            refine ⟨by simp at h1 ⊢; omega, by simp at h2 ⊢; omega, ?_, h4⟩
            intro _
            by_cases hls : ls = []
            · subst hls; simp; omega
            · have := h3 hls; simp; omega
      · cases h
      · cases h

theorem readRow_no_panic (row : Text) (limit : Nat) : readRow cd row limit ≠ .panic := by
  unfold readRow
  split
  · simp
  · split <;> simp

theorem strictGo_no_panic (size : Nat) (square : Bool) : ∀ (ls : List Text) (i : Nat) (names : List String)
    (rows : List (List L)), strictGo cd size square ls i names rows ≠ .panic
  | [], _, _, _ => by simp [strictGo]
  | l :: ls, i, names, rows => by
    simp only [strictGo]
    split
    · simp
    · split
      · split
        · simp
        · split
          · simp
          · exact strictGo_no_panic size square ls _ _ _
      · simp
      · next h => exact absurd h (readRow_no_panic cd l (size + 1))

end PHY
