import PhyloModel.Matrix.Upgma
/-! Executable model of `DistanceMatrix::upgma` (src/distance.rs) AFTER the repair that clamps at zero every
    branch length computed as a difference of heights (`fn non_negative`).  `stepC`, `loopC`, `upgmaC` are copies
    of `UPG.step`, `UPG.loop`, `UPG.upgma` (Matrix/Upgma.lean) with exactly the changes of the repair:

    * `d_au = non_negative(node_height - heights[a])`, `d_bu = non_negative(node_height - heights[b])`;
    * `heights[a] += d_au` (so the new height of the reused index is `heights[a] + d_au`, not `node_height`);
    * after the loop `d_ar = non_negative(tree_height - heights[a_i])`, `d_br = non_negative(tree_height - heights[b_i])`.

    Minimum search, retirement of row `b`, size-weighted update and the bookkeeping fields are unchanged.
    No proofs here: the driver imports this file. -/
namespace UPG
open MXS MX Tri

/-- `fn non_negative(length) = if length < 0. { 0. } else { length }` -/
def nonNeg (x : Rat) : Rat := if x < 0 then 0 else x

/-- one iteration of the `while n_clusters > 2` loop, clamped branch lengths -/
def stepC (st : St) : Res St :=
  match minCell st.dm with
  | none => .err "IndexError"
  | some ((a, b), none) =>
    if st.merged.getD a true || st.merged.getD b true then .err "IndexError" else .err "IndexError"
  | some ((a, b), some dab) =>
    if st.merged.getD a true || st.merged.getD b true then .err "IndexError" else
    let h := dab / 2
    let dau := nonNeg (h - st.heights.getD a 0)
    let dbu := nonNeg (h - st.heights.getD b 0)
    let merged := st.merged.setIfInBounds b true
    let heights := st.heights.setIfInBounds a (st.heights.getD a 0 + dau)
    let ca : Rat := (st.card.getD a 0 : Nat)
    let cb : Rat := (st.card.getD b 0 : Nat)
    let n := st.merged.size
    let dm := (List.range n).foldl (fun (dm : Array Cell) x =>
      if merged.getD x true then dm else
      let dm1 :=
        if x != a && x != b then
          match st.dm.getD (cell x a) none, st.dm.getD (cell x b) none with
          | some dax, some dbx => dm.setIfInBounds (cell a x) (some ((ca * dax + cb * dbx) / (ca + cb)))
          | _, _ => dm.setIfInBounds (cell a x) none
        else dm
      if x != b then dm1.setIfInBounds (cell b x) none else dm1) st.dm
    let gap := match nextAbove st.dm dab with | some nx => some (nx - dab) | none => none
    let margin := match st.margin, gap with
      | some m, some g => some (if g < m then g else m)
      | none, g => g
      | m, none => m
    let ties := (st.dm.toList.filter (fun v => v == some dab)).length
    let newVals := (List.range n).filterMap (fun x =>
      if merged.getD x true || x == a || x == b then none else dm.getD (cell a x) none)
    .ok { st with dm := dm, merged := merged, heights := heights,
                  tie := st.tie || ties > 1, dyadic := st.dyadic && newVals.all isDyadic && isDyadic (dab / 2),
                  clusters := st.clusters.setIfInBounds a (mergeTrees (st.clusters.getD a default) (st.clusters.getD b default) dau dbu),
                  rootKids := ((st.rootKids.erase a).erase b) ++ [a],
                  card := st.card.setIfInBounds a (st.card.getD a 0 + st.card.getD b 0),
                  nClusters := st.nClusters - 1, margin := margin }

def loopC : Nat → St → Res St
  | 0, st => .ok st
  | f + 1, st => if st.nClusters > 2 then (match stepC st with | .ok st' => loopC f st' | r => r) else .ok st

/-- `upgma()` after the repair: the tree and the smallest positive decision margin met -/
def upgmaC (taxa : List String) (v : Array Rat) : Res (URose × Option Rat × Bool × Bool) :=
  let n := taxa.length
  let st0 : St := { dm := v.map some, card := Array.replicate n 1, merged := Array.replicate n false,
                    heights := Array.replicate n 0, clusters := (taxa.map (fun t => URose.node (some t) none [])).toArray,
                    rootKids := List.range n, nClusters := n, margin := none }
  match loopC n st0 with
  | .ok st =>
    match (List.range n).filter (fun i => !(st.merged.getD i true)) with
    | ai :: bi :: _ =>
      match st.dm.getD (cell ai bi) none with
      | some dab =>
        let h := dab / 2
        let kids := st.rootKids.map (fun i =>
          let t := st.clusters.getD i default
          if i == ai then t.setLen (some (nonNeg (h - st.heights.getD ai 0)))
          else if i == bi then t.setLen (some (nonNeg (h - st.heights.getD bi 0))) else t)
        .ok (.node none none kids, st.margin, st.tie, st.dyadic && isDyadic h)
      | none => .err "NonFinite"
    | _ => .err "IndexError"
  | .err k => .err k
  | .panic => .panic

end UPG
