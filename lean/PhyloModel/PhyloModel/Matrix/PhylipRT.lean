import PhyloModel.Matrix.Phylip
/-! Round trip `from_phylip_tril (to_phylip m false) = m`, assembled from the string-layer lemmas. -/
namespace PHY
open MXS MX Tri

variable {L : Type} [Inhabited L] (cd : Codec L)

/-- what the round trip needs from Rust's `Display` / `FromStr` pair for the entry type -/
structure Laws (cd : Codec L) : Prop where
  parse_show : ∀ x, cd.parseL (cd.showL x) = some x
  show_word : ∀ x, PH.Word (cd.showL x)

theorem joinWith_eq : ∀ (sep : Text) (ws : List Text), joinWith sep ws = PH.joinSep sep ws
  | _, [] => rfl
  | _, [_] => rfl
  | sep, x :: y :: r => by simp only [joinWith, PH.joinSep, joinWith_eq sep (y :: r)]

theorem join_lines : ∀ (ls : List Text), ls ≠ [] →
    joinWith ['\n'] ls ++ ['\n'] = ls.flatMap (fun l => l ++ ['\n'])
  | [], h => absurd rfl h
  | [x], _ => by simp [joinWith]
  | x :: y :: r, _ => by
    have ih := join_lines (y :: r) (by simp)
    rw [List.flatMap_cons, ← ih]
    simp only [joinWith, List.append_assoc]

/-! ### the size line -/

theorem isDigit_facts (c : Char) (h : c.isDigit = true) :
    isDigit c = true ∧ c ≠ '\n' ∧ c ≠ '\r' ∧ c ≠ '+' := by
  simp only [Char.isDigit, Bool.and_eq_true, decide_eq_true_eq] at h
  refine ⟨?_, ?_, ?_, ?_⟩
  · simp only [isDigit, Bool.and_eq_true, decide_eq_true_eq]
    constructor
    · show (48 : UInt32) ≤ c.val; exact h.1
    · show c.val ≤ (57 : UInt32); exact h.2
  all_goals (intro e; subst e; revert h; decide)

theorem digits_value : ∀ (n : Nat),
    (Nat.toDigits 10 n).foldl (fun acc (c : Char) => acc * 10 + (c.toNat - 48)) 0 = n := by
  intro n
  induction n using Nat.strongRecOn with
  | _ n ih =>
    rw [Nat.toDigits_eq_if (by decide)]
    split
    next h => simp [Nat.toNat_digitChar_sub_48_of_lt_ten h]
    next h =>
      rw [List.foldl_append, ih (n / 10) (by omega)]
      simp only [List.foldl_cons, List.foldl_nil]
      rw [Nat.toNat_digitChar_sub_48_of_lt_ten (Nat.mod_lt _ (by decide))]
      omega

theorem header_roundtrip (n : Nat) (hn : n < 2 ^ 64) : parseUsize (toString n).toList = some n := by
  have hl : (toString n).toList = Nat.toDigits 10 n := by simp
  have hd : ∀ c ∈ Nat.toDigits 10 n, c.isDigit = true :=
    fun c hc => Nat.isDigit_of_mem_toDigits (by decide) (by decide) hc
  have hne : Nat.toDigits 10 n ≠ [] := Nat.toDigits_ne_nil
  unfold parseUsize
  rw [hl]
  have hbody : stripPlus (Nat.toDigits 10 n) = Nat.toDigits 10 n := by
    cases hh : Nat.toDigits 10 n with
    | nil => rfl
    | cons c cs =>
      have := (isDigit_facts c (hd c (by rw [hh]; simp))).2.2.2
      unfold stripPlus
      split
      next heq => cases heq; exact absurd rfl this
      next => rfl
  simp only [hbody]
  have hall : (Nat.toDigits 10 n).all isDigit = true := by
    rw [List.all_eq_true]; intro c hc; exact (isDigit_facts c (hd c hc)).1
  have hemp : (Nat.toDigits 10 n).isEmpty = false := by
    cases hh : Nat.toDigits 10 n with
    | nil => exact absurd hh hne
    | cons _ _ => rfl
  simp only [hemp, hall, Bool.not_true, Bool.or_self, Bool.false_eq_true, ↓reduceIte, digits_value, hn]

theorem header_line (n : Nat) : PH.Line (toString n).toList := by
  have hl : (toString n).toList = Nat.toDigits 10 n := by simp
  have hd : ∀ c ∈ Nat.toDigits 10 n, c.isDigit = true :=
    fun c hc => Nat.isDigit_of_mem_toDigits (by decide) (by decide) hc
  rw [hl]
  refine ⟨fun c hc => (isDigit_facts c (hd c hc)).2.1, ?_⟩
  intro h
  have : '\r' ∈ Nat.toDigits 10 n := List.mem_of_getLast? h
  exact (isDigit_facts _ (hd _ this)).2.2.1 rfl

/-! ### one row -/

theorem sep2 : PH.Sep [' ', ' '] := ⟨by simp, by intro c hc; simp at hc; subst hc; decide⟩
theorem sep4 : PH.Sep [' ', ' ', ' ', ' '] := ⟨by simp, by intro c hc; simp at hc; subst hc; decide⟩

theorem joinSep_nonempty (sep : Text) : ∀ (ws : List Text), ws ≠ [] → (∀ w ∈ ws, PH.Word w) → PH.joinSep sep ws ≠ []
  | [], h, _ => absurd rfl h
  | [w], _, hw => by simpa [PH.joinSep] using (hw w (by simp)).1
  | w :: w2 :: r, _, hw => by
    have := (hw w (by simp)).1
    simp [PH.joinSep, this]

/-- a written row splits back into its name and its cells -/
theorem split_row (name : Text) (hn : PH.Word name) (ws : List Text) (hw : ∀ w ∈ ws, PH.Word w) :
    PH.splitWs (if (joinWith [' ', ' '] ws).isEmpty then name
                else name ++ [' ', ' ', ' ', ' '] ++ joinWith [' ', ' '] ws) = name :: ws := by
  rw [joinWith_eq]
  cases ws with
  | nil =>
    simp only [PH.joinSep, List.isEmpty_nil, ↓reduceIte]
    have := PH.split_join [' '] ⟨by simp, by intro c hc; simp at hc; subst hc; decide⟩ [name] (by simpa using hn)
    simpa [PH.joinSep] using this
  | cons w r =>
    have hne : PH.joinSep [' ', ' '] (w :: r) ≠ [] := joinSep_nonempty _ _ (by simp) hw
    have hemp : (PH.joinSep [' ', ' '] (w :: r)).isEmpty = false := by
      cases h : PH.joinSep [' ', ' '] (w :: r) with
      | nil => exact absurd h hne
      | cons _ _ => rfl
    simp only [hemp, Bool.false_eq_true, ↓reduceIte]
    unfold PH.splitWs
    rw [List.append_assoc, PH.aux_word name hn.2]
    simp only [List.append_nil]
    rw [PH.aux_sep_flush _ sep4 _ _ (by simpa using hn.1)]
    have := PH.split_join [' ', ' '] sep2 (w :: r) hw
    unfold PH.splitWs at this
    rw [this]; simp

theorem mapM_parse_show (hl : Laws cd) : ∀ (vals : List L), (vals.map cd.showL).mapM cd.parseL = some vals
  | [] => by simp
  | x :: xs => by
    simp only [List.map_cons, List.mapM_cons, hl.parse_show, mapM_parse_show hl xs]
    rfl

/-- `read_phylip_row` on a written row, for any limit that covers all its cells -/
theorem readRow_written (hl : Laws cd) (name : Text) (hn : PH.Word name) (vals : List L) (limit : Nat)
    (hlim : vals.length ≤ limit) :
    readRow cd (if (joinWith [' ', ' '] (vals.map cd.showL)).isEmpty then name
                else name ++ [' ', ' ', ' ', ' '] ++ joinWith [' ', ' '] (vals.map cd.showL)) limit
      = .ok (name, vals) := by
  unfold readRow
  rw [split_row name hn (vals.map cd.showL) (by intro w hw; simp at hw; obtain ⟨x, _, rfl⟩ := hw; exact hl.show_word x)]
  simp only
  rw [List.take_of_length_le (by simpa using hlim), mapM_parse_show cd hl vals]

/-! ### all rows of the triangular layout -/

/-- the values of row `i` (columns `0 … i-1`) -/
def rowVals (v : Array L) (i : Nat) : List L := (List.range i).map (fun j => v.getD (cell i j) default)

/-- the text of row `i` in the triangular layout -/
def trilRow (name : String) (v : Array L) (i : Nat) : Text :=
  if (joinWith [' ', ' '] ((rowVals v i).map cd.showL)).isEmpty then name.toList
  else name.toList ++ [' ', ' ', ' ', ' '] ++ joinWith [' ', ' '] ((rowVals v i).map cd.showL)

theorem rowVals_length (v : Array L) (i : Nat) : (rowVals v i).length = i := by simp [rowVals]

theorem trilGo_rows (hl : Laws cd) (v : Array L) : ∀ (names : List String) (i : Nat) (taxa : List String)
    (vals : List L), (∀ nm ∈ names, PH.Word nm.toList) →
    trilGo cd ((names.zipIdx i).map (fun p => trilRow cd p.1 v p.2)) i taxa vals
      = .ok (taxa ++ names, vals ++ (names.zipIdx i).flatMap (fun p => rowVals v p.2))
  | [], i, taxa, vals, _ => by simp [trilGo]
  | nm :: names, i, taxa, vals, hw => by
    have ih := trilGo_rows hl v names (i + 1) (taxa ++ [nm]) (vals ++ rowVals v i)
      (fun x hx => hw x (by simp [hx]))
    simp only [List.zipIdx_cons, List.map_cons, trilGo]
    have hr : readRow cd (trilRow cd nm v i) i = .ok (nm.toList, rowVals v i) :=
      readRow_written cd hl nm.toList (hw nm (by simp)) (rowVals v i) i (by simp [rowVals_length])
    rw [hr]
    simp only [rowVals_length, ne_eq, not_true_eq_false, ↓reduceIte, String.ofList_toList]
    rw [ih]
    simp [List.flatMap_cons, List.append_assoc]

theorem zipIdx_flatMap_snd {α β : Type} (f : Nat → List β) : ∀ (l : List α) (k : Nat),
    (l.zipIdx k).flatMap (fun p => f p.2) = (List.range' k l.length).flatMap f
  | [], _ => by simp
  | x :: xs, k => by
    simp only [List.zipIdx_cons, List.flatMap_cons, List.length_cons, List.range'_succ,
      zipIdx_flatMap_snd f xs (k + 1)]

theorem flat_rows (v : Array L) : ∀ (n : Nat),
    (List.range n).flatMap (rowVals v) = (List.range (T n)).map (fun k => v.getD k default)
  | 0 => by simp [T]
  | n + 1 => by
    rw [List.range_succ, List.flatMap_append, flat_rows v n]
    simp only [List.flatMap_cons, List.flatMap_nil, List.append_nil, T]
    rw [List.range_add, List.map_append]
    congr 1
    simp only [rowVals, List.map_map]
    apply List.map_congr_left
    intro j hj
    have hj' : j < n := List.mem_range.1 hj
    simp only [Function.comp, cell, gt_iff_lt, hj', ↓reduceIte, idx_eq]

theorem array_toList_getD (v : Array L) : (List.range v.size).map (fun k => v.getD k default) = v.toList := by
  apply List.ext_getElem
  · simp
  · intro i h1 h2
    simp only [List.length_map, List.length_range] at h1
    simp [Array.getD_eq_getD_getElem?, h1]

theorem T2_eq_T (n : Nat) : T2 n = T n := by
  have := T_closed n
  unfold T2
  omega

/-! ### the whole text -/

theorem joinSep_chars (sep : Text) : ∀ (ws : List Text) (c : Char), c ∈ PH.joinSep sep ws →
    c ∈ sep ∨ ∃ w ∈ ws, c ∈ w
  | [], c, h => by simp [PH.joinSep] at h
  | [w], c, h => by simp only [PH.joinSep] at h; exact Or.inr ⟨w, by simp, h⟩
  | w :: w2 :: r, c, h => by
    simp only [PH.joinSep, List.mem_append] at h
    rcases h with (h | h) | h
    · exact Or.inr ⟨w, by simp, h⟩
    · exact Or.inl h
    · rcases joinSep_chars sep (w2 :: r) c h with h' | ⟨x, hx, hc⟩
      · exact Or.inl h'
      · exact Or.inr ⟨x, by simp [hx], hc⟩

theorem word_char {w : Text} (hw : PH.Word w) {c : Char} (hc : c ∈ w) : c ≠ '\n' ∧ c ≠ '\r' := by
  have := hw.2 c hc
  constructor <;> (intro e; subst e; revert this; decide)

theorem trilRow_line (hl : Laws cd) (name : String) (hn : PH.Word name.toList) (v : Array L) (i : Nat) :
    PH.Line (trilRow cd name v i) := by
  have key : ∀ c ∈ trilRow cd name v i, c ≠ '\n' ∧ c ≠ '\r' := by
    intro c hc
    unfold trilRow at hc
    split at hc
    · exact word_char hn hc
    · simp only [List.mem_append] at hc
      rcases hc with (hc | hc) | hc
      · exact word_char hn hc
      · simp at hc; subst hc; exact ⟨by decide, by decide⟩
      · rw [joinWith_eq] at hc
        rcases joinSep_chars _ _ c hc with h | ⟨w, hw, hcw⟩
        · simp at h; subst h; exact ⟨by decide, by decide⟩
        · simp only [List.mem_map] at hw
          obtain ⟨x, _, rfl⟩ := hw
          exact word_char (hl.show_word x) hcw
  refine ⟨fun c hc => (key c hc).1, ?_⟩
  intro h
  exact (key _ (List.mem_of_getLast? h)).2 rfl

theorem toPhylip_tril_rows (m : Mat L) :
    toPhylip cd m false =
      joinWith ['\n'] ((toString m.taxa.length).toList :: (m.taxa.zipIdx 0).map (fun p => trilRow cd p.1 m.v p.2))
        ++ ['\n'] := by
  unfold toPhylip
  simp only [Bool.false_eq_true, ↓reduceIte]
  congr 3
  apply List.map_congr_left
  intro p hp
  obtain ⟨name, i⟩ := p
  have hcells : (List.range i).map (fun j => cd.showL (if i = j then cd.zero else m.v.getD (cell i j) default))
      = (rowVals m.v i).map cd.showL := by
    simp only [rowVals, List.map_map]
    apply List.map_congr_left
    intro j hj
    have : j < i := List.mem_range.1 hj
    have hne : i ≠ j := by omega
    simp [hne]
  simp only [trilRow, hcells]

/-- **triangular round trip**: for a matrix with whitespace-free non-empty taxon names, a cell vector of the
    right length and an entry codec satisfying the two laws, `from_phylip_tril (to_phylip m false) = m`:
    the same taxa in the same order and the same value in every cell -/
theorem tril_roundtrip (hl : Laws cd) (m : Mat L) (hnames : ∀ nm ∈ m.taxa, PH.Word nm.toList)
    (hsz : m.v.size = T2 m.taxa.length) (hn : m.taxa.length < 2 ^ 64) :
    fromPhylipTril cd (toPhylip cd m false) = .ok m := by
  let rows := (m.taxa.zipIdx 0).map (fun p => trilRow cd p.1 m.v p.2)
  have hrows_line : ∀ l ∈ (toString m.taxa.length).toList :: rows, PH.Line l := by
    intro l hlm
    simp only [List.mem_cons] at hlm
    rcases hlm with rfl | hlm
    · exact header_line _
    · simp only [rows, List.mem_map] at hlm
      obtain ⟨⟨name, i⟩, hp, rfl⟩ := hlm
      have hmem : name ∈ m.taxa := by
        obtain ⟨_, _, he⟩ := List.mem_zipIdx hp
        rw [he]; exact List.getElem_mem _
      exact trilRow_line cd hl name (hnames name hmem) m.v i
  have hlines : PH.lines (toPhylip cd m false) = (toString m.taxa.length).toList :: rows := by
    rw [toPhylip_tril_rows, join_lines _ (by simp)]
    exact PH.lines_terminated _ hrows_line
  unfold fromPhylipTril
  rw [hlines]
  simp only [header_roundtrip _ hn]
  have hgo := trilGo_rows cd hl m.v m.taxa 0 [] [] hnames
  simp only [List.nil_append] at hgo
  rw [show rows = (m.taxa.zipIdx 0).map (fun p => trilRow cd p.1 m.v p.2) from rfl, hgo]
  have hflat : (m.taxa.zipIdx 0).flatMap (fun p => rowVals m.v p.2) = m.v.toList := by
    rw [zipIdx_flatMap_snd (rowVals m.v) m.taxa 0, ← List.range_eq_range', flat_rows, ← T2_eq_T, ← hsz,
      array_toList_getD]
  simp only [hflat, ne_eq, not_true_eq_false, ↓reduceIte, Array.length_toList, hsz, Array.toArray_toList]

end PHY
