import PhyloModel.Matrix.Phylip
import PhyloModel.Matrix.StoreLemmas
import PhyloModel.Matrix.StoreByName
/-! The positional double loop of `from_phylip_strict` (`fillCell` folded over `cellsOf rows`): basic facts.
    Errors propagate, the taxa and the number of cells never change, and for rows of the shape guaranteed by
    the row loop the list of cells is the row-major list of index pairs. -/
set_option linter.unusedSectionVars false
namespace PHY
open MXS MX Tri

variable {L : Type} [Inhabited L] (cd : Codec L)

theorem fillCell_err (square : Bool) (k : String) (p : Nat × Nat × L) :
    fillCell cd square (.err k) p = .err k := rfl

theorem foldl_fillCell_err (square : Bool) (k : String) : ∀ (ps : List (Nat × Nat × L)),
    ps.foldl (fillCell cd square) (.err k) = .err k
  | [] => rfl
  | _ :: ps => foldl_fillCell_err square k ps

/-- one step keeps the taxa and the number of cells -/
theorem fillCell_shape (square : Bool) (m m' : Mat L) (p : Nat × Nat × L)
    (h : fillCell cd square (.ok m) p = .ok m') : m'.taxa = m.taxa ∧ m'.v.size = m.v.size := by
  simp only [fillCell] at h
  split at h
  · cases h; exact ⟨rfl, rfl⟩
  · split at h
    · cases h
    · split at h
      · split at h
        · split at h
          · cases h; exact ⟨rfl, rfl⟩
          · cases h
        · cases h; exact ⟨rfl, by simp⟩
      · cases h

theorem foldl_fillCell_shape (square : Bool) : ∀ (ps : List (Nat × Nat × L)) (m m' : Mat L),
    ps.foldl (fillCell cd square) (.ok m) = .ok m' → m'.taxa = m.taxa ∧ m'.v.size = m.v.size
  | [], m, m', h => by cases h; exact ⟨rfl, rfl⟩
  | p :: ps, m, m', h => by
    simp only [List.foldl_cons] at h
    cases hs : fillCell cd square (.ok m) p with
    | ok m1 =>
      rw [hs] at h
      have h1 := fillCell_shape cd square m m1 p hs
      have h2 := foldl_fillCell_shape square ps m1 m' h
      exact ⟨h2.1.trans h1.1, h2.2.trans h1.2⟩
    | err k => rw [hs, foldl_fillCell_err] at h; cases h
    | panic =>
      rw [hs] at h
      have : ∀ (qs : List (Nat × Nat × L)), qs.foldl (fillCell cd square) .panic = .panic := by
        intro qs; induction qs with
        | nil => rfl
        | cons q qs ih => exact ih
      rw [this] at h; cases h

/-- the matrix returned by the double loop has the taxa and the number of cells it started with -/
theorem fillStrict_shape (square : Bool) (rows : List (List L)) (m m' : Mat L)
    (h : fillStrict cd square rows m = .ok m') : m'.taxa = m.taxa ∧ m'.v.size = m.v.size :=
  foldl_fillCell_shape cd square _ m m' h

/-! ### the list of cells as index pairs -/

/-- number of distances of row `i`: `n` in the square layout, `i` in the triangular one -/
def limS (square : Bool) (n i : Nat) : Nat := if square then n else i

/-- distance `j` of row `i` -/
def entry (rows : List (List L)) (i j : Nat) : L := (rows.getD i []).getD j default

theorem zipIdx_eq_range_map {α : Type} (l : List α) (d : α) :
    l.zipIdx = (List.range l.length).map (fun k => (l.getD k d, k)) := by
  apply List.ext_getElem
  · simp
  · intro i h1 h2
    simp only [List.length_zipIdx] at h1
    simp [List.getD_eq_getElem?_getD, h1]

/-- the cells in row-major order -/
def cellsIdx (lim : Nat → Nat) (R : Nat → Nat → L) (n : Nat) : List (Nat × Nat × L) :=
  (List.range n).flatMap (fun i => (List.range (lim i)).map (fun j => (i, j, R i j)))

theorem cellsOf_eq (square : Bool) (n : Nat) (rows : List (List L)) (hlen : rows.length = n)
    (hshape : ∀ i, i < n → (rows.getD i []).length = limS square n i) :
    cellsOf rows = cellsIdx (limS square n) (entry rows) n := by
  unfold cellsOf cellsIdx
  rw [zipIdx_eq_range_map rows [], List.flatMap_map, hlen, List.flatMap_def, List.flatMap_def]
  congr 1
  apply List.map_congr_left
  intro i hi
  have hi' : i < n := List.mem_range.1 hi
  simp only
  rw [zipIdx_eq_range_map (rows.getD i []) default, List.map_map, hshape i hi']
  rfl

end PHY
