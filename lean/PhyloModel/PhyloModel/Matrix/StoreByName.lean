import PhyloModel.Matrix.Store
import PhyloModel.Matrix.StoreLemmas
/-! By-name `get`/`set` of the triangular store: they never reach the out-of-range indexing branch on a
    matrix whose cell vector has the right length, and on duplicate-free taxa they are `get`/`set` by position. -/
set_option linter.unusedSectionVars false
namespace MXS
open Tri MX

variable {α : Type} [Inhabited α]

theorem cellOf_some {m : Mat α} {i j k : Nat} (h : cellOf m i j = some k) :
    k = cell i j ∧ i ≠ j ∧ i < m.taxa.length ∧ j < m.taxa.length := by
  unfold cellOf size at h
  split at h
  · cases h
  · next hc =>
    simp only [Option.some.injEq] at h
    refine ⟨h.symm, ?_, ?_, ?_⟩ <;> omega

theorem cellOf_lt {m : Mat α} {i j k : Nat} (hsz : m.v.size = T m.taxa.length) (h : cellOf m i j = some k) :
    k < m.v.size := by
  obtain ⟨rfl, h1, h2, h3⟩ := cellOf_some h
  rw [hsz]; exact cell_lt h1 h2 h3

/-- `get` never reaches the out-of-range indexing when the cell vector has `n(n-1)/2` entries -/
theorem get_no_panic (zero : α) (m : Mat α) (hsz : m.v.size = T m.taxa.length) (a b : String) :
    get zero m a b ≠ .panic := by
  unfold get
  split
  · simp
  · split
    · split
      · next k hk => simp [cellOf_lt hsz hk]
      · simp
    · simp

theorem set_no_panic (isZero : α → Bool) (m : Mat α) (hsz : m.v.size = T m.taxa.length) (a b : String) (x : α) :
    (set isZero m a b x).2 ≠ .panic := by
  unfold set
  split
  · split <;> simp
  · split
    · split
      · next k hk => simp [cellOf_lt hsz hk]
      · simp
    · simp

theorem set_taxa (isZero : α → Bool) (m : Mat α) (a b : String) (x : α) :
    (set isZero m a b x).1.taxa = m.taxa := by
  unfold set
  repeat' split
  all_goals rfl

theorem set_vsize (isZero : α → Bool) (m : Mat α) (a b : String) (x : α) :
    (set isZero m a b x).1.v.size = m.v.size := by
  unfold set
  repeat' split
  all_goals simp

/-! ### duplicate-free taxa: by-name access is access by position -/

theorem findIdx_nodup (l : List String) (hnd : l.Nodup) (i : Nat) (hi : i < l.length) :
    l.findIdx (· == l[i]) = i := by
  rw [List.findIdx_eq hi]
  refine ⟨by simp, ?_⟩
  intro j hji
  have := (List.pairwise_iff_getElem.1 (List.nodup_iff_pairwise_ne.1 hnd)) j i (by omega) hi hji
  simpa using this

theorem taxonIdx_nodup (m : Mat α) (hnd : m.taxa.Nodup) (i : Nat) (hi : i < m.taxa.length) :
    taxonIdx m (m.taxa.getD i "") = some i := by
  unfold taxonIdx
  have : m.taxa.getD i "" = m.taxa[i] := (List.getElem_eq_getD "").symm
  rw [this, findIdx_nodup m.taxa hnd i hi]
  simp [hi]

theorem name_inj (l : List String) (hnd : l.Nodup) (i j : Nat) (hi : i < l.length) (hj : j < l.length) :
    l.getD i "" = l.getD j "" ↔ i = j := by
  rw [← List.getElem_eq_getD (h := hi) "", ← List.getElem_eq_getD (h := hj) ""]
  constructor
  · intro h
    have hp := List.pairwise_iff_getElem.1 (List.nodup_iff_pairwise_ne.1 hnd)
    rcases Nat.lt_trichotomy i j with h1 | h1 | h1
    · exact absurd h (hp i j hi hj h1)
    · exact h1
    · exact absurd h.symm (hp j i hj hi h1)
  · intro h; subst h; rfl

/-- `get` by the names at positions `i`, `j` of a duplicate-free taxa list reads cell `(i, j)` -/
theorem get_idx (zero : α) (m : Mat α) (hnd : m.taxa.Nodup) (hsz : m.v.size = T m.taxa.length) (i j : Nat)
    (hi : i < m.taxa.length) (hj : j < m.taxa.length) :
    get zero m (m.taxa.getD i "") (m.taxa.getD j "")
      = .ok (if i = j then zero else m.v.getD (cell i j) default) := by
  unfold get
  by_cases hij : i = j
  · subst hij; simp
  · have hne : ¬ (m.taxa.getD i "" = m.taxa.getD j "") := by rw [name_inj _ hnd i j hi hj]; exact hij
    have hlt := cell_lt hij hi hj
    simp only [beq_iff_eq, hne, ↓reduceIte, taxonIdx_nodup m hnd i hi, taxonIdx_nodup m hnd j hj, cellOf, size,
      hij, ge_iff_le, false_or]
    rw [if_neg (by omega)]
    simp only [hsz, hlt, ↓reduceIte]

/-- `set` by the names at positions `i`, `j` of a duplicate-free taxa list writes cell `(i, j)` -/
theorem set_idx (isZero : α → Bool) (m : Mat α) (hnd : m.taxa.Nodup) (hsz : m.v.size = T m.taxa.length) (i j : Nat)
    (hi : i < m.taxa.length) (hj : j < m.taxa.length) (x : α) :
    set isZero m (m.taxa.getD i "") (m.taxa.getD j "") x
      = if i = j then (m, if isZero x then .ok () else .err "NonZeroIdenticalDistance")
        else ({ m with v := m.v.setIfInBounds (cell i j) x }, .ok ()) := by
  unfold set
  by_cases hij : i = j
  · subst hij; simp
  · have hne : ¬ (m.taxa.getD i "" = m.taxa.getD j "") := by rw [name_inj _ hnd i j hi hj]; exact hij
    have hlt := cell_lt hij hi hj
    simp only [beq_iff_eq, hne, ↓reduceIte, taxonIdx_nodup m hnd i hi, taxonIdx_nodup m hnd j hj, cellOf, size,
      hij, ge_iff_le, false_or]
    rw [if_neg (by omega)]
    simp only [hsz, hlt, ↓reduceIte]

end MXS
