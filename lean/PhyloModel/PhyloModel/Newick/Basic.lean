/-! Scratch prototype: faithful Newick parser model (fixed semantics) + writer -/
namespace NW

inductive Tok where | quote | lbr | rbr | lpar | colon | comma | rpar | semi | other
deriving DecidableEq, Repr

def classify (c : Char) : Tok :=
  if c = '"' then .quote else if c = '[' then .lbr else if c = ']' then .rbr
  else if c = '(' then .lpar else if c = ':' then .colon else if c = ',' then .comma
  else if c = ')' then .rpar else if c = ';' then .semi else .other

/-- Rust `char::is_whitespace` (Unicode White_Space) -/
def isWs (c : Char) : Bool :=
  let n := c.toNat
  (9 ≤ n && n ≤ 13) || n == 32 || n == 0x85 || n == 0xA0 || n == 0x1680 ||
  (0x2000 ≤ n && n ≤ 0x200A) || n == 0x2028 || n == 0x2029 || n == 0x202F || n == 0x205F || n == 0x3000

def plain (c : Char) : Bool := classify c == .other && !isWs c

inductive Field where | name | length | comment deriving DecidableEq, Repr

abbrev Label := List Char

structure PNode (L : Type) where
  name : Option Label := none
  parent : Option Nat := none
  children : List Nat := []
  len : Option L := none
  comment : Option Label := none
  depth : Nat := 0
deriving Repr

@[ext] structure St (L : Type) where
  nodes : Array (PNode L) := #[]
  field : Field := .name
  curName : Option Label := none
  curLen : Option Label := none
  curComment : Option Label := none
  curIdx : Option Nat := none
  stack : List Nat := []       -- head = top of `parent_stack`
  opens : Nat := 0             -- `open_delimiters.len()`
  quotes : Bool := false

inductive Err where | noSubtreeParent | unclosedBracket | noSemicolon | floatError | nodeNotFound | wsInNumber
deriving DecidableEq, Repr

inductive Res (L : Type) where
  | cont (s : St L) | done (nodes : Array (PNode L)) | err (e : Err) | panic

def pushc (o : Option Label) (c : Char) : Option Label := some (o.getD [] ++ [c])

variable {L : Type}

def dflt : PNode L := {}
def nd (a : Array (PNode L)) (i : Nat) : PNode L := a.getD i dflt

/-- `Tree::add_child(Node::new(), p, None)`; caller guarantees `p < a.size` (else `NodeNotFound`) -/
def addChild (a : Array (PNode L)) (p : Nat) : Array (PNode L) :=
  let id := a.size
  let a1 := a.push { parent := some p, depth := (nd a p).depth + 1 }
  a1.modify p (fun n => { n with children := n.children ++ [id] })

def orKeep {α : Type} (new old : Option α) : Option α :=
  match new with | some x => some x | none => old

/-- field update of the `,`/`)` arms: `set_name` if a name was read, `set_parent(parent, edge)` if the
    node has a parent, `comment = current_comment` -/
def setFields (a : Array (PNode L)) (i : Nat) (n : Option Label) (l : Option L) (c : Option Label) :
    Array (PNode L) :=
  a.modify i (fun x =>
    { x with name := orKeep n x.name, len := (if x.parent.isSome then l else x.len), comment := c })

def parseEdge (parseLen : Label → Option L) : Option Label → Option (Option L)
  | some l => (parseLen l).map some
  | none => some none

variable (parseLen : Label → Option L)

/-- the part shared by the `,` and `)` arms: find/create the node, set its fields, clear the cursor.
    Returns the new arena and state pieces. -/
def commit (s : St L) : Res L :=
  -- node to operate on
  let tgt : Option (Array (PNode L) × Nat) :=
    match s.curIdx with
    | some i => if i < s.nodes.size then some (s.nodes, i) else none
    | none => match s.stack with
      | p :: _ => if p < s.nodes.size then some (addChild s.nodes p, s.nodes.size) else none
      | [] => none
  match tgt with
  | none => .err .noSubtreeParent   -- (get_mut failure / fixed `unreachable!`) both are errors in the fixed code
  | some (a, i) =>
    match parseEdge parseLen s.curLen with
    | none => .err .floatError
    | some edge =>
      .cont { s with nodes := setFields a i s.curName edge s.curComment, curName := none, curLen := none, curComment := none,
                     curIdx := some i, field := .name }

def stepField (s : St L) (c : Char) : Res L :=
  match s.field with
  | .name => .cont { s with curName := pushc s.curName c }
  | .length => if isWs c then .err .wsInNumber else .cont { s with curLen := pushc s.curLen c }
  | .comment => .panic

def step (s : St L) (c : Char) : Res L :=
  if s.quotes && s.field == .name && c != '"' then .cont { s with curName := pushc s.curName c }
  else if s.field == .comment && c != ']' then .cont { s with curComment := pushc s.curComment c }
  else if isWs c && !s.quotes then .cont s
  else match classify c with
    | .quote =>
      -- (repaired) a quote only delimits part of a NAME; in a branch length it is an ordinary character of the
      -- lexeme (which the float parser then refuses); in a comment it never gets here
      if s.field == .name then .cont { s with quotes := !s.quotes, curName := pushc s.curName c }
      else stepField s c
    | .lbr => .cont { s with field := .comment }
    | .rbr => .cont { s with field := .name }
    | .colon => .cont { s with field := .length }
    | .lpar =>
      match s.stack with
      | [] => if s.nodes.size = 0 then
                .cont { s with nodes := s.nodes.push {}, stack := [0], opens := s.opens + 1 }
              else .err .noSubtreeParent
      | p :: _ => if p < s.nodes.size then
                .cont { s with nodes := addChild s.nodes p, stack := s.nodes.size :: s.stack, opens := s.opens + 1 }
              else .err .nodeNotFound
    | .comma =>
      if s.stack = [] then .err .noSubtreeParent else
      match commit parseLen s with
      | .cont s' => .cont { s' with curIdx := none }
      | r => r
    | .rpar =>
      if s.stack = [] then .err .noSubtreeParent else
      match commit parseLen s with
      | .cont s' =>
        match s'.stack with
        | p :: ps => .cont { s' with curIdx := some p, stack := ps, opens := s'.opens - 1 }
        | [] => .err .noSubtreeParent
      | r => r
    | .semi =>
      if s.opens ≠ 0 then .err .unclosedBracket else
      let tgt : Option (Array (PNode L) × Nat) :=
        match s.curIdx with
        | some i => if i < s.nodes.size then some (s.nodes, i) else none
        | none => if s.nodes.size = 0 then some (s.nodes.push {}, 0) else none
      match tgt with
      | none => .err .noSubtreeParent
      | some (a, i) =>
        match parseEdge parseLen s.curLen with
        | none => .err .floatError
        | some edge =>
          .done (a.modify i (fun n => { n with name := s.curName, comment := s.curComment, len := orKeep edge n.len }))
    | .other => stepField s c

def run (s : St L) : List Char → Res L
  | [] => .cont s
  | c :: cs => match step parseLen s c with
    | .cont s' => run s' cs
    | r => r

def parse (cs : List Char) : Res L :=
  match run parseLen {} cs with
  | .cont _ => .err .noSemicolon
  | r => r

/-! ### rose tree and writer -/

inductive RTree (L : Type) where
  | node (name : Option Label) (len : Option L) (comment : Option Label) (kids : List (RTree L))

variable (showLen : L → Label)

def lenPart : Option L → List Char
  | some v => ':' :: showLen v
  | none => []
def commentPart : Option Label → List Char
  | some v => '[' :: (v ++ [']'])
  | none => []
def label (n : Option Label) (l : Option L) (c : Option Label) : List Char :=
  (n.getD []) ++ lenPart showLen l ++ commentPart c

mutual
def write : RTree L → List Char
  | .node n l c [] => label showLen n l c
  | .node n l c (k :: ks) => '(' :: (write k ++ writeRest ks) ++ (')' :: label showLen n l c)
def writeRest : List (RTree L) → List Char
  | [] => []
  | k :: ks => ',' :: (write k ++ writeRest ks)
end

end NW
