import PhyloModel.Newick.Layout
/-! Scratch prototype: C02 parse_wf — every returned arena is one rooted tree containing all nodes -/
namespace NW
variable {L : Type} (parseLen : Label → Option L)

/-- structural well-formedness of a parser arena (ids grow away from the root ⇒ acyclic, connected) -/
structure Struct (a : Array (PNode L)) : Prop where
  up : ∀ i, 0 < i → i < a.size → ∃ p, (nd a i).parent = some p ∧ p < i ∧ i ∈ (nd a p).children ∧
        (nd a i).depth = (nd a p).depth + 1
  root : 0 < a.size → (nd a 0).parent = none ∧ (nd a 0).depth = 0
  down : ∀ i c, i < a.size → c ∈ (nd a i).children → c < a.size ∧ (nd a c).parent = some i
  nodup : ∀ i, (nd a i).children.Nodup

structure J (s : St L) : Prop where
  st : Struct s.nodes
  stack : ∀ p ∈ s.stack, p < s.nodes.size
  cur : ∀ i, s.curIdx = some i → i < s.nodes.size
  top : s.stack = [] → s.nodes.size = 0 ∨ s.curIdx.isSome

theorem nd_oob (a : Array (PNode L)) (i : Nat) (h : a.size ≤ i) : nd a i = dflt := by
  simp [nd, Array.getD_eq_getD_getElem?, Array.getElem?_eq_none h]

theorem struct_empty : Struct (#[] : Array (PNode L)) := by
  constructor
  · intro i _ h; simp at h
  · intro h; simp at h
  · intro i c h; simp at h
  · intro i; simp [nd, dflt]

theorem struct_push_root : Struct (#[({} : PNode L)]) := by
  constructor
  · intro i h1 h2; simp at h2; omega
  · intro _; simp [nd]
  · intro i c h hc
    have : i = 0 := by simp at h; omega
    subst this; simp [nd] at hc
  · intro i
    by_cases h : i = 0
    · subst h; simp [nd]
    · rw [nd_oob _ i (by simp; omega)]; simp [dflt]

theorem struct_addChild (a : Array (PNode L)) (p : Nat) (hp : p < a.size) (h : Struct a) :
    Struct (addChild a p) := by
  have hac := nd_addChild a p hp
  have hup := h.up; have hroot := h.root; have hdown := h.down; have hnd := h.nodup
  have hfresh : a.size ∉ (nd a p).children := fun hm => by have := (hdown p _ hp hm).1; omega
  have hoob : (nd a a.size).children = [] := by rw [nd_oob a a.size (Nat.le_refl _)]; simp [dflt]
  constructor
  · intro i h1 h2
    simp only [size_addChild] at h2
    have := hup i h1
    simp only [hac]
    grind
  · intro _
    have := hroot (by omega)
    simp only [hac]
    grind
  · intro i c hi hc
    simp only [size_addChild] at hi ⊢
    simp only [hac] at hc ⊢
    have := hdown i c
    have := hdown p c
    grind
  · intro i
    simp only [hac]
    have := hnd i
    have := hnd p
    grind [List.nodup_append]

/-- updating only name/len/comment of a node keeps the structure -/
theorem struct_modify_fields (a : Array (PNode L)) (j : Nat) (f : PNode L → PNode L)
    (hf : ∀ x, (f x).parent = x.parent ∧ (f x).children = x.children ∧ (f x).depth = x.depth)
    (h : Struct a) : Struct (a.modify j f) := by
  have hm := nd_modify a j f
  have hup := h.up; have hroot := h.root; have hdown := h.down; have hnd := h.nodup
  constructor
  · intro i h1 h2
    simp only [Array.size_modify] at h2
    have := hup i h1 h2
    simp only [hm]
    grind
  · intro h0
    simp only [Array.size_modify] at h0
    have := hroot h0
    simp only [hm]
    grind
  · intro i c hi hc
    simp only [Array.size_modify] at hi ⊢
    simp only [hm] at hc ⊢
    have := hdown i c
    grind
  · intro i
    simp only [hm]
    have := hnd i
    grind

end NW
