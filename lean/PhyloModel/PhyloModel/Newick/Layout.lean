import PhyloModel.Newick.Top
/-! Scratch prototype: the arena built by the parser represents `t` -/
namespace NW
variable {L : Type}

mutual
def sz : RTree L → Nat
  | .node _ _ _ kids => 1 + szL kids
def szL : List (RTree L) → Nat
  | [] => 0
  | k :: ks => sz k + szL ks
end

@[simp] theorem sz_node (n l c) (kids : List (RTree L)) : sz (.node n l c kids) = 1 + szL kids := by simp [sz]
@[simp] theorem szL_nil : szL ([] : List (RTree L)) = 0 := by simp [szL]
@[simp] theorem szL_cons (k : RTree L) (ks) : szL (k :: ks) = sz k + szL ks := by simp [szL]

def kidIds : Nat → List (RTree L) → List Nat
  | _, [] => []
  | j, k :: ks => j :: kidIds (j + sz k) ks

mutual
/-- `t` is laid out in pre-order at `[i, i + sz t)`; `par` is the recorded parent -/
def Layout (a : Array (PNode L)) : Nat → Option Nat → RTree L → Prop
  | i, par, .node n l c kids =>
    i < a.size ∧ (nd a i).name = n ∧ (nd a i).len = l ∧ (nd a i).comment = c ∧ (nd a i).parent = par ∧
    (nd a i).children = kidIds (i + 1) kids ∧ LayoutL a (i + 1) i kids
def LayoutL (a : Array (PNode L)) : Nat → Nat → List (RTree L) → Prop
  | _, _, [] => True
  | j, p, k :: ks => Layout a j (some p) k ∧ LayoutL a (j + sz k) p ks
end

theorem nd_push (a : Array (PNode L)) (x : PNode L) (i : Nat) :
    nd (a.push x) i = if i = a.size then x else nd a i := by
  simp only [nd, Array.getD_eq_getD_getElem?, Array.getElem?_push]
  grind

theorem nd_modify (a : Array (PNode L)) (p : Nat) (f : PNode L → PNode L) (i : Nat) :
    nd (a.modify p f) i = if i = p ∧ p < a.size then f (nd a i) else nd a i := by
  simp only [nd, Array.getD_eq_getD_getElem?, Array.getElem?_modify]
  grind

theorem nd_addChild (a : Array (PNode L)) (p : Nat) (hp : p < a.size) (i : Nat) :
    nd (addChild a p) i =
      if i = a.size then { parent := some p, depth := (nd a p).depth + 1 }
      else if i = p then { nd a p with children := (nd a p).children ++ [a.size] }
      else nd a i := by
  simp only [addChild, nd_modify, nd_push, Array.size_push]
  grind

theorem nd_setFields (a : Array (PNode L)) (j : Nat) (hj : j < a.size) n l c (i : Nat) :
    nd (setFields a j n l c) i =
      if i = j then { nd a j with name := orKeep n (nd a j).name,
                                  len := (if (nd a j).parent.isSome then l else (nd a j).len), comment := c }
      else nd a i := by
  simp only [setFields, nd_modify]
  grind

mutual
theorem layout_stable (a a' : Array (PNode L)) : ∀ (t : RTree L) (i : Nat) (par : Option Nat),
    a.size ≤ a'.size → (∀ j, i ≤ j → j < i + sz t → nd a' j = nd a j) → Layout a i par t → Layout a' i par t
  | .node n l c kids, i, par, hsz, hfr, h => by
    simp only [Layout] at h ⊢
    simp only [sz_node] at hfr
    obtain ⟨h1, h2, h3, h4, h5, h6, h7⟩ := h
    have hi := hfr i (Nat.le_refl _) (by omega)
    refine ⟨by omega, by rw [hi]; exact h2, by rw [hi]; exact h3, by rw [hi]; exact h4, by rw [hi]; exact h5,
      by rw [hi]; exact h6, ?_⟩
    exact layoutL_stable a a' kids (i + 1) i hsz (fun j hj1 hj2 => hfr j (by omega) (by omega)) h7
theorem layoutL_stable (a a' : Array (PNode L)) : ∀ (ks : List (RTree L)) (j p : Nat),
    a.size ≤ a'.size → (∀ x, j ≤ x → x < j + szL ks → nd a' x = nd a x) → LayoutL a j p ks → LayoutL a' j p ks
  | [], _, _, _, _, _ => by simp [LayoutL]
  | k :: ks, j, p, hsz, hfr, h => by
    simp only [LayoutL] at h ⊢
    simp only [szL_cons] at hfr
    exact ⟨layout_stable a a' k j (some p) hsz (fun x h1 h2 => hfr x h1 (by omega)) h.1,
           layoutL_stable a a' ks (j + sz k) p hsz (fun x h1 h2 => hfr x (by omega) (by omega)) h.2⟩
end

end NW
