import PhyloModel.Newick.Basic
import PhyloModel.Misc.FormatStrip
/-! Executable model of `Node::to_newick` / `Tree::to_newick_impl` on the parser's arena type, for all
    nine `NewickFormat` values (the per-format tables are `FM.keepName/keepLen/keepComment`). -/
namespace NW
variable {L : Type} (showLen : L → Label)

/-- `Node::to_newick(format)` -/
def nodeText (f : FM.Fmt) (tip : Bool) (n : Option Label) (l : Option L) (c : Option Label) : List Char :=
  (if FM.keepName f tip then n.getD [] else []) ++ (if FM.keepLen f tip then lenPart showLen l else [])
    ++ (if FM.keepComment f then commentPart c else [])

def joinComma : List (List Char) → List Char
  | [] => []
  | [x] => x
  | x :: y :: r => x ++ ',' :: joinComma (y :: r)

/-- `Tree::to_newick_impl` with fuel -/
def toNewickF : Nat → FM.Fmt → Array (PNode L) → Nat → Option (List Char)
  | 0, _, _, _ => none
  | fuel + 1, f, a, x =>
    if x < a.size then
      let n := nd a x
      match n.children with
      | [] => some (nodeText showLen f true n.name n.len n.comment)
      | k :: ks =>
        match (k :: ks).mapM (fun c => toNewickF fuel f a c) with
        | some parts => some ('(' :: (joinComma parts ++ ')' :: nodeText showLen f false n.name n.len n.comment))
        | none => none
    else none

/-- `Tree::to_nexus` (repaired: removed slots are neither counted nor listed): the fixed frame around the
    number of live tips, the names of the named live tips in arena order, and the full Newick text.
    `slots` pairs every arena slot with its `deleted` flag. -/
def nexus (slots : List (Bool × PNode L)) (newick : List Char) : List Char :=
  let tips := slots.filter (fun s => !s.1 && s.2.children.isEmpty)
  let labels := tips.filterMap (fun s => s.2.name)
  let joined := joinSep labels
  "#NEXUS\nBEGIN TAXA;\n    DIMENSIONS NTAX=".toList ++ (toString tips.length).toList ++
  ";\n    TAXLABELS ".toList ++ joined ++ ";\nEND;\nBEGIN TREES;\n    TREE tree1 = ".toList ++ newick ++ "\nEND;\n".toList
where
  joinSep : List Label → List Char
    | [] => []
    | [x] => x
    | x :: y :: r => x ++ ' ' :: joinSep (y :: r)

end NW
