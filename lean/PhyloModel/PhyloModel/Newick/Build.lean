import PhyloModel.Newick.Tree
/-! Scratch prototype: C01 round trip, tree induction proper -/
namespace NW
variable {L : Type} (parseLen : Label → Option L) (showLen : L → Label)

mutual
/-- arena after the subtree `t` has been parsed and committed as a child of `p` -/
def buildT (a : Array (PNode L)) (p : Nat) : RTree L → Array (PNode L)
  | .node n l c kids => setFields (buildKids (addChild a p) a.size kids) a.size n l c
def buildKids (a : Array (PNode L)) (p : Nat) : List (RTree L) → Array (PNode L)
  | [] => a
  | k :: ks => buildKids (buildT a p k) p ks
end

mutual
def WFT : RTree L → Prop
  | .node n _ c kids => nameWF n ∧ commentWF c ∧ WFL kids
def WFL : List (RTree L) → Prop
  | [] => True
  | k :: ks => WFT k ∧ WFL ks
end

@[simp] theorem size_addChild (a : Array (PNode L)) (p : Nat) : (addChild a p).size = a.size + 1 := by
  simp [addChild]
@[simp] theorem size_setFields (a : Array (PNode L)) (i : Nat) n l c : (setFields a i n l c).size = a.size := by
  simp [setFields]

mutual
theorem size_buildT (a : Array (PNode L)) (p : Nat) : ∀ t : RTree L, a.size < (buildT a p t).size
  | .node n l c kids => by
    have := size_buildKids (addChild a p) a.size kids
    simp [buildT] at this ⊢; omega
theorem size_buildKids (a : Array (PNode L)) (p : Nat) : ∀ ks : List (RTree L), a.size ≤ (buildKids a p ks).size
  | [] => by simp [buildKids]
  | k :: ks => by
    have h1 := size_buildT a p k
    have h2 := size_buildKids (buildT a p k) p ks
    simp [buildKids]; omega
end

/-- state reached after reading `write t` (before its terminator) from clean `s` with stack top `p` -/
def pend (s : St L) (p : Nat) : RTree L → St L
  | .node n l c [] => afterLabel showLen s n l c
  | .node n l c (k :: ks) =>
    afterLabel showLen { s with nodes := buildKids (addChild s.nodes p) s.nodes.size (k :: ks),
                                curIdx := some s.nodes.size } n l c

/-- clean state with a given arena -/
def cleanWith (s : St L) (a : Array (PNode L)) (idx : Option Nat) : St L :=
  { s with nodes := a, curName := none, curLen := none, curComment := none, curIdx := idx, field := .name }

theorem commit_pend (hc : Codec parseLen showLen) (s : St L) (p : Nat) (ps : List Nat)
    (hst : s.stack = p :: ps) (hp : p < s.nodes.size) (hidx : s.curIdx = none) (t : RTree L) :
    commit parseLen (pend showLen s p t) =
      .cont (cleanWith (pend showLen s p t) (buildT s.nodes p t) (some s.nodes.size)) := by
  match t with
  | .node n l c [] =>
    cases l with
    | none => simp [pend, afterLabel, commit, hidx, hst, hp, buildT, buildKids, setFields, cleanWith, parseEdge]
    | some v => simp [pend, afterLabel, commit, hidx, hst, hp, buildT, buildKids, setFields, cleanWith, hc.rt, parseEdge]
  | .node n l c (k :: ks) =>
    have hsz := size_buildKids (addChild s.nodes p) s.nodes.size (k :: ks)
    have : s.nodes.size < (buildKids (addChild s.nodes p) s.nodes.size (k :: ks)).size := by
      simp at hsz; omega
    cases l with
    | none => simp [pend, afterLabel, commit, this, buildT, setFields, cleanWith, parseEdge]
    | some v => simp [pend, afterLabel, commit, this, buildT, setFields, cleanWith, hc.rt, parseEdge]

end NW
