import PhyloModel.Newick.WriterSpec
import PhyloModel.Newick.WF
/-! Layout-independent abstraction of an arena: `RepN a i t` says that slot `i` represents the rose tree
    `t` through the recorded child lists, whatever the ids are (pre-order, breadth-first, with unused
    slots in between).  The arena writer returns the rose-level text on every such arena. -/
namespace NW
variable {L : Type} (showLen : L → Label)

mutual
def RepN (a : Array (PNode L)) : Nat → RTree L → Prop
  | i, .node n l c kids =>
    i < a.size ∧ (nd a i).name = n ∧ (nd a i).len = l ∧ (nd a i).comment = c ∧ RepNL a (nd a i).children kids
def RepNL (a : Array (PNode L)) : List Nat → List (RTree L) → Prop
  | [], [] => True
  | c :: cs, k :: ks => RepN a c k ∧ RepNL a cs ks
  | [], _ :: _ => False
  | _ :: _, [] => False
end

mutual
def ht : RTree L → Nat
  | .node _ _ _ kids => 1 + htL kids
def htL : List (RTree L) → Nat
  | [] => 0
  | k :: ks => max (ht k) (htL ks)
end

mutual
/-- a pre-order layout is in particular a representation -/
theorem layout_rep (a : Array (PNode L)) : ∀ (t : RTree L) (i : Nat) (par : Option Nat), Layout a i par t → RepN a i t
  | .node n l c kids, i, par, h => by
    rw [Layout] at h
    obtain ⟨hi, hn, hl, hc, _, hch, hL⟩ := h
    rw [RepN]
    refine ⟨hi, hn, hl, hc, ?_⟩
    rw [hch]
    exact layoutL_rep a kids (i + 1) i hL
theorem layoutL_rep (a : Array (PNode L)) : ∀ (ks : List (RTree L)) (j p : Nat), LayoutL a j p ks → RepNL a (kidIds j ks) ks
  | [], j, p, _ => by simp [kidIds, RepNL]
  | k :: ks, j, p, h => by
    rw [LayoutL] at h
    rw [kidIds, RepNL]
    exact ⟨layout_rep a k j (some p) h.1, layoutL_rep a ks (j + sz k) p h.2⟩
end

mutual
/-- write_abs: on every arena that represents `t` at slot `i`, the arena writer returns the rose-level text
    of `t`, provided the fuel covers the height of `t` -/
theorem toNewickF_rep (f : FM.Fmt) (a : Array (PNode L)) :
    ∀ (t : RTree L) (fuel i : Nat), RepN a i t → ht t ≤ fuel →
      toNewickF showLen fuel f a i = some (writeF showLen f t)
  | .node n l c [], fuel, i, h, hf => by
    rw [RepN] at h
    obtain ⟨hi, hn, hl, hc, hch⟩ := h
    cases fuel with
    | zero => simp [ht] at hf
    | succ fuel =>
      rw [toNewickF, if_pos hi]
      cases hk : (nd a i).children with
      | nil => simp only [hk, hn, hl, hc, writeF]
      | cons x xs => rw [hk, RepNL] at hch; exact absurd hch (by simp)
  | .node n l c (k :: ks), fuel, i, h, hf => by
    rw [RepN] at h
    obtain ⟨hi, hn, hl, hc, hch⟩ := h
    cases fuel with
    | zero => simp [ht] at hf
    | succ fuel =>
      rw [toNewickF, if_pos hi]
      cases hk : (nd a i).children with
      | nil => rw [hk, RepNL] at hch; exact absurd hch (by simp)
      | cons x xs =>
        rw [hk] at hch
        have hkids := toNewickL_rep f a (k :: ks) fuel (x :: xs) hch (by rw [ht] at hf; omega)
        simp only [hk, hkids, hn, hl, hc, writeF]
        rw [List.map_cons, joinComma_write]
        simp
theorem toNewickL_rep (f : FM.Fmt) (a : Array (PNode L)) :
    ∀ (ks : List (RTree L)) (fuel : Nat) (cs : List Nat), RepNL a cs ks → htL ks ≤ fuel →
      cs.mapM (fun c => toNewickF showLen fuel f a c) = some (ks.map (writeF showLen f))
  | [], fuel, cs, h, _ => by
    cases cs with
    | nil => simp
    | cons x xs => rw [RepNL] at h; exact absurd h (by simp)
  | k :: ks, fuel, cs, h, hf => by
    cases cs with
    | nil => rw [RepNL] at h; exact absurd h (by simp)
    | cons x xs =>
      rw [RepNL] at h
      rw [htL] at hf
      rw [List.mapM_cons, toNewickF_rep f a k fuel x h.1 (by omega), toNewickL_rep f a ks fuel xs h.2 (by omega)]
      simp
end

mutual
theorem ht_le_sz : ∀ t : RTree L, ht t ≤ sz t
  | .node n l c kids => by rw [ht, sz]; have := htL_le_szL kids; omega
theorem htL_le_szL : ∀ ks : List (RTree L), htL ks ≤ szL ks
  | [] => by simp [htL]
  | k :: ks => by rw [htL, szL]; have := ht_le_sz k; have := htL_le_szL ks; omega
end

end NW
