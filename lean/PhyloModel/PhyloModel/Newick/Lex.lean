import PhyloModel.Newick.Basic
/-! Lexical specifications of the Newick reader, independent of the parser state `St`.

* `Mode3`/`next3`/`toks3`: the reading every user has in mind — three modes (plain text, inside double quotes,
  inside a bracket comment); `(`, `)`, `;` are structural only in plain mode.
* `LMode`/`lnext`/`lenQuoteFree`: the same with plain mode split in "name part" and "length part" (after `:`),
  used to say *no double quote occurs inside a branch length*.
* `ltoks`: the exact token stream of the real reader on the four modes.  It differs from the three-mode
  reading only after a `"` inside a branch length (kept as a character of the length lexeme).

`toks… m cs = some ts`: a structural `;` exists and `ts` are the structural parentheses before the first one;
`none`: no structural `;`. -/
namespace NW

/-! ### the three-mode reading -/
inductive Mode3 where | plain | quoted | comment
deriving DecidableEq, Repr

def next3 : Mode3 → Char → Mode3
  | .plain, c => if c = '"' then .quoted else if c = '[' then .comment else .plain
  | .quoted, c => if c = '"' then .plain else .quoted
  | .comment, c => if c = ']' then .plain else .comment

def toks3 : Mode3 → List Char → Option (List Char)
  | _, [] => none
  | m, c :: cs =>
    if m = .plain ∧ c = ';' then some []
    else if m = .plain ∧ (c = '(' ∨ c = ')') then (toks3 (next3 m c) cs).map (c :: ·)
    else toks3 (next3 m c) cs

/-! ### four modes: plain split into name part / length part -/
inductive LMode where | name | quoted | comment | length
deriving DecidableEq, Repr

def lnext : LMode → Char → LMode
  | .name, c => if c = '"' then .quoted else if c = '[' then .comment else if c = ':' then .length else .name
  | .quoted, c => if c = '"' then .name else .quoted
  | .comment, c => if c = ']' then .name else .comment
  | .length, c => if c = '[' then .comment else if c = ']' ∨ c = ',' ∨ c = ')' then .name else .length

/-- are `(`, `)`, `,`, `;` read as tokens in this mode? -/
def LMode.tokenMode (m : LMode) : Prop := m = .name ∨ m = .length
instance (m : LMode) : Decidable m.tokenMode := by unfold LMode.tokenMode; infer_instance

/-- up to the first structural `;`, no `"` is read inside a branch length -/
def lenQuoteFree : LMode → List Char → Bool
  | _, [] => true
  | m, c :: cs =>
    if m.tokenMode ∧ c = ';' then true
    else if m = .length ∧ c = '"' then false
    else lenQuoteFree (lnext m c) cs

def LMode.proj : LMode → Mode3
  | .name => .plain | .length => .plain | .quoted => .quoted | .comment => .comment

/-- the exact token stream of the reader: like `toks3`, except that a `"` inside a branch length does not
    open a quoted section (it becomes part of the length lexeme, which the number parser then refuses) -/
def ltoks : LMode → List Char → Option (List Char)
  | _, [] => none
  | m, c :: cs =>
    if m.tokenMode ∧ c = ';' then some []
    else if m.tokenMode ∧ (c = '(' ∨ c = ')') then (ltoks (lnext m c) cs).map (c :: ·)
    else ltoks (lnext m c) cs

/-- the parser's `field` / quote flag in each mode -/
def LMode.fld : LMode → Field
  | .name => .name | .quoted => .name | .comment => .comment | .length => .length
def LMode.q : LMode → Bool
  | .quoted => true | _ => false

/-- balanced parenthesis stream -/
def Balanced (ts : List Char) : Prop :=
  ts.count '(' = ts.count ')' ∧ ∀ p, p <+: ts → p.count ')' ≤ p.count '('

/-! ### the two readings agree as long as no `"` is read inside a branch length -/

theorem proj_plain (m : LMode) : (m.proj = .plain) ↔ m.tokenMode := by
  cases m <;> simp [LMode.proj, LMode.tokenMode]

theorem special_cases (c : Char) : c = '"' ∨ c = '[' ∨ c = ']' ∨ c = ',' ∨ c = ')' ∨ c = ':' ∨
    (c ≠ '"' ∧ c ≠ '[' ∧ c ≠ ']' ∧ c ≠ ',' ∧ c ≠ ')' ∧ c ≠ ':') := by
  by_cases h1 : c = '"'
  · exact .inl h1
  by_cases h2 : c = '['
  · exact .inr (.inl h2)
  by_cases h3 : c = ']'
  · exact .inr (.inr (.inl h3))
  by_cases h4 : c = ','
  · exact .inr (.inr (.inr (.inl h4)))
  by_cases h5 : c = ')'
  · exact .inr (.inr (.inr (.inr (.inl h5))))
  by_cases h6 : c = ':'
  · exact .inr (.inr (.inr (.inr (.inr (.inl h6)))))
  exact .inr (.inr (.inr (.inr (.inr (.inr ⟨h1, h2, h3, h4, h5, h6⟩)))))

theorem next3_proj (m : LMode) (c : Char) (h : ¬ (m = .length ∧ c = '"')) :
    next3 m.proj c = (lnext m c).proj := by
  rcases special_cases c with rfl | rfl | rfl | rfl | rfl | rfl | ⟨h1, h2, h3, h4, h5, h6⟩ <;>
    cases m <;> simp_all [next3, lnext, LMode.proj]

/-- on text with no `"` inside a branch length the exact token stream is the three-mode token stream -/
theorem ltoks_eq_toks3 : ∀ (cs : List Char) (m : LMode), lenQuoteFree m cs = true →
    ltoks m cs = toks3 m.proj cs
  | [], m, _ => by simp [ltoks, toks3]
  | c :: cs, m, h => by
    rw [lenQuoteFree] at h
    rw [ltoks, toks3]
    simp only [proj_plain]
    by_cases h1 : m.tokenMode ∧ c = ';'
    · simp [h1]
    · simp only [h1, ↓reduceIte] at h ⊢
      by_cases h2 : m = .length ∧ c = '"'
      · simp [h2] at h
      · simp only [h2, ↓reduceIte] at h
        rw [next3_proj m c h2, ltoks_eq_toks3 cs (lnext m c) h]

end NW
