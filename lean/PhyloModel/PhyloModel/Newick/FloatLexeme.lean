import PhyloModel.Newick.BalancedTok
/-! `QuoteRefusing` holds of the Rust `f64::from_str` recogniser used by the differential-testing driver.

    The recogniser of the differential-testing driver (`Driver.lean` imports this file and uses exactly these definitions:
    (`lower`, `isDig`, `spanDigits`, `expOk`, `numberOk`, `isRustFloat`, `parseLex`) lives here so that
    the theorem is about what the driver runs); the fact proved is that it refuses every lexeme containing a double quote. -/
namespace NW.FloatTwin

def lower (c : Char) : Char := if 'A' ≤ c ∧ c ≤ 'Z' then Char.ofNat (c.toNat + 32) else c
def isDig (c : Char) : Bool := '0' ≤ c && c ≤ '9'
def spanDigits : List Char → (Nat × List Char)
  | c :: cs => if isDig c then let (n, r) := spanDigits cs; (n + 1, r) else (0, c :: cs)
  | [] => (0, [])
def expOk : List Char → Bool
  | [] => true
  | c :: cs =>
    if c == 'e' || c == 'E' then
      let cs' := match cs with | '+' :: r => r | '-' :: r => r | r => r
      let (n, r) := spanDigits cs'
      n > 0 && r.isEmpty
    else false
def numberOk (s : List Char) : Bool :=
  let (n1, r1) := spanDigits s
  match r1 with
  | '.' :: r2 =>
    let (n2, r3) := spanDigits r2
    (n1 + n2 > 0) && expOk r3
  | _ => n1 > 0 && expOk r1
def isRustFloat (s : List Char) : Bool :=
  let body := match s with | '+' :: r => r | '-' :: r => r | r => r
  let lw := body.map lower
  lw == "inf".toList || lw == "infinity".toList || lw == "nan".toList || numberOk body
def parseLex (s : NW.Label) : Option NW.Label := if isRustFloat s then some s else none

theorem tail_of_cons {c : Char} {cs : List Char} (h : '"' ∈ c :: cs) (hc : c ≠ '"') : '"' ∈ cs := by
  rcases List.mem_cons.mp h with e | e
  · exact absurd e.symm hc
  · exact e

theorem spanDigits_quote (s : List Char) : '"' ∈ s → '"' ∈ (spanDigits s).2 := by
  induction s with
  | nil => intro h; simp at h
  | cons c cs ih =>
    intro h
    rw [spanDigits]
    split
    next hd =>
      have hc : c ≠ '"' := by intro e; subst e; revert hd; decide
      exact ih (tail_of_cons h hc)
    · exact h

theorem expOk_quote (s : List Char) (h : '"' ∈ s) : expOk s = false := by
  fun_cases expOk s
  · simp at h
  next c cs he cs' n r hsp =>
    have hc : c ≠ '"' := by intro e; subst e; revert he; decide
    have hcs := tail_of_cons h hc
    have hq' : '"' ∈ cs' := by
      simp only [cs']
      split
      · exact tail_of_cons hcs (by decide)
      · exact tail_of_cons hcs (by decide)
      · exact hcs
    have := spanDigits_quote cs' hq'
    rw [hsp] at this
    cases r with
    | nil => simp at this
    | cons x xs => simp
  · rfl

theorem numberOk_quote (s : List Char) (h : '"' ∈ s) : numberOk s = false := by
  have h1 := spanDigits_quote s h
  fun_cases numberOk s
  next n1 r2 n2 r3 hsp2 hsp1 =>
    rw [hsp1] at h1
    have h2 : '"' ∈ r2 := tail_of_cons h1 (by decide)
    have h3 := spanDigits_quote r2 h2
    rw [hsp2] at h3
    simp [expOk_quote _ h3]
  next n1 r1 hsp1 _ =>
    rw [hsp1] at h1
    simp [expOk_quote _ h1]

theorem lower_quote : lower '"' = '"' := by decide

theorem core_quote (body : List Char) (hb : '"' ∈ body) :
    (body.map lower == "inf".toList || body.map lower == "infinity".toList || body.map lower == "nan".toList ||
      numberOk body) = false := by
  have hm : '"' ∈ body.map lower := by
    rw [← lower_quote]; exact List.mem_map_of_mem hb
  have k : ∀ w : List Char, '"' ∉ w → (body.map lower == w) = false := by
    intro w hw
    apply Classical.byContradiction
    intro hne
    simp only [Bool.not_eq_false, beq_iff_eq] at hne
    rw [hne] at hm
    exact hw hm
  rw [k _ (by decide), k _ (by decide), k _ (by decide), numberOk_quote _ hb]
  rfl

theorem isRustFloat_quote (s : List Char) (h : '"' ∈ s) : isRustFloat s = false := by
  unfold isRustFloat
  simp only []
  split
  · exact core_quote _ (tail_of_cons h (by decide))
  · exact core_quote _ (tail_of_cons h (by decide))
  · exact core_quote _ h

/-- the driver's number parser refuses every lexeme containing a double quote -/
theorem parseLex_refusing : QuoteRefusing parseLex := by
  intro l h
  simp [parseLex, isRustFloat_quote l h]

end NW.FloatTwin
