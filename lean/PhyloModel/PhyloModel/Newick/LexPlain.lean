import PhyloModel.Newick.BalancedTok
/-! Sanity of the lexical specification: on text without `"` and `[` every parenthesis and every `;` is
    structural, so `toks3` is "the parentheses before the first `;`", and the general rejection theorem gives
    back `accepted_is_balanced` of `Balanced.lean` (old statement, now a corollary). -/
namespace NW
variable {L : Type} (parseLen : Label → Option L)

def isParen (c : Char) : Bool := c == '(' || c == ')'

theorem toks3_plain_text : ∀ (cs : List Char), '"' ∉ cs → '[' ∉ cs → ∀ ts, toks3 .plain cs = some ts →
    ∃ mid post, cs = mid ++ ';' :: post ∧ ';' ∉ mid ∧ ts = mid.filter isParen
  | [], _, _, ts, h => by simp [toks3] at h
  | c :: cs, hq, hb, ts, h => by
    simp only [List.mem_cons, not_or] at hq hb
    have hn : next3 .plain c = .plain := by
      simp [next3, Ne.symm hq.1, Ne.symm hb.1]
    rw [toks3, hn] at h
    by_cases h1 : c = ';'
    · subst h1
      simp only [true_and, ↓reduceIte, Option.some.injEq] at h
      exact ⟨[], cs, by simp, by simp, by simp [← h]⟩
    · simp only [h1, and_false, ↓reduceIte, true_and] at h
      by_cases h2 : c = '(' ∨ c = ')'
      · rw [if_pos h2] at h
        cases ht : toks3 .plain cs with
        | none => rw [ht] at h; cases h
        | some ts' =>
          rw [ht] at h
          simp only [Option.map_some, Option.some.injEq] at h
          obtain ⟨mid, post, e1, e2, e3⟩ := toks3_plain_text cs hq.2 hb.2 ts' ht
          refine ⟨c :: mid, post, by simp [e1], ?_, ?_⟩
          · simp only [List.mem_cons, not_or]; exact ⟨Ne.symm h1, e2⟩
          · have : isParen c = true := by rcases h2 with rfl | rfl <;> decide
            simp [this, ← h, e3]
      · rw [if_neg h2] at h
        obtain ⟨mid, post, e1, e2, e3⟩ := toks3_plain_text cs hq.2 hb.2 ts h
        refine ⟨c :: mid, post, by simp [e1], ?_, ?_⟩
        · simp only [List.mem_cons, not_or]; exact ⟨Ne.symm h1, e2⟩
        · have : isParen c = false := by
            simp only [not_or] at h2
            simp [isParen, h2.1, h2.2]
          simp [this, e3]

theorem lenQuoteFree_of_no_quote : ∀ (cs : List Char) (m : LMode), '"' ∉ cs → lenQuoteFree m cs = true
  | [], _, _ => by simp [lenQuoteFree]
  | c :: cs, m, hq => by
    simp only [List.mem_cons, not_or] at hq
    rw [lenQuoteFree]
    split
    · rfl
    · rw [if_neg (fun h => hq.1 h.2.symm)]
      exact lenQuoteFree_of_no_quote cs _ hq.2

theorem count_filter_isParen_l (xs : List Char) : (xs.filter isParen).count '(' = xs.count '(' := by
  induction xs with
  | nil => simp
  | cons c cs ih =>
    by_cases h : isParen c = true
    · simp [h, List.count_cons, ih]
    · have hne : c ≠ '(' := by intro e; subst e; exact h (by decide)
      simp [h, ih, hne]

theorem count_filter_isParen_r (xs : List Char) : (xs.filter isParen).count ')' = xs.count ')' := by
  induction xs with
  | nil => simp
  | cons c cs ih =>
    by_cases h : isParen c = true
    · simp [h, List.count_cons, ih]
    · have hne : c ≠ ')' := by intro e; subst e; exact h (by decide)
      simp [h, ih, hne]

/-- the statement of `Balanced.lean` (`accepted_is_balanced`) as a corollary of the general theorem -/
theorem accepted_is_balanced_again (cs : List Char) (hq : '"' ∉ cs) (hb : '[' ∉ cs) (a : Array (PNode L))
    (h : parse parseLen cs = .done a) :
    ∃ mid post, cs = mid ++ ';' :: post ∧ ';' ∉ mid ∧ mid.count '(' = mid.count ')' ∧
      ∀ p, p <+: mid → p.count ')' ≤ p.count '(' := by
  obtain ⟨ts, e1, e2, e3⟩ := accepted_is_balanced_exact parseLen cs a h
  rw [ltoks_eq_toks3 cs .name (lenQuoteFree_of_no_quote cs .name hq)] at e1
  obtain ⟨mid, post, g1, g2, g3⟩ := toks3_plain_text cs hq hb ts e1
  subst g3
  refine ⟨mid, post, g1, g2, ?_, ?_⟩
  · rw [count_filter_isParen_l, count_filter_isParen_r] at e2; exact e2
  · intro p hp
    have := e3 (p.filter isParen) (List.IsPrefix.filter isParen hp)
    rw [count_filter_isParen_l, count_filter_isParen_r] at this
    exact this

end NW
