import PhyloModel.Newick.Writer
import PhyloModel.Newick.Layout
/-! The arena writer (`toNewickF`, what the driver runs and the harness compares with `Tree::to_newick`)
    refines the rose-tree writer: on an arena that lays out `t`, it returns `writeF f t`; and every format
    is the full format of the stripped tree. -/
namespace NW
variable {L : Type} (showLen : L → Label)

mutual
/-- rose-level writer for a format -/
def writeF (f : FM.Fmt) : RTree L → List Char
  | .node n l c [] => nodeText showLen f true n l c
  | .node n l c (k :: ks) => '(' :: (writeF f k ++ writeRestF f ks) ++ (')' :: nodeText showLen f false n l c)
def writeRestF (f : FM.Fmt) : List (RTree L) → List Char
  | [] => []
  | k :: ks => ',' :: (writeF f k ++ writeRestF f ks)
end

theorem nodeText_all (tip : Bool) (n : Option Label) (l : Option L) (c : Option Label) :
    nodeText showLen .allFields tip n l c = label showLen n l c := by
  simp [nodeText, label, FM.keepName, FM.keepLen, FM.keepComment]

mutual
theorem writeF_all : ∀ t : RTree L, writeF showLen .allFields t = write showLen t
  | .node n l c [] => by rw [writeF, write, nodeText_all]
  | .node n l c (k :: ks) => by rw [writeF, write, nodeText_all, writeF_all k, writeRestF_all ks]
theorem writeRestF_all : ∀ ts : List (RTree L), writeRestF showLen .allFields ts = writeRest showLen ts
  | [] => by rw [writeRestF, writeRest]
  | k :: ks => by rw [writeRestF, writeRest, writeF_all k, writeRestF_all ks]
end

def keepIf {α : Type} (b : Bool) (o : Option α) : Option α := if b then o else none

mutual
/-- erase exactly the fields a format omits -/
def strip (f : FM.Fmt) : RTree L → RTree L
  | .node n l c [] => .node (keepIf (FM.keepName f true) n) (keepIf (FM.keepLen f true) l) (keepIf (FM.keepComment f) c) []
  | .node n l c (k :: ks) =>
    .node (keepIf (FM.keepName f false) n) (keepIf (FM.keepLen f false) l) (keepIf (FM.keepComment f) c) (strip f k :: stripL f ks)
def stripL (f : FM.Fmt) : List (RTree L) → List (RTree L)
  | [] => []
  | k :: ks => strip f k :: stripL f ks
end

theorem nodeText_strip (f : FM.Fmt) (tip : Bool) (n : Option Label) (l : Option L) (c : Option Label) :
    nodeText showLen f tip n l c =
      nodeText showLen .allFields tip (keepIf (FM.keepName f tip) n) (keepIf (FM.keepLen f tip) l) (keepIf (FM.keepComment f) c) := by
  have hk : FM.keepName .allFields tip = true := by simp [FM.keepName]
  have hl : FM.keepLen .allFields tip = true := by simp [FM.keepLen]
  have hc : FM.keepComment .allFields = true := by simp [FM.keepComment]
  simp only [nodeText, keepIf, hk, hl, hc]
  cases FM.keepName f tip <;> cases FM.keepLen f tip <;> cases FM.keepComment f <;>
    simp [lenPart, commentPart]

mutual
theorem format_is_strip (f : FM.Fmt) : ∀ t : RTree L, writeF showLen f t = writeF showLen .allFields (strip f t)
  | .node n l c [] => by rw [strip, writeF, writeF]; exact nodeText_strip showLen f true n l c
  | .node n l c (k :: ks) => by
    rw [strip, writeF, writeF, format_is_strip f k, format_rest f ks, nodeText_strip showLen f false n l c]
theorem format_rest (f : FM.Fmt) : ∀ ts : List (RTree L), writeRestF showLen f ts = writeRestF showLen .allFields (stripL f ts)
  | [] => by rw [stripL, writeRestF, writeRestF]
  | k :: ks => by rw [stripL, writeRestF, writeRestF, format_is_strip f k, format_rest f ks]
end

theorem joinComma_cons (x : List Char) (xs : List (List Char)) (hne : xs ≠ []) :
    joinComma (x :: xs) = x ++ ',' :: joinComma xs := by
  cases xs with
  | nil => exact absurd rfl hne
  | cons y r => rw [joinComma]

theorem joinComma_write (f : FM.Fmt) : ∀ (k : RTree L) (ks : List (RTree L)),
    joinComma (writeF showLen f k :: ks.map (writeF showLen f)) = writeF showLen f k ++ writeRestF showLen f ks
  | k, [] => by simp [joinComma, writeRestF]
  | k, k2 :: ks => by
    rw [List.map_cons, joinComma, joinComma_write f k2 ks, writeRestF]

theorem kids_ne (j : Nat) : ∀ (k : RTree L) (ks : List (RTree L)), kidIds j (k :: ks) ≠ [] := by
  intro k ks; simp [kidIds]

mutual
/-- on an arena that lays out `t` at slot `i`, the arena writer returns the rose-level text -/
theorem toNewickF_layout (f : FM.Fmt) (a : Array (PNode L)) :
    ∀ (t : RTree L) (fuel i : Nat) (par : Option Nat), Layout a i par t → sz t ≤ fuel →
      toNewickF showLen fuel f a i = some (writeF showLen f t)
  | .node n l c [], fuel, i, par, h, hf => by
    rw [Layout] at h
    obtain ⟨hi, hn, hl, hc, _, hch, _⟩ := h
    cases fuel with
    | zero => simp at hf
    | succ fuel =>
      rw [toNewickF, if_pos hi]
      simp only [hch, kidIds, hn, hl, hc, writeF]
  | .node n l c (k :: ks), fuel, i, par, h, hf => by
    rw [Layout] at h
    obtain ⟨hi, hn, hl, hc, _, hch, hL⟩ := h
    cases fuel with
    | zero => simp at hf
    | succ fuel =>
      rw [toNewickF, if_pos hi]
      have hkids := toNewickL_layout f a (k :: ks) fuel (i + 1) i hL (by simp at hf; simp; omega)
      simp only [hch, kidIds] at hkids ⊢
      simp only [hkids, hn, hl, hc, writeF]
      rw [List.map_cons, joinComma_write]
      simp
theorem toNewickL_layout (f : FM.Fmt) (a : Array (PNode L)) :
    ∀ (ks : List (RTree L)) (fuel j p : Nat), LayoutL a j p ks → szL ks ≤ fuel →
      (kidIds j ks).mapM (fun c => toNewickF showLen fuel f a c) = some (ks.map (writeF showLen f))
  | [], fuel, j, p, _, _ => by simp [kidIds]
  | k :: ks, fuel, j, p, h, hf => by
    rw [LayoutL] at h
    obtain ⟨hk, hrest⟩ := h
    simp only [szL_cons] at hf
    rw [kidIds, List.mapM_cons, toNewickF_layout f a k fuel j (some p) hk (by omega),
      toNewickL_layout f a ks fuel (j + sz k) p hrest (by omega)]
    simp
end

end NW
