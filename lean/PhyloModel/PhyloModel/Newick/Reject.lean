import PhyloModel.Newick.Basic
/-! The parser only ever finishes at a `;` that is read as a token: text without `;` is rejected. -/
namespace NW
variable {L : Type} (parseLen : Label → Option L)

theorem classify_semi {c : Char} (h : classify c = .semi) : c = ';' := by
  unfold classify at h
  repeat' (split at h)
  all_goals first | (cases h; done) | assumption

theorem commit_not_done (s : St L) (a : Array (PNode L)) : commit parseLen s ≠ .done a := by
  unfold commit
  intro h
  repeat' (first | (cases h; done) | split at h)

theorem stepField_not_done (s : St L) (c : Char) (a : Array (PNode L)) : stepField s c ≠ .done a := by
  unfold stepField
  intro h
  repeat' (first | (cases h; done) | split at h)

theorem step_done_semi (s : St L) (c : Char) (a : Array (PNode L)) (h : step parseLen s c = .done a) : c = ';' := by
  unfold step at h
  split at h
  · cases h
  split at h
  · cases h
  split at h
  · cases h
  split at h
  · split at h
    · cases h
    · exact absurd h (stepField_not_done s c a)
  · cases h
  · cases h
  · cases h
  · repeat' (first | (cases h; done) | split at h)
  · split at h
    · cases h
    · split at h
      · cases h
      · exact absurd h (commit_not_done parseLen s a)
  · split at h
    · cases h
    · split at h
      · repeat' (first | (cases h; done) | split at h)
      · exact absurd h (commit_not_done parseLen s a)
  · next hcl => exact classify_semi hcl
  · exact absurd h (stepField_not_done s c a)

theorem run_done_semi : ∀ (cs : List Char) (s : St L) (a : Array (PNode L)), run parseLen s cs = .done a → ';' ∈ cs
  | [], s, a, h => by simp [run] at h
  | c :: cs, s, a, h => by
    rw [run] at h
    cases hs : step parseLen s c with
    | cont s' => rw [hs] at h; simp only at h; exact List.mem_cons_of_mem _ (run_done_semi cs s' a h)
    | done a' => rw [step_done_semi parseLen s c a' hs]; simp
    | err e => rw [hs] at h; cases h
    | panic => rw [hs] at h; cases h

/-- text with no semicolon at all is never accepted -/
theorem reject_unterminated (cs : List Char) (h : ';' ∉ cs) (a : Array (PNode L)) : parse parseLen cs ≠ .done a := by
  intro hp
  unfold parse at hp
  cases hr : run parseLen {} cs with
  | cont s' => rw [hr] at hp; cases hp
  | done a' => exact h (run_done_semi parseLen cs {} a' hr)
  | err e => rw [hr] at hp; cases hp
  | panic => rw [hr] at hp; cases hp

end NW
