import PhyloModel.Newick.WF3
/-! Scratch prototype: for quote-free input every stored name is a non-empty run of plain characters and every
    stored comment is non-empty and `]`-free — the hypothesis C01 needs, hence C02's normal-form clause -/
namespace NW
variable {L : Type} (parseLen : Label → Option L)

def PlainName (o : Option Label) : Prop := ∀ nm, o = some nm → nm ≠ [] ∧ ∀ c ∈ nm, plain c = true
def CommentOK (o : Option Label) : Prop := ∀ cm, o = some cm → cm ≠ [] ∧ ∀ c ∈ cm, c ≠ ']'

theorem plainName_none : PlainName none := by intro nm h; cases h
theorem commentOK_none : CommentOK none := by intro nm h; cases h

theorem plainName_push (o : Option Label) (c : Char) (h : PlainName o) (hc : plain c = true) :
    PlainName (pushc o c) := by
  intro nm hnm
  simp only [pushc, Option.some.injEq] at hnm
  subst hnm
  refine ⟨by simp, ?_⟩
  intro d hd
  simp only [List.mem_append, List.mem_singleton] at hd
  rcases hd with hd | rfl
  · cases o with
    | none => simp at hd
    | some nm0 => exact (h nm0 rfl).2 d (by simpa using hd)
  · exact hc

theorem commentOK_push (o : Option Label) (c : Char) (h : CommentOK o) (hc : c ≠ ']') :
    CommentOK (pushc o c) := by
  intro nm hnm
  simp only [pushc, Option.some.injEq] at hnm
  subst hnm
  refine ⟨by simp, ?_⟩
  intro d hd
  simp only [List.mem_append, List.mem_singleton] at hd
  rcases hd with hd | rfl
  · cases o with
    | none => simp at hd
    | some nm0 => exact (h nm0 rfl).2 d (by simpa using hd)
  · exact hc

/-- all stored labels are fine -/
def ArenaOK (a : Array (PNode L)) : Prop := ∀ i, PlainName (nd a i).name ∧ CommentOK (nd a i).comment

structure NI (s : St L) : Prop where
  q : s.quotes = false
  nm : PlainName s.curName
  cm : CommentOK s.curComment
  ar : ArenaOK s.nodes

theorem arenaOK_empty : ArenaOK (#[] : Array (PNode L)) := by
  intro i; simp [nd, dflt, plainName_none, commentOK_none]

theorem arenaOK_push_dflt (a : Array (PNode L)) (h : ArenaOK a) : ArenaOK (a.push {}) := by
  intro i; rw [nd_push]; split
  · exact ⟨plainName_none, commentOK_none⟩
  · exact h i

theorem arenaOK_addChild (a : Array (PNode L)) (p : Nat) (hp : p < a.size) (h : ArenaOK a) :
    ArenaOK (addChild a p) := by
  intro i
  rw [nd_addChild a p hp]
  split
  · exact ⟨plainName_none, commentOK_none⟩
  · split
    · exact h p
    · exact h i

theorem arenaOK_setFields (a : Array (PNode L)) (j : Nat) (n : Option Label) (l : Option L) (c : Option Label)
    (h : ArenaOK a) (hn : PlainName n) (hc : CommentOK c) : ArenaOK (setFields a j n l c) := by
  intro i
  simp only [setFields, nd_modify]
  split
  · refine ⟨?_, hc⟩
    cases n with
    | none => simpa [orKeep] using (h i).1
    | some nm => simpa [orKeep] using hn
  · exact h i

theorem commit_NI (s s' : St L) (hj : J s) (hne : s.stack ≠ []) (hn : NI s) (h : commit parseLen s = .cont s') :
    NI s' := by
  unfold commit at h
  cases hci : s.curIdx with
  | some i =>
    have hi := hj.cur i hci
    simp only [hci, hi, ↓reduceIte] at h
    cases hpe : parseEdge parseLen s.curLen with
    | none => simp [hpe] at h
    | some edge =>
      simp only [hpe, Res.cont.injEq] at h
      subst h
      exact ⟨hn.q, plainName_none, commentOK_none, arenaOK_setFields _ _ _ _ _ hn.ar hn.nm hn.cm⟩
  | none =>
    cases hst : s.stack with
    | nil => exact absurd hst hne
    | cons p ps =>
      have hp := hj.stack p (by simp [hst])
      simp only [hci, hst, hp, ↓reduceIte] at h
      cases hpe : parseEdge parseLen s.curLen with
      | none => simp [hpe] at h
      | some edge =>
        simp only [hpe, Res.cont.injEq] at h
        subst h
        exact ⟨hn.q, plainName_none, commentOK_none,
          arenaOK_setFields _ _ _ _ _ (arenaOK_addChild _ _ hp hn.ar) hn.nm hn.cm⟩

theorem step_NI (s s' : St L) (c : Char) (hcq : c ≠ '"') (hj : J s) (hn : NI s)
    (h : step parseLen s c = .cont s') : NI s' := by
  unfold step at h
  have hq := hn.q
  split at h
  next hg => simp [hq] at hg
  split at h
  next hg =>
    cases h
    have hc : c ≠ ']' := by
      simp only [Bool.and_eq_true, bne_iff_ne, ne_eq] at hg; exact hg.2
    exact ⟨hq, hn.nm, commentOK_push _ _ hn.cm hc, hn.ar⟩
  next hcm =>
  split at h
  · cases h; exact hn
  next hws =>
  split at h
  next hcl =>
    exfalso
    have : classify c ≠ .quote := by
      simp only [classify, hcq, ↓reduceIte]
      repeat' split
      all_goals simp
    exact this hcl
  · cases h; exact ⟨hq, hn.nm, hn.cm, hn.ar⟩
  · cases h; exact ⟨hq, hn.nm, hn.cm, hn.ar⟩
  · cases h; exact ⟨hq, hn.nm, hn.cm, hn.ar⟩
  · -- lpar
    split at h
    · split at h
      · cases h; exact ⟨hq, hn.nm, hn.cm, arenaOK_push_dflt _ hn.ar⟩
      · cases h
    next p ps hst =>
      split at h
      next hp => cases h; exact ⟨hq, hn.nm, hn.cm, arenaOK_addChild _ _ hp hn.ar⟩
      · cases h
  · -- comma
    split at h
    · cases h
    next hne =>
      cases hc : commit parseLen s with
      | cont s1 =>
        simp only [hc, Res.cont.injEq] at h; subst h
        have := commit_NI parseLen s s1 hj hne hn hc
        exact ⟨this.q, this.nm, this.cm, this.ar⟩
      | done a => simp [hc] at h
      | err e => simp [hc] at h
      | panic => simp [hc] at h
  · -- rpar
    split at h
    · cases h
    next hne =>
      cases hc : commit parseLen s with
      | cont s1 =>
        simp only [hc] at h
        have := commit_NI parseLen s s1 hj hne hn hc
        split at h
        · cases h; exact ⟨this.q, this.nm, this.cm, this.ar⟩
        · cases h
      | done a => simp [hc] at h
      | err e => simp [hc] at h
      | panic => simp [hc] at h
  · repeat' (first | cases h | split at h)
  next hcl =>
    -- ordinary character: plain (classified `other`, not whitespace)
    have hws' : isWs c = false := by
      cases hw : isWs c with
      | false => rfl
      | true => exact absurd (by simp [hw, hq]) hws
    have hpl : plain c = true := by simp [plain, hcl, hws']
    unfold stepField at h
    split at h
    · cases h; exact ⟨hq, plainName_push _ _ hn.nm hpl, hn.cm, hn.ar⟩
    · split at h
      · cases h
      · cases h; exact ⟨hq, hn.nm, hn.cm, hn.ar⟩
    · cases h

end NW
