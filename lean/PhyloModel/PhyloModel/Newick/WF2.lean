import PhyloModel.Newick.WF
namespace NW
variable {L : Type} (parseLen : Label → Option L)

theorem struct_setFields (a : Array (PNode L)) (i : Nat) n l c (h : Struct a) : Struct (setFields a i n l c) := by
  unfold setFields
  exact struct_modify_fields a i _ (fun x => ⟨rfl, rfl, rfl⟩) h

theorem commit_J (s s' : St L) (hj : J s) (hne : s.stack ≠ []) (h : commit parseLen s = .cont s') :
    Struct s'.nodes ∧ s.nodes.size ≤ s'.nodes.size ∧ s'.stack = s.stack ∧ s'.opens = s.opens ∧
    (∃ i, s'.curIdx = some i ∧ i < s'.nodes.size) := by
  unfold commit at h
  cases hci : s.curIdx with
  | some i =>
    have hi := hj.cur i hci
    simp only [hci, hi, ↓reduceIte] at h
    cases hpe : parseEdge parseLen s.curLen with
    | none => simp [hpe] at h
    | some edge =>
      simp only [hpe, Res.cont.injEq] at h
      subst h
      exact ⟨struct_setFields _ _ _ _ _ hj.st, by simp, rfl, rfl, i, rfl, by simpa using hi⟩
  | none =>
    cases hst : s.stack with
    | nil => exact absurd hst hne
    | cons p ps =>
      have hp := hj.stack p (by simp [hst])
      simp only [hci, hst, hp, ↓reduceIte] at h
      cases hpe : parseEdge parseLen s.curLen with
      | none => simp [hpe] at h
      | some edge =>
        simp only [hpe, Res.cont.injEq] at h
        subst h
        exact ⟨struct_setFields _ _ _ _ _ (struct_addChild _ _ hp hj.st), by simp, by simp [hst], rfl,
          s.nodes.size, rfl, by simp⟩

theorem stepField_J (s s' : St L) (c : Char) (hj : J s) (h : stepField s c = .cont s') : J s' := by
  unfold stepField at h
  split at h
  · cases h; exact ⟨hj.st, hj.stack, hj.cur, hj.top⟩
  · split at h
    · cases h
    · cases h; exact ⟨hj.st, hj.stack, hj.cur, hj.top⟩
  · cases h

theorem step_J (s s' : St L) (c : Char) (hj : J s) (h : step parseLen s c = .cont s') : J s' := by
  unfold step at h
  split at h
  · cases h; exact ⟨hj.st, hj.stack, hj.cur, hj.top⟩
  split at h
  · cases h; exact ⟨hj.st, hj.stack, hj.cur, hj.top⟩
  split at h
  · cases h; exact hj
  split at h
  · -- quote
    split at h
    · cases h; exact ⟨hj.st, hj.stack, hj.cur, hj.top⟩
    · exact stepField_J s s' c hj h
  · cases h; exact ⟨hj.st, hj.stack, hj.cur, hj.top⟩   -- lbr
  · cases h; exact ⟨hj.st, hj.stack, hj.cur, hj.top⟩   -- rbr
  · cases h; exact ⟨hj.st, hj.stack, hj.cur, hj.top⟩   -- colon
  · -- lpar
    split at h
    next hst =>
      split at h
      next hsz =>
        cases h
        have hempty : s.nodes = #[] := Array.eq_empty_of_size_eq_zero hsz
        refine ⟨?_, ?_, ?_, ?_⟩
        · simp only [hempty]; exact struct_push_root
        · intro p hp; simp at hp; subst hp; simp
        · intro i hi; have := hj.cur i hi; omega
        · intro h0; simp at h0
      · cases h
    next p ps hst =>
      split at h
      next hp =>
        cases h
        refine ⟨struct_addChild _ _ hp hj.st, ?_, ?_, ?_⟩
        · intro q hq
          simp only [List.mem_cons] at hq
          rcases hq with rfl | hq
          · simp
          · have := hj.stack q hq; simp; omega
        · intro i hi; have := hj.cur i hi; simp; omega
        · intro h0; simp at h0
      · cases h
  · -- comma
    split at h
    · cases h
    next hne =>
      cases hc : commit parseLen s with
      | cont s1 =>
        simp only [hc, Res.cont.injEq] at h
        subst h
        obtain ⟨h1, h2, h3, _, _⟩ := commit_J parseLen s s1 hj hne hc
        refine ⟨h1, ?_, ?_, ?_⟩
        · intro p hp; simp only [h3] at hp; have := hj.stack p hp; show p < s1.nodes.size; omega
        · intro i hi; simp at hi
        · intro h0; simp only [h3] at h0; exact absurd h0 hne
      | done a => simp [hc] at h
      | err e => simp [hc] at h
      | panic => simp [hc] at h
  · -- rpar
    split at h
    · cases h
    next hne =>
      cases hc : commit parseLen s with
      | cont s1 =>
        simp only [hc] at h
        obtain ⟨h1, h2, h3, _, _⟩ := commit_J parseLen s s1 hj hne hc
        split at h
        next p ps hst =>
          cases h
          refine ⟨h1, ?_, ?_, ?_⟩
          · intro q hq
            have : q ∈ s.stack := by rw [← h3, hst]; simp [hq]
            have := hj.stack q this; simp; omega
          · intro i hi
            simp at hi; subst hi
            have : p ∈ s.stack := by rw [← h3, hst]; simp
            have := hj.stack p this; simp; omega
          · intro _; right; simp
        · cases h
      | done a => simp [hc] at h
      | err e => simp [hc] at h
      | panic => simp [hc] at h
  · -- semi
    repeat' (first | cases h | split at h)
  · -- other
    exact stepField_J s s' c hj h

end NW
